(* Base/Json.v — the string encoder of Go's encoding/json (HTML escaping on, as
   json.Marshal uses it) and helpers to print objects the way Go prints structs. *)
From CV Require Import Base.Str Base.Utf8.
Local Open Scope N_scope.

Definition hexd (n : N) : ascii := if n <? 10 then vb (48 + n) else vb (87 + n).
Definition u00 (b : N) : str := B [92;117;48;48]%nat ++ [hexd (b / 16); hexd (b mod 16)].

Definition json_chunk (rb : N * str) : str :=
  let '(r, bs) := rb in
  match bs with
  | [c] =>
    let b := bv c in
    if b <? 128 then
      if (b =? 92) || (b =? 34) then [vb 92; c]
      else if b =? 8 then B [92;98]%nat
      else if b =? 12 then B [92;102]%nat
      else if b =? 10 then B [92;110]%nat
      else if b =? 13 then B [92;114]%nat
      else if b =? 9 then B [92;116]%nat
      else if (b <? 32) || (b =? 60) || (b =? 62) || (b =? 38) then u00 b
      else [c]
    else B [92;117;102;102;102;100]%nat
  | _ => if r =? 8232 then B [92;117;50;48;50;56]%nat
         else if r =? 8233 then B [92;117;50;48;50;57]%nat
         else bs
  end.

Definition dq : ascii := vb 34.
Definition json_string (s : str) : str := dq :: flat_map json_chunk (chunks s) ++ [dq].

(* "name":value members joined by commas inside braces; [None] = omitted (omitempty) *)
Definition member (name : str) (v : str) : str := json_string name ++ B [58]%nat ++ v.
Fixpoint somes {A} (l : list (option A)) : list A :=
  match l with [] => [] | Some x :: l' => x :: somes l' | None :: l' => somes l' end.
Definition json_object (ms : list (option str)) : str := B [123]%nat ++ join (B [44]%nat) (somes ms) ++ B [125]%nat.
Definition json_array (vs : list str) : str := B [91]%nat ++ join (B [44]%nat) vs ++ B [93]%nat.
Definition omitempty (name s : str) : option str :=
  match s with [] => None | _ => Some (member name (json_string s)) end.
