(* Base/SortPerm.v — facts about the insertion sort used by the models ([isort_by]):
   it permutes, it sorts, and two sorted permutations of a list on which the order is
   strict-total are equal (the key lemma of C10). *)
From Coq Require Import List Bool Arith Lia Permutation Sorted.
Import ListNotations.

Section Sort.
  Context {A : Type}.
  Variable ltb : A -> A -> bool.

  Fixpoint insert_by (x : A) (l : list A) : list A :=
    match l with
    | [] => [x]
    | y :: l' => if ltb x y then x :: l else y :: insert_by x l'
    end.
  Definition isort_by (l : list A) : list A := fold_left (fun acc x => insert_by x acc) l [].

  Lemma insert_perm x l : Permutation (insert_by x l) (x :: l).
  Proof.
    induction l as [|y l IH]; simpl; [reflexivity|].
    destruct (ltb x y); [reflexivity|].
    rewrite IH. apply perm_swap.
  Qed.

  Lemma fold_insert_perm l acc : Permutation (fold_left (fun a x => insert_by x a) l acc) (acc ++ l).
  Proof.
    revert acc; induction l as [|x l IH]; intro acc; simpl.
    - rewrite app_nil_r. reflexivity.
    - rewrite IH. rewrite insert_perm. simpl. apply Permutation_middle.
  Qed.

  Lemma isort_perm l : Permutation (isort_by l) l.
  Proof. unfold isort_by. rewrite fold_insert_perm. reflexivity. Qed.

  Lemma isort_In x l : In x (isort_by l) <-> In x l.
  Proof.
    split; intro H.
    - eapply Permutation_in; [apply isort_perm|exact H].
    - eapply Permutation_in; [apply Permutation_sym, isort_perm|exact H].
  Qed.

  Lemma isort_length l : length (isort_by l) = length l.
  Proof. apply Permutation_length, isort_perm. Qed.

  (* sortedness w.r.t. "not greater": le x y := ltb y x = false *)
  Definition le (x y : A) : Prop := ltb y x = false.

  Hypothesis ltb_trans : forall x y z, ltb x y = true -> ltb y z = true -> ltb x z = true.
  Hypothesis ltb_asym : forall x y, ltb x y = true -> ltb y x = false.
  (* negative transitivity: "not less" is transitive (holds for orders induced by a key) *)
  Hypothesis le_trans : forall x y z, le x y -> le y z -> le x z.

  Lemma insert_sorted x l : Sorted le l -> Sorted le (insert_by x l).
  Proof.
    induction l as [|y l IH]; intro H; simpl.
    - constructor; constructor.
    - destruct (ltb x y) eqn:E.
      + constructor; [exact H|]. constructor. unfold le. apply ltb_asym. exact E.
      + inversion H as [|? ? Hs Hhd]; subst. constructor; [apply IH; exact Hs|].
        destruct l as [|z l]; simpl.
        * constructor. exact E.
        * destruct (ltb x z); constructor; [exact E|]. inversion Hhd; subst. assumption.
  Qed.

  Lemma fold_insert_sorted l acc : Sorted le acc -> Sorted le (fold_left (fun a x => insert_by x a) l acc).
  Proof. revert acc; induction l as [|x l IH]; intros acc H; simpl; [exact H|]. apply IH, insert_sorted, H. Qed.

  Lemma isort_sorted l : Sorted le (isort_by l).
  Proof. apply fold_insert_sorted. constructor. Qed.

  (* uniqueness of the sorted arrangement when distinct elements are strictly comparable *)
  Lemma sorted_head_min x l : Sorted le (x :: l) -> forall y, In y l -> le x y.
  Proof.
    intros H. apply Sorted_StronglySorted in H.
    - inversion H as [|? ? _ Hall]; subst. intros y Hy. rewrite Forall_forall in Hall. apply Hall, Hy.
    - intros a b c. apply le_trans.
  Qed.

  Lemma sorted_perm_unique l1 l2 :
    (forall x y, In x l1 -> In y l1 -> x <> y -> ltb x y = true \/ ltb y x = true) ->
    NoDup l1 ->
    Permutation l1 l2 -> Sorted le l1 -> Sorted le l2 -> l1 = l2.
  Proof.
    revert l2; induction l1 as [|x l1 IH]; intros l2 Htot Hnd Hp H1 H2.
    - apply Permutation_nil in Hp. congruence.
    - destruct l2 as [|y l2]; [apply Permutation_sym, Permutation_nil in Hp; discriminate|].
      assert (Hxy : x = y).
      { destruct (Permutation_in _ Hp (or_introl eq_refl)) as [E|Hin]; [congruence|].
        assert (Hy : In y (x :: l1)) by (eapply Permutation_in; [apply Permutation_sym; exact Hp|left; reflexivity]).
        destruct Hy as [E|Hy]; [exact E|].
        (* x <= y (x is the head of l1, y in l1) and y <= x (y head of l2, x in l2) *)
        pose proof (sorted_head_min _ _ H1 y Hy) as L1.
        pose proof (sorted_head_min _ _ H2 x Hin) as L2.
        destruct (Htot x y (or_introl eq_refl) (or_intror Hy)) as [T|T].
        - intro E. subst. inversion Hnd; contradiction.
        - unfold le in L2. congruence.
        - unfold le in L1. congruence. }
      subst y. f_equal. apply IH.
      + intros a b Ha Hb. apply Htot; right; assumption.
      + inversion Hnd; assumption.
      + eapply Permutation_cons_inv. exact Hp.
      + inversion H1; assumption.
      + inversion H2; assumption.
  Qed.
End Sort.
