(* Base/Str.v — Go strings as byte lists, with the handful of `strings` functions
   the models use and their characterising lemmas.  Stdlib only. *)
From Coq Require Export List Ascii Bool Arith NArith Lia.
Export ListNotations.

Definition str := list ascii.

(* byte literals: [B [92;34]] is the two-byte string backslash, double quote *)
Definition B (l : list nat) : str := map ascii_of_nat l.
Definition byte (n : nat) : ascii := ascii_of_nat n.
Arguments B l%nat_scope.
Arguments byte n%nat_scope.

Definition beq (a b : ascii) : bool := Ascii.eqb a b.

Lemma beq_true a b : beq a b = true <-> a = b.
Proof. unfold beq. apply Ascii.eqb_eq. Qed.
Lemma beq_refl a : beq a a = true.
Proof. apply beq_true. reflexivity. Qed.
Lemma beq_false a b : beq a b = false <-> a <> b.
Proof. unfold beq. apply Ascii.eqb_neq. Qed.

Fixpoint str_eqb (a b : str) : bool :=
  match a, b with
  | [], [] => true
  | x :: a', y :: b' => beq x y && str_eqb a' b'
  | _, _ => false
  end.

Lemma str_eqb_true a b : str_eqb a b = true <-> a = b.
Proof.
  revert b; induction a as [|x a IH]; intros [|y b]; simpl; split; intro H;
    try reflexivity; try discriminate.
  - apply andb_true_iff in H as [H1 H2]. apply beq_true in H1. apply IH in H2. congruence.
  - inversion H; subst. rewrite beq_refl. simpl. apply IH. reflexivity.
Qed.
Lemma str_eqb_refl a : str_eqb a a = true.
Proof. apply str_eqb_true. reflexivity. Qed.
Lemma str_eqb_false a b : str_eqb a b = false <-> a <> b.
Proof.
  split; intro H.
  - intro E. apply str_eqb_true in E. congruence.
  - destruct (str_eqb a b) eqn:E; [|reflexivity]. apply str_eqb_true in E. contradiction.
Qed.

Definition str_eq_dec (a b : str) : {a = b} + {a <> b}.
Proof. apply list_eq_dec. apply ascii_dec. Defined.

(* membership of a byte in a byte set *)
Fixpoint mem (c : ascii) (s : str) : bool :=
  match s with [] => false | d :: s' => beq c d || mem c s' end.

Lemma mem_In c s : mem c s = true <-> In c s.
Proof.
  induction s as [|d s IH]; simpl; [split; [discriminate|tauto]|].
  rewrite orb_true_iff, beq_true, IH. split; intros [H|H]; auto.
Qed.
Lemma mem_false c s : mem c s = false <-> ~ In c s.
Proof.
  rewrite <- mem_In. destruct (mem c s); split; intro H.
  - discriminate.
  - exfalso; apply H; reflexivity.
  - intro; discriminate.
  - reflexivity.
Qed.

(* strings.ContainsAny *)
Definition contains_any (s chars : str) : bool := existsb (fun c => mem c chars) s.

Lemma contains_any_false s chars :
  contains_any s chars = false <-> (forall c, In c s -> ~ In c chars).
Proof.
  unfold contains_any. induction s as [|d s IH]; simpl.
  - split; [intros _ c []|reflexivity].
  - rewrite orb_false_iff, IH, mem_false. split.
    + intros [H1 H2] c [->|Hc]; auto.
    + intro H; split; [apply H; auto|intros c Hc; apply H; auto].
Qed.
Lemma contains_any_true s chars :
  contains_any s chars = true <-> (exists c, In c s /\ In c chars).
Proof.
  unfold contains_any. rewrite existsb_exists. split; intros [c [H1 H2]]; exists c; split; auto;
    apply mem_In; assumption.
Qed.

(* strings.HasPrefix / HasSuffix / TrimPrefix / TrimSuffix *)
Fixpoint has_prefix (s p : str) {struct p} : bool :=
  match p, s with
  | [], _ => true
  | c :: p', d :: s' => beq c d && has_prefix s' p'
  | _ :: _, [] => false
  end.

Lemma has_prefix_spec s p : has_prefix s p = true <-> exists r, s = p ++ r.
Proof.
  revert s; induction p as [|c p IH]; intros s; simpl.
  - split; [intros _; exists s; reflexivity|reflexivity].
  - destruct s as [|d s]; [split; [discriminate|intros [r H]; discriminate]|].
    rewrite andb_true_iff, beq_true, IH. split.
    + intros [-> [r ->]]. exists r. reflexivity.
    + intros [r H]. inversion H; subst. split; [reflexivity|exists r; reflexivity].
Qed.

Lemma has_prefix_app p r : has_prefix (p ++ r) p = true.
Proof. apply has_prefix_spec. exists r. reflexivity. Qed.
Lemma has_prefix_nil s : has_prefix s [] = true.
Proof. destruct s; reflexivity. Qed.
Lemma has_prefix_refl s : has_prefix s s = true.
Proof. apply has_prefix_spec. exists []. rewrite app_nil_r. reflexivity. Qed.

Lemma has_prefix_trans a b c :
  has_prefix a b = true -> has_prefix b c = true -> has_prefix a c = true.
Proof.
  rewrite !has_prefix_spec. intros [r1 ->] [r2 ->]. exists (r2 ++ r1). rewrite app_assoc. reflexivity.
Qed.

Fixpoint drop (n : nat) (s : str) : str :=
  match n, s with 0, _ => s | S n', _ :: s' => drop n' s' | S _, [] => [] end.
Fixpoint take (n : nat) (s : str) : str :=
  match n, s with 0, _ => [] | S n', c :: s' => c :: take n' s' | S _, [] => [] end.

Lemma take_drop n s : take n s ++ drop n s = s.
Proof. revert s; induction n as [|n IH]; intros [|c s]; simpl; try reflexivity. rewrite IH. reflexivity. Qed.
Lemma drop_app p r : drop (length p) (p ++ r) = r.
Proof. induction p; simpl; auto. Qed.
Lemma take_app p r : take (length p) (p ++ r) = p.
Proof. induction p; simpl; auto. f_equal. assumption. Qed.
Lemma take_length n s : length (take n s) = Nat.min n (length s).
Proof. revert s; induction n as [|n IH]; intros [|c s]; simpl; auto. Qed.
Lemma drop_length n s : length (drop n s) = length s - n.
Proof. revert s; induction n as [|n IH]; intros [|c s]; simpl; auto. Qed.

Definition trim_prefix (s p : str) : str :=
  if has_prefix s p then drop (length p) s else s.
Lemma trim_prefix_app p r : trim_prefix (p ++ r) p = r.
Proof. unfold trim_prefix. rewrite has_prefix_app. apply drop_app. Qed.

Definition has_suffix (s p : str) : bool := has_prefix (rev s) (rev p).
Lemma has_suffix_spec s p : has_suffix s p = true <-> exists r, s = r ++ p.
Proof.
  unfold has_suffix. rewrite has_prefix_spec. split; intros [r H].
  - exists (rev r). apply (f_equal (@rev ascii)) in H. rewrite rev_involutive, rev_app_distr, rev_involutive in H. exact H.
  - exists (rev r). rewrite H, rev_app_distr. reflexivity.
Qed.
Definition trim_suffix (s p : str) : str :=
  if has_suffix s p then take (length s - length p) s else s.
Lemma trim_suffix_app r p : trim_suffix (r ++ p) p = r.
Proof.
  unfold trim_suffix.
  assert (H: has_suffix (r ++ p) p = true) by (apply has_suffix_spec; exists r; reflexivity).
  rewrite H, app_length. replace (length r + length p - length p) with (length r) by lia.
  apply take_app.
Qed.

Definition last_byte (s : str) : option ascii :=
  match rev s with [] => None | c :: _ => Some c end.
Lemma last_byte_app s c : last_byte (s ++ [c]) = Some c.
Proof. unfold last_byte. rewrite rev_app_distr. reflexivity. Qed.
Lemma last_byte_nil : last_byte [] = None.
Proof. reflexivity. Qed.
Lemma last_byte_cons_app a s c : last_byte (a ++ s ++ [c]) = Some c.
Proof. rewrite app_assoc. apply last_byte_app. Qed.

Lemma has_suffix_single s c : has_suffix s [c] = true <-> last_byte s = Some c.
Proof.
  rewrite has_suffix_spec. split.
  - intros [r ->]. apply last_byte_app.
  - unfold last_byte. intro H. destruct (rev s) as [|d t] eqn:E; [discriminate|].
    inversion H; subst. exists (rev t).
    apply (f_equal (@rev ascii)) in E. rewrite rev_involutive in E. simpl in E. exact E.
Qed.

(* strings.Contains (substring) *)
Fixpoint contains (s sub : str) : bool :=
  has_prefix s sub || match s with [] => false | _ :: s' => contains s' sub end.

Lemma contains_spec s sub : contains s sub = true <-> exists a b, s = a ++ sub ++ b.
Proof.
  induction s as [|c s IH].
  - simpl. rewrite orb_false_r, has_prefix_spec. split.
    + intros [r H]. exists [], r. exact H.
    + intros [a [b H]]. destruct a; [exists b; exact H|discriminate].
  - cbn [contains]. rewrite orb_true_iff, has_prefix_spec, IH. split.
    + intros [[r H]|[a [b H]]]; [exists [], r; exact H|exists (c :: a), b; rewrite H; reflexivity].
    + intros [[|x a] [b H]]; [left; exists b; exact H|right].
      inversion H; subst. exists a, b. reflexivity.
Qed.

(* a strings.NewReplacer whose keys are all single bytes: first pair whose key matches *)
Definition table := list (ascii * str).
Fixpoint rep1 (t : table) (c : ascii) : str :=
  match t with
  | [] => [c]
  | (k, v) :: t' => if beq c k then v else rep1 t' c
  end.
Definition replace1 (t : table) (s : str) : str := flat_map (rep1 t) s.

Lemma replace1_app t a b : replace1 t (a ++ b) = replace1 t a ++ replace1 t b.
Proof. unfold replace1. apply flat_map_app. Qed.
Lemma replace1_cons t c s : replace1 t (c :: s) = rep1 t c ++ replace1 t s.
Proof. reflexivity. Qed.

Fixpoint keys (t : table) : str := match t with [] => [] | (k, _) :: t' => k :: keys t' end.
Lemma rep1_notkey t c : ~ In c (keys t) -> rep1 t c = [c].
Proof.
  induction t as [|[k v] t IH]; simpl; [reflexivity|]. intro H.
  destruct (beq c k) eqn:E; [apply beq_true in E; subst; exfalso; apply H; auto|].
  apply IH. intro; apply H; auto.
Qed.
Lemma replace1_id t s : (forall c, In c s -> ~ In c (keys t)) -> replace1 t s = s.
Proof.
  induction s as [|c s IH]; intro H; [reflexivity|].
  rewrite replace1_cons, rep1_notkey by (apply H; left; reflexivity).
  simpl. f_equal. apply IH. intros d Hd. apply H. right. assumption.
Qed.

(* deleting table: every replacement is empty *)
Definition drops (t : table) : bool := forallb (fun kv => match snd kv with [] => true | _ => false end) t.
Lemma rep1_drops t c : drops t = true -> rep1 t c = if mem c (keys t) then [] else [c].
Proof.
  induction t as [|[k v] t IH]; simpl; [reflexivity|]. intro H.
  apply andb_true_iff in H as [H1 H2]. destruct v; [|discriminate].
  destruct (beq c k); simpl; [reflexivity|]. apply IH. assumption.
Qed.
Lemma replace1_drops t s : drops t = true ->
  replace1 t s = filter (fun c => negb (mem c (keys t))) s.
Proof.
  intro H. induction s as [|c s IH]; [reflexivity|].
  rewrite replace1_cons, rep1_drops by assumption. simpl.
  destruct (mem c (keys t)); simpl; rewrite IH; reflexivity.
Qed.
Lemma replace1_drops_notin t s c : drops t = true -> In c (keys t) -> ~ In c (replace1 t s).
Proof.
  intros H Hc. rewrite replace1_drops by assumption. rewrite filter_In.
  intros [_ H2]. apply mem_In in Hc. rewrite Hc in H2. discriminate.
Qed.

(* all 256 bytes *)
Definition all_bytes : str := map ascii_of_nat (seq 0 256).
Lemma in_all_bytes c : In c all_bytes.
Proof.
  unfold all_bytes. apply in_map_iff. exists (nat_of_ascii c). split.
  - apply ascii_nat_embedding.
  - apply in_seq. pose proof (nat_ascii_bounded c). lia.
Qed.
Lemma forall_bytes (P : ascii -> bool) : forallb P all_bytes = true -> forall c, P c = true.
Proof. intros H c. rewrite forallb_forall in H. apply H. apply in_all_bytes. Qed.

(* join / concat *)
Fixpoint join (sep : str) (l : list str) : str :=
  match l with
  | [] => []
  | [x] => x
  | x :: l' => x ++ sep ++ join sep l'
  end.

(* split on a single byte (strings.Split with a 1-byte separator): always >= 1 field *)
Fixpoint split1 (sep : ascii) (s : str) : list str :=
  match s with
  | [] => [[]]
  | c :: s' =>
      if beq c sep then [] :: split1 sep s'
      else match split1 sep s' with
           | [] => [[c]]  (* unreachable *)
           | f :: fs => (c :: f) :: fs
           end
  end.

Lemma split1_nonempty sep s : split1 sep s <> [].
Proof.
  induction s as [|c s IH]; simpl; [discriminate|].
  destruct (beq c sep); [discriminate|]. destruct (split1 sep s); discriminate.
Qed.

Lemma split1_join sep l :
  l <> [] -> (forall f, In f l -> ~ In sep f) -> split1 sep (join [sep] l) = l.
Proof.
  induction l as [|x l IH]; [congruence|]. intros _ H.
  assert (Hx : ~ In sep x) by (apply H; left; reflexivity).
  destruct l as [|y l].
  - simpl. clear IH H. induction x as [|c x IHx]; [reflexivity|]. simpl.
    destruct (beq c sep) eqn:E; [apply beq_true in E; subst; exfalso; apply Hx; left; reflexivity|].
    rewrite IHx by (intro; apply Hx; right; assumption). reflexivity.
  - assert (IH' : split1 sep (join [sep] (y :: l)) = y :: l).
    { apply IH; [discriminate|]. intros f Hf. apply H. right. assumption. }
    change (join [sep] (x :: y :: l)) with (x ++ [sep] ++ join [sep] (y :: l)).
    clear IH H. induction x as [|c x IHx].
    + cbn [app]. cbn [split1]. rewrite beq_refl. rewrite IH'. reflexivity.
    + cbn [app]. cbn [split1].
      destruct (beq c sep) eqn:E; [apply beq_true in E; subst; exfalso; apply Hx; left; reflexivity|].
      cbn [app] in IHx. rewrite IHx by (intro; apply Hx; right; assumption). reflexivity.
Qed.

Lemma join_no_sep sep l c :
  ~ In c sep -> (forall f, In f l -> ~ In c f) -> ~ In c (join sep l).
Proof.
  intros Hs. induction l as [|x l IH]; intro H; [intros []|].
  destruct l as [|y l]; [apply H; left; reflexivity|].
  change (join sep (x :: y :: l)) with (x ++ sep ++ join sep (y :: l)).
  rewrite !in_app_iff. intros [Hx|[Hx|Hx]].
  - apply (H x); [left; reflexivity|assumption].
  - contradiction.
  - revert Hx. apply IH. intros f Hf. apply H. right. assumption.
Qed.

(* decimal rendering of naturals, used by the runners and by ERRn values *)
Definition digit (n : nat) : ascii := ascii_of_nat (48 + n).
Fixpoint dec_fuel (fuel n : nat) (acc : str) : str :=
  match fuel with
  | 0 => acc
  | S f => let acc' := digit (n mod 10) :: acc in
           if n / 10 =? 0 then acc' else dec_fuel f (n / 10) acc'
  end.
Definition dec (n : nat) : str := dec_fuel (S n) n [].

Fixpoint undec_acc (s : str) (acc : nat) : option nat :=
  match s with
  | [] => Some acc
  | c :: s' => let d := nat_of_ascii c in
               if (48 <=? d) && (d <=? 57) then undec_acc s' (acc * 10 + (d - 48)) else None
  end.
Definition undec (s : str) : option nat :=
  match s with [] => None | _ => undec_acc s 0 end.

Definition bool_str (b : bool) : str :=
  if b then B [116;114;117;101] else B [102;97;108;115;101].
