(* Base/Utf8.v — Go's view of a string as runes: `for _, r := range s`, `[]rune(s)`,
   `string(r)`, `strings.TrimSpace`.  Invalid bytes decode to U+FFFD, width 1. *)
From CV Require Import Base.Str.
Local Open Scope N_scope.

Definition bv (c : ascii) : N := N_of_ascii c.
Definition vb (n : N) : ascii := ascii_of_N n.
Definition RuneError : N := 65533.

Definition in_range (lo hi x : N) : bool := (lo <=? x) && (x <=? hi).
Definition is_cont (c : ascii) : bool := in_range 128 191 (bv c).

(* one step of utf8.DecodeRune: rune, its original bytes, the rest; None on "" *)
Definition decode1 (s : str) : option (N * str * str) :=
  match s with
  | [] => None
  | c0 :: r0 =>
    let b0 := bv c0 in
    let bad := Some (RuneError, [c0], r0) in
    if b0 <? 128 then Some (b0, [c0], r0)
    else if in_range 194 223 b0 then
      match r0 with
      | c1 :: r1 => if is_cont c1 then Some ((b0 - 192) * 64 + (bv c1 - 128), [c0; c1], r1) else bad
      | _ => bad
      end
    else if in_range 224 239 b0 then
      match r0 with
      | c1 :: c2 :: r2 =>
        let lo := if b0 =? 224 then 160 else 128 in
        let hi := if b0 =? 237 then 159 else 191 in
        if in_range lo hi (bv c1) && is_cont c2
        then Some ((b0 - 224) * 4096 + (bv c1 - 128) * 64 + (bv c2 - 128), [c0; c1; c2], r2)
        else bad
      | _ => bad
      end
    else if in_range 240 244 b0 then
      match r0 with
      | c1 :: c2 :: c3 :: r3 =>
        let lo := if b0 =? 240 then 144 else 128 in
        let hi := if b0 =? 244 then 143 else 191 in
        if in_range lo hi (bv c1) && is_cont c2 && is_cont c3
        then Some ((b0 - 240) * 262144 + (bv c1 - 128) * 4096 + (bv c2 - 128) * 64 + (bv c3 - 128),
                   [c0; c1; c2; c3], r3)
        else bad
      | _ => bad
      end
    else bad
  end.

(* the rest is always strictly shorter, so [length s] steps of fuel suffice *)
Fixpoint chunks_fuel (fuel : nat) (s : str) : list (N * str) :=
  match fuel with
  | O => []
  | S f => match decode1 s with
           | None => []
           | Some (r, bs, rest) => (r, bs) :: chunks_fuel f rest
           end
  end.
Definition chunks (s : str) : list (N * str) := chunks_fuel (length s) s.
Definition runes (s : str) : list N := map fst (chunks s).

(* string(r) *)
Definition encode_rune (r : N) : str :=
  if r <? 128 then [vb r]
  else if r <? 2048 then [vb (192 + r / 64); vb (128 + r mod 64)]
  else if in_range 55296 57343 r then [vb 239; vb 191; vb 189]
  else if r <? 65536 then [vb (224 + r / 4096); vb (128 + (r / 64) mod 64); vb (128 + r mod 64)]
  else if r <=? 1114111 then
    [vb (240 + r / 262144); vb (128 + (r / 4096) mod 64); vb (128 + (r / 64) mod 64); vb (128 + r mod 64)]
  else [vb 239; vb 191; vb 189].
Definition encode_runes (rs : list N) : str := flat_map encode_rune rs.

(* unicode.IsSpace *)
Definition is_space_rune (r : N) : bool :=
  in_range 9 13 r || (r =? 32) || (r =? 133) || (r =? 160) || (r =? 5760) ||
  in_range 8192 8202 r || (r =? 8232) || (r =? 8233) || (r =? 8239) || (r =? 8287) || (r =? 12288).

Fixpoint drop_space (l : list (N * str)) : list (N * str) :=
  match l with
  | (r, bs) :: l' => if is_space_rune r then drop_space l' else l
  | [] => []
  end.
Definition trim_space (s : str) : str :=
  flat_map snd (rev (drop_space (rev (drop_space (chunks s))))).

Lemma drop_space_head l r bs l' : drop_space l = (r, bs) :: l' -> is_space_rune r = false.
Proof.
  induction l as [|[r0 b0] l IH]; simpl; [discriminate|].
  destruct (is_space_rune r0) eqn:E; [exact IH|]. intro H. inversion H; subst. exact E.
Qed.

Fixpoint firstn_runes (n : nat) (l : list (N * str)) : list N :=
  match n, l with
  | O, _ => []
  | S n', (r, _) :: l' => r :: firstn_runes n' l'
  | S _, [] => []
  end.
