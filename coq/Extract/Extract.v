(* Extract/Extract.v — extraction of the executable models and specifications to OCaml.
   ExtrOcamlBasic only: ascii, nat, N, Z, positive stay the extracted inductives. *)
From CV Require Import Base.Str Model.ShellValue Spec.FmtOracle Run.Fields Run.RunMultiParts Run.RunAlgebra Run.RunImport Run.RunCache Run.RunCrash Run.RunHistory Run.RunTimeout Run.RunSplit Run.RunFiles Run.RunSlot Run.RunNames Run.RunBridge Run.RunTree.
Require Import ExtrOcamlBasic.

Definition n_value := B [118;97;108;117;101].                           (* value *)
Definition n_fmt_oracle := B [102;109;116;95;111;114;97;99;108;101].    (* fmt_oracle *)
Definition n_fdecode := B [102;100;101;99;111;100;101].                 (* fdecode *)

(* runner table: name -> function on field lists *)
Definition runners : list (str * (list str -> list str)) :=
  [ (n_value, run_value);
    (n_fmt_oracle, run_fmt_oracle);
    (n_fdecode, run_fdecode);
    (B [109;117;108;116;105;112;97;114;116;115], run_multiparts);                                      (* multiparts *)
    (B [109;117;108;116;105;112;97;114;116;115;95;111;114;97;99;108;101], run_multiparts_oracle);      (* multiparts_oracle *)
    (B [97;108;103;101;98;114;97], run_algebra);                                                       (* algebra *)
    (B [97;108;103;101;98;114;97;95;111;114;97;99;108;101], run_algebra_oracle);                       (* algebra_oracle *)
    (B [105;109;112;111;114;116], run_import);                                                          (* import *)
    (B [105;109;112;111;114;116;95;111;114;97;99;108;101], run_import_oracle);                         (* import_oracle *)
    (B [99;97;99;104;101], run_cache);                                                                  (* cache *)
    (B [99;114;97;115;104], run_crash);                                                                 (* crash *)
    (B [104;105;115;116;111;114;121], run_history);                                                     (* history *)
    (B [116;105;109;101;111;117;116], run_timeout);                                                     (* timeout *)
    (B [108;101;120], run_lex);                                                                         (* lex *)
    (B [115;112;108;105;116], run_split);                                                               (* split *)
    (B [112;97;116;104], run_path);                                                                     (* path *)
    (B [102;105;108;101;115], run_files);                                                               (* files *)
    (B [115;108;111;116], run_slot);                                                                    (* slot *)
    (B [110;97;109;101;115;95;111;114;97;99;108;101], run_names_oracle);                                (* names_oracle *)
    (B [98;114;105;100;103;101;95;111;114;97;99;108;101], run_bridge_oracle);                           (* bridge_oracle *)
    (B [116;114;101;101], run_tree);                                                                    (* tree *)
    (B [116;114;101;101;95;111;114;97;99;108;101], run_tree_oracle)                                     (* tree_oracle *)
  ].

Fixpoint lookup_runner (name : str) (t : list (str * (list str -> list str))) : option (list str -> list str) :=
  match t with
  | [] => None
  | (n, f) :: t' => if str_eqb name n then Some f else lookup_runner name t'
  end.

Definition dispatch (name : str) (c : list str) : list str :=
  match lookup_runner name runners with
  | Some f => f c
  | None => [B [85;78;75;78;79;87;78]]
  end.

Extraction "model.ml" dispatch.
