(* Extract/Extract.v — extraction of the executable models and specifications to OCaml.
   ExtrOcamlBasic only: ascii, nat, N, Z, positive stay the extracted inductives. *)
From CV Require Import Base.Str Model.ShellValue Spec.FmtOracle.
Require Import ExtrOcamlBasic.

Definition n_value := B [118;97;108;117;101].                           (* value *)
Definition n_fmt_oracle := B [102;109;116;95;111;114;97;99;108;101].    (* fmt_oracle *)
Definition n_fdecode := B [102;100;101;99;111;100;101].                 (* fdecode *)

Definition dispatch (name : str) (c : list str) : list str :=
  if str_eqb name n_value then run_value c
  else if str_eqb name n_fmt_oracle then run_fmt_oracle c
  else if str_eqb name n_fdecode then run_fdecode c
  else [B [85;78;75;78;79;87;78]].

Extraction "model.ml" dispatch.
