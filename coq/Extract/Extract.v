(* Extract/Extract.v — extraction of the executable models to OCaml.
   ExtrOcamlBasic only: ascii, nat, N, Z, positive stay the extracted inductives. *)
From CV Require Import Base.Str Model.ShellValue.
Require Import ExtrOcamlBasic.

Definition n_value := B [118;97;108;117;101].

Definition dispatch (name : str) (c : list str) : list str :=
  if str_eqb name n_value then run_value c
  else [B [85;78;75;78;79;87;78]].

Extraction "model.ml" dispatch.
