(* Model/Action.v — the Action algebra of action.go / defaultActions.go / invokedAction.go /
   batch.go as higher-order abstract syntax.

   Go:   type Action struct { meta; rawValues; callback func(Context) Action }
   here: AStatic meta values | ACallback meta (ctx -> action)

   [invoke] mirrors Action.Invoke (action.go:114-131): a static action is returned as it
   is; a callback action is run, its result invoked recursively, and the wrapper's own
   meta merged into the result.  Every constructor / modifier below is a transcription of
   the Go body, line by line.  This is the *pure* semantics: captured variables are not
   shared between invocations (the heap-level semantics is Model/ActionHeap.v, C08). *)
From Coq Require Import ZArith.
From CV Require Import Base.Str Base.Utf8 Model.Common Model.MultiParts.
Local Open Scope nat_scope.

Record ctx := mkCtx { cvalue : str; cargs : list str; cparts : list str; cenv : list str }.   (* Env: "key=value" entries *)
(* the Context handed down by ActionMultiParts: new value and parts, same args and environment *)
Definition with_vp (c : ctx) (v : str) (parts : list str) : ctx := mkCtx v (cargs c) parts (cenv c).

Inductive action :=
| AStatic (m : meta) (vs : list raw)
| ACallback (m : meta) (f : ctx -> action).

Definition invoked := (meta * list raw)%type.

(* ---------- Messages (a set, presented sorted) and Meta.Merge ---------- *)
Fixpoint msg_add (s : str) (l : list str) : list str :=
  match l with
  | [] => [s]
  | x :: l' => if str_eqb s x then l else if str_ltb s x then s :: l else x :: msg_add s l'
  end.
Definition msgs_merge (a b : list str) : list str := fold_left (fun acc s => msg_add s acc) b a.

Definition meta0 : meta := mkMeta [] [] [].
Definition is_empty (s : str) : bool := match s with [] => true | _ => false end.

(* m.Merge(other) *)
Definition meta_merge (m other : meta) : meta :=
  mkMeta (msgs_merge (messages m) (messages other))
         (sm_merge (nospace m) (nospace other))
         (if is_empty (usage other) then usage m else usage other).

Fixpoint invoke (a : action) (c : ctx) : invoked :=
  match a with
  | AStatic m vs => (m, vs)
  | ACallback m f => let '(m', vs) := invoke (f c) c in (meta_merge m' m, vs)
  end.

Definition to_a (i : invoked) : action := AStatic (fst i) (snd i).      (* InvokedAction.ToA *)
Definition own_meta (a : action) : meta := match a with AStatic m _ => m | ACallback m _ => m end.
Definition with_meta (a : action) (m : meta) : action :=
  match a with AStatic _ vs => AStatic m vs | ACallback _ f => ACallback m f end.
Definition callback (f : ctx -> action) : action := ACallback meta0 f.  (* ActionCallback *)

(* ---------- constructors (defaultActions.go:168-235) ---------- *)
Definition raw_of (v : str) : raw := mkRaw v v [] [] [] [] [].
Definition ActionValues (vs : list str) : action :=
  callback (fun _ => AStatic meta0 (map raw_of (filter (fun v => negb (is_empty v)) vs))).

Definition ActionMessage (msg : str) : action :=
  callback (fun _ => with_meta (ActionValues []) (mkMeta (msg_add msg []) [] [])).

Fixpoint pairs (vs : list str) : list raw :=
  match vs with
  | v :: d :: vs' => mkRaw v v d [] [] [] [] :: pairs vs'
  | _ => []
  end.
Fixpoint triples (vs : list str) : list raw :=
  match vs with
  | v :: d :: s :: vs' => mkRaw v v d s [] [] [] :: triples vs'
  | _ => []
  end.
Definition msg_invalid (name : str) (n : nat) : str :=
  B [105;110;118;97;108;105;100;32;97;109;111;117;110;116;32;111;102;32;97;114;103;117;109;101;110;116;115;32;91] ++ name
    ++ B [93;58;32] ++ dec n.                                  (* invalid amount of arguments [<name>]: <n> *)
Definition n_AVD : str := B [65;99;116;105;111;110;86;97;108;117;101;115;68;101;115;99;114;105;98;101;100].
Definition n_ASVD : str := B [65;99;116;105;111;110;83;116;121;108;101;100;86;97;108;117;101;115;68;101;115;99;114;105;98;101;100].
Definition ActionValuesDescribed (vs : list str) : action :=
  callback (fun _ => if Nat.eqb (length vs mod 2) 0 then AStatic meta0 (pairs vs)
                     else ActionMessage (msg_invalid n_AVD (length vs))).
Definition ActionStyledValuesDescribed (vs : list str) : action :=
  callback (fun _ => if Nat.eqb (length vs mod 3) 0 then AStatic meta0 (triples vs)
                     else ActionMessage (msg_invalid n_ASVD (length vs))).

(* ---------- RawValues / InvokedAction helpers ---------- *)
Definition in_strs (x : str) (l : list str) : bool := existsb (str_eqb x) l.
Definition rv_filter (vs : list str) (rs : list raw) : list raw := filter (fun r => negb (in_strs (value r) vs)) rs.
Definition rv_retain (vs : list str) (rs : list raw) : list raw := filter (fun r => in_strs (value r) vs) rs.
Definition rv_prefix (p : str) (rs : list raw) : list raw := map (fun r => set_value r (p ++ value r)) rs.
Definition rv_suffix (s : str) (rs : list raw) : list raw := map (fun r => set_value r (value r ++ s)) rs.
Definition set_style (r : raw) (s : str) : raw :=
  mkRaw (value r) (display r) (description r) s (tag r) (uid r) (rstyle r).

(* RawValues.Unique: map keyed by value (a later entry replaces), then sort by display.
   The order among equal displays is unspecified in Go; the model keeps insertion order. *)
Definition rv_unique (rs : list raw) : list raw :=
  sort_by_display (map snd (fold_left (fun m r => store (value r) r m) rs [])).

(* ---------- modifiers (action.go) ---------- *)
Definition Filter (vs : list str) (a : action) : action :=
  callback (fun c => let i := invoke a c in AStatic (fst i) (rv_filter vs (snd i))).
Definition Retain (vs : list str) (a : action) : action :=
  callback (fun c => let i := invoke a c in AStatic (fst i) (rv_retain vs (snd i))).
Definition FilterArgs (a : action) : action := callback (fun c => Filter (cargs c) a).
Definition FilterParts (a : action) : action := callback (fun c => Filter (cparts c) a).
Definition Suffix (s : str) (a : action) : action :=
  callback (fun c => let i := invoke a c in AStatic (fst i) (rv_suffix s (snd i))).

Definition set_cvalue (c : ctx) (v : str) : ctx := mkCtx v (cargs c) (cparts c) (cenv c).
Definition set_cargs (c : ctx) (l : list str) : ctx := mkCtx (cvalue c) l (cparts c) (cenv c).
Definition set_cparts (c : ctx) (l : list str) : ctx := mkCtx (cvalue c) (cargs c) l (cenv c).

(* match.TrimPrefix: s[len(prefix):] when HasPrefix *)
Definition match_trim_prefix (ci : bool) (s p : str) : str :=
  if match_has_prefix ci s p then drop (length p) s else s.

Definition Prefix (ci : bool) (p : str) (a : action) : action :=
  callback (fun c =>
    if match_has_prefix ci (cvalue c) p then
      let i := invoke a (set_cvalue c (match_trim_prefix ci (cvalue c) p)) in AStatic (fst i) (rv_prefix p (snd i))
    else if match_has_prefix ci p (cvalue c) then
      let i := invoke a (set_cvalue c []) in AStatic (fst i) (rv_prefix p (snd i))
    else ActionValues []).

Definition StyleF (f : str -> ctx -> str) (a : action) : action :=
  callback (fun c => let i := invoke a c in AStatic (fst i) (map (fun r => set_style r (f (value r) c)) (snd i))).
Definition Style (s : str) (a : action) : action := StyleF (fun _ _ => s) a.
Definition TagF (f : str -> str) (a : action) : action :=
  callback (fun c => let i := invoke a c in AStatic (fst i) (map (fun r => set_tag r (f (value r))) (snd i))).
Definition Tag (t : str) (a : action) : action := TagF (fun _ => t) a.

Definition set_usage (m : meta) (u : str) : meta := mkMeta (messages m) (nospace m) u.
Definition set_nospace (m : meta) (ns : str) : meta := mkMeta (messages m) ns (usage m).
Definition set_messages (m : meta) (ms : list str) : meta := mkMeta ms (nospace m) (usage m).

(* UsageF: if usage != "" { a.meta.Usage = usage }; return a *)
Definition Usage (u : str) (a : action) : action :=
  callback (fun _ => if is_empty u then a else with_meta a (set_usage (own_meta a) u)).

(* NoSpace: if len(suffixes) == 0 { Add('*') }; Add(suffixes...); return a *)
Definition NoSpace (suffixes : list N) (a : action) : action :=
  callback (fun _ =>
    let ns0 := nospace (own_meta a) in
    let ns1 := match suffixes with [] => sm_add ns0 [star] | _ => ns0 end in
    with_meta a (set_nospace (own_meta a) (sm_add ns1 suffixes))).

(* Suppress: delete every message matched by one of the expressions (match relation abstract) *)
Definition msgs_suppress (rmatch : str -> str -> bool) (pats : list str) (ms : list str) : list str :=
  filter (fun m => negb (existsb (fun p => rmatch p m) pats)) ms.
Definition Suppress (rmatch : str -> str -> bool) (pats : list str) (a : action) : action :=
  callback (fun c => let i := invoke a c in
                     AStatic (set_messages (fst i) (msgs_suppress rmatch pats (messages (fst i)))) (snd i)).

Definition Unless (cond : bool) (a : action) : action :=
  callback (fun _ => if cond then ActionValues [] else a).
Definition UnlessF (cond : ctx -> bool) (a : action) : action :=
  callback (fun c => if cond c then ActionValues [] else a).

Definition msg_shift (n : Z) : str :=
  B [105;110;118;97;108;105;100;32;97;114;103;117;109;101;110;116;32;91;65;99;116;105;111;110;83;104;105;102;116;93;58;32;45]
    ++ dec (Z.to_nat (- n)).                                   (* invalid argument [ActionShift]: -<n> *)
Definition Shift (n : Z) (a : action) : action :=
  callback (fun c =>
    if (n <? 0)%Z then ActionMessage (msg_shift n)
    else if length (cargs c) <? Z.to_nat n then to_a (invoke a (set_cargs c []))
    else to_a (invoke a (set_cargs c (skipn (Z.to_nat n) (cargs c))))).

(* a := Action{rawValues: vals}; a.meta.Merge(ia.action.meta); then the divider loop *)
Definition mp_meta (ds : list str) (m : meta) : meta :=
  let m' := meta_merge meta0 m in set_nospace m' (mp_nospace (nospace m') ds).
Definition MultiParts (ci : bool) (ds : list str) (a : action) : action :=
  callback (fun c =>
    let i := invoke a c in
    callback (fun c' =>
      match to_multiparts ci ds (snd i) (cvalue c') with
      | Some (vs, _) => AStatic (mp_meta ds (fst i)) vs
      | None => AStatic meta0 []          (* panic; excluded by the theorems' premises *)
      end)).

(* ---------- Context.Setenv / Getenv (context.go:56-81) ---------- *)
Fixpoint after_eq (s : str) : str :=
  match s with [] => [] | c :: s' => if beq c (byte 61) then s' else after_eq s' end.
(* LookupEnv: the LAST entry that starts with key= wins; its value is what follows the first '=' *)
Definition lookup_env (env : list str) (k : str) : str :=
  fold_left (fun acc e => if has_prefix e (k ++ B [61]) then after_eq e else acc) env [].
Definition set_env (c : ctx) (k v : str) : ctx := mkCtx (cvalue c) (cargs c) (cparts c) (cenv c ++ [k ++ B [61] ++ v]).
(* a callback that sets a variable in ITS Context and invokes a beneath it *)
Definition Setenv (k v : str) (a : action) : action := callback (fun c => to_a (invoke a (set_env c k v))).
Definition Getenv (k : str) : action := callback (fun c => ActionValues [B [69] ++ lookup_env (cenv c) k]).

(* ---------- strings.SplitN / Split / Join ---------- *)
Fixpoint split_f (fuel : nat) (limit : option nat) (s sep : str) : list str :=
  match fuel with
  | 0 => [s]
  | S f =>
    match limit with
    | Some 0 => [s]
    | _ => match index s sep with
           | None => [s]
           | Some i => take i s :: split_f f (option_map pred limit) (drop (i + length sep) s) sep
           end
    end
  end.
(* strings.SplitN(s, sep, n) for n <> 0; sep = "": explode into at most n UTF-8 sequences *)
Fixpoint explode_n (l : list (N * str)) (n : option nat) : list str :=
  match l with
  | [] => []
  | (_, b) :: l' =>
    match n with
    | Some 1 => [b ++ concat (map snd l')]
    | Some 0 => []
    | _ => b :: explode_n l' (option_map pred n)
    end
  end.
Definition split_n (s sep : str) (n : Z) : list str :=
  let limit := if (n <? 0)%Z then None else Some (Z.to_nat n) in
  match sep with
  | [] => explode_n (chunks s) limit
  | _ => split_f (length s) (option_map pred limit) s sep
  end.

Definition msg_n0 : str :=
  B [105;110;118;97;108;105;100;32;118;97;108;117;101;32;102;111;114;32;110;32;91;65;99;116;105;111;110;86;97;108;117;101;115;68;101;115;99;114;105;98;101;100;93;58;32;48].
  (* invalid value for n [ActionValuesDescribed]: 0 *)

(* ActionMultiPartsN (defaultActions.go:243-287) *)
Definition ActionMultiPartsN (sep : str) (n : Z) (cb : ctx -> action) : action :=
  callback (fun c =>
    if (n =? 0)%Z then ActionMessage msg_n0
    else if (n =? 1)%Z then to_a (invoke (cb c) c)
    else
      let splitted := split_n (cvalue c) sep n in
      let '(prefix, c') :=
        match sep with
        | [] =>
          if (n <? 0)%Z then (cvalue c, with_vp c [] splitted)
          else
            let k := Z.to_nat (n - 1) in
            if k <? length (cvalue c)
            then (take k (cvalue c), with_vp c (drop k (cvalue c)) (map snd (chunks (take k (cvalue c)))))
            else (cvalue c, with_vp c [] (map snd (chunks (cvalue c))))
        | _ =>
          if 1 <? length splitted
          then let parts := removelast splitted in
               (join sep parts ++ sep, with_vp c (last splitted []) parts)
          else ([], with_vp c (cvalue c) [])
        end in
      let ns := match last_rune sep with Some r => r | None => star end in
      let i := invoke (cb c') c' in
      NoSpace [ns] (AStatic (fst i) (rv_prefix prefix (snd i)))).
Definition ActionMultiParts (sep : str) (cb : ctx -> action) : action := ActionMultiPartsN sep (-1) cb.

Definition List (d : str) (a : action) : action :=
  ActionMultiParts d (fun c => NoSpace [] (to_a (invoke a c))).
Definition UniqueList (d : str) (a : action) : action :=
  ActionMultiParts d (fun _ => NoSpace [] (FilterParts a)).

(* ---------- Batch (batch.go): sequential semantics; C09 shows every schedule equals it ---------- *)
Definition merge_invoked (l : list invoked) : invoked :=
  match l with
  | [] => (meta0, [])
  | [x] => x
  | x :: _ =>
    (* ia.Merge(others...): range over ia :: others (ia itself once more), then Unique *)
    (fold_left (fun m o => meta_merge m (fst o)) l (fst x),
     rv_unique (snd x ++ flat_map snd l))
  end.
Definition Batch (l : list action) : action :=
  callback (fun c => to_a (merge_invoked (map (fun a => invoke a c) l))).
