(* Model/ActionHeap.v — the memory behaviour of Action.Invoke and of the modifiers that work in
   place, as a core calculus over an explicit heap (C08).

   In Go an Action is a struct holding a slice (rawValues) and, inside its meta, a map
   (Messages) — both are references.  An invoked action ([sact]) is therefore a pair of
   locations plus the value-typed no-space string and usage.  The calculus has one node for
   each way the library touches that memory:

     HShared a     a static Action that already exists and is captured by a callback
                   (x.Invoke(c).ToA(), the result of ActionImport kept in a variable, ...)
     HConst m vs   a constructor: allocates a fresh slice / map on every invocation
     HMapVals w e  Prefix, Suffix, StyleF, TagF, Uid, split's re-quoting: rewrite every value of
                   the invoked result IN PLACE
     HFilter k e   Filter, Retain, Unique: build a new slice
     HSuppress d e Suppress: delete IN PLACE from the invoked message map
     HWrap m e     a callback action whose own meta is merged IN PLACE into the invoked result
                   (action.go:125-129; NoSpace, Usage, ActionMessage are instances)
   (Batch's Merge builds a new slice and merges the other members' meta into the first
   member's invoked meta — the HWrap mechanism applied to a result of Invoke; it is exercised
   by the history harness and by C09, not repeated in the calculus.)

   [copy] is what Action.Invoke does for a static action: hand out the action itself
   (false: the pinned tree) or a copy of its slice and map (true: after the fix).  Which one
   the source does today is read off the regenerated inventory (Gen/Sites.v). *)
From CV Require Import Base.Str Base.Utf8 Model.Common Model.MultiParts Model.Action.
Local Open Scope nat_scope.

Definition loc := nat.
Record heap := mkHeap { vcell : loc -> list raw; mcell : loc -> list str; next : loc }.
Record sact := mkSact { sv : loc; sm : option loc; sns : str; sus : str }.

Definition setv (h : heap) (l : loc) (vs : list raw) : heap :=
  mkHeap (fun x => if Nat.eqb x l then vs else vcell h x) (mcell h) (next h).
Definition setm (h : heap) (l : loc) (ms : list str) : heap :=
  mkHeap (vcell h) (fun x => if Nat.eqb x l then ms else mcell h x) (next h).
Definition allocv (h : heap) (vs : list raw) : loc * heap :=
  (next h, mkHeap (fun x => if Nat.eqb x (next h) then vs else vcell h x) (mcell h) (S (next h))).
Definition allocm (h : heap) (ms : list str) : loc * heap :=
  (next h, mkHeap (vcell h) (fun x => if Nat.eqb x (next h) then ms else mcell h x) (S (next h))).

Definition msgs_of (h : heap) (a : sact) : list str := match sm a with Some l => mcell h l | None => [] end.
(* what an observer (export, shell.Value) sees of an invoked action *)
Definition obs (h : heap) (a : sact) : invoked := (mkMeta (msgs_of h a) (sns a) (sus a), vcell h (sv a)).

Inductive hexpr :=
| HShared (a : sact)
| HConst (m : meta) (vs : list raw)
| HMapVals (w : raw -> raw) (e : hexpr)
| HFilter (keep : raw -> bool) (e : hexpr)
| HSuppress (drop : str -> bool) (e : hexpr)
| HWrap (m : meta) (e : hexpr).

(* m.Merge(other) on the invoked action a, other = the plain meta [m] of a wrapper *)
Definition merge_into (h : heap) (a : sact) (m : meta) : sact * heap :=
  let us := if is_empty (usage m) then sus a else usage m in
  let ns := sm_merge (sns a) (nospace m) in
  match messages m with
  | [] => (mkSact (sv a) (sm a) ns us, h)                       (* other.messages == nil: return *)
  | ms => match sm a with
          | Some l => (mkSact (sv a) (Some l) ns us, setm h l (msgs_merge (mcell h l) ms))   (* in place *)
          | None => let '(l, h') := allocm h (msgs_merge [] ms) in (mkSact (sv a) (Some l) ns us, h')
          end
  end.

Section Invoke.
  Variable copy : bool.

  Definition invoke_static (a : sact) (h : heap) : sact * heap :=
    if copy then
      let '(lv, h1) := allocv h (vcell h (sv a)) in
      match sm a with
      | Some l => let '(lm, h2) := allocm h1 (mcell h1 l) in (mkSact lv (Some lm) (sns a) (sus a), h2)
      | None => (mkSact lv None (sns a) (sus a), h1)
      end
    else (a, h).

  Fixpoint hinvoke (e : hexpr) (h : heap) : sact * heap :=
    match e with
    | HShared a => invoke_static a h
    | HConst m vs =>
      let '(lv, h1) := allocv h vs in
      match messages m with
      | [] => (mkSact lv None (nospace m) (usage m), h1)
      | ms => let '(lm, h2) := allocm h1 ms in (mkSact lv (Some lm) (nospace m) (usage m), h2)
      end
    | HMapVals w e => let '(a, h1) := hinvoke e h in (a, setv h1 (sv a) (map w (vcell h1 (sv a))))
    | HFilter keep e =>
      let '(a, h1) := hinvoke e h in
      let '(lv, h2) := allocv h1 (filter keep (vcell h1 (sv a))) in (mkSact lv (sm a) (sns a) (sus a), h2)
    | HSuppress drop e =>
      let '(a, h1) := hinvoke e h in
      match sm a with
      | Some l => (a, setm h1 l (filter (fun m => negb (drop m)) (mcell h1 l)))
      | None => let '(l, h2) := allocm h1 [] in (mkSact (sv a) (Some l) (sns a) (sus a), h2)   (* m.init() *)
      end
    | HWrap m e => let '(a, h1) := hinvoke e h in merge_into h1 a m
    end.
End Invoke.

(* ---------- the pure reading: shared actions mean their content in the initial heap ---------- *)
Definition pmerge (i : invoked) (m : meta) : invoked := (meta_merge (fst i) m, snd i).
Fixpoint pinvoke (h0 : heap) (e : hexpr) : invoked :=
  match e with
  | HShared a => obs h0 a
  | HConst m vs => (m, vs)
  | HMapVals w e => let i := pinvoke h0 e in (fst i, map w (snd i))
  | HFilter keep e => let i := pinvoke h0 e in (fst i, filter keep (snd i))
  | HSuppress drop e => let i := pinvoke h0 e in (set_messages (fst i) (filter (fun m => negb (drop m)) (messages (fst i))), snd i)
  | HWrap m e => pmerge (pinvoke h0 e) m
  end.
