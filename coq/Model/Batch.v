(* Model/Batch.v — batch.go: one goroutine per member, each writing its own slot, WaitGroup
   barrier, then Merge.  Threads are lists of atomic steps over a shared store; a scheduler
   (adversary) picks which thread moves next.

   A step reads some locations and writes one location with a value computed from what it read
   — enough to express "member i evaluates its action (reads shared, immutable inputs; reads
   and writes locations of its own) and stores the result in slot i". *)
From CV Require Import Base.Str.
Local Open Scope nat_scope.

Section Threads.
  Variable val : Type.
  Definition loc := nat.
  Definition store := loc -> val.

  Record step := mkStep { rds : list loc; wr : loc; compute : store -> val }.

  (* the value written depends on the read set only *)
  Definition respects (s : step) : Prop :=
    forall m1 m2, (forall l, In l (rds s) -> m1 l = m2 l) -> compute s m1 = compute s m2.

  Definition exec1 (m : store) (s : step) : store :=
    fun l => if Nat.eqb l (wr s) then compute s m else m l.
  Definition exec (m : store) (t : list step) : store := fold_left exec1 t m.

  (* a schedule of two threads: true = the first thread moves *)
  Fixpoint run2 (sched : list bool) (a b : list step) (m : store) : store :=
    match sched with
    | [] => exec (exec m a) b          (* whatever is left runs to completion: the WaitGroup barrier *)
    | true :: sch => match a with
                     | s :: a' => run2 sch a' b (exec1 m s)
                     | [] => run2 sch a b m
                     end
    | false :: sch => match b with
                      | s :: b' => run2 sch a b' (exec1 m s)
                      | [] => run2 sch a b m
                      end
    end.

  Definition writes (t : list step) : list loc := map wr t.
  Definition reads (t : list step) : list loc := flat_map rds t.
  Definition touches (t : list step) : list loc := writes t ++ reads t.

  (* no location written by one thread is read or written by the other *)
  Definition conflict_free (a b : list step) : Prop :=
    (forall l, In l (writes a) -> ~ In l (touches b)) /\ (forall l, In l (writes b) -> ~ In l (touches a)).

  (* a data race in the sense of the Go memory model, at the granularity of steps: two steps
     of different threads, not ordered by the barrier, touching one location, one writing it *)
  Definition race (a b : list step) : Prop :=
    exists s t l, In s a /\ In t b /\
      ((wr s = l /\ (wr t = l \/ In l (rds t))) \/ (wr t = l /\ In l (rds s))).
End Threads.
Arguments mkStep {val}.
Arguments rds {val}.
Arguments wr {val}.
Arguments compute {val}.
