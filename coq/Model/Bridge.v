(* Model/Bridge.v — the cobra bridge (compat.go).
   carapace -> cobra: cobraValuesFor / cobraDirectiveFor and the choice of the completion in the
   generated ValidArgsFunction; cobra -> carapace: compDirective.ToA (via ActionCobra). *)
From CV Require Import Base.Str Base.Utf8 Model.Common.
Local Open Scope nat_scope.

Definition tab : ascii := byte 9.

(* ---------- carapace -> cobra ---------- *)
Definition cobra_value (r : raw) : str :=
  match description r with [] => value r | d => value r ++ [tab] ++ d end.
Definition cobra_values (vs : list raw) : list str := map cobra_value vs.

(* ShellCompDirective bits *)
Definition d_error := 1.
Definition d_nospace := 2.
Definition d_nofilecomp := 4.
Definition d_filterext := 8.
Definition d_filterdirs := 16.

Definition any_nospace (m : meta) (vs : list raw) : bool := existsb (fun r => sm_matches (nospace m) (value r)) vs.
Definition cobra_directive (m : meta) (vs : list raw) : nat :=
  d_nofilecomp + (if any_nospace m vs then d_nospace else 0).

(* which registered completion the generated ValidArgsFunction serves.  cobra has parsed the
   line once with an extra `--` appended and pflag keeps the recorded position: [dash] is
   cmd.ArgsLenAtDash(), [n] the number of positional arguments cobra hands over *)
Inductive pos_slot := PosIndex (i : nat) | DashIndex (i : nat).
Definition bridge_slot (dash : option nat) (n : nat) : pos_slot :=
  match dash with
  | Some d => if d <? n then DashIndex (n - d) else PosIndex n
  | None => PosIndex n
  end.

(* ---------- cobra -> carapace ---------- *)
Definition bit (d b : nat) : bool := Nat.odd (d / b).

(* strings.SplitN(v, "\t", 2) *)
Fixpoint split_tab (s : str) : str * str :=
  match s with
  | [] => ([], [])
  | c :: s' => if beq c tab then ([], s') else let '(v, d) := split_tab s' in (c :: v, d)
  end.

Inductive served :=
| SvMessage                                     (* "an error occurred" *)
| SvDirs (within : option str) (nosp : bool)    (* ActionDirectories(), optionally .Chdir(dir) *)
| SvFiles (exts : list str) (nosp : bool)       (* ActionFiles(".ext"...) *)
| SvValues (vals : list (str * str)) (nosp : bool).
Definition directive_to_action (d : nat) (values : list str) : served :=
  if bit d d_error then SvMessage
  else if bit d d_filterdirs then SvDirs (match values with [] => None | v :: _ => Some v end) (bit d d_nospace)
  else if bit d d_filterext then SvFiles (map (fun v => byte 46 :: v) values) (bit d d_nospace)
  else match values with
       | [] => if bit d d_nofilecomp then SvValues [] (bit d d_nospace) else SvFiles [] (bit d d_nospace)
       | _ => SvValues (map split_tab values) (bit d d_nospace)
       end.
