(* Model/Cache.v — Action.Cache (action.go:36-60) over internal/cache (cache.go): File / Load /
   LoadE / WriteE, as a state machine over an explicit file system and clock.

   name   = (call site, key ids joined by \001) — the two strings whose SHA-1 sums form the
            path; equality of names stands for equality of paths, i.e. SHA-1 is taken to be
            injective on the joins (stated in the trusted base).
   entry  = content bytes, mtime, and a GHOST field [origin] recording which real result a
            store wrote (None for foreign content); the step function never reads it.
   The callback and the key functions are adversarial: every Invoke step carries what the key
   functions return before (k1) and after (k2) the invocation and what a real invocation
   would return now (r). *)
From Coq Require Import ZArith.
From CV Require Import Base.Str Base.Utf8 Model.Common Model.Shells Model.JsonParse Model.Action Model.Export.
Local Open Scope nat_scope.

Definition name := (str * str)%type.
Definition name_eqb (a b : name) : bool := str_eqb (fst a) (fst b) && str_eqb (snd a) (snd b).

Record entry := mkEntry { content : str; mtime : Z; origin : option invoked }.
Definition fsys := list (name * entry).
Record world := mkWorld { fs : fsys; now : Z }.
Definition world0 : world := mkWorld [] 0%Z.

Fixpoint lookup (f : fsys) (n : name) : option entry :=
  match f with
  | [] => None
  | (n', e) :: f' => if name_eqb n n' then Some e else lookup f' n
  end.
Fixpoint remove (f : fsys) (n : name) : fsys :=
  match f with
  | [] => []
  | (n', e) :: f' => if name_eqb n n' then remove f' n else (n', e) :: remove f' n
  end.
Definition write (f : fsys) (n : name) (e : entry) : fsys := (n, e) :: remove f n.

(* cache.File: uidKeys(ids...) = sha1(join ids \001) *)
Definition join_ids (ids : list str) : str := join (B [1]) ids.
Definition file_name (site : str) (ids : list str) : name := (site, join_ids ids).

Section Cache.
  Variable version : str.
  (* the bytes WriteE writes for a completion: json.Marshal(export) *)
  Definition print (r : invoked) : str := export_format (mkFenv [] false None None [] false [] [] [] [] version) (fst r) (snd r).

  (* cache.Load: miss if absent or (timeout >= 0 and mtime + timeout < now) *)
  Definition load (w : world) (n : name) (timeout : Z) : option str :=
    match lookup (fs w) n with
    | None => None
    | Some e => if (0 <=? timeout)%Z && (mtime e + timeout <? now w)%Z then None else Some (content e)
    end.
  (* cache.LoadE: additionally the content must decode *)
  Definition loadE (w : world) (n : name) (timeout : Z) : option export :=
    match load w n timeout with
    | None => None
    | Some b => match import b with IOk e => Some e | IMsg => None end
    end.
  Definition completion_of (e : export) : invoked := (e_meta e, match e_values e with Some vs => vs | None => [] end).

  Inductive op :=
  | OInvoke (site : str) (k1 k2 : option (list str)) (timeout : Z) (r : invoked)
  | OAdvance (d : Z)
  | OCorrupt (n : name) (b : str)
  | ORemove (n : name).

  Inductive out := Served (real : bool) (r : invoked) | Quiet.

  Definition step (w : world) (o : op) : world * out :=
    match o with
    | OInvoke site k1 k2 timeout r =>
      match k1 with
      | None => (w, Served true r)                              (* key error: bypass, nothing stored *)
      | Some ids =>
        match loadE w (file_name site ids) timeout with
        | Some e => (w, Served false (completion_of e))         (* hit *)
        | None =>
          (* miss: real invocation; store iff no messages and the keys still evaluate *)
          match messages (fst r), k2 with
          | [], Some ids2 =>
            (mkWorld (write (fs w) (file_name site ids2) (mkEntry (print r) (now w) (Some r))) (now w), Served true r)
          | _, _ => (w, Served true r)
          end
        end
      end
    | OAdvance d => (mkWorld (fs w) (now w + Z.max 0 d)%Z, Quiet)
    | OCorrupt n b => (mkWorld (write (fs w) n (mkEntry b (now w) None)) (now w), Quiet)
    | ORemove n => (mkWorld (remove (fs w) n) (now w), Quiet)
    end.

  Fixpoint run (w : world) (ops : list op) : world * list out :=
    match ops with
    | [] => (w, [])
    | o :: ops' => let '(w1, x) := step w o in let '(w2, xs) := run w1 ops' in (w2, x :: xs)
    end.
End Cache.

(* key.String(s...) = strings.Join(s, "\n") *)
Definition key_string (l : list str) : str := join (B [10]) l.
