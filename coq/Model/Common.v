(* Model/Common.v — internal/common: RawValue, Meta, SuffixMatcher, Messages.Integrate,
   TrimmedDescription, FilterPrefix, ByDisplay sorting.  Mirrors the Go code one to one. *)
From CV Require Import Base.Str Base.Utf8 Gen.Tables.
From CV Require Export Base.SortPerm.
Local Open Scope nat_scope.

(* ---------- lexicographic byte order on strings (Go's `<` on strings) ---------- *)
Fixpoint str_ltb (a b : str) : bool :=
  match a, b with
  | [], [] => false
  | [], _ :: _ => true
  | _ :: _, [] => false
  | x :: a', y :: b' =>
      if (nat_of_ascii x <? nat_of_ascii y) then true
      else if (nat_of_ascii y <? nat_of_ascii x) then false
      else str_ltb a' b'
  end.
Definition str_leb (a b : str) : bool := negb (str_ltb b a).

(* ---------- RawValue / Meta ---------- *)
Record raw := mkRaw {
  value : str; display : str; description : str; style : str; tag : str; uid : str;
  rstyle : str  (* the target shell's rendering of [style], observed, see DESIGN 6.4 *)
}.

Record meta := mkMeta {
  messages : list str;   (* Messages.Get(): sorted, duplicate free *)
  nospace : str;         (* SuffixMatcher.string *)
  usage : str
}.

Definition set_value (r : raw) (v : str) : raw :=
  mkRaw v (display r) (description r) (style r) (tag r) (uid r) (rstyle r).
Definition set_display (r : raw) (d : str) : raw :=
  mkRaw (value r) d (description r) (style r) (tag r) (uid r) (rstyle r).
Definition set_description (r : raw) (d : str) : raw :=
  mkRaw (value r) (display r) d (style r) (tag r) (uid r) (rstyle r).
Definition set_tag (r : raw) (t : str) : raw :=
  mkRaw (value r) (display r) (description r) (style r) t (uid r) (rstyle r).
Definition set_uid (r : raw) (u : str) : raw :=
  mkRaw (value r) (display r) (description r) (style r) (tag r) u (rstyle r).

(* ---------- SuffixMatcher (suffix.go) ---------- *)
Definition star : N := 42%N.
Definition memN (r : N) (l : list N) : bool := existsb (N.eqb r) l.

(* Matches: some rune of the set is `*` or its encoding is a suffix of s *)
Definition sm_matches (sm : str) (s : str) : bool :=
  existsb (fun r => N.eqb r star || has_suffix s (encode_rune r)) (runes sm).

Fixpoint insert_rune (r : N) (l : list N) : list N :=
  match l with
  | [] => [r]
  | x :: l' => if (r <=? x)%N then r :: l else x :: insert_rune r l'
  end.
Definition sort_runes (l : list N) : list N := fold_right insert_rune [] l.

(* Add(suffixes...) *)
Definition sm_add (sm : str) (suffixes : list N) : str :=
  if contains sm (B [42]) || contains (encode_runes suffixes) (B [42]) then B [42]
  else
    let unique := fold_left (fun acc r => if contains sm (encode_rune r) then acc else acc ++ [r])
                            suffixes (runes sm) in
    encode_runes (sort_runes unique).
(* Merge(other): one Add per rune of other *)
Definition sm_merge (sm other : str) : str :=
  fold_left (fun acc r => sm_add acc [r]) (runes other) sm.

(* ---------- TrimmedDescription (value.go:27-35) ---------- *)
Fixpoint first_line (s : str) : str :=
  match s with
  | [] => []
  | c :: s' => if beq c (byte 10) then [] else c :: first_line s'
  end.
Definition trimmed_description (d : str) : str :=
  let maxLength := common_TrimmedDescription_maxLength in
  let description := trim_space (first_line d) in
  let cs := chunks description in
  if maxLength <? length cs
  then encode_runes (firstn_runes (maxLength - 3) cs) ++ B [46;46;46]
  else description.

(* ---------- match.HasPrefix: case sensitive, or ASCII-only case folding ----------
   strings.ToLower beyond ASCII is not modelled (DESIGN section 5); the harness keeps
   non-ASCII letters out of case-insensitive cases. *)
Definition lower_byte (c : ascii) : ascii :=
  let n := nat_of_ascii c in if (65 <=? n) && (n <=? 90) then ascii_of_nat (n + 32) else c.
Definition lower (s : str) : str := map lower_byte s.
Definition match_has_prefix (ci : bool) (s p : str) : bool :=
  if ci then has_prefix (lower s) (lower p) else has_prefix s p.

Definition filter_prefix (ci : bool) (vs : list raw) (p : str) : list raw :=
  filter (fun r => match_has_prefix ci (value r) p) vs.

(* ---------- sort.Sort(ByDisplay(values)) ----------
   Go's pdqsort is not stable in general; it IS an insertion sort (stable) for n <= 12.
   The model uses a stable merge sort; byte-exact correspondence is therefore claimed
   only for cases without display ties, or with <= 12 records (generator invariant). *)
Lemma str_ltb_antisym : forall a b, str_ltb a b = true -> str_ltb b a = false.
Proof.
  induction a as [|x a IH]; intros [|y b]; simpl; try congruence.
  destruct (nat_of_ascii x <? nat_of_ascii y) eqn:E1; destruct (nat_of_ascii y <? nat_of_ascii x) eqn:E2;
    try congruence.
  - apply Nat.ltb_lt in E1. apply Nat.ltb_lt in E2. lia.
  - apply IH.
Qed.

(* [isort_by] (Base/SortPerm.v) inserts x after every element that is <= x: Go's insertionSort *)
(* ByDisplay.Less: lexicographic comparison over the fields the Go body reads, in order
   (regenerated: Gen.Tables.common_ByDisplay_less_fields — [Display; Value] since the tie-break fix) *)
Definition fn_Display : str := B [68;105;115;112;108;97;121].
Definition fn_Value : str := B [86;97;108;117;101].
Definition fn_Description : str := B [68;101;115;99;114;105;112;116;105;111;110].
Definition fn_Style : str := B [83;116;121;108;101].
Definition fn_Tag : str := B [84;97;103].
(* the accessor is chosen once per field name (not per record) *)
Definition field_by_name (n : str) : raw -> str :=
  if str_eqb n fn_Display then display
  else if str_eqb n fn_Value then value
  else if str_eqb n fn_Description then description
  else if str_eqb n fn_Style then style
  else if str_eqb n fn_Tag then tag
  else fun _ => [].
Fixpoint lex_ltbf (fs : list (raw -> str)) (a b : raw) : bool :=
  match fs with
  | [] => false
  | f :: fs' => if str_eqb (f a) (f b) then lex_ltbf fs' a b else str_ltb (f a) (f b)
  end.
Definition lex_ltb (ks : list str) : raw -> raw -> bool := lex_ltbf (map field_by_name ks).
(* the field accessors are resolved once, not per comparison *)
Definition display_key_fns : list (raw -> str) := map field_by_name common_ByDisplay_less_fields.
Definition display_ltb : raw -> raw -> bool := lex_ltbf display_key_fns.
Definition sort_by_display (vs : list raw) : list raw := isort_by display_ltb vs.

(* ---------- Messages.Integrate (message.go:70-126) ---------- *)
Definition contains_value (vs : list raw) (s : str) : bool :=
  existsb (fun r => str_eqb (value r) s) vs.

Definition ERR : str := B [69;82;82].
Definition strip_err (p : str) : str :=
  if has_suffix p (B [69;82;82]) then trim_suffix p (B [69;82;82])
  else if has_suffix p (B [69;82]) then trim_suffix p (B [69;82])
  else if has_suffix p (B [69]) then trim_suffix p (B [69])
  else p.

(* the inner `for` loop: returns (value, display, next i).  At most [length vs] values can
   collide, so [S (length vs)] rounds of fuel suffice; running out of fuel is reported as
   [None] and excluded by the statements of the theorems (it never happens in the
   correspondence runs). *)
Definition err_value (p : str) (i : nat) : str := if i =? 0 then p ++ ERR else p ++ ERR ++ dec i.
Definition err_display (i : nat) : str := if i =? 0 then ERR else ERR ++ dec i.
Fixpoint err_pick (fuel : nat) (vs : list raw) (p : str) (i : nat) : option (str * str * nat) :=
  match fuel with
  | O => None
  | S f => if contains_value vs (err_value p i) then err_pick f vs p (S i)
           else Some (err_value p i, err_display i, S i)
  end.

Fixpoint integrate_loop (msgs : list str) (vs : list raw) (p : str) (i : nat) (estyle erstyle : str)
  : option (list raw) :=
  match msgs with
  | [] => Some vs
  | m :: msgs' =>
      match err_pick (S (length vs)) vs p i with
      | Some (v, d, i') => integrate_loop msgs' (vs ++ [mkRaw v d m estyle [] [] erstyle]) p i' estyle erstyle
      | None => None
      end
  end.

Definition filler (p dstyle drstyle : str) : raw := mkRaw (p ++ B [95]) (B [95]) [] dstyle [] [] drstyle.

Definition integrate (msgs : list str) (vs : list raw) (prefix : str)
           (estyle erstyle dstyle drstyle : str) : list raw :=
  match msgs with
  | [] => vs
  | _ =>
    let p := strip_err prefix in
    match integrate_loop msgs vs p 0 estyle erstyle with
    | None => vs    (* out of fuel: unreachable, see above *)
    | Some vs1 =>
        let vs2 := match vs1 with
                   | [_] => vs1 ++ [filler prefix dstyle drstyle]
                   | _ => vs1
                   end in
        sort_by_display vs2
    end
  end.
