(* Model/Descent.v — which command a typed line reaches and which words it is left with:
   cobra's Command.Find (stripFlags, argsMinusFirstX, findNext; spf13/cobra v1.9.1, TraverseChildren
   off) and carapace's traverse with its descent into sub-commands (traverse.go).
   A command carries the flag set cobra presents for it (own flags and inherited persistent ones). *)
From CV Require Import Base.Str Model.Pflag.
Local Open Scope nat_scope.

Inductive cmd := Cmd (cid : str) (cname : str) (caliases : list str) (cflags : list flag) (cil : bool) (csubs : list cmd).   (* cid: its path, for reporting only *)
Definition cid (c : cmd) := let '(Cmd p _ _ _ _ _) := c in p.
Definition cname (c : cmd) := let '(Cmd _ n _ _ _ _) := c in n.
Definition caliases (c : cmd) := let '(Cmd _ _ a _ _ _) := c in a.
Definition cflags (c : cmd) := let '(Cmd _ _ _ f _ _) := c in f.
Definition cil (c : cmd) := let '(Cmd _ _ _ _ i _) := c in i.
Definition csubs (c : cmd) := let '(Cmd _ _ _ _ _ s) := c in s.

(* findNext: by name or alias *)
Definition names_cmd (next : str) (c : cmd) : bool := str_eqb (cname c) next || existsb (str_eqb next) (caliases c).
Definition find_next (subs : list cmd) (next : str) : option cmd := find (names_cmd next) subs.

(* ---------- cobra ---------- *)
Definition has_eq (s : str) : bool := mem (byte 61) s.
(* hasNoOptDefVal / shortHasNoOptDefVal: an unknown flag counts as one that takes the next word *)
Definition noopt_long (fs : list flag) (n : str) : bool :=
  match find_flag fs n with Some f => negb (takes_next f) | None => false end.
Definition noopt_short (fs : list flag) (s : str) : bool :=
  match s with c :: _ => match find_short fs c with Some f => negb (takes_next f) | None => false end | [] => false end.
Definition consumes_next (fs : list flag) (s : str) : bool :=
  (has_prefix s dash2 && negb (has_eq s) && negb (noopt_long fs (drop 2 s))) ||
  (starts_dash s && negb (has_eq s) && Nat.eqb (length s) 2 && negb (noopt_short fs (drop 1 s))).

Fixpoint strip_flags (fs : list flag) (args : list str) : list str :=
  match args with
  | [] => []
  | s :: rest =>
    if str_eqb s dash2 then []
    else if consumes_next fs s then
      match rest with
      | _ :: ((_ :: _) as r2) => strip_flags fs r2           (* delete the flag's value; stop if at most one word is left *)
      | _ => []
      end
    else if negb (match s with [] => true | _ => false end) && negb (starts_dash s) then s :: strip_flags fs rest
    else strip_flags fs rest
  end.

Fixpoint args_minus_first (fs : list flag) (args : list str) (x : str) : list str :=
  match args with
  | [] => []
  | s :: rest =>
    if str_eqb s dash2 then args
    else if consumes_next fs s then
      match rest with
      | v :: r2 => s :: v :: args_minus_first fs r2 x
      | [] => [s]
      end
    else if negb (starts_dash s) && str_eqb s x then rest
    else s :: args_minus_first fs rest x
  end.

Fixpoint innerfind (fuel : nat) (c : cmd) (args : list str) : cmd * list str :=
  match fuel with
  | 0 => (c, args)
  | S f =>
    match strip_flags (cflags c) args with
    | [] => (c, args)
    | next :: _ =>
      match find_next (csubs c) next with
      | Some sub => innerfind f sub (args_minus_first (cflags c) args next)
      | None => (c, args)
      end
    end
  end.
Definition cobra_find (c : cmd) (args : list str) : cmd * list str := innerfind (S (length args)) c args.

(* ---------- carapace ---------- *)
Inductive scan := ScStay (st : tstate) | ScDescend (sub : cmd) (words : list str) | ScError.

(* the loop of traverse with the sub-command case: [cand] = a word cobra would have tried as
   sub-command name was consumed, [pos] = the positional words so far *)
Fixpoint t_scan (c : cmd) (ws : list str) (st : tstate) (cand : bool) (pos : list str) : scan :=
  let fs := cflags c in
  let il := cil c in
  match ws with
  | [] => ScStay st
  | w :: rest =>
    if t_dash st then ScStay (mkT (t_inargs st ++ w :: rest) (t_npos st) None true)
    else match t_inflag st with
    | Some f => t_scan c rest (mkT (t_inargs st ++ [w]) (t_npos st) None false) cand pos
    | None =>
      if str_eqb w dash2 then ScStay (mkT (t_inargs st ++ w :: rest) (t_npos st) None true)
      else if starts_dash w && negb (str_eqb w (B [45])) && (il || Nat.eqb (t_npos st) 0) then
        t_scan c rest (mkT (t_inargs st ++ [w]) (t_npos st) (pending_after fs w) false) cand pos
      else
        match (if cand then None else find_next (csubs c) w) with
        | Some sub =>
          match parse fs il (t_inargs st) with
          | PErr => ScError
          | POk _ => ScDescend sub (pos ++ rest)
          end
        | None =>
          t_scan c rest (mkT (t_inargs st ++ [w]) (S (t_npos st)) None false)
                 (cand || (negb (match w with [] => true | _ => false end) && negb (starts_dash w))) (pos ++ [w])
        end
    end
  end.

Fixpoint t_traverse (fuel : nat) (c : cmd) (ws : list str) (cur : str) : cmd * slot :=
  match fuel with
  | 0 => (c, SMessage)
  | S f =>
    match t_scan c ws t0 false [] with
    | ScStay st => (c, finish (cflags c) (cil c) st cur)
    | ScDescend sub ws' => t_traverse f sub ws' cur
    | ScError => (c, SMessage)
    end
  end.
Definition tree_traverse (c : cmd) (ws : list str) (cur : str) : cmd * slot := t_traverse (S (length ws)) c ws cur.
