(* Model/Export.v — internal/export.Export: json.Unmarshal into the struct (encoding/json's
   rules for structs with an embedded Meta, custom unmarshalers of Messages / SuffixMatcher),
   ActionImport (defaultActions.go:94-105), and the document tree that MarshalJSON prints. *)
From CV Require Import Base.Str Base.Utf8 Model.Common Model.JsonParse Model.Action.
Local Open Scope nat_scope.

Record export := mkExport { e_version : str; e_meta : meta; e_values : option (list raw) }.   (* None = nil slice *)
Definition export0 : export := mkExport [] meta0 None.

Definition k_version := B [118;101;114;115;105;111;110].
Definition k_messages := B [109;101;115;115;97;103;101;115].
Definition k_nospace := B [110;111;115;112;97;99;101].
Definition k_usage := B [117;115;97;103;101].
Definition k_values := B [118;97;108;117;101;115].
Definition k_value := B [118;97;108;117;101].
Definition k_display := B [100;105;115;112;108;97;121].
Definition k_description := B [100;101;115;99;114;105;112;116;105;111;110].
Definition k_style := B [115;116;121;108;101].
Definition k_tag := B [116;97;103].
Definition k_uid := B [117;105;100].

(* field lookup of encoding/json: exact name, else ASCII case-insensitive *)
Definition key_is (key name : str) : bool := str_eqb key name || str_eqb (lower key) name.
Definition resolve (names : list str) (key : str) : option str :=
  match find (fun n => str_eqb key n) names with
  | Some n => Some n
  | None => find (fun n => str_eqb (lower key) n) names
  end.

(* a string field: null leaves it, a string sets it, anything else is a type error *)
Definition dec_str (old : str) (j : jval) : option str :=
  match j with JNull => Some old | JStr s => Some s | _ => None end.

Fixpoint dec_strs (l : list jval) : option (list str) :=
  match l with
  | [] => Some []
  | JStr s :: l' => option_map (cons s) (dec_strs l')
  | JNull :: l' => option_map (cons []) (dec_strs l')
  | _ => None
  end.

Definition raw_names := [k_value; k_display; k_description; k_style; k_tag; k_uid].
Definition raw0 : raw := mkRaw [] [] [] [] [] [] [].
Fixpoint dec_raw_members (ms : list (str * jval)) (r : raw) : option raw :=
  match ms with
  | [] => Some r
  | (k, j) :: ms' =>
    match resolve raw_names k with
    | None => dec_raw_members ms' r
    | Some n =>
      let get := if str_eqb n k_value then value r else if str_eqb n k_display then display r
                 else if str_eqb n k_description then description r else if str_eqb n k_style then style r
                 else if str_eqb n k_tag then tag r else uid r in
      match dec_str get j with
      | None => None
      | Some s =>
        let r' := if str_eqb n k_value then set_value r s else if str_eqb n k_display then set_display r s
                  else if str_eqb n k_description then set_description r s else if str_eqb n k_style then set_style r s
                  else if str_eqb n k_tag then set_tag r s else set_uid r s in
        dec_raw_members ms' r'
      end
    end
  end.
Definition dec_raw (j : jval) : option raw :=
  match j with
  | JNull => Some raw0
  | JObj ms => dec_raw_members ms raw0
  | _ => None
  end.
Fixpoint dec_raws (l : list jval) : option (list raw) :=
  match l with
  | [] => Some []
  | j :: l' => match dec_raw j, dec_raws l' with
               | Some r, Some rs => Some (r :: rs)
               | _, _ => None
               end
  end.

Definition top_names := [k_version; k_messages; k_nospace; k_usage; k_values].
Fixpoint dec_members (ms : list (str * jval)) (e : export) : option export :=
  match ms with
  | [] => Some e
  | (k, j) :: ms' =>
    match resolve top_names k with
    | None => dec_members ms' e
    | Some n =>
      let m := e_meta e in
      if str_eqb n k_version then
        match dec_str (e_version e) j with Some s => dec_members ms' (mkExport s m (e_values e)) | None => None end
      else if str_eqb n k_messages then
        (* Messages.UnmarshalJSON: []string, every item Add()ed to the existing set *)
        match j with
        | JNull => dec_members ms' e
        | JArr l => match dec_strs l with
                    | Some ss => dec_members ms' (mkExport (e_version e) (set_messages m (msgs_merge (messages m) ss)) (e_values e))
                    | None => None
                    end
        | _ => None
        end
      else if str_eqb n k_nospace then
        match dec_str (nospace m) j with Some s => dec_members ms' (mkExport (e_version e) (set_nospace m s) (e_values e)) | None => None end
      else if str_eqb n k_usage then
        match dec_str (usage m) j with Some s => dec_members ms' (mkExport (e_version e) (set_usage m s) (e_values e)) | None => None end
      else
        match j with
        | JNull => dec_members ms' (mkExport (e_version e) m None)
        | JArr l => match dec_raws l with
                    | Some rs => dec_members ms' (mkExport (e_version e) m (Some rs))
                    | None => None
                    end
        | _ => None
        end
    end
  end.

Definition of_json (j : jval) : option export :=
  match j with
  | JNull => Some export0
  | JObj ms => dec_members ms export0
  | _ => None
  end.

Inductive imported := IOk (e : export) | IMsg.
Definition import (bytes : str) : imported :=
  match jparse bytes with
  | None => IMsg
  | Some j => match of_json j with Some e => IOk e | None => IMsg end
  end.

(* ActionImport as an action of the algebra: a message (text abstract) or the static completion *)
Definition ActionImport (err : str) (bytes : str) : action :=
  callback (fun _ => match import bytes with
                     | IOk e => AStatic (e_meta e) (match e_values e with Some vs => vs | None => [] end)
                     | IMsg => ActionMessage err
                     end).

(* ---------- the tree MarshalJSON prints (export.go:17-28) ---------- *)
Definition opt_member (k s : str) : list (str * jval) := match s with [] => [] | _ => [(k, JStr s)] end.
Definition raw_to_json (r : raw) : jval :=
  JObj ([(k_value, JStr (value r)); (k_display, JStr (display r))]
        ++ opt_member k_description (description r) ++ opt_member k_style (style r)
        ++ opt_member k_tag (tag r) ++ opt_member k_uid (uid r)).
Definition value_ltb' (a b : raw) : bool := str_ltb (value a) (value b).
Definition to_json (version : str) (m : meta) (vs : list raw) : jval :=
  JObj [(k_version, JStr version);
        (k_messages, JArr (map JStr (messages m)));
        (k_nospace, JStr (nospace m));
        (k_usage, JStr (usage m));
        (k_values, JArr (map raw_to_json (isort_by value_ltb' vs)))].
