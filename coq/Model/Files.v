(* Model/Files.v — path/filepath on POSIX (Clean, Dir, Base, Abs), Context.Abs (context.go:
   106-159), a file system with symbolic links, actionPath (internalActions.go:17-83) and
   ActionFiles / ActionDirectories (defaultActions.go:136-165: actionPath . MultiParts "/";
   style and uid are not part of the statement).  Paths are byte strings, as in Go. *)
From CV Require Import Base.Str Base.Utf8 Model.Common Model.MultiParts Model.Action.
Local Open Scope nat_scope.

Definition slash : ascii := byte 47.
Definition sl : str := [slash].
Definition dot : str := B [46].
Definition dotdot : str := B [46;46].

(* ---------- filepath.Clean / Dir / Base ---------- *)
Definition rooted (p : str) : bool := match p with c :: _ => beq c slash | [] => false end.

(* the element stack of Clean: "" and "." vanish, ".." pops an ordinary element, is dropped at
   the root, and is kept in front of a relative path *)
Fixpoint clean_stack (is_rooted : bool) (segs : list str) (stack : list str) : list str :=
  match segs with
  | [] => rev stack
  | s :: segs' =>
    if is_empty s || str_eqb s dot then clean_stack is_rooted segs' stack
    else if str_eqb s dotdot then
      match stack with
      | top :: stack' => if str_eqb top dotdot then clean_stack is_rooted segs' (s :: stack)
                         else clean_stack is_rooted segs' stack'
      | [] => if is_rooted then clean_stack is_rooted segs' [] else clean_stack is_rooted segs' [s]
      end
    else clean_stack is_rooted segs' (s :: stack)
  end.
Definition clean (p : str) : str :=
  match p with
  | [] => dot
  | _ =>
    let r := rooted p in
    let out := join sl (clean_stack r (split1 slash p) []) in
    if r then sl ++ out else match out with [] => dot | _ => out end
  end.

(* everything up to and including the last slash *)
Fixpoint split_last_slash (p : str) (acc_dir acc_seg : str) : str * str :=
  match p with
  | [] => (acc_dir, acc_seg)
  | c :: p' => if beq c slash then split_last_slash p' (acc_dir ++ acc_seg ++ [c]) [] else split_last_slash p' acc_dir (acc_seg ++ [c])
  end.
Definition dir_part (p : str) : str := fst (split_last_slash p [] []).
Definition last_seg (p : str) : str := snd (split_last_slash p [] []).
Definition fdir (p : str) : str := clean (dir_part p).                  (* filepath.Dir *)
Fixpoint strip_trailing_slashes (r : str) : str :=   (* on the reversed path *)
  match r with c :: r' => if beq c slash then strip_trailing_slashes r' else r | [] => [] end.
Definition fbase (p : str) : str :=                                      (* filepath.Base *)
  match p with
  | [] => dot
  | _ => let q := rev (strip_trailing_slashes (rev p)) in
         match q with [] => sl | _ => last_seg q end
  end.
(* filepath.Abs for an already absolute path = Clean; relative paths are joined with the process
   working directory [cwd] *)
Definition fabs (cwd p : str) : str := if rooted p then clean p else clean (cwd ++ sl ++ p).

(* ---------- Context.Abs ---------- *)
Definition tilde : ascii := byte 126.
Definition expand_home (home s : str) : str :=
  match s with
  | c :: r => if beq c tilde then
                match r with
                | [] => home
                | _ => if has_prefix s (tilde :: sl) then home ++ sl ++ drop 2 s else s      (* strings.Replace(s, "~/", home+"/", 1) *)
                end
              else s
  | [] => s
  end.
Definition ctx_abs (cwd home dir path : str) : str :=
  let p := if rooted path || (match path with c :: _ => beq c tilde | [] => false end) then path
           else match dir with [] => B [46;47] ++ path | _ => dir ++ sl ++ path end in
  let p := expand_home home p in
  let result := fabs cwd p in
  if has_suffix p sl && negb (has_suffix result sl) then result ++ sl
  else if has_suffix p (B [47;46]) && negb (has_suffix result (B [47;46])) then result ++ B [47;46]
  else result.

(* ---------- the file system ---------- *)
Inductive fkind := KFile | KDir | KLink (target : str).
(* canonical absolute path ("/a/b", the root is "/") -> kind *)
Definition fsys := list (str * fkind).
Fixpoint fs_kind (fs : fsys) (p : str) : option fkind :=
  match fs with
  | [] => None
  | (q, k) :: fs' => if str_eqb p q then Some k else fs_kind fs' p
  end.
Definition path_of (segs : list str) : str := sl ++ join sl segs.

(* realpath: resolve every symbolic link on the way (fuel bounds the number of links followed) *)
Fixpoint resolve (fs : fsys) (fuel : nat) (cur : list str) (rest : list str) : option (list str) :=
  match fuel with
  | 0 => None
  | S f =>
    match rest with
    | [] => Some cur
    | s :: rest' =>
      if is_empty s || str_eqb s dot then resolve fs f cur rest'
      else if str_eqb s dotdot then resolve fs f (removelast cur) rest'
      else
        let p := cur ++ [s] in
        match fs_kind fs (path_of p) with
        | None => None
        | Some (KLink t) => if rooted t then resolve fs f [] (split1 slash t ++ rest')
                            else resolve fs f cur (split1 slash t ++ rest')
        | Some _ => resolve fs f p rest'
        end
    end
  end.
Definition realpath (fs : fsys) (p : str) : option str :=
  option_map path_of (resolve fs (40 + 4 * length p) [] (split1 slash p)).
(* os.Stat: follows links *)
Definition stat_is_dir (fs : fsys) (p : str) : bool :=
  match realpath fs p with
  | Some q => match fs_kind fs q with Some KDir => true | _ => (str_eqb q sl) end
  | None => false
  end.

(* os.ReadDir: the entries of a directory (reached through links), sorted by name *)
Definition parent_is (d : str) (p : str) : option str :=
  (* p = d ++ "/" ++ name with no further slash (d = "/" : p = "/" ++ name) *)
  let pre := if str_eqb d sl then sl else d ++ sl in
  if has_prefix p pre then
    let name := drop (length pre) p in
    match name with [] => None | _ => if mem slash name then None else Some name end
  else None.
Fixpoint insert_name (x : str * fkind) (l : list (str * fkind)) : list (str * fkind) :=
  match l with
  | [] => [x]
  | y :: l' => if str_ltb (fst x) (fst y) then x :: l else y :: insert_name x l'
  end.
Definition readdir (fs : fsys) (d : str) : option (list (str * fkind)) :=
  match realpath fs d with
  | None => None
  | Some q =>
    if stat_is_dir fs q then
      Some (fold_right insert_name []
              (flat_map (fun e => match parent_is q (fst e) with Some n => [(n, snd e)] | None => [] end) fs))
    else None
  end.

(* ---------- actionPath ---------- *)
(* the typed directory part, unchanged: the typed text up to and including its last slash *)
Definition display_folder (value : str) : str := dir_part value.

Record pathres := mkPathres { pr_values : list str; pr_error : bool }.

Definition action_path (fs : fsys) (cwd home : str) (suffixes : list str) (dir_only : bool) (cdir value : str) : pathres :=
  let abs := ctx_abs cwd home cdir value in
  let dfolder := display_folder value in
  let actual := fdir abs in
  match readdir fs actual with
  | None => mkPathres [] true
  | Some files =>
    let show_hidden := negb (has_suffix abs sl) && has_prefix (fbase abs) dot in
    let suffixes := match suffixes with [] => [[]] | _ => suffixes end in
    let vals :=
      flat_map (fun e =>
        let name := fst e in
        if negb show_hidden && has_prefix name dot then []
        else
          let is_dir := match snd e with KDir => true | _ => false end in
          let linked_dir := stat_is_dir fs (actual ++ sl ++ name) in
          if is_dir || linked_dir then [dfolder ++ name ++ sl]
          else if dir_only then []
          else if existsb (fun sfx => has_suffix name sfx) suffixes then [dfolder ++ name] else []) files in
    mkPathres vals false
  end.

(* ActionFiles(suffixes...) / ActionDirectories(): actionPath, then MultiParts("/") at the typed value *)
Definition action_files (fs : fsys) (cwd home : str) (suffixes : list str) (dir_only : bool) (cdir value : str)
  : option (list raw * str) * bool :=
  let r := action_path fs cwd home suffixes dir_only cdir value in
  if pr_error r then (Some ([], []), true)
  else (to_multiparts false [sl] (map raw_of (filter (fun v => negb (is_empty v)) (pr_values r))) value, false).
