(* Model/Flags.v — which flag names are offered (internalActions.go actionFlags, with
   pflagfork.Flag.IsRepeatable / FlagSet.IsMutuallyExclusive / IsShorthandSeries and the part of
   traverse that feeds the letters of a shorthand chain to the parser), and which sub-command
   names (defaultActions.go ActionCommands).  The flag set is the one cobra presents for the
   resolved command: its own flags, inherited persistent ones, the automatic help flag. *)
From CV Require Import Base.Str Model.Pflag.
Local Open Scope nat_scope.

Record fdef := mkFdef {
  fd_name : str; fd_short : str;            (* shorthand: empty = none *)
  fd_kind : kind;
  fd_hidden : bool; fd_dep : bool; fd_shdep : bool;
  fd_groups : list (list str) }.            (* its mutually exclusive groups, each a list of flag NAMES (cobra's annotation) *)

Definition repeatable (f : fdef) : bool := match fd_kind f with KList | KCount => true | _ => false end.
(* NoOptDefVal <> "": given without a value *)
Definition noarg (f : fdef) : bool := match fd_kind f with KBool | KCount | KOpt => true | _ => false end.
Definition is_changed (ch : list str) (f : fdef) : bool := existsb (str_eqb (fd_name f)) ch.
(* o is named by one of f's groups *)
Definition shares_group (f o : fdef) : bool := existsb (fun g => existsb (str_eqb (fd_name o)) g) (fd_groups f).
(* ANOTHER member of one of its groups was given *)
Definition excluded (fs : list fdef) (ch : list str) (f : fdef) : bool :=
  existsb (fun o => negb (str_eqb (fd_name o) (fd_name f)) && is_changed ch o && shares_group f o) fs.
Definition acceptable (envh : bool) (fs : list fdef) (ch : list str) (f : fdef) : bool :=
  negb (fd_hidden f && negb envh) && negb (fd_dep f) && (negb (is_changed ch f) || repeatable f) && negb (excluded fs ch f).
Definition is_empty (s : str) : bool := match s with [] => true | _ => false end.
Definition short_ok (f : fdef) : bool := negb (is_empty (fd_short f)) && negb (fd_shdep f).

Definition dash1 : str := B [45].
Definition names_long (envh : bool) (fs : list fdef) (ch : list str) : list str :=
  flat_map (fun f => if acceptable envh fs ch f
                     then (dash2 ++ fd_name f) :: (if short_ok f then [dash1 ++ fd_short f] else [])
                     else []) fs.

(* the letters of a chain under the cursor *)
Definition find_short (fs : list fdef) (c : ascii) : option fdef := find (fun f => str_eqb (fd_short f) [c]) fs.
Inductive chain_class := ChUnknown | ChValue | ChLetters (l : list fdef).
Fixpoint chain_letters (fs : list fdef) (cs : list ascii) : chain_class :=
  match cs with
  | [] => ChLetters []
  | c :: cs' =>
    match find_short fs c with
    | None => ChUnknown                                   (* the parser rejects the chain: a message *)
    | Some f => if noarg f then match chain_letters fs cs' with ChLetters l => ChLetters (f :: l) | x => x end
                else ChValue                              (* the rest of the word is this flag's value: C01 *)
    end
  end.
Definition names_chain (envh : bool) (fs : list fdef) (ch : list str) (cur : str) (letters : list fdef) : list str :=
  let ch' := ch ++ map fd_name letters in
  flat_map (fun f => if acceptable envh fs ch' f && short_ok f then [cur ++ fd_short f] else []) fs.

Inductive names_result := NOther | NNames (l : list str).
Definition names_offered (envh : bool) (fs : list fdef) (ch : list str) (cur : str) : names_result :=
  if has_prefix cur dash2 || str_eqb cur dash1 then NNames (filter (fun n => has_prefix n cur) (names_long envh fs ch))   (* MultiParts keeps what extends the word *)
  else match cur with
       | c :: cs => if beq c (byte 45) then
                      match chain_letters fs cs with
                      | ChLetters l => NNames (names_chain envh fs ch cur l)
                      | _ => NOther
                      end
                    else NOther
       | [] => NOther
       end.

(* ---------- sub-commands ---------- *)
Record cdef := mkCdef { cd_name : str; cd_aliases : list str; cd_hidden : bool; cd_dep : bool }.
Definition subcommand_names (envh : bool) (subs : list cdef) : list str :=
  flat_map (fun c => if (negb (cd_hidden c) || envh) && negb (cd_dep c) then cd_name c :: cd_aliases c else []) subs.
