(* Model/FsCrash.v — the write protocols of the on-disk cache as small-step machines over an
   explicit file system; an adversary schedules writers and readers and may stop any writer
   after any step — a crash, a failed or size-limited write, a kill (C15).

   in-place protocol (os.WriteFile):   open+truncate f; write c byte by byte into f
   atomic protocol  (temp + rename):   create t (fresh); write c byte by byte into t; rename t f

   Writes are modelled byte by byte so that every cut offset is a state of the machine.
   Kernel assumptions (trusted base): rename(2) replaces the target atomically; write(2)
   appends a prefix of the buffer; a reader sees exactly the bytes written so far. *)
From CV Require Import Base.Str.
Local Open Scope nat_scope.

Definition fname := nat.
Definition files := fname -> option str.
Definition upd (fs : files) (n : fname) (c : option str) : files := fun m => if Nat.eqb m n then c else fs m.

Inductive wstate := WStart | WOpen (written : nat) | WDone.

(* one step of a writer running the atomic protocol with temp t, target f, content c *)
Definition atomic_step (t f : fname) (c : str) (s : wstate) (fs : files) : wstate * files :=
  match s with
  | WStart => (WOpen 0, upd fs t (Some []))
  | WOpen k =>
    match nth_error c k with
    | Some b => (WOpen (S k), upd fs t (option_map (fun p => p ++ [b]) (fs t)))
    | None => (WDone, match fs t with Some p => upd (upd fs f (Some p)) t None | None => fs end)
    end
  | WDone => (WDone, fs)
  end.

(* one step of a writer running the in-place protocol on f *)
Definition inplace_step (f : fname) (c : str) (s : wstate) (fs : files) : wstate * files :=
  match s with
  | WStart => (WOpen 0, upd fs f (Some []))
  | WOpen k =>
    match nth_error c k with
    | Some b => (WOpen (S k), upd fs f (option_map (fun p => p ++ [b]) (fs f)))
    | None => (WDone, fs)
    end
  | WDone => (WDone, fs)
  end.

Fixpoint iter {A} (n : nat) (g : A -> A) (x : A) : A := match n with 0 => x | S n' => iter n' g (g x) end.

(* a single writer stopped after n steps *)
Definition atomic_run (t f : fname) (c : str) (n : nat) (fs : files) : wstate * files :=
  iter n (fun sf => atomic_step t f c (fst sf) (snd sf)) (WStart, fs).
Definition inplace_run (f : fname) (c : str) (n : nat) (fs : files) : wstate * files :=
  iter n (fun sf => inplace_step f c (fst sf) (snd sf)) (WStart, fs).

(* two atomic writers (temps t1 <> t2) under an arbitrary schedule: true = writer 1 moves *)
Record sys := mkSys { s1 : wstate; s2 : wstate; sfs : files }.
Definition sys_step (t1 t2 f : fname) (c1 c2 : str) (x : sys) (who : bool) : sys :=
  if who then let '(s, fs) := atomic_step t1 f c1 (s1 x) (sfs x) in mkSys s (s2 x) fs
  else let '(s, fs) := atomic_step t2 f c2 (s2 x) (sfs x) in mkSys (s1 x) s fs.
Definition sys_run t1 t2 f c1 c2 (sched : list bool) (fs : files) : sys :=
  fold_left (sys_step t1 t2 f c1 c2) sched (mkSys WStart WStart fs).

(* which protocol the source uses today: decided from the regenerated inventory of file
   operations in internal/cache (Gen/Sites.v file_write_sites) *)
Inductive protocol := PInplace | PAtomic | PUnknown.
Definition s_writefile : str := B [105;110;116;101;114;110;97;108;47;99;97;99;104;101;47;99;97;99;104;101;46;103;111;58;87;114;105;116;101;58;32;111;115;46;87;114;105;116;101;70;105;108;101].
Definition s_createtemp : str := B [105;110;116;101;114;110;97;108;47;99;97;99;104;101;47;99;97;99;104;101;46;103;111;58;87;114;105;116;101;58;32;111;115;46;67;114;101;97;116;101;84;101;109;112].
Definition s_rename : str := B [105;110;116;101;114;110;97;108;47;99;97;99;104;101;47;99;97;99;104;101;46;103;111;58;87;114;105;116;101;58;32;111;115;46;82;101;110;97;109;101].
Definition s_pkg_prefix : str := B [112;107;103;47;99;97;99;104;101;47;99;97;99;104;101;46;103;111;58].   (* pkg/cache/cache.go: *)
Definition has_site (s : str) (l : list str) : bool := existsb (str_eqb s) l.
(* atomic iff Write creates a temp file and renames it, nothing writes a file in place, and the
   raw cache (pkg/cache) performs no file operation of its own *)
Definition protocol_of (sites : list str) : protocol :=
  if existsb (fun s => has_prefix s s_pkg_prefix) sites then PUnknown
  else if has_site s_writefile sites then (if has_site s_rename sites then PUnknown else PInplace)
  else if has_site s_createtemp sites && has_site s_rename sites then PAtomic
  else PUnknown.

(* what a reader is handed after a writer with content [new] was stopped after [n] steps,
   target previously holding [old] (None: no entry); None = no entry under the name *)
Definition reader_sees (p : protocol) (old : option str) (new : str) (n : nat) : option str :=
  match p with
  | PAtomic => snd (atomic_run 1 0 new n (upd (fun _ => None) 0 old)) 0
  | _ => snd (inplace_run 0 new n (upd (fun _ => None) 0 old)) 0
  end.
