(* Model/JsonParse.v — the JSON reader of Go's encoding/json as far as ActionImport needs it:
   scanner grammar (checkValid: the whole input must be one valid JSON text), string
   unquoting (escapes, \uXXXX with surrogate pairs, invalid UTF-8 -> U+FFFD), literals,
   numbers (kept as text).  Fuel = input length + 1 at the top; invariant [length s < fuel]: every recursive call consumes
   at least one byte, so running out of fuel cannot happen. *)
From CV Require Import Base.Str Base.Utf8.
Local Open Scope nat_scope.

Inductive jval :=
| JNull | JBool (b : bool) | JNum (s : str) | JStr (s : str)
| JArr (l : list jval) | JObj (l : list (str * jval)).

Definition nb (c : ascii) : nat := nat_of_ascii c.
Definition is_ws (c : ascii) : bool := let n := nb c in (n =? 32) || (n =? 9) || (n =? 10) || (n =? 13).
Fixpoint skip_ws (s : str) : str :=
  match s with
  | c :: s' => if is_ws c then skip_ws s' else s
  | [] => []
  end.

Definition hexval (c : ascii) : option N :=
  let n := nb c in
  if (48 <=? n) && (n <=? 57) then Some (N.of_nat (n - 48))
  else if (97 <=? n) && (n <=? 102) then Some (N.of_nat (n - 87))
  else if (65 <=? n) && (n <=? 70) then Some (N.of_nat (n - 55))
  else None.
Definition hex4 (s : str) : option (N * str) :=
  match s with
  | a :: b :: c :: d :: r =>
    match hexval a, hexval b, hexval c, hexval d with
    | Some x, Some y, Some z, Some w => Some ((x * 4096 + y * 256 + z * 16 + w)%N, r)
    | _, _, _, _ => None
    end
  | _ => None
  end.

Definition is_high (u : N) : bool := in_range 55296 56319 u.
Definition is_low (u : N) : bool := in_range 56320 57343 u.

(* body of a string literal after the opening quote: decoded bytes and the rest *)
Fixpoint pstring (fuel : nat) (s : str) (acc : str) : option (str * str) :=
  match fuel with
  | 0 => None
  | S f =>
    match s with
    | [] => None
    | c :: r =>
      let n := nb c in
      if n =? 34 then Some (acc, r)
      else if n <? 32 then None
      else if n =? 92 then
        match r with
        | e :: r' =>
          let m := nb e in
          if (m =? 34) || (m =? 92) || (m =? 47) then pstring f r' (acc ++ [e])
          else if m =? 98 then pstring f r' (acc ++ [byte 8])
          else if m =? 102 then pstring f r' (acc ++ [byte 12])
          else if m =? 110 then pstring f r' (acc ++ [byte 10])
          else if m =? 114 then pstring f r' (acc ++ [byte 13])
          else if m =? 116 then pstring f r' (acc ++ [byte 9])
          else if m =? 117 then
            match hex4 r' with
            | None => None
            | Some (u, r2) =>
              if is_high u then
                (* a low surrogate escape must follow, else U+FFFD *)
                match r2 with
                | b1 :: b2 :: r3 =>
                  if (nb b1 =? 92) && (nb b2 =? 117) then
                    match hex4 r3 with
                    | Some (u2, r4) =>
                      if is_low u2
                      then pstring f r4 (acc ++ encode_rune (65536 + (u - 55296) * 1024 + (u2 - 56320))%N)
                      else pstring f r2 (acc ++ encode_rune RuneError)
                    | None => pstring f r2 (acc ++ encode_rune RuneError)   (* the scanner rejects it later *)
                    end
                  else pstring f r2 (acc ++ encode_rune RuneError)
                | _ => pstring f r2 (acc ++ encode_rune RuneError)
                end
              else if is_low u then pstring f r2 (acc ++ encode_rune RuneError)
              else pstring f r2 (acc ++ encode_rune u)
            end
          else None
        | [] => None
        end
      else
        match decode1 s with
        | Some (rn, bs, rest) =>
          match bs with
          | [_] => if n <? 128 then pstring f rest (acc ++ bs) else pstring f rest (acc ++ encode_rune RuneError)
          | _ => pstring f rest (acc ++ bs)
          end
        | None => None
        end
    end
  end.

Definition is_digit (c : ascii) : bool := let n := nb c in (48 <=? n) && (n <=? 57).
Fixpoint take_digits (s : str) : str * str :=
  match s with
  | c :: r => if is_digit c then let '(d, r') := take_digits r in (c :: d, r') else ([], s)
  | [] => ([], [])
  end.
(* number grammar: optional minus, then 0 or a non-zero digit followed by digits, optional fraction, optional exponent *)
Definition pnumber (s : str) : option (str * str) :=
  let '(sign, s1) := match s with c :: r => if nb c =? 45 then ([c], r) else ([], s) | [] => ([], s) end in
  match s1 with
  | c :: r =>
    let int_part :=
      if nb c =? 48 then Some ([c], r)
      else if is_digit c then let '(d, r') := take_digits r in Some (c :: d, r')
      else None in
    match int_part with
    | None => None
    | Some (ip, s2) =>
      let frac :=
        match s2 with
        | d :: r2 => if nb d =? 46 then
                       match take_digits r2 with
                       | ([], _) => None
                       | (ds, r3) => Some (d :: ds, r3)
                       end
                     else Some ([], s2)
        | [] => Some ([], s2)
        end in
      match frac with
      | None => None
      | Some (fp, s3) =>
        let expo :=
          match s3 with
          | e :: r3 =>
            if (nb e =? 101) || (nb e =? 69) then
              let '(sg, r4) := match r3 with c2 :: r5 => if (nb c2 =? 43) || (nb c2 =? 45) then ([c2], r5) else ([], r3) | [] => ([], r3) end in
              match take_digits r4 with
              | ([], _) => None
              | (ds, r6) => Some (e :: sg ++ ds, r6)
              end
            else Some ([], s3)
          | [] => Some ([], s3)
          end in
        match expo with
        | None => None
        | Some (ep, s4) => Some (sign ++ ip ++ fp ++ ep, s4)
        end
      end
    end
  | [] => None
  end.

Definition lit_true : str := B [116;114;117;101].
Definition lit_false : str := B [102;97;108;115;101].
Definition lit_null : str := B [110;117;108;108].

(* value / array elements / object members: mutually recursive on one fuel.  Invariant
   [2 * length s + 2 <= fuel] on entry of pvalue: every step either consumes a byte or passes from an
   elements / members loop to the value at the same position, so the fuel cannot run out. *)
Fixpoint pvalue (fuel : nat) (s : str) : option (jval * str) :=
  match fuel with
  | 0 => None
  | S f =>
    match skip_ws s with
    | [] => None
    | c :: r =>
      let n := nb c in
      if n =? 123 then
        match skip_ws r with
        | d :: r' => if nb d =? 125 then Some (JObj [], r')
                     else match pmembers f r [] with Some (ms, r2) => Some (JObj ms, r2) | None => None end
        | [] => None
        end
      else if n =? 91 then
        match skip_ws r with
        | d :: r' => if nb d =? 93 then Some (JArr [], r')
                     else match pelems f r [] with Some (vs, r2) => Some (JArr vs, r2) | None => None end
        | [] => None
        end
      else if n =? 34 then
        match pstring (S f) r [] with
        | Some (x, r') => Some (JStr x, r')
        | None => None
        end
      else if has_prefix (c :: r) lit_true then Some (JBool true, drop 4 (c :: r))
      else if has_prefix (c :: r) lit_false then Some (JBool false, drop 5 (c :: r))
      else if has_prefix (c :: r) lit_null then Some (JNull, drop 4 (c :: r))
      else match pnumber (c :: r) with
           | Some (x, r') => Some (JNum x, r')
           | None => None
           end
    end
  end
with pelems (fuel : nat) (s : str) (acc : list jval) : option (list jval * str) :=
  match fuel with
  | 0 => None
  | S f =>
    match pvalue f s with
    | Some (v, r) =>
      match skip_ws r with
      | c :: r' => if nb c =? 44 then pelems f r' (v :: acc)
                   else if nb c =? 93 then Some (rev (v :: acc), r')
                   else None
      | [] => None
      end
    | None => None
    end
  end
with pmembers (fuel : nat) (s : str) (acc : list (str * jval)) : option (list (str * jval) * str) :=
  match fuel with
  | 0 => None
  | S f =>
    match skip_ws s with
    | q :: r0 =>
      if nb q =? 34 then
        match pstring (S f) r0 [] with
        | Some (key, r1) =>
          match skip_ws r1 with
          | c :: r2 =>
            if nb c =? 58 then
              match pvalue f r2 with
              | Some (v, r3) =>
                match skip_ws r3 with
                | d :: r4 => if nb d =? 44 then pmembers f r4 ((key, v) :: acc)
                             else if nb d =? 125 then Some (rev ((key, v) :: acc), r4)
                             else None
                | [] => None
                end
              | None => None
              end
            else None
          | [] => None
          end
        | None => None
        end
      else None
    | [] => None
    end
  end.

(* a complete JSON text: one value, surrounded by white space only *)
Definition jparse (s : str) : option jval :=
  match pvalue (2 * length s + 2) s with
  | Some (v, r) => match skip_ws r with [] => Some v | _ => None end
  | None => None
  end.
