(* Model/MultiParts.v — invokedAction.go: tokenize (91-105), ToMultiPartsA (111-161).
   Mirrors the Go code: strings.SplitAfter (genSplit / explode), the recursive tokenizer,
   the map keyed by the cut value (later entries overwrite), the no-space additions. *)
From CV Require Import Base.Str Base.Utf8 Model.Common.
Local Open Scope nat_scope.

(* strings.Index(s, d) for a non-empty d: first position at which d is a prefix *)
Fixpoint index (s d : str) : option nat :=
  if has_prefix s d then Some 0
  else match s with
       | [] => None
       | _ :: s' => option_map S (index s' d)
       end.

(* strings.SplitAfter(s, d), d <> "": genSplit(s, sep, len(sep), -1) *)
Fixpoint split_after_f (fuel : nat) (s d : str) : list str :=
  match fuel with
  | 0 => [s]
  | S f => match index s d with
           | None => [s]
           | Some i => take (i + length d) s :: split_after_f f (drop (i + length d) s) d
           end
  end.

(* d = "": explode(s, -1) — one element per UTF-8 sequence (invalid bytes alone), [] for "" *)
Definition split_after (s d : str) : list str :=
  match d with
  | [] => map snd (chunks s)
  | _ => split_after_f (length s) s d
  end.

Fixpoint append_last (l : list str) (d : str) : list str :=
  match l with
  | [] => []
  | [x] => [x ++ d]
  | x :: l' => x :: append_last l' d
  end.

Fixpoint tokenize (ds : list str) (s : str) : list str :=
  match ds with
  | [] => [s]
  | d :: ds' =>
      flat_map (fun word =>
                  let toks := tokenize ds' (trim_suffix word d) in
                  if has_suffix word d then append_last toks d else toks)
               (split_after s d)
  end.

(* the uniqueVals map: association list, a later store with the same key replaces *)
Fixpoint store (k : str) (r : raw) (m : list (str * raw)) : list (str * raw) :=
  match m with
  | [] => [(k, r)]
  | (k', r') :: m' => if str_eqb k k' then (k, r) :: m' else (k', r') :: store k r m'
  end.

Definition last_str (l : list str) : option str :=
  match rev l with [] => None | x :: _ => Some x end.

(* one loop iteration; None = index out of range panic (splitted[len(splittedCV)-1] with len = 0) *)
Definition mp_step (ci : bool) (ds : list str) (cv : str) (ncv : nat) (acc : option (list (str * raw))) (val : raw)
  : option (list (str * raw)) :=
  match acc with
  | None => None
  | Some m =>
    if match_has_prefix ci (value val) cv then
      let splitted := tokenize ds (value val) in
      if ncv <=? length splitted then
        match ncv with
        | 0 => None
        | S k =>
          let v := concat (firstn ncv splitted) in
          match nth_error splitted k with
          | None => None
          | Some d =>
            if length splitted =? ncv
            then Some (store v (mkRaw v d (description val) (style val) (tag val) (uid val) (rstyle val)) m)
            else Some (store v (mkRaw v d [] [] (tag val) (uid val) []) m)
          end
        end
      else Some m
    else Some m
  end.

Definition last_rune (d : str) : option N :=
  match rev (runes d) with [] => None | r :: _ => Some r end.

(* the no-space loop: Add('*') and stop at the first empty divider *)
Fixpoint mp_nospace (sm : str) (ds : list str) : str :=
  match ds with
  | [] => sm
  | d :: ds' => match last_rune d with
                | None => sm_add sm [star]
                | Some r => mp_nospace (sm_add sm [r]) ds'
                end
  end.

Definition to_multiparts (ci : bool) (ds : list str) (vals : list raw) (cv : str) : option (list raw * str) :=
  let ncv := length (tokenize ds cv) in
  match fold_left (mp_step ci ds cv ncv) vals (Some []) with
  | None => None
  | Some m => Some (isort_by (fun a b => str_ltb (value a) (value b)) (map snd m), mp_nospace [] ds)     (* sort.Sort(ByValue): map order does not leak *)
  end.
