(* Model/Pflag.v — the program's own flag parser (carapace-pflag v1.0.0 parseArgs / parseLongArg /
   parseSingleShortArg, posix mode) and carapace's traverse (traverse.go) for ONE command.
   Typed words: `--name`, `--name=value`, `--`, posix shorthand words (`-s`, chains `-abc`, `-svalue`,
   `-s=value`), words not starting with a dash.  The word under the cursor: long form or plain
   (a shorthand chain under the cursor, nargs, custom delimiters, non-posix mode and sub-command
   descent are exercised by the harness — real traverse against real cobra — not in this model). *)
From CV Require Import Base.Str.
Local Open Scope nat_scope.

Inductive kind := KBool | KCount | KStr | KList | KOpt.
Record flag := mkFlag { fname : str; fkind : kind; fshort : str }.     (* shorthand: one byte, or empty *)
(* NoOptDefVal <> "": bool, count and optional-argument flags never take the next word *)
Definition takes_next (f : flag) : bool := match fkind f with KStr | KList => true | _ => false end.

Definition dash2 : str := B [45;45].
Definition starts_dash (w : str) : bool := match w with c :: _ => beq c (byte 45) | [] => false end.
(* a word of the fragment that is neither `--` nor a flag: "", "x", but not "-" *)
Definition plain (w : str) : bool := negb (starts_dash w).

Fixpoint find_flag (fs : list flag) (n : str) : option flag :=
  match fs with
  | [] => None
  | f :: fs' => if str_eqb (fname f) n then Some f else find_flag fs' n
  end.

(* `--name` or `--name=value`: name and optional attached value *)
Fixpoint cut_eq (s : str) : str * option str :=
  match s with
  | [] => ([], None)
  | c :: s' => if beq c (byte 61) then ([], Some s')
               else let '(n, v) := cut_eq s' in (c :: n, v)
  end.
Definition long_parts (w : str) : str * option str := cut_eq (drop 2 w).

(* ---------- pflag: FlagSet.Parse ---------- *)
Record pstate := mkP { p_args : list str; p_dash : option nat; p_sets : list (str * str); p_stopped : bool }.
Definition p0 : pstate := mkP [] None [] false.

Inductive presult := POk (s : pstate) | PErr.

(* value for a flag given without one *)
Definition noopt (f : flag) : str := match fkind f with KBool => B [116;114;117;101] | KCount => B [43;49] | _ => B [32] end.

(* ---------- a posix shorthand word `-abc...` ---------- *)
Definition find_short (fs : list flag) (c : ascii) : option flag := find (fun f => str_eqb (fshort f) [c]) fs.
(* parseSingleShortArg repeated over the letters: the flags set by the word and, if its last
   letter takes a value that is not attached, the flag left waiting for the next word *)
Fixpoint chain (fs : list flag) (letters : str) : option (list (str * str) * option flag) :=
  match letters with
  | [] => Some ([], None)
  | c :: ls =>
    match find_short fs c with
    | None => None                                                    (* unknown shorthand *)
    | Some f =>
      match ls with
      | e :: v => if beq e (byte 61) && negb (match v with [] => true | _ => false end)
                  then Some ([(fname f, v)], None)                    (* -f=arg *)
                  else if takes_next f then Some ([(fname f, ls)], None)     (* -farg *)
                  else match chain fs ls with                         (* arg was optional: go on with the next letter *)
                       | Some (sets, pend) => Some ((fname f, noopt f) :: sets, pend)
                       | None => None
                       end
      | [] => if takes_next f then Some ([], Some f) else Some ([(fname f, noopt f)], None)
      end
    end
  end.
Definition is_short_word (w : str) : bool :=
  match w with
  | c :: d :: _ => beq c (byte 45) && negb (beq d (byte 45))
  | _ => false
  end.

Fixpoint pf_parse (fs : list flag) (interspersed : bool) (ws : list str) (st : pstate) : presult :=
  match ws with
  | [] => POk st
  | w :: rest =>
    if p_stopped st then pf_parse fs interspersed rest (mkP (p_args st ++ [w]) (p_dash st) (p_sets st) true)
    else if str_eqb w dash2 then
      pf_parse fs interspersed rest (mkP (p_args st) (Some (length (p_args st))) (p_sets st) true)
    else if negb (starts_dash w) || str_eqb w (B [45]) then
      pf_parse fs interspersed rest (mkP (p_args st ++ [w]) (p_dash st) (p_sets st) (negb interspersed))
    else if negb (has_prefix w dash2) then
      match chain fs (drop 1 w) with
      | None => PErr
      | Some (sets, None) => pf_parse fs interspersed rest (mkP (p_args st) (p_dash st) (p_sets st ++ sets) false)
      | Some (sets, Some f) =>
        match rest with
        | x :: rest' => pf_parse fs interspersed rest' (mkP (p_args st) (p_dash st) (p_sets st ++ sets ++ [(fname f, x)]) false)
        | [] => PErr
        end
      end
    else
      let '(n, v) := long_parts w in
      match n with
      | [] => PErr                                                    (* bad flag syntax *)
      | c :: _ =>
        if beq c (byte 45) then PErr
        else match find_flag fs n with
             | None => PErr                                           (* unknown flag *)
             | Some f =>
               match v with
               | Some x => pf_parse fs interspersed rest (mkP (p_args st) (p_dash st) (p_sets st ++ [(n, x)]) false)
               | None =>
                 if takes_next f then
                   match rest with
                   | x :: rest' => pf_parse fs interspersed rest' (mkP (p_args st) (p_dash st) (p_sets st ++ [(n, x)]) false)
                   | [] => PErr                                       (* flag needs an argument *)
                   end
                 else pf_parse fs interspersed rest (mkP (p_args st) (p_dash st) (p_sets st ++ [(n, noopt f)]) false)
               end
             end
      end
  end.
Definition parse (fs : list flag) (il : bool) (ws : list str) : presult := pf_parse fs il ws p0.

(* ---------- carapace: traverse ---------- *)
(* LookupArg for `--name[=v]`: the flag, the prefix to put in front of candidates, the attached value *)
Definition lookup_arg (fs : list flag) (w : str) : option (flag * str * option str) :=
  if has_prefix w dash2 then
    let '(n, v) := long_parts w in
    match find_flag fs n with
    | Some f => Some (f, match v with Some _ => dash2 ++ n ++ B [61] | None => w end, v)
    | None => None
    end
  else None.

(* lookupPosixShorthandArg: the flag a shorthand word ends in, and whether it already carries a value *)
Fixpoint lookup_short_letters (fs : list flag) (letters : str) : option (flag * bool) :=
  match letters with
  | [] => None
  | c :: ls =>
    match find_short fs c with
    | None => None
    | Some f =>
      match ls with
      | [] => Some (f, false)                                          (* the last letter: no value yet *)
      | e :: _ => if beq e (byte 61) then Some (f, true)               (* -f=... *)
                  else if takes_next f then Some (f, true)             (* -farg *)
                  else lookup_short_letters fs ls
      end
    end
  end.
(* the flag left waiting for its argument after the typed word w *)
Definition pending_after (fs : list flag) (w : str) : option flag :=
  if has_prefix w dash2 then
    match lookup_arg fs w with
    | Some (f, _, None) => if takes_next f then Some f else None
    | _ => None
    end
  else match lookup_short_letters fs (drop 1 w) with
       | Some (f, false) => if takes_next f then Some f else None
       | _ => None
       end.

(* the running classification: words consumed, positionals seen, a flag still waiting for its argument *)
Record tstate := mkT { t_inargs : list str; t_npos : nat; t_inflag : option flag; t_dash : bool }.
Definition t0 : tstate := mkT [] 0 None false.

Fixpoint t_loop (fs : list flag) (il : bool) (ws : list str) (st : tstate) : tstate :=
  match ws with
  | [] => st
  | w :: rest =>
    if t_dash st then mkT (t_inargs st ++ w :: rest) (t_npos st) None true
    else match t_inflag st with
    | Some f => t_loop fs il rest (mkT (t_inargs st ++ [w]) (t_npos st) None false)          (* flag argument *)
    | None =>
      if str_eqb w dash2 then mkT (t_inargs st ++ w :: rest) (t_npos st) None true            (* dash *)
      else if starts_dash w && negb (str_eqb w (B [45])) && (il || Nat.eqb (t_npos st) 0) then   (* flag; a lone dash is a positional *)
        let pending := pending_after fs w in
        t_loop fs il rest (mkT (t_inargs st ++ [w]) (t_npos st) pending false)
      else t_loop fs il rest (mkT (t_inargs st ++ [w]) (S (t_npos st)) None false)            (* positional *)
    end
  end.

Inductive slot :=
| SFlagValue (f : str) (prefix : str)     (* the completion registered for flag f, candidates prefixed *)
| SBoolValue (prefix : str)               (* true / false for `--bool=` *)
| SPositional (i : nat)
| SDash (i : nat)
| SFlagNames
| SMessage.

(* the choice of the action once the typed words are classified *)
Definition finish (fs : list flag) (il : bool) (st : tstate) (cur : str) : slot :=
  let to_parse := match t_inflag st with Some _ => removelast (t_inargs st) | None => t_inargs st end in
  match parse fs il to_parse with
  | PErr => SMessage
  | POk p =>
    match p_dash p with
    | Some d => SDash (length (p_args p) - d)
    | None =>
      match t_inflag st with
      | Some f => SFlagValue (fname f) []
      | None =>
        if starts_dash cur && (il || Nat.eqb (t_npos st) 0) then
          match lookup_arg fs cur with
          | Some (f, prefix, Some _) => match fkind f with KBool => SBoolValue prefix | _ => SFlagValue (fname f) prefix end
          | _ => SFlagNames
          end
        else SPositional (length (p_args p))
      end
    end
  end.
Definition traverse (fs : list flag) (il : bool) (ws : list str) (cur : str) : slot :=
  finish fs il (t_loop fs il ws t0) cur.
