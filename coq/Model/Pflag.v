(* Model/Pflag.v — the program's own flag parser (carapace-pflag v1.0.0 parseArgs / parseLongArg,
   posix mode, long-form flags) and carapace's traverse (traverse.go) for ONE command, on the
   long-form fragment: words are `--name`, `--name=value`, `--`, or do not start with a dash.
   Shorthands, chains, nargs, custom delimiters, sub-command descent: exercised by the harness
   (real traverse against real cobra), not in this model. *)
From CV Require Import Base.Str.
Local Open Scope nat_scope.

Inductive kind := KBool | KCount | KStr | KList | KOpt.
Record flag := mkFlag { fname : str; fkind : kind }.
(* NoOptDefVal <> "": bool, count and optional-argument flags never take the next word *)
Definition takes_next (f : flag) : bool := match fkind f with KStr | KList => true | _ => false end.

Definition dash2 : str := B [45;45].
Definition starts_dash (w : str) : bool := match w with c :: _ => beq c (byte 45) | [] => false end.
(* a word of the fragment that is neither `--` nor a flag: "", "x", but not "-" *)
Definition plain (w : str) : bool := negb (starts_dash w).

Fixpoint find_flag (fs : list flag) (n : str) : option flag :=
  match fs with
  | [] => None
  | f :: fs' => if str_eqb (fname f) n then Some f else find_flag fs' n
  end.

(* `--name` or `--name=value`: name and optional attached value *)
Fixpoint cut_eq (s : str) : str * option str :=
  match s with
  | [] => ([], None)
  | c :: s' => if beq c (byte 61) then ([], Some s')
               else let '(n, v) := cut_eq s' in (c :: n, v)
  end.
Definition long_parts (w : str) : str * option str := cut_eq (drop 2 w).

(* ---------- pflag: FlagSet.Parse ---------- *)
Record pstate := mkP { p_args : list str; p_dash : option nat; p_sets : list (str * str); p_stopped : bool }.
Definition p0 : pstate := mkP [] None [] false.

Inductive presult := POk (s : pstate) | PErr.

(* value for a flag given without one *)
Definition noopt (f : flag) : str := match fkind f with KBool => B [116;114;117;101] | KCount => B [43;49] | _ => B [32] end.

Fixpoint pf_parse (fs : list flag) (interspersed : bool) (ws : list str) (st : pstate) : presult :=
  match ws with
  | [] => POk st
  | w :: rest =>
    if p_stopped st then pf_parse fs interspersed rest (mkP (p_args st ++ [w]) (p_dash st) (p_sets st) true)
    else if str_eqb w dash2 then
      pf_parse fs interspersed rest (mkP (p_args st) (Some (length (p_args st))) (p_sets st) true)
    else if negb (starts_dash w) || str_eqb w (B [45]) then
      pf_parse fs interspersed rest (mkP (p_args st ++ [w]) (p_dash st) (p_sets st) (negb interspersed))
    else if negb (has_prefix w dash2) then PErr                      (* shorthand: outside the fragment *)
    else
      let '(n, v) := long_parts w in
      match n with
      | [] => PErr                                                    (* bad flag syntax *)
      | c :: _ =>
        if beq c (byte 45) then PErr
        else match find_flag fs n with
             | None => PErr                                           (* unknown flag *)
             | Some f =>
               match v with
               | Some x => pf_parse fs interspersed rest (mkP (p_args st) (p_dash st) (p_sets st ++ [(n, x)]) false)
               | None =>
                 if takes_next f then
                   match rest with
                   | x :: rest' => pf_parse fs interspersed rest' (mkP (p_args st) (p_dash st) (p_sets st ++ [(n, x)]) false)
                   | [] => PErr                                       (* flag needs an argument *)
                   end
                 else pf_parse fs interspersed rest (mkP (p_args st) (p_dash st) (p_sets st ++ [(n, noopt f)]) false)
               end
             end
      end
  end.
Definition parse (fs : list flag) (il : bool) (ws : list str) : presult := pf_parse fs il ws p0.

(* ---------- carapace: traverse ---------- *)
(* LookupArg for `--name[=v]`: the flag, the prefix to put in front of candidates, the attached value *)
Definition lookup_arg (fs : list flag) (w : str) : option (flag * str * option str) :=
  if has_prefix w dash2 then
    let '(n, v) := long_parts w in
    match find_flag fs n with
    | Some f => Some (f, match v with Some _ => dash2 ++ n ++ B [61] | None => w end, v)
    | None => None
    end
  else None.

(* the running classification: words consumed, positionals seen, a flag still waiting for its argument *)
Record tstate := mkT { t_inargs : list str; t_npos : nat; t_inflag : option flag; t_dash : bool }.
Definition t0 : tstate := mkT [] 0 None false.

Fixpoint t_loop (fs : list flag) (il : bool) (ws : list str) (st : tstate) : tstate :=
  match ws with
  | [] => st
  | w :: rest =>
    if t_dash st then mkT (t_inargs st ++ w :: rest) (t_npos st) None true
    else match t_inflag st with
    | Some f => t_loop fs il rest (mkT (t_inargs st ++ [w]) (t_npos st) None false)          (* flag argument *)
    | None =>
      if str_eqb w dash2 then mkT (t_inargs st ++ w :: rest) (t_npos st) None true            (* dash *)
      else if starts_dash w && (il || Nat.eqb (t_npos st) 0) then                             (* flag *)
        let pending := match lookup_arg fs w with
                       | Some (f, _, None) => if takes_next f then Some f else None
                       | _ => None
                       end in
        t_loop fs il rest (mkT (t_inargs st ++ [w]) (t_npos st) pending false)
      else t_loop fs il rest (mkT (t_inargs st ++ [w]) (S (t_npos st)) None false)            (* positional *)
    end
  end.

Inductive slot :=
| SFlagValue (f : str) (prefix : str)     (* the completion registered for flag f, candidates prefixed *)
| SBoolValue (prefix : str)               (* true / false for `--bool=` *)
| SPositional (i : nat)
| SDash (i : nat)
| SFlagNames
| SMessage.

Definition traverse (fs : list flag) (il : bool) (ws : list str) (cur : str) : slot :=
  let st := t_loop fs il ws t0 in
  let to_parse := match t_inflag st with Some _ => removelast (t_inargs st) | None => t_inargs st end in
  match parse fs il to_parse with
  | PErr => SMessage
  | POk p =>
    match p_dash p with
    | Some d => SDash (length (p_args p) - d)
    | None =>
      match t_inflag st with
      | Some f => SFlagValue (fname f) []
      | None =>
        if starts_dash cur && (il || Nat.eqb (t_npos st) 0) then
          match lookup_arg fs cur with
          | Some (f, prefix, Some _) => match fkind f with KBool => SBoolValue prefix | _ => SFlagValue (fname f) prefix end
          | _ => SFlagNames
          end
        else SPositional (length (p_args p))
      end
    end
  end.
