(* Model/Registry.v — storage.get (storage.go): the lookup-or-create of the completion registry, as
   run by any number of goroutines (the members of a Batch reaching a command for the first time).
   Atomic steps, as the mutex makes them: (1) the read under RLock; (2) the critical section under
   Lock.  [checked] = the section looks the entry up again before creating one (the source as it is). *)
From CV Require Import Base.Str.
Local Open Scope nat_scope.

Inductive pc := Start | Missed | Got (e : nat).
Record reg := mkReg { slot : option nat; fresh : nat; pcs : list pc }.

Fixpoint upd (l : list pc) (i : nat) (p : pc) : list pc :=
  match l, i with
  | [], _ => []
  | _ :: l', 0 => p :: l'
  | x :: l', S i' => x :: upd l' i' p
  end.

Definition step (checked : bool) (r : reg) (i : nat) : reg :=
  match nth_error (pcs r) i with
  | Some Start =>
    match slot r with
    | Some e => mkReg (slot r) (fresh r) (upd (pcs r) i (Got e))
    | None => mkReg (slot r) (fresh r) (upd (pcs r) i Missed)
    end
  | Some Missed =>
    match (if checked then slot r else None) with
    | Some e => mkReg (slot r) (fresh r) (upd (pcs r) i (Got e))
    | None => mkReg (Some (fresh r)) (S (fresh r)) (upd (pcs r) i (Got (fresh r)))
    end
  | _ => r
  end.
Definition run (checked : bool) (sched : list nat) (r : reg) : reg := fold_left (step checked) sched r.
Definition init (n : nat) : reg := mkReg None 0 (repeat Start n).
