(* Model/ShellValue.v — internal/shell.Value (shell.go:61-117): decolor, filter, integrate,
   no-space forcing, sort, clear uid, dispatch to the formatter; and the runner that
   evaluates it on a case given as a flat list of byte strings. *)
From CV Require Import Base.Str Base.Utf8 Base.Json Gen.Tables Model.Common Model.Shells.
Local Open Scope nat_scope.

Record venv := mkVenv {
  unfiltered : bool; ci : bool; nocolor : bool;
  env_nospace : str;
  estyle : str; erstyle : str; dstyle : str; drstyle : str;
  fe : fenv
}.

Definition s_bash := B [98;97;115;104].
Definition s_bash_ble := B [98;97;115;104;45;98;108;101].
Definition s_cmd_clink := B [99;109;100;45;99;108;105;110;107].
Definition s_elvish := B [101;108;118;105;115;104].
Definition s_export := B [101;120;112;111;114;116].
Definition s_fish := B [102;105;115;104].
Definition s_ion := B [105;111;110].
Definition s_nushell := B [110;117;115;104;101;108;108].
Definition s_oil := B [111;105;108].
Definition s_powershell := B [112;111;119;101;114;115;104;101;108;108].
Definition s_tcsh := B [116;99;115;104].
Definition s_xonsh := B [120;111;110;115;104].
Definition s_zsh := B [122;115;104].
Definition known_shells : list str :=
  [s_bash; s_bash_ble; s_cmd_clink; s_elvish; s_export; s_fish; s_ion; s_nushell; s_oil;
   s_powershell; s_tcsh; s_xonsh; s_zsh].

Definition in_strs (s : str) (l : list str) : bool := existsb (str_eqb s) l.

Definition decolor (vs : list raw) : list raw :=
  map (fun r => mkRaw (value r) (display r) (description r) [] (tag r) (uid r) (rstyle r)) vs.

(* the stages of Value before the formatter; exposed separately for the theorems *)
Definition stage_filter (e : venv) (word : str) (vs : list raw) : list raw :=
  let vs := if nocolor e then decolor vs else vs in
  if unfiltered e then vs else filter_prefix (ci e) vs word.

Definition has_channel (shell : str) : bool := in_strs shell shell_Value_case1.

Definition stage_integrate (e : venv) (shell word : str) (m : meta) (vs : list raw) : list raw :=
  if has_channel shell then vs
  else integrate (messages m) vs word (estyle e) (erstyle e) (dstyle e) (drstyle e).

Definition stage_nospace (e : venv) (shell : str) (m : meta) : str :=
  if str_eqb shell s_export then nospace m
  else match messages m with
       | _ :: _ => sm_add (nospace m) [star]
       | [] => match env_nospace e with
               | [] => nospace m
               | ns => sm_add (nospace m) (runes ns)
               end
       end.

Definition stage_values (e : venv) (shell word : str) (m : meta) (vs : list raw) : list raw :=
  map (fun r => set_uid r [])
      (sort_by_display (stage_integrate e shell word m (stage_filter e word vs))).

Definition format (e : venv) (shell word : str) (m : meta) (vs : list raw) : str :=
  if str_eqb shell s_bash then bash_format (ci e) (fe e) word m vs
  else if str_eqb shell s_bash_ble then bash_ble_format m vs
  else if str_eqb shell s_cmd_clink then cmd_clink_format m vs
  else if str_eqb shell s_elvish then elvish_format (fe e) m vs
  else if str_eqb shell s_export then export_format (fe e) m vs
  else if str_eqb shell s_fish then fish_format vs
  else if str_eqb shell s_ion then ion_format m vs
  else if str_eqb shell s_nushell then nushell_format m vs
  else if str_eqb shell s_oil then oil_format m vs
  else if str_eqb shell s_powershell then powershell_format (fe e) m vs
  else if str_eqb shell s_tcsh then tcsh_format (fe e) word vs
  else if str_eqb shell s_xonsh then xonsh_format m vs
  else if str_eqb shell s_zsh then zsh_format (fe e) m vs
  else [].

Definition Value (e : venv) (shell word : str) (m : meta) (vs : list raw) : str :=
  if in_strs shell known_shells then
    let m' := mkMeta (messages m) (stage_nospace e shell m) (usage m) in
    format e shell word m' (stage_values e shell word m vs)
  else [].

(* ---------- runner: a case as a flat list of fields ---------- *)
Fixpoint take_raws (n : nat) (l : list str) : option (list raw * list str) :=
  match n with
  | O => Some ([], l)
  | S n' => match l with
            | v :: d :: de :: st :: t :: u :: rs :: l' =>
                match take_raws n' l' with
                | Some (rs', rest) => Some (mkRaw v d de st t u rs :: rs', rest)
                | None => None
                end
            | _ => None
            end
  end.
Fixpoint take_strs (n : nat) (l : list str) : option (list str * list str) :=
  match n with
  | O => Some ([], l)
  | S n' => match l with
            | x :: l' => match take_strs n' l' with
                         | Some (xs, rest) => Some (x :: xs, rest)
                         | None => None
                         end
            | [] => None
            end
  end.
Definition flag (c : nat) (s : str) : bool := mem (byte c) s.
Definition opt_str (present s : str) : option str :=
  if str_eqb present (B [49]) then Some s else None.

Definition bad : list str := [B [66;65;68;67;65;83;69]].

Record vcase := mkVcase { vc_env : venv; vc_shell : str; vc_word : str; vc_meta : meta; vc_values : list raw }.

Definition parse_value_case (c : list str) : option vcase :=
  match c with
  | shell :: word :: flags :: envns :: wbp_ :: wbpres :: wb :: zpres :: zraw :: hd :: g1_ :: g2_ :: g3_ :: g4_ ::
    ver :: es :: ers :: ds :: drs :: mns :: mus :: nm :: rest =>
      match undec nm with
      | None => None
      | Some nmsgs =>
        match take_strs nmsgs rest with
        | None => None
        | Some (msgs, rest2) =>
          match rest2 with
          | nv :: rest3 =>
            match undec nv with
            | None => None
            | Some nvals =>
              match take_raws nvals rest3 with
              | Some (vals, []) =>
                let f := mkFenv wbp_ (flag 76 flags) (opt_str wbpres wb) (opt_str zpres zraw) hd (flag 84 flags)
                                g1_ g2_ g3_ g4_ ver in
                let e := mkVenv (flag 85 flags) (flag 73 flags) (flag 67 flags) envns es ers ds drs f in
                Some (mkVcase e shell word (mkMeta msgs mns mus) vals)
              | _ => None
              end
            end
          | [] => None
          end
        end
      end
  | _ => None
  end.

Definition run_value (c : list str) : list str :=
  match parse_value_case c with
  | Some vc => [Value (vc_env vc) (vc_shell vc) (vc_word vc) (vc_meta vc) (vc_values vc)]
  | None => bad
  end.
