(* Model/Shells.v — the thirteen ActionRawValues formatters (internal/shell/*/action.go),
   parametrised by the tables regenerated from the source (Gen/Tables.v). *)
From CV Require Import Base.Str Base.Utf8 Base.Json Gen.Tables Model.Common.
Local Open Scope nat_scope.

(* what the formatters read besides their three arguments *)
Record fenv := mkFenv {
  wbp : str;                 (* bash: wordbreakPrefix (set by Patch) *)
  list_mode : bool;          (* bash: compType == "63" *)
  comp_wordbreaks : option str; (* os.LookupEnv("COMP_WORDBREAKS") at format time *)
  zsh_raw : option str;      (* zsh: CurrentToken().RawValue of CARAPACE_COMPLINE, None on lexer error *)
  zsh_hashdirs : str;        (* CARAPACE_ZSH_HASH_DIRS *)
  tooltip : bool;            (* powershell: CARAPACE_TOOLTIP *)
  g1 : str; g2 : str; g3 : str; g4 : str;  (* observed style renderings, see DESIGN 6.4 *)
  version : str              (* export: version() *)
}.

Definition nl : str := B [10].
Definition tab : str := B [9].

(* generic strings.NewReplacer for multi-byte keys: leftmost position, first pair in
   argument order whose (non-empty) key matches there *)
Fixpoint find_pair (t : list (str * str)) (s : str) : option (str * str) :=
  match t with
  | [] => None
  | (k, v) :: t' => match k with
                    | [] => find_pair t' s
                    | _ => if has_prefix s k then Some (k, v) else find_pair t' s
                    end
  end.
Fixpoint replace_fuel (fuel : nat) (t : list (str * str)) (s : str) : str :=
  match fuel with
  | O => s
  | S f => match s with
           | [] => []
           | c :: s' => match find_pair t s with
                        | Some (k, v) => v ++ replace_fuel f t (drop (length k) s)
                        | None => c :: replace_fuel f t s'
                        end
           end
  end.
Definition replace_pairs (t : list (str * str)) (s : str) : str := replace_fuel (S (length s)) t s.

(* ---------- common prefix helpers (bash, tcsh) ---------- *)
Fixpoint common_prefix (a b : str) : str :=
  match a, b with
  | x :: a', y :: b' => if beq x y then x :: common_prefix a' b' else []
  | _, _ => []
  end.
Definition common_prefix_of (f : raw -> str) (vs : list raw) : str :=
  match vs with
  | [] => []
  | v :: vs' => fold_left (fun p x => common_prefix p (f x)) vs' (f v)
  end.
Definition raw_from (s : str) (drstyle : str) : raw := mkRaw s s [] [] [] [] drstyle.

(* ---------- bash ---------- *)
Definition bash_requires_quoting (wb : option str) (s : str) : bool :=
  contains_any s (bash_requiresQuoting_chars ++
                  (if bash_requiresQuoting_uses_wordbreaks then match wb with Some w => w | None => [] end else [])).

Definition bash_quote (wb : option str) (v : str) : str :=
  let s := replace1 bash_sanitizer v in
  if has_prefix s (B [126]) then replace1 bash_escapingReplacer s
  else if bash_requires_quoting wb s then B [34] ++ replace1 bash_escapingQuotedReplacer s ++ B [34]
  else s.

Definition bash_list_line (val : raw) : str :=
  let d := replace_pairs bash_displayReplacer_pairs (replace1 bash_sanitizer (display val)) in
  let desc := replace_pairs bash_displayReplacer_pairs (description val) in
  match desc with
  | [] => d
  | _ => d ++ B [32;40] ++ replace1 bash_sanitizer (trimmed_description desc) ++ B [41]
  end.

(* match.TrimPrefix: under CARAPACE_MATCH=1 the prefix is matched case-insensitively *)
Definition match_trim (ci : bool) (s p : str) : str := if match_has_prefix ci s p then drop (length p) s else s.
Definition bash_format (ci : bool) (e : fenv) (word : str) (m : meta) (values : list raw) : str :=
  let values := map (fun v => set_value v (match_trim ci (value v) (wbp e))) values in
  let last_segment := trim_prefix word (wbp e) in
  let collapse := (1 <? length values) && negb (str_eqb (common_prefix_of display values) []) in
  let values2 :=
    if collapse then
      let vp := common_prefix_of value values in
      if negb (str_eqb last_segment vp) then [raw_from vp []]
      else match values with
           | v :: vs => set_display v (B [32] ++ display v) :: vs
           | [] => []
           end
    else values in
  let ns := if collapse then sm_add (nospace m) [star] else nospace m in
  let single := length values2 =? 1 in
  let normal := single || negb (list_mode e) in
  let flag := if normal then existsb (fun v => sm_matches ns (value v)) values2
              else match values2 with [] => false | _ => true end in
  let vals := map (fun v => if normal then bash_quote (comp_wordbreaks e) (value v) else bash_list_line v) values2 in
  bool_str flag ++ B [1] ++ join nl vals.

(* ---------- bash-ble ---------- *)
Definition bash_ble_format (m : meta) (values : list raw) : str :=
  join nl (map (fun v =>
    let suffix := if sm_matches (nospace m) (value v) then [] else B [32] in
    value v ++ tab ++ display v ++ B [28] ++ B [28] ++ suffix ++ B [28] ++ trimmed_description (description v)) values).

(* ---------- cmd-clink ---------- *)
Definition cmd_clink_format (m : meta) (values : list raw) : str :=
  join nl (map (fun v =>
    let append_char := if sm_matches (nospace m) (value v) then [] else B [32] in
    join tab [replace1 cmd_clink_sanitizer (value v);
              replace1 cmd_clink_sanitizer (display v);
              replace1 cmd_clink_sanitizer (trimmed_description (description v));
              append_char]) values).

(* ---------- fish ---------- *)
Definition fish_format (values : list raw) : str :=
  join nl (map (fun v => replace1 fish_sanitizer (value v) ++ tab ++
                         replace1 fish_sanitizer (trimmed_description (description v))) values).

(* ---------- elvish ---------- *)
Definition S_ (l : list nat) : str := B l.
Definition elvish_candidate (m : meta) (v : raw) : str :=
  let val := replace1 elvish_sanitizer (value v) in
  let dis := replace1 elvish_sanitizer (display v) in
  let des := replace1 elvish_sanitizer (trimmed_description (description v)) in
  let suffix := if sm_matches (nospace m) val then [] else B [32] in
  json_object [Some (member (B [86;97;108;117;101]) (json_string val));
               Some (member (B [68;105;115;112;108;97;121]) (json_string dis));
               Some (member (B [68;101;115;99;114;105;112;116;105;111;110]) (json_string des));
               Some (member (B [67;111;100;101;83;117;102;102;105;120]) (json_string suffix));
               Some (member (B [83;116;121;108;101]) (json_string (rstyle v)))].
Definition elvish_format (e : fenv) (m : meta) (values : list raw) : str :=
  let usage' := match values with [] => usage m | _ => [] end in
  json_object [Some (member (B [85;115;97;103;101]) (json_string usage'));
               Some (member (B [77;101;115;115;97;103;101;115]) (json_array (map json_string (messages m))));
               Some (member (B [68;101;115;99;114;105;112;116;105;111;110;83;116;121;108;101]) (json_string (g1 e)));
               Some (member (B [67;97;110;100;105;100;97;116;101;115]) (json_array (map (elvish_candidate m) values)))].

(* ---------- export ---------- *)
Definition value_ltb (a b : raw) : bool := str_ltb (value a) (value b).
Definition export_value (v : raw) : str :=
  json_object [Some (member (B [118;97;108;117;101]) (json_string (value v)));
               Some (member (B [100;105;115;112;108;97;121]) (json_string (display v)));
               omitempty (B [100;101;115;99;114;105;112;116;105;111;110]) (description v);
               omitempty (B [115;116;121;108;101]) (style v);
               omitempty (B [116;97;103]) (tag v);
               omitempty (B [117;105;100]) (uid v)].
Definition export_format (e : fenv) (m : meta) (values : list raw) : str :=
  json_object [Some (member (B [118;101;114;115;105;111;110]) (json_string (version e)));
               Some (member (B [109;101;115;115;97;103;101;115]) (json_array (map json_string (messages m))));
               Some (member (B [110;111;115;112;97;99;101]) (json_string (nospace m)));
               Some (member (B [117;115;97;103;101]) (json_string (usage m)));
               Some (member (B [118;97;108;117;101;115]) (json_array (map export_value (isort_by value_ltb values))))].

(* ---------- ion ---------- *)
Definition ion_format (m : meta) (values : list raw) : str :=
  json_array (map (fun v =>
    let val := replace1 ion_sanitizer (value v) in
    let dis := replace1 ion_sanitizer (display v) in
    let des := replace1 ion_sanitizer (description v) in
    let val' := if sm_matches (nospace m) val then val else val ++ B [32] in
    let dis' := match des with
                | [] => dis
                | _ => dis ++ B [32;40] ++ trimmed_description des ++ B [41]
                end in
    json_object [Some (member (B [86;97;108;117;101]) (json_string val'));
                 Some (member (B [68;105;115;112;108;97;121]) (json_string dis'))]) values).

(* ---------- nushell ---------- *)
Definition nushell_quote (val : str) : str :=
  if contains_any val nushell_ActionRawValues_any1 then
    match val with
    | c :: rest => if beq c (byte 126)
                   then B [126;34] ++ replace1 nushell_escaper rest ++ B [34]
                   else B [34] ++ replace1 nushell_escaper val ++ B [34]
    | [] => B [34;34]
    end
  else val.
Definition nushell_format (m : meta) (values : list raw) : str :=
  json_array (map (fun v =>
    let val := replace1 nushell_sanitizer (value v) in
    let dis := replace1 nushell_sanitizer (display v) in
    let des := replace1 nushell_sanitizer (description v) in
    let ns := sm_matches (nospace m) val in
    let q := nushell_quote val in
    let q' := if ns then q else q ++ B [32] in
    json_object [Some (member (B [118;97;108;117;101]) (json_string q'));
                 Some (member (B [100;105;115;112;108;97;121]) (json_string dis));
                 omitempty (B [100;101;115;99;114;105;112;116;105;111;110]) (trimmed_description des);
                 match rstyle v with [] => None | js => Some (member (B [115;116;121;108;101]) js) end]) values).

(* ---------- oil ---------- *)
Definition oil_format (m : meta) (values : list raw) : str :=
  let single := length values =? 1 in
  join nl (map (fun v =>
    let val := if sm_matches (nospace m) (value v) then value v ++ B [1] else value v in
    if single then replace1 oil_sanitizer val
    else match description v with
         | [] => val
         | _ => val ++ B [32;40] ++ replace1 oil_sanitizer (trimmed_description (description v)) ++ B [41]
         end) values).

(* ---------- powershell ---------- *)
Definition ps_reset : str := B [96;101;91;50;49;59;50;50;59;50;51;59;50;52;59;50;53;59;50;57;59;51;57;59;52;57;109].
   (* `e[21;22;23;24;25;29;39;49m *)
Definition ps_e (s : str) : str := B [96;101;91] ++ s ++ B [109].  (* `e[<s>m *)
Definition powershell_quote (val : str) : str :=
  if contains_any val powershell_ActionRawValues_any1 || match val with c :: _ => beq c (byte 64) | [] => false end
  then B [39] ++ replace1 powershell_quoter val ++ B [39] else val.
Definition powershell_format (e : fenv) (m : meta) (values : list raw) : str :=
  json_array (flat_map (fun v =>
    match value v with
    | [] => []
    | _ =>
      let val := replace1 powershell_sanitizer (value v) in
      let ns := sm_matches (nospace m) val in
      let q := powershell_quote val in
      let q' := if ns then q else q ++ B [32] in
      let has_desc := match description v with [] => false | _ => true end in
      let td := replace1 powershell_sanitizer (trimmed_description (description v)) in
      let use_tip := tooltip e && has_desc in
      let tip := if use_tip then ps_e (g1 e) ++ ps_e (g2 e) ++ td ++ ps_reset else B [32] in
      let item0 := B [96;101;91;50;49;59;50;50;59;50;51;59;50;52;59;50;53;59;50;57;109] ++ ps_e (rstyle v)
                   ++ replace1 powershell_sanitizer (display v) ++ ps_reset in
      let item1 := if has_desc && negb use_tip
                   then item0 ++ ps_e (g1 e) ++ B [32] ++ ps_e (g2 e) ++ B [40] ++ td ++ B [41] ++ ps_reset
                   else item0 in
      let item := item1 ++ B [96;101;91;48;109] in
      [json_object [Some (member (B [67;111;109;112;108;101;116;105;111;110;84;101;120;116]) (json_string q'));
                    Some (member (B [76;105;115;116;73;116;101;109;84;101;120;116]) (json_string item));
                    Some (member (B [84;111;111;108;84;105;112]) (json_string tip))]]
    end) values).

(* ---------- tcsh ---------- *)
Fixpoint last_index_any (s chars : str) (i : nat) (acc : option nat) : option nat :=
  match s with
  | [] => acc
  | c :: s' => last_index_any s' chars (S i) (if mem c chars then Some i else acc)
  end.
Definition tcsh_item (v : raw) : str := replace1 tcsh_quoter (replace1 tcsh_sanitizer (value v)).
Definition tcsh_format (e : fenv) (word : str) (values : list raw) : str :=
  let last_segment :=
    match values, comp_wordbreaks e with
    | _ :: _, Some wb =>
        let wb' := filter (fun c => negb (beq c (byte 32))) wb in
        match last_index_any word wb' 0 None with
        | Some i => drop (S i) word
        | None => word
        end
    | _, _ => word
    end in
  let collapse := (1 <? length values) && negb (str_eqb (common_prefix_of display values) []) in
  let values2 :=
    if collapse then
      let vp := common_prefix_of value values in
      if negb (str_eqb last_segment vp) then [raw_from vp []]
      else match values with
           | v :: vs => set_display v (B [32] ++ display v) :: vs
           | [] => []
           end
    else values in
  let single := length values2 =? 1 in
  join nl (map (fun v =>
    if single then tcsh_item v
    else match description v with
         | [] => tcsh_item v
         | _ => tcsh_item v ++ B [95;40] ++
                replace1 tcsh_quoter (replace1 [(byte 32, B [95])]
                  (replace1 tcsh_sanitizer (trimmed_description (description v)))) ++ B [41]
         end) values2).

(* ---------- xonsh ---------- *)
Definition xonsh_quote (v : str) : str :=
  let val := replace1 xonsh_sanitizer v in
  if contains_any val xonsh_ActionRawValues_any1 then B [39] ++ replace1 xonsh_quoter val ++ B [39]
  else val.
Definition xonsh_format (m : meta) (values : list raw) : str :=
  json_array (map (fun v =>
    let q := xonsh_quote (value v) in
    let q' := if sm_matches (nospace m) (replace1 xonsh_sanitizer (value v)) then q else q ++ B [32] in
    json_object [Some (member (B [86;97;108;117;101]) (json_string q'));
                 Some (member (B [68;105;115;112;108;97;121]) (json_string (replace1 xonsh_sanitizer (display v))));
                 Some (member (B [68;101;115;99;114;105;112;116;105;111;110]) (json_string (trimmed_description (description v))));
                 Some (member (B [83;116;121;108;101]) (json_string (rstyle v)))]) values).

(* ---------- zsh ---------- *)
Inductive zstate := ZDefault | ZQuotingEscaping | ZQuoting | ZFullQuotingEscaping | ZFullQuoting.

Definition no_nl (s : str) : bool := negb (mem (byte 10) s).
(* ^q$|^q.*[^q]$ *)
Definition re_open (q : ascii) (raw : str) : bool :=
  match raw with
  | c :: rest => beq c q && match rev rest with
                            | [] => true
                            | l :: mid => negb (beq l q) && no_nl mid
                            end
  | [] => false
  end.
(* ^q.*q$ *)
Definition re_full (q : ascii) (raw : str) : bool :=
  match raw with
  | c :: rest => beq c q && match rev rest with
                            | [] => false
                            | l :: mid => beq l q && no_nl mid
                            end
  | [] => false
  end.
Definition zsh_state (raw : option str) : zstate :=
  match raw with
  | None => ZDefault
  | Some r =>
      if re_open (byte 39) r then ZQuoting
      else if re_open (byte 34) r then ZQuotingEscaping
      else if re_full (byte 34) r then ZFullQuotingEscaping
      else if re_full (byte 39) r then ZFullQuoting
      else ZDefault
  end.

(* NamedDirectories (namedDirectory.go): lines `name=dir`, later lines win *)
Fixpoint splitn2 (sep : ascii) (s : str) : str * option str :=
  match s with
  | [] => ([], None)
  | c :: s' => if beq c sep then ([], Some s')
               else let '(a, b) := splitn2 sep s' in (c :: a, b)
  end.
Definition named_dirs (hashdirs : str) : list (str * str) :=
  match hashdirs with
  | [] => []
  | _ => flat_map (fun line => match splitn2 (byte 61) line with
                               | (k, Some v) => [(k, v)]
                               | _ => []
                               end) (split1 (byte 10) hashdirs)
  end.
Fixpoint lookup_last (k : str) (l : list (str * str)) (acc : str) : str :=
  match l with
  | [] => acc
  | (k', v) :: l' => lookup_last k l' (if str_eqb k k' then v else acc)
  end.
Definition named_matches (hashdirs : str) (s : str) : bool :=
  if has_prefix s (B [126]) && negb (has_prefix s (B [126;47])) && mem (byte 47) s then
    let name := drop 1 (fst (splitn2 (byte 47) s)) in
    negb (str_eqb (lookup_last name (named_dirs hashdirs) []) [])
  else false.

Definition zsh_quote_value (hashdirs : str) (s : str) : str :=
  if has_prefix s (B [126;47]) || named_matches hashdirs s
  then B [126] ++ replace1 zsh_defaultReplacer (trim_prefix s (B [126]))
  else replace1 zsh_defaultReplacer s.

Definition zsh_value (e : fenv) (st : zstate) (m : meta) (v : raw) : str :=
  let s := replace1 zsh_sanitizer (value v) in
  let q := match st with
           | ZQuotingEscaping => replace1 zsh_describeReplacer (replace1 zsh_quotingEscapingReplacer s) ++ B [34]
           | ZQuoting => replace1 zsh_describeReplacer (replace1 zsh_quotingReplacer s) ++ B [39]
           | ZFullQuotingEscaping => replace1 zsh_describeReplacer (replace1 zsh_quotingEscapingReplacer s)
           | ZFullQuoting => replace1 zsh_describeReplacer (replace1 zsh_quotingReplacer s)
           | ZDefault => replace1 zsh_describeReplacer (zsh_quote_value (zsh_hashdirs e) s)
           end in
  if sm_matches (nospace m) (value v) then q
  else match st with
       | ZFullQuotingEscaping | ZFullQuoting => q
       | _ => q ++ B [32]
       end.

Definition zsh_display (v : raw) : str :=
  let d := replace1 zsh_describeReplacer (replace1 zsh_sanitizer (display v)) in
  let desc := replace1 zsh_sanitizer (description v) in
  match trim_space desc with
  | [] => d
  | _ => d ++ B [58] ++ desc
  end.

Definition zsh_retag (v : raw) : raw :=
  if str_eqb (tag v) (B [115;104;111;114;116;104;97;110;100;32;102;108;97;103;115]) ||
     str_eqb (tag v) (B [108;111;110;103;104;97;110;100;32;102;108;97;103;115])
  then set_tag v (B [102;108;97;103;115]) else v.

(* EachTag: distinct tags sorted (sort.Strings), members in slice order *)
Fixpoint insert_str (s : str) (l : list str) : list str :=
  match l with
  | [] => [s]
  | x :: l' => if str_eqb s x then l else if str_ltb s x then s :: l else x :: insert_str s l'
  end.
Definition tags_of (vs : list raw) : list str := fold_left (fun acc v => insert_str (tag v) acc) vs [].
Definition each_tag (vs : list raw) : list (str * list raw) :=
  map (fun t => (t, filter (fun v => str_eqb (tag v) t) vs)) (tags_of vs).

Definition zstyles_format (e : fenv) (vs : list raw) : str :=
  let entries :=
    if length vs <? 500 then
      flat_map (fun v =>
        let d := replace1 zsh_zstyles_Format_replacer (display v) in
        [B [61;40;35;98;41;40] ++ d ++ B [41;40;91;32;93;35;35;32;45;45;32;42;41;61;48;61] ++ rstyle v ++ B [61] ++ g1 e;
         B [61;40;35;98;41;40] ++ d ++ B [41;61;48;61] ++ rstyle v]) vs
    else [] in
  join (B [58]) (entries ++ [B [61;40;35;98;41;40;45;45;32;42;41;61;48;61] ++ g1 e]).

Definition zsh_msg (e : fenv) (sgr msg : str) : str :=
  B [27;91] ++ sgr ++ B [109] ++ replace1 zsh_message_formatMessage_replacer1 msg ++ B [27;91] ++ g4 e ++ B [109].
Definition zsh_message_format (e : fenv) (m : meta) : str :=
  join nl (map (zsh_msg e (g2 e)) (messages m) ++
           match usage m with [] => [] | u => [zsh_msg e (g3 e) u] end).

Definition zsh_format (e : fenv) (m : meta) (values : list raw) : str :=
  let st := zsh_state (zsh_raw e) in
  let values := map zsh_retag values in
  let groups := map (fun tg =>
      let '(t, vs) := tg in
      join (B [3]) [t; join nl (map zsh_display vs); join nl (map (zsh_value e st m) vs)]) (each_tag values) in
  zstyles_format e values ++ B [1] ++ zsh_message_format e m ++ B [1] ++ join (B [2]) groups ++ B [2] ++ B [1].
