(* Model/Shlex.v — github.com/carapace-sh/carapace-shlex v1.0.1 (a dependency: modelled, taken
   as the definition of "word"): the tokenizer's state machine over runes (shlex.go scanStream,
   Next, Split) and the TokenSlice operations (tokenslice.go, wordbreak.go).

   Token.Index counts RUNES; RawValue / Value are byte strings (string(rune) of what was read).
   Input is assumed to be valid UTF-8 (invalid bytes read as U+FFFD and are re-encoded). *)
From CV Require Import Base.Str Base.Utf8.
Local Open Scope nat_scope.

(* lexer states *)
Inductive lstate := SStart | SInWord | SEsc | SEscQ | SQE | SQ | SComment | SWB.
Inductive ttype := TUnknown | TWord | TComment | TWordbreak.

Record token := mkTok {
  t_type : ttype; t_value : str; t_raw : str; t_index : nat; t_state : lstate; t_wbindex : nat }.

Inductive rclass := CUnknown | CSpace | CDQ | CSQ | CEscape | CComment | CWB.

Definition rune_in (r : N) (s : str) : bool := existsb (N.eqb r) (runes s).
(* BASH_WORDBREAKS = blank TAB CR LF, double quote, single quote, > < = ; | & ( :   — classes assigned earlier win *)
Definition bash_wordbreaks : str := B [32;9;13;10;34;39;62;60;61;59;124;38;40;58].
Definition classify (wordbreaks : str) (r : N) : rclass :=
  if rune_in r (B [32;9;13;10]) then CSpace
  else if N.eqb r 34 then CDQ
  else if N.eqb r 39 then CSQ
  else if N.eqb r 92 then CEscape
  else if N.eqb r 35 then CComment
  else if rune_in r wordbreaks then CWB
  else CUnknown.

(* the scanner's working state *)
Record scan := mkScan { s_tok : token; s_state : lstate; s_consumed : nat; s_idx : nat }.

Definition tok_add (t : token) (r : N) : token :=
  mkTok (t_type t) (t_value t ++ encode_rune r) (t_raw t) (t_index t) (t_state t) (t_wbindex t).
Definition tok_raw_add (t : token) (r : N) : token :=
  mkTok (t_type t) (t_value t) (t_raw t ++ encode_rune r) (t_index t) (t_state t) (t_wbindex t).
(* removeLastRaw: drop the last RUNE of RawValue *)
Definition drop_last_rune (s : str) : str := encode_runes (removelast (runes s)).
Definition tok_raw_dropl (t : token) : token :=
  mkTok (t_type t) (t_value t) (drop_last_rune (t_raw t)) (t_index t) (t_state t) (t_wbindex t).
Definition tok_type (t : token) (ty : ttype) : token :=
  mkTok ty (t_value t) (t_raw t) (t_index t) (t_state t) (t_wbindex t).
Definition tok_index (t : token) (i : nat) : token :=
  mkTok (t_type t) (t_value t) (t_raw t) i (t_state t) (t_wbindex t).
Definition tok_wbi (t : token) : token :=
  mkTok (t_type t) (t_value t) (t_raw t) (t_index t) (t_state t) (length (t_value t)).
Definition tok0 : token := mkTok TUnknown [] [] 0 SStart 0.

(* result of one scanStream call *)
Inductive scanres :=
| RTok (t : token) (st : lstate) (rest : list N) (idx : nat)     (* token, t.state at return, unread input, t.index *)
| REOF.

(* one call of scanStream: [prev] = state left by the previous call, [idx] = runes read so far *)
Fixpoint scan_loop (wb : str) (prev : lstate) (rs : list N) (sc : scan) : scanres :=
  let tok := s_tok sc in
  let st := s_state sc in
  match rs with
  | [] =>
    (* EOF: RawValue += string(rune(0)); consumed += 1; index unchanged *)
    let tok := tok_raw_add tok 0%N in
    let consumed := S (s_consumed sc) in
    let idx := s_idx sc in
    match st with
    | SStart =>
      if Nat.eqb idx 0 then RTok (tok_index (tok_type (tok_raw_dropl tok) TWord) idx) SStart [] (S idx)
      else if (match prev with SWB => true | _ => false end) || (1 <? consumed)
      then RTok (tok_index (tok_type (tok_raw_dropl tok) TWord) idx) SStart [] idx
      else REOF
    | SWB | SInWord | SEsc | SEscQ | SQE | SQ => RTok (tok_raw_dropl tok) st [] idx
    | SComment => RTok tok st [] idx
    end
  | r :: rs' =>
    let cl := classify wb r in
    let tok := tok_raw_add tok r in
    let consumed := S (s_consumed sc) in
    let idx := S (s_idx sc) in
    let continue tok st := scan_loop wb prev rs' (mkScan tok st consumed idx) in
    match st with
    | SStart =>
      let tok := match cl with CSpace => tok | _ => tok_index tok (idx - 1) end in
      match cl with
      | CSpace => continue (tok_raw_dropl tok) SStart
      | CDQ => continue (tok_wbi (tok_type tok TWord)) SQE
      | CSQ => continue (tok_wbi (tok_type tok TWord)) SQ
      | CEscape => continue (tok_type tok TWord) SEsc
      | CComment => continue (tok_type tok TComment) SComment
      | CWB => continue (tok_add (tok_type tok TWordbreak) r) SWB
      | CUnknown => continue (tok_add (tok_type tok TWord) r) SInWord
      end
    | SWB =>
      match cl with
      | CWB => continue (tok_add tok r) SWB
      | _ => RTok (tok_raw_dropl tok) SWB rs (idx - 1)            (* UnreadRune *)
      end
    | SInWord =>
      match cl with
      | CWB | CSpace => RTok (tok_raw_dropl tok) SInWord rs (idx - 1)
      | CDQ => continue (tok_wbi tok) SQE
      | CSQ => continue (tok_wbi tok) SQ
      | CEscape => continue tok SEsc
      | _ => continue (tok_add tok r) SInWord
      end
    | SEsc => continue (tok_add tok r) SInWord
    | SEscQ => continue (tok_add tok r) SQE
    | SQE =>
      match cl with
      | CDQ => continue tok SInWord
      | CEscape => continue tok SEscQ
      | _ => continue (tok_add tok r) SQE
      end
    | SQ =>
      match cl with
      | CSQ => continue tok SInWord
      | _ => continue (tok_add tok r) SQ
      end
    | SComment =>
      if N.eqb r 10 then RTok (tok_raw_dropl tok) SStart rs' idx
      else continue (tok_add tok r) SComment
    end
  end.

Definition with_state (t : token) (st : lstate) : token :=
  mkTok (t_type t) (t_value t) (t_raw t) (t_index t) st (t_wbindex t).

(* lexer.Next repeated until EOF: words and wordbreaks, comments skipped *)
Fixpoint lex_all (wb : str) (fuel : nat) (prev : lstate) (rs : list N) (idx : nat) : list token :=
  match fuel with
  | 0 => []
  | S f =>
    match scan_loop wb prev rs (mkScan tok0 SStart 0 idx) with
    | REOF => []
    | RTok t st rest idx' =>
      let t := with_state t st in
      match t_type t with
      | TComment => lex_all wb f st rest idx'
      | _ => t :: lex_all wb f st rest idx'
      end
    end
  end.

(* shlex.Split *)
Definition shlex_split (wb : str) (s : str) : list token :=
  let rs := runes s in lex_all wb (S (S (length rs))) SStart rs 0.

(* ---------- wordbreak.go ---------- *)
Inductive wbkind := WNone | WRedirect | WPipeline.
Definition wbtype (t : token) : wbkind :=
  let r := t_raw t in
  if existsb (str_eqb r) [B [60]; B [62]; B [62;62]; B [38;62]; B [62;38]; B [38;62;62]; B [60;60;60]; B [60;38]; B [60;62]] then WRedirect
  else if existsb (str_eqb r) [B [124]; B [124;38]; B [38]; B [59]; B [38;38]; B [124;124]] then WPipeline
  else WNone.
Definition is_redirect (t : token) : bool := match wbtype t with WRedirect => true | _ => false end.
Definition is_pipeline_delim (t : token) : bool :=
  match t_type t, wbtype t with TWordbreak, WPipeline => true | _, _ => false end.

(* ---------- tokenslice.go ---------- *)
(* adjoins mixes units exactly as the code does: rune index + byte length *)
Definition adjoins (a b : token) : bool :=
  Nat.eqb (t_index a + length (t_raw a)) (t_index b) || Nat.eqb (t_index a) (t_index b + length (t_raw b)).

(* CurrentPipeline: the tokens after the last pipeline delimiter *)
Fixpoint current_pipeline_acc (ts : list token) (cur : list token) : list token :=
  match ts with
  | [] => rev cur
  | t :: ts' => if is_pipeline_delim t then current_pipeline_acc ts' [] else current_pipeline_acc ts' (t :: cur)
  end.
Definition current_pipeline (ts : list token) : list token := current_pipeline_acc ts [].

(* Words: a token that adjoins its predecessor (in the ORIGINAL slice) is merged into the last word *)
Fixpoint words_acc (prev : option token) (ts : list token) (acc : list token) : list token :=
  match ts with
  | [] => rev acc
  | t :: ts' =>
    match prev, acc with
    | Some p, w :: acc' =>
      if adjoins p t
      then words_acc (Some t) ts' (mkTok (t_type w) (t_value w ++ t_value t) (t_raw w ++ t_raw t) (t_index w) (t_state t) (t_wbindex w) :: acc')
      else words_acc (Some t) ts' (t :: acc)
    | _, _ => words_acc (Some t) ts' (t :: acc)
    end
  end.
Definition words (ts : list token) : list token := words_acc None ts [].

Definition is_number (s : str) : bool :=
  (* strconv.Atoi succeeds: optional sign, then decimal digits (at least one) *)
  match s with
  | [] => false
  | c :: r => let ds := if beq c (byte 43) || beq c (byte 45) then r else s in
              match ds with [] => false | _ => forallb (fun d => let n := nat_of_ascii d in (48 <=? n) && (n <=? 57)) ds end
  end.

Fixpoint filter_redirects_acc (prev : option token) (ts : list token) : list token :=
  match ts with
  | [] => []
  | t :: ts' =>
    let skip :=
      (match t_type t with TWordbreak => is_redirect t | _ => false end)
      || (match prev with Some p => is_redirect p | None => false end)
      || (match ts' with
          | n :: _ => adjoins t n && is_number (t_raw t) && is_redirect n
          | [] => false
          end) in
    if skip then filter_redirects_acc (Some t) ts' else t :: filter_redirects_acc (Some t) ts'
  end.
Definition filter_redirects (ts : list token) : list token := filter_redirects_acc None ts.

Definition current_token (ts : list token) : token := last ts tok0.
