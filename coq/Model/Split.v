(* Model/Split.v — Action.split (action.go:284-335): Split / SplitP on top of the lexer model. *)
From CV Require Import Base.Str Base.Utf8 Model.Common Model.MultiParts Model.Action Model.Shlex.
Local Open Scope nat_scope.

Fixpoint replace_byte (c : ascii) (by_ : str) (s : str) : str :=
  match s with
  | [] => []
  | x :: s' => (if beq x c then by_ else [x]) ++ replace_byte c by_ s'
  end.

(* re-quoting in the style the user began (state of the current token) *)
Definition requote (st : lstate) (v : str) : str :=
  match st with
  | SQE => B [34] ++ replace_byte (byte 34) (B [92;34]) v ++ B [34]                 (* double quotes around, inner double quotes backslash-escaped *)
  | SQ => B [39] ++ replace_byte (byte 39) (B [39;34;39;34;39]) v ++ B [39]         (* single quotes around, an inner single quote closes, is double-quoted, and reopens *)
  | _ => replace_byte (byte 32) (B [92;32]) v                                       (* blanks escaped *)
  end.

Record splitctx := mkSplit {
  sp_args : list str; sp_value : str; sp_prefix : str; sp_state : lstate; sp_redirect : bool }.

(* the prefix: the text up to the start of the current token.  Token.Index counts runes;
   [rune_prefix] = true: the first Index runes (after the fix); false: the first Index BYTES
   (originalValue[:Index], the pinned tree) *)
Definition prefix_of (rune_prefix : bool) (text : str) (idx : nat) : str :=
  if rune_prefix then encode_runes (firstn idx (runes text)) else take idx text.

Definition split_context (rune_prefix pipelines : bool) (wb text : str) : splitctx :=
  let tokens0 := shlex_split wb text in
  let tokens := if pipelines then current_pipeline tokens0 else tokens0 in
  let ws := if pipelines then words (filter_redirects tokens) else words tokens in
  let strs := match map t_value ws with [] => [[]] | l => l end in          (* NewContext: no args -> [""] *)
  let value := last strs [] in
  let args := removelast strs in
  let cur := current_token (words tokens) in
  let st := t_state (current_token tokens) in
  let redirect := pipelines && (1 <? length tokens) &&
                  match nth_error tokens (length tokens - 2) with Some t => is_redirect t | None => false end in
  if redirect
  then mkSplit args (t_value (current_token tokens)) (prefix_of rune_prefix text (t_index (current_token tokens))) st true
  else mkSplit args value (prefix_of rune_prefix text (t_index cur)) st false.

(* what split does with the invoked completion of the wrapped action *)
Definition split_values (sc : splitctx) (i : invoked) : list raw :=
  map (fun r =>
         let v := value r in
         let nosp := sm_matches (nospace (fst i)) v in
         let v1 := if negb nosp || contains v (B [32]) then requote (sp_state sc) v else v in
         let v2 := if nosp then v1 else v1 ++ B [32] in
         set_value r (sp_prefix sc ++ v2)) (snd i).

(* Split / SplitP of a; [files] stands for ActionFiles() (C16) *)
Definition Split (rune_prefix pipelines : bool) (wb : str) (files a : action) : action :=
  callback (fun c =>
    let sc := split_context rune_prefix pipelines wb (cvalue c) in
    let c' := mkCtx (sp_value sc) (sp_args sc) [] (cenv c) in
    let i := invoke (if sp_redirect sc then files else a) c' in
    NoSpace [] (AStatic (fst i) (split_values sc i))).
