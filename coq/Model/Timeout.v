(* Model/Timeout.v — Action.Timeout (action.go:421-438) as a timed system.

     currentChannel := make(chan string, 1)
     var result InvokedAction
     go func() { result = a.Invoke(c); currentChannel <- "" }()
     select { case <-currentChannel: case <-time.After(d): return alternative }
     return result.ToA()

   The wrapped action finishes at time ta (None = never) with result r; the timer fires at d.
   `select` takes a ready case, either one when both are ready at the same instant. *)
From Coq Require Import ZArith.
From CV Require Import Base.Str.
Local Open Scope Z_scope.

Section Timeout.
  Variable R : Type.                        (* completions *)

  Inductive outcome := Inner (r : R) | Alt (a : R).
  (* possible (outcome, time of the answer) pairs of Timeout d alt around an inner computation
     that ends at ta with r *)
  Inductive answers (d : Z) (alt : R) : option (Z * R) -> outcome -> Z -> Prop :=
  | ans_inner ta r : ta <= d -> answers d alt (Some (ta, r)) (Inner r) ta       (* the channel is ready at ta *)
  | ans_alt_late ta r : d <= ta -> answers d alt (Some (ta, r)) (Alt alt) d      (* the timer is ready at d *)
  | ans_alt_never : answers d alt None (Alt alt) d.

  Definition result_of (o : outcome) : R := match o with Inner r => r | Alt a => a end.

  (* the goroutine protocol: steps of the worker and of the caller with the happens-before edges
     that the buffered channel provides *)
  Inductive ev := WriteResult | Send | Recv | ReadResult | TimerFired | ReturnAlt.
  Definition worker : list ev := [WriteResult; Send].
  Definition caller (inner_first : bool) : list ev := if inner_first then [Recv; ReadResult] else [TimerFired; ReturnAlt].

  (* program order within a thread, plus Send -> Recv *)
  Definition hb_direct (a b : ev) : bool :=
    match a, b with
    | WriteResult, Send | Send, Recv | Recv, ReadResult | TimerFired, ReturnAlt => true
    | _, _ => false
    end.
  Definition hb (a b : ev) : bool :=
    hb_direct a b || existsb (fun x => hb_direct a x && (hb_direct x b || existsb (fun y => hb_direct x y && hb_direct y b) [WriteResult; Send; Recv; ReadResult; TimerFired; ReturnAlt]))
                             [WriteResult; Send; Recv; ReadResult; TimerFired; ReturnAlt].
  Definition accesses_result (e : ev) : bool := match e with WriteResult | ReadResult => true | _ => false end.
  Definition is_write (e : ev) : bool := match e with WriteResult => true | _ => false end.
  (* a data race on `result`: two accesses from different threads, one a write, unordered *)
  Definition racy (inner_first : bool) : bool :=
    existsb (fun w => existsb (fun c => accesses_result w && accesses_result c && (is_write w || is_write c)
                                        && negb (hb w c) && negb (hb c w)) (caller inner_first)) worker.

  (* the channel: capacity 1, the worker sends exactly once, nobody else sends *)
  Definition sends (l : list ev) : nat := length (filter (fun e => match e with Send => true | _ => false end) l).
End Timeout.
Arguments Inner {R}.
Arguments Alt {R}.
