(* Model/Total.v — the index arithmetic of the completion entry point on user-controlled text
   (C18): the guards in front of each slice, as the repaired source has them.  Go's int is
   modelled by Z (no overflow is involved: strconv.Atoi rejects what does not fit). *)
From Coq Require Import ZArith.
From CV Require Import Base.Str Base.Utf8.
Local Open Scope Z_scope.

(* bash.CompLine: `if err != nil || pointI < 0 || len(line) < pointI { return }`; then line[:pointI] *)
Definition compline_reaches_slice (err : bool) (point len : Z) : bool :=
  negb (err || (point <? 0) || (len <? point)).
(* the pinned source lacked the lower bound *)
Definition compline_reaches_slice_pinned (err : bool) (point len : Z) : bool :=
  negb (err || (len <? point)).

(* complete(): the number of arguments on the way to traverse(cmd, args[2:]) and
   value(args[0], args[len(args)-1]).  The switch on len(args) sends 0 and 1 elsewhere; the
   shell specific patch replaces everything after args[0] by the words of the last pipeline. *)
Inductive patched := Unpatched | Words (n : nat) | Redirect.
Definition args_len (n0 : nat) (p : patched) : nat :=
  match p with Unpatched => n0 | Words n => S n | Redirect => 2 end.
(* `if len(args) < 2 { return }` in front of traverse *)
Definition reaches_traverse (n0 : nat) (p : patched) : bool :=
  (2 <=? n0)%nat && match p with Redirect => false | _ => (2 <=? args_len n0 p)%nat end.
Definition reaches_traverse_pinned (n0 : nat) (p : patched) : bool :=
  (2 <=? n0)%nat && match p with Redirect => false | _ => true end.

(* match.TrimPrefix, case-insensitive: step over as many characters as the prefix has *)
Fixpoint drop_runes (n : nat) (s : str) : str :=
  match n with
  | O => s
  | S n' => match decode1 s with None => s | Some (_, _, rest) => drop_runes n' rest end
  end.

(* TokenSlice.WordbreakPrefix indexes t[len(t)-1]: only called `if len(pipeline) > 0` *)
Definition last_index (len : nat) : Z := Z.of_nat len - 1.

(* pflagfork.lookupPosixShorthandArg: `for index, r := range arg[1:]` with index += 1 visits byte
   offsets 1 <= index < len(arg); the first case returns when len(arg) == index+1; the later cases
   read arg[index+1] and slice arg[:index+2], arg[index+2:], arg[:index+1], arg[index+1:] *)
Definition shorthand_reads_next (len index : Z) : bool := negb (len =? index + 1).
