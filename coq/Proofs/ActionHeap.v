(* Proofs/ActionHeap.v — C08: when Invoke hands out copies, the heap-level semantics computes
   the pure semantics and never writes to memory that existed before the invocation; without
   the copy a two-step history already differs. *)
From Coq Require Import Lia.
From CV Require Import Base.Str Base.Utf8 Model.Common Model.MultiParts Model.Action Model.ActionHeap.
Local Open Scope nat_scope.

(* the part of the heap that exists at a given allocation pointer is left alone *)
Definition frame (n : loc) (h h' : heap) : Prop :=
  (forall l, l < n -> vcell h' l = vcell h l /\ mcell h' l = mcell h l) /\ next h <= next h'.
Lemma frame_refl n h : frame n h h.
Proof. split; [auto|lia]. Qed.
Lemma frame_trans n h1 h2 h3 : frame n h1 h2 -> frame n h2 h3 -> frame n h1 h3.
Proof.
  intros [A1 B1] [A2 B2]. split; [|lia]. intros l Hl. destruct (A1 l Hl) as [X1 Y1]. destruct (A2 l Hl) as [X2 Y2].
  split; congruence.
Qed.
Lemma frame_weaken n m h h' : m <= n -> frame n h h' -> frame m h h'.
Proof. intros Hm [A B]. split; [|exact B]. intros l Hl. apply A. lia. Qed.

Lemma eqb_neq_lt l n : l < n -> Nat.eqb l n = false.
Proof. intro H. apply Nat.eqb_neq. lia. Qed.

Lemma allocv_spec h vs : let '(l, h') := allocv h vs in
  l = next h /\ next h' = S (next h) /\ vcell h' l = vs /\ frame (next h) h h' /\ (forall x, mcell h' x = mcell h x).
Proof.
  unfold allocv. cbn [vcell mcell next]. rewrite Nat.eqb_refl.
  split; [reflexivity|]. split; [reflexivity|]. split; [reflexivity|]. split; [|intro; reflexivity].
  split; [|cbn; lia]. intros x Hx. cbn [vcell mcell]. rewrite (eqb_neq_lt _ _ Hx). auto.
Qed.
Lemma allocm_spec h ms : let '(l, h') := allocm h ms in
  l = next h /\ next h' = S (next h) /\ mcell h' l = ms /\ frame (next h) h h' /\ (forall x, vcell h' x = vcell h x).
Proof.
  unfold allocm. cbn [vcell mcell next]. rewrite Nat.eqb_refl.
  split; [reflexivity|]. split; [reflexivity|]. split; [reflexivity|]. split; [|intro; reflexivity].
  split; [|cbn; lia]. intros x Hx. cbn [vcell mcell]. rewrite (eqb_neq_lt _ _ Hx). auto.
Qed.
Lemma setv_frame h l vs n : n <= l -> frame n h (setv h l vs).
Proof.
  intro H. split; [|cbn; lia]. intros x Hx. cbn [setv vcell mcell]. rewrite (eqb_neq_lt x l) by lia. auto.
Qed.
Lemma setm_frame h l ms n : n <= l -> frame n h (setm h l ms).
Proof.
  intro H. split; [|cbn; lia]. intros x Hx. cbn [setm vcell mcell]. rewrite (eqb_neq_lt x l) by lia. auto.
Qed.

(* shared actions of an expression live in the initial heap *)
Fixpoint wf (h0 : heap) (e : hexpr) : Prop :=
  match e with
  | HShared a => sv a < next h0 /\ (forall l, sm a = Some l -> l < next h0)
  | HConst _ _ => True
  | HMapVals _ e | HFilter _ e | HSuppress _ e | HWrap _ e => wf h0 e
  end.

(* the result of an invocation is made of locations allocated by that invocation *)
Definition fresh (n : loc) (h' : heap) (a : sact) : Prop :=
  n <= sv a < next h' /\ (forall l, sm a = Some l -> n <= l < next h').

Theorem hinvoke_copy_refines h0 e : wf h0 e ->
  forall h, frame (next h0) h0 h ->
  let '(a, h') := hinvoke true e h in
  obs h' a = pinvoke h0 e /\ frame (next h) h h' /\ fresh (next h) h' a.
Proof.
  induction e as [a|m vs|w e IH|keep e IH|drop e IH|m e IH]; intros Hwf h Hfr; cbn [hinvoke pinvoke wf] in *.
  - (* HShared: copied *)
    destruct Hwf as [Hv Hm]. destruct Hfr as [Hag Hn]. unfold invoke_static.
    pose proof (allocv_spec h (vcell h (sv a))) as A. destruct (allocv h (vcell h (sv a))) as [lv h1].
    destruct A as (-> & N1 & V1 & F1 & M1).
    destruct (sm a) as [l|] eqn:Esm.
    + pose proof (allocm_spec h1 (mcell h1 l)) as B. destruct (allocm h1 (mcell h1 l)) as [lm h2].
      destruct B as (-> & N2 & V2 & F2 & M2). split; [|split].
      * unfold obs, msgs_of. cbn [sv sm sns sus]. rewrite V2, M2, V1, M1. rewrite Esm.
        destruct (Hag (sv a) Hv) as [E1 _]. destruct (Hag l (Hm l eq_refl)) as [_ E2]. rewrite E1, E2. reflexivity.
      * eapply frame_trans; [exact F1|]. eapply frame_weaken; [|exact F2]. lia.
      * split; cbn [sv sm]; [lia|]. intros x Hx. injection Hx as <-. lia.
    + split; [|split].
      * unfold obs, msgs_of. cbn [sv sm sns sus]. rewrite V1, Esm. destruct (Hag (sv a) Hv) as [E1 _]. rewrite E1. reflexivity.
      * exact F1.
      * split; cbn [sv sm]; [lia|discriminate].
  - (* HConst *)
    pose proof (allocv_spec h vs) as A. destruct (allocv h vs) as [lv h1]. destruct A as (-> & N1 & V1 & F1 & M1).
    destruct m as [ms ns us]. cbn [messages nospace usage]. destruct ms as [|m0 ms].
    + split; [|split]; [unfold obs, msgs_of; cbn; rewrite V1; reflexivity|exact F1|split; cbn [sv sm]; [lia|discriminate]].
    + pose proof (allocm_spec h1 (m0 :: ms)) as B. destruct (allocm h1 (m0 :: ms)) as [lm h2].
      destruct B as (-> & N2 & V2 & F2 & M2). split; [|split].
      * unfold obs, msgs_of. cbn [sv sm sns sus]. rewrite V2, M2, V1. reflexivity.
      * eapply frame_trans; [exact F1|]. eapply frame_weaken; [|exact F2]. lia.
      * split; cbn [sv sm]; [lia|]. intros x Hx. injection Hx as <-. lia.
  - (* HMapVals: in place, on fresh memory *)
    specialize (IH Hwf h Hfr). destruct (hinvoke true e h) as [a h1]. destruct IH as (Ho & F1 & [Fv Fm]).
    split; [|split].
    + unfold obs, msgs_of in *. cbn [setv vcell mcell]. rewrite Nat.eqb_refl. rewrite <- Ho. reflexivity.
    + eapply frame_trans; [exact F1|]. apply setv_frame. lia.
    + split; [cbn; lia|exact Fm].
  - (* HFilter *)
    specialize (IH Hwf h Hfr). destruct (hinvoke true e h) as [a h1]. destruct IH as (Ho & F1 & [Fv Fm]).
    pose proof (allocv_spec h1 (filter keep (vcell h1 (sv a)))) as A. destruct (allocv h1 _) as [lv h2].
    destruct A as (-> & N2 & V2 & F2 & M2). destruct F1 as [F1a F1b]. split; [|split].
    + unfold obs, msgs_of in *. cbn [sv sm sns sus]. rewrite V2. rewrite <- Ho. cbn [fst snd].
      destruct (sm a); rewrite ?M2; reflexivity.
    + eapply frame_trans; [split; [exact F1a|exact F1b]|]. eapply frame_weaken; [|exact F2]. lia.
    + split; cbn [sv sm]; [lia|]. intros x Hx. specialize (Fm x Hx). lia.
  - (* HSuppress *)
    specialize (IH Hwf h Hfr). destruct (hinvoke true e h) as [a h1]. destruct IH as (Ho & F1 & [Fv Fm]).
    destruct (sm a) as [l|] eqn:Esm.
    + split; [|split].
      * unfold obs, msgs_of in *. rewrite Esm in *. cbn [setm vcell mcell]. rewrite Nat.eqb_refl. rewrite <- Ho. reflexivity.
      * eapply frame_trans; [exact F1|]. apply setm_frame. specialize (Fm l eq_refl). lia.
      * split; [cbn; lia|]. intros x Hx. rewrite Esm in Hx. injection Hx as <-. specialize (Fm l eq_refl). cbn. lia.
    + pose proof (allocm_spec h1 []) as B. destruct (allocm h1 []) as [lm h2]. destruct B as (-> & N2 & V2 & F2 & M2).
      destruct F1 as [F1a F1b]. split; [|split].
      * unfold obs, msgs_of in *. rewrite Esm in Ho. cbn [sv sm sns sus]. rewrite V2, M2. rewrite <- Ho. reflexivity.
      * eapply frame_trans; [split; [exact F1a|exact F1b]|]. eapply frame_weaken; [|exact F2]. lia.
      * split; cbn [sv sm]; [lia|]. intros x Hx. injection Hx as <-. lia.
  - (* HWrap: the wrapper's meta is merged into the invoked (fresh) meta *)
    specialize (IH Hwf h Hfr). destruct (hinvoke true e h) as [a h1]. destruct IH as (Ho & F1 & [Fv Fm]).
    unfold merge_into, pmerge. rewrite <- Ho. unfold obs, msgs_of, meta_merge. cbn [fst snd messages nospace usage].
    destruct m as [ms ns us]. cbn [messages nospace usage]. destruct ms as [|m0 ms].
    + split; [|split]; [cbn [sv sm sns sus]; destruct (sm a); reflexivity|exact F1|split; [exact Fv|exact Fm]].
    + destruct (sm a) as [l|] eqn:Esm.
      * split; [|split].
        -- cbn [sv sm sns sus setm vcell mcell]. rewrite Nat.eqb_refl. reflexivity.
        -- eapply frame_trans; [exact F1|]. apply setm_frame. specialize (Fm l eq_refl). lia.
        -- split; [cbn; lia|]. intros x Hx. cbn [sm] in Hx. injection Hx as <-. specialize (Fm l eq_refl). cbn. lia.
      * pose proof (allocm_spec h1 (msgs_merge [] (m0 :: ms))) as B. destruct (allocm h1 _) as [lm h2].
        destruct B as (-> & N2 & V2 & F2 & M2). destruct F1 as [F1a F1b]. split; [|split].
        -- cbn [sv sm sns sus]. rewrite V2, M2. reflexivity.
        -- eapply frame_trans; [split; [exact F1a|exact F1b]|]. eapply frame_weaken; [|exact F2]. lia.
        -- split; cbn [sv sm]; [lia|]. intros x Hx. injection Hx as <-. lia.
Qed.

(* ---------- histories: repeatable, and no trace on anything that existed before ---------- *)
Fixpoint hrun (copy : bool) (es : list hexpr) (h : heap) : list invoked * heap :=
  match es with
  | [] => ([], h)
  | e :: es' => let '(a, h1) := hinvoke copy e h in let '(r, h2) := hrun copy es' h1 in (obs h1 a :: r, h2)
  end.

Theorem history_refines_pure h0 es : Forall (wf h0) es ->
  forall h, frame (next h0) h0 h ->
  fst (hrun true es h) = map (pinvoke h0) es /\ frame (next h0) h0 (snd (hrun true es h)).
Proof.
  induction 1 as [|e es Hwf _ IH]; intros h Hfr; cbn [hrun map fst snd]; [auto|].
  pose proof (hinvoke_copy_refines h0 e Hwf h Hfr) as H1. destruct (hinvoke true e h) as [a h1]. destruct H1 as (Ho & F1 & _).
  assert (Hfr1 : frame (next h0) h0 h1).
  { eapply frame_trans; [exact Hfr|]. eapply frame_weaken; [|exact F1]. destruct Hfr; lia. }
  specialize (IH h1 Hfr1). destruct (hrun true es h1) as [r h2]. cbn [fst snd] in *. destruct IH as [IH1 IH2].
  split; [rewrite Ho, IH1; reflexivity|exact IH2].
Qed.

(* ---------- without the copy: a second invocation sees the first one's writes ---------- *)
Definition h_ex : heap := mkHeap (fun l => if Nat.eqb l 0 then [raw_of (B [120])] else []) (fun _ => []) 1.
Definition a_ex : sact := mkSact 0 None [] [].
Definition e_ex : hexpr := HMapVals (fun r => set_value r (B [112] ++ value r)) (HShared a_ex).   (* a.Prefix("p") *)

Theorem no_copy_refuted :
  map (fun i => map value (snd i)) (fst (hrun false [e_ex; e_ex] h_ex)) = [[B [112;120]]; [B [112;112;120]]] /\
  map (fun i => map value (snd i)) (fst (hrun true [e_ex; e_ex] h_ex)) = [[B [112;120]]; [B [112;120]]].
Proof. split; vm_compute; reflexivity. Qed.
