(* Proofs/Algebra.v — per-modifier lemmas ("changes exactly the aspect it documents") and the
   refinement of the reference algebra by the implementation-shaped model (C12). *)
From Coq Require Import ZArith Lia.
From CV Require Import Base.Str Base.Utf8 Model.Common Model.MultiParts Model.Action Spec.Algebra.
Local Open Scope nat_scope.

Lemma meta_merge_meta0 m : meta_merge m meta0 = m.
Proof. destruct m; reflexivity. Qed.

Lemma invoke_callback f c : invoke (callback f) c = invoke (f c) c.
Proof. unfold callback. cbn [invoke]. destruct (invoke (f c) c) as [m vs]. rewrite meta_merge_meta0. reflexivity. Qed.

Lemma invoke_static m vs c : invoke (AStatic m vs) c = (m, vs).
Proof. reflexivity. Qed.

(* ---------- values-only modifiers: the meta is untouched ---------- *)
Lemma invoke_Filter vs a c : invoke (Filter vs a) c = (fst (invoke a c), rv_filter vs (snd (invoke a c))).
Proof. unfold Filter. rewrite invoke_callback. reflexivity. Qed.
Lemma invoke_Retain vs a c : invoke (Retain vs a) c = (fst (invoke a c), rv_retain vs (snd (invoke a c))).
Proof. unfold Retain. rewrite invoke_callback. reflexivity. Qed.
Lemma invoke_FilterArgs a c : invoke (FilterArgs a) c = (fst (invoke a c), rv_filter (cargs c) (snd (invoke a c))).
Proof. unfold FilterArgs. rewrite invoke_callback. apply invoke_Filter. Qed.
Lemma invoke_FilterParts a c : invoke (FilterParts a) c = (fst (invoke a c), rv_filter (cparts c) (snd (invoke a c))).
Proof. unfold FilterParts. rewrite invoke_callback. apply invoke_Filter. Qed.
Lemma invoke_Suffix s a c : invoke (Suffix s a) c = (fst (invoke a c), rv_suffix s (snd (invoke a c))).
Proof. unfold Suffix. rewrite invoke_callback. reflexivity. Qed.
Lemma invoke_Style s a c :
  invoke (Style s a) c = (fst (invoke a c), map (fun r => set_style r s) (snd (invoke a c))).
Proof. unfold Style, StyleF. rewrite invoke_callback. reflexivity. Qed.
Lemma invoke_Tag t a c :
  invoke (Tag t a) c = (fst (invoke a c), map (fun r => set_tag r t) (snd (invoke a c))).
Proof. unfold Tag, TagF. rewrite invoke_callback. reflexivity. Qed.

Lemma invoke_Prefix ci p a c :
  invoke (Prefix ci p a) c =
    if match_has_prefix ci (cvalue c) p
    then let i := invoke a (set_cvalue c (drop (length p) (cvalue c))) in (fst i, rv_prefix p (snd i))
    else if match_has_prefix ci p (cvalue c)
    then let i := invoke a (set_cvalue c []) in (fst i, rv_prefix p (snd i))
    else (meta0, []).
Proof.
  unfold Prefix. rewrite invoke_callback. unfold match_trim_prefix.
  destruct (match_has_prefix ci (cvalue c) p); [reflexivity|].
  destruct (match_has_prefix ci p (cvalue c)); reflexivity.
Qed.

(* ---------- meta-only modifiers: the values are untouched ---------- *)
Lemma invoke_with_usage a u c : is_empty u = false ->
  invoke (with_meta a (set_usage (own_meta a) u)) c = (set_usage (fst (invoke a c)) u, snd (invoke a c)).
Proof.
  intro Hu. destruct a as [m vs|m f]; [reflexivity|].
  cbn [with_meta own_meta invoke]. destruct (invoke (f c) c) as [m' vs]. cbn [fst snd].
  unfold meta_merge, set_usage. cbn [messages nospace usage]. rewrite Hu. reflexivity.
Qed.

Lemma invoke_Usage u a c :
  invoke (Usage u a) c = ((if is_empty u then fst (invoke a c) else set_usage (fst (invoke a c)) u), snd (invoke a c)).
Proof.
  unfold Usage. rewrite invoke_callback. destruct (is_empty u) eqn:E.
  - destruct (invoke a c); reflexivity.
  - apply invoke_with_usage. exact E.
Qed.

Definition nospace_arg (rs : list N) : list N := match rs with [] => [star] | _ => rs end.

Lemma sm_add_star_nil : sm_add (sm_add [] [star]) [] = sm_add [] [star].
Proof. vm_compute. reflexivity. Qed.

(* NoSpace on an action whose own meta is empty (every action built by the library's
   constructors and modifiers): the characters are merged into the result's set *)
Lemma invoke_NoSpace_cb rs f c :
  invoke (NoSpace rs (callback f)) c =
    (add_nospace (fst (invoke (callback f) c)) (nospace_arg rs), snd (invoke (callback f) c)).
Proof.
  unfold NoSpace. rewrite invoke_callback. unfold callback at 1 2 3. cbn [with_meta own_meta].
  rewrite invoke_callback. cbn [invoke]. destruct (invoke (f c) c) as [m vs]. cbn [fst snd].
  unfold add_nospace, meta_merge, set_nospace, meta0. cbn [messages nospace usage is_empty].
  f_equal. f_equal. destruct rs as [|r rs]; cbn [nospace_arg]; [rewrite sm_add_star_nil|]; reflexivity.
Qed.

(* for every action: NoSpace changes neither values, messages nor usage *)
Lemma invoke_NoSpace_frame rs a c :
  snd (invoke (NoSpace rs a) c) = snd (invoke a c) /\
  messages (fst (invoke (NoSpace rs a) c)) = messages (fst (invoke a c)) /\
  usage (fst (invoke (NoSpace rs a) c)) = usage (fst (invoke a c)).
Proof.
  unfold NoSpace. rewrite invoke_callback. destruct a as [m vs|m f]; cbn [with_meta own_meta invoke].
  - repeat split.
  - destruct (invoke (f c) c) as [m' vs]. repeat split.
Qed.

Lemma invoke_Suppress rm pats a c :
  invoke (Suppress rm pats a) c =
    (set_messages (fst (invoke a c)) (msgs_suppress rm pats (messages (fst (invoke a c)))), snd (invoke a c)).
Proof. unfold Suppress. rewrite invoke_callback. reflexivity. Qed.

Lemma invoke_ActionValues vs c :
  invoke (ActionValues vs) c = (meta0, map raw_of (filter (fun v => negb (is_empty v)) vs)).
Proof. unfold ActionValues. rewrite invoke_callback. reflexivity. Qed.

Lemma invoke_ActionMessage msg c : invoke (ActionMessage msg) c = (mkMeta [msg] [] [], []).
Proof. unfold ActionMessage. rewrite invoke_callback. reflexivity. Qed.

Lemma invoke_Unless b a c : invoke (Unless b a) c = if b then (meta0, []) else invoke a c.
Proof. unfold Unless. rewrite invoke_callback. destruct b; [apply invoke_ActionValues|reflexivity]. Qed.

Lemma invoke_to_a a c c' : invoke (to_a (invoke a c)) c' = invoke a c.
Proof. unfold to_a. cbn [invoke]. destruct (invoke a c); reflexivity. Qed.

Lemma skipn_all2' {A} n (l : list A) : length l <= n -> skipn n l = [].
Proof. apply skipn_all2. Qed.

Lemma invoke_Shift n a c :
  invoke (Shift n a) c =
    if (n <? 0)%Z then (mkMeta [msg_shift n] [] [], [])
    else invoke a (set_cargs c (skipn (Z.to_nat n) (cargs c))).
Proof.
  unfold Shift. rewrite invoke_callback. destruct (n <? 0)%Z; [apply invoke_ActionMessage|].
  destruct (length (cargs c) <? Z.to_nat n) eqn:E; rewrite invoke_to_a; [|reflexivity].
  apply Nat.ltb_lt in E. rewrite skipn_all2 by lia. reflexivity.
Qed.

Lemma invoke_MultiParts ci ds a c :
  invoke (MultiParts ci ds a) c =
    match to_multiparts ci ds (snd (invoke a c)) (cvalue c) with
    | Some (vs, _) => (mp_meta ds (fst (invoke a c)), vs)
    | None => (meta0, [])
    end.
Proof.
  unfold MultiParts. rewrite !invoke_callback.
  destruct (to_multiparts ci ds (snd (invoke a c)) (cvalue c)) as [[vs ns]|]; reflexivity.
Qed.

(* ---------- ActionMultiPartsN: parts, current part, rebuild ---------- *)
Lemma invoke_NoSpace_static rs m vs c :
  invoke (NoSpace rs (AStatic m vs)) c =
    (set_nospace m (sm_add (match rs with [] => sm_add (nospace m) [star] | _ => nospace m end) rs), vs).
Proof. unfold NoSpace. rewrite invoke_callback. reflexivity. Qed.

Lemma explode_n_none l : explode_n l None = map snd l.
Proof. induction l as [|[r b] l IH]; [reflexivity|]. cbn [explode_n option_map map snd]. rewrite IH. reflexivity. Qed.

Lemma invoke_MultiPartsN sep n cb c : (n =? 0)%Z = false -> (n =? 1)%Z = false ->
  let '(done, parts, cur) := mpn_split sep n (cvalue c) in
  let c' := with_vp c cur parts in
  let i := invoke (cb c') c' in
  invoke (ActionMultiPartsN sep n cb) c =
    (set_nospace (fst i) (sm_add (nospace (fst i)) [sep_nospace sep]), rv_prefix done (snd i)).
Proof.
  intros H0 H1. unfold ActionMultiPartsN. rewrite invoke_callback. rewrite H0, H1.
  unfold mpn_split, sep_nospace. destruct sep as [|s0 sep].
  - destruct (n <? 0)%Z eqn:En.
    + rewrite invoke_NoSpace_static. unfold split_n. rewrite En, explode_n_none. reflexivity.
    + destruct (Z.to_nat (n - 1) <? length (cvalue c)); rewrite invoke_NoSpace_static; reflexivity.
  - destruct (1 <? length (split_n (cvalue c) (s0 :: sep) n)); rewrite invoke_NoSpace_static; reflexivity.
Qed.

(* ---------- refinement: the model of every expression computes the reference algebra ---------- *)
Section ExprInd.
  Variable P : expr -> Prop.
  Hypothesis HV : forall vs, P (EValues vs).
  Hypothesis HD : forall vs, P (EValuesDescribed vs).
  Hypothesis HT : forall vs, P (EStyledValuesDescribed vs).
  Hypothesis HS : forall m vs, P (EStatic m vs).
  Hypothesis HM : forall m, P (EMessage m).
  Hypothesis HC : P ECtx.
  Hypothesis HF : forall vs e, P e -> P (EFilter vs e).
  Hypothesis HR : forall vs e, P e -> P (ERetain vs e).
  Hypothesis HFA : forall e, P e -> P (EFilterArgs e).
  Hypothesis HFP : forall e, P e -> P (EFilterParts e).
  Hypothesis HP : forall p e, P e -> P (EPrefix p e).
  Hypothesis HX : forall s e, P e -> P (ESuffix s e).
  Hypothesis HY : forall s e, P e -> P (EStyle s e).
  Hypothesis HG : forall t e, P e -> P (ETag t e).
  Hypothesis HU : forall u e, P e -> P (EUsage u e).
  Hypothesis HN : forall rs e, P e -> P (ENoSpace rs e).
  Hypothesis HQ : forall ps e, P e -> P (ESuppress ps e).
  Hypothesis HL : forall b e, P e -> P (EUnless b e).
  Hypothesis HH : forall n e, P e -> P (EShift n e).
  Hypothesis HMP : forall ds e, P e -> P (EMultiParts ds e).
  Hypothesis HMN : forall sep n e0 e1, P e0 -> P e1 -> P (EMultiPartsN sep n e0 e1).
  Hypothesis HLI : forall d e, P e -> P (EList d e).
  Hypothesis HUL : forall d e, P e -> P (EUniqueList d e).
  Hypothesis HPT : forall vs e, P e -> P (EPartition vs e).
  Hypothesis HSE : forall k v e, P e -> P (ESetenv k v e).
  Hypothesis HGE : forall k, P (EGetenv k).
  Hypothesis HB : forall es, Forall P es -> P (EBatch es).

  Fixpoint expr_ind' (e : expr) : P e :=
    match e with
    | EValues vs => HV vs
    | EValuesDescribed vs => HD vs
    | EStyledValuesDescribed vs => HT vs
    | EStatic m vs => HS m vs
    | EMessage m => HM m
    | ECtx => HC
    | EFilter vs e => HF vs e (expr_ind' e)
    | ERetain vs e => HR vs e (expr_ind' e)
    | EFilterArgs e => HFA e (expr_ind' e)
    | EFilterParts e => HFP e (expr_ind' e)
    | EPrefix p e => HP p e (expr_ind' e)
    | ESuffix s e => HX s e (expr_ind' e)
    | EStyle s e => HY s e (expr_ind' e)
    | ETag t e => HG t e (expr_ind' e)
    | EUsage u e => HU u e (expr_ind' e)
    | ENoSpace rs e => HN rs e (expr_ind' e)
    | ESuppress ps e => HQ ps e (expr_ind' e)
    | EUnless b e => HL b e (expr_ind' e)
    | EShift n e => HH n e (expr_ind' e)
    | EMultiParts ds e => HMP ds e (expr_ind' e)
    | EMultiPartsN sep n e0 e1 => HMN sep n e0 e1 (expr_ind' e0) (expr_ind' e1)
    | EList d e => HLI d e (expr_ind' e)
    | EUniqueList d e => HUL d e (expr_ind' e)
    | EPartition vs e => HPT vs e (expr_ind' e)
    | ESetenv k v e => HSE k v e (expr_ind' e)
    | EGetenv k => HGE k
    | EBatch es => HB es ((fix go (l : list expr) : Forall P l :=
                             match l with [] => Forall_nil P | x :: l' => Forall_cons x (expr_ind' x) (go l') end) es)
    end.
End ExprInd.

Lemma denote_callback ci rm e : exists f, denote ci rm e = callback f.
Proof.
  destruct e; cbn [denote];
    unfold ActionValues, ActionValuesDescribed, ActionStyledValuesDescribed, ActionMessage, Filter, Retain, FilterArgs,
      FilterParts, Prefix, Suffix, Style, StyleF, Tag, TagF, Usage, NoSpace, Suppress, Unless, Shift, MultiParts,
      ActionMultiPartsN, List, UniqueList, ActionMultiParts, ActionMultiPartsN, Batch, Setenv, Getenv; eexists; reflexivity.
Qed.

Lemma sm_add_star_l rs : sm_add (B [42]) rs = B [42].
Proof. reflexivity. Qed.
Lemma sm_add_star' sm : sm_add sm [star] = B [42].
Proof.
  unfold sm_add. replace (contains (encode_runes [star]) (B [42])) with true by (vm_compute; reflexivity).
  rewrite orb_true_r. reflexivity.
Qed.
Lemma sm_merge_star sm : sm_merge sm (B [42]) = B [42].
Proof. unfold sm_merge. change (runes (B [42])) with [star]. cbn [fold_left]. apply sm_add_star'. Qed.

Lemma surjective_invoked (i : invoked) : i = (fst i, snd i).
Proof. destruct i; reflexivity. Qed.

Lemma described_AVD vs c :
  invoke (ActionValuesDescribed vs) c = described n_AVD 2 pairs vs.
Proof.
  unfold ActionValuesDescribed, described. rewrite invoke_callback.
  destruct (Nat.eqb (length vs mod 2) 0); [reflexivity|apply invoke_ActionMessage].
Qed.
Lemma described_ASVD vs c :
  invoke (ActionStyledValuesDescribed vs) c = described n_ASVD 3 triples vs.
Proof.
  unfold ActionStyledValuesDescribed, described. rewrite invoke_callback.
  destruct (Nat.eqb (length vs mod 3) 0); [reflexivity|apply invoke_ActionMessage].
Qed.

Lemma invoke_Batch l c : invoke (Batch l) c = merge_invoked (map (fun a => invoke a c) l).
Proof. unfold Batch. rewrite invoke_callback. unfold to_a. cbn [invoke]. symmetry. apply surjective_invoked. Qed.

Theorem refines ci rm : forall e c, invoke (denote ci rm e) c = eval ci rm e c.
Proof.
  intro e. induction e using expr_ind'; intro c; cbn [denote eval].
  - apply invoke_ActionValues.
  - apply described_AVD.
  - apply described_ASVD.
  - rewrite invoke_callback. reflexivity.
  - apply invoke_ActionMessage.
  - rewrite invoke_callback. apply invoke_ActionValues.
  - rewrite invoke_Filter, IHe. destruct (eval ci rm e c); reflexivity.
  - rewrite invoke_Retain, IHe. destruct (eval ci rm e c); reflexivity.
  - rewrite invoke_FilterArgs, IHe. destruct (eval ci rm e c); reflexivity.
  - rewrite invoke_FilterParts, IHe. destruct (eval ci rm e c); reflexivity.
  - rewrite invoke_Prefix. destruct (match_has_prefix ci (cvalue c) p).
    + cbv zeta. rewrite IHe. destruct (eval ci rm e _); reflexivity.
    + destruct (match_has_prefix ci p (cvalue c)); [|reflexivity].
      cbv zeta. rewrite IHe. destruct (eval ci rm e _); reflexivity.
  - rewrite invoke_Suffix, IHe. destruct (eval ci rm e c); reflexivity.
  - rewrite invoke_Style, IHe. destruct (eval ci rm e c); reflexivity.
  - rewrite invoke_Tag, IHe. destruct (eval ci rm e c); reflexivity.
  - rewrite invoke_Usage, IHe. destruct (eval ci rm e c); reflexivity.
  - destruct (denote_callback ci rm e) as [f Hf]. rewrite Hf, invoke_NoSpace_cb, <- Hf, IHe.
    destruct (eval ci rm e c); reflexivity.
  - rewrite invoke_Suppress, IHe. destruct (eval ci rm e c); reflexivity.
  - rewrite invoke_Unless. destruct b; [reflexivity|apply IHe].
  - rewrite invoke_Shift. destruct (n <? 0)%Z; [reflexivity|apply IHe].
  - rewrite invoke_MultiParts, IHe. destruct (eval ci rm e c) as [m rs]. cbn [fst snd]. reflexivity.
  - (* ActionMultiPartsN *)
    destruct (n =? 0)%Z eqn:E0.
    { unfold ActionMultiPartsN. rewrite invoke_callback, E0. apply invoke_ActionMessage. }
    destruct (n =? 1)%Z eqn:E1.
    { unfold ActionMultiPartsN. rewrite invoke_callback, E0, E1, invoke_to_a.
      destruct (cparts c); [apply IHe1|apply IHe2]. }
    pose proof (invoke_MultiPartsN sep n
                  (fun c0 => match cparts c0 with [] => denote ci rm e1 | _ => denote ci rm e2 end) c E0 E1) as H.
    destruct (mpn_split sep n (cvalue c)) as [[done parts] cur]. cbv zeta in H. rewrite H. cbn [cparts].
    destruct parts as [|p ps]; [rewrite IHe1|rewrite IHe2]; destruct (eval ci rm _ _); reflexivity.
  - (* List *)
    unfold List, ActionMultiParts.
    pose proof (invoke_MultiPartsN d (-1) (fun c0 => NoSpace [] (to_a (invoke (denote ci rm e) c0))) c eq_refl eq_refl) as H.
    destruct (mpn_split d (-1) (cvalue c)) as [[done parts] cur]. cbv zeta in H. rewrite H.
    cbv beta. unfold to_a. rewrite invoke_NoSpace_static, IHe. destruct (eval ci rm e _) as [m rs]. cbn [fst snd nospace set_nospace].
    rewrite sm_add_star'. change (sm_add (B [42]) []) with (B [42]). rewrite sm_add_star_l. reflexivity.
  - (* UniqueList *)
    unfold UniqueList, ActionMultiParts.
    pose proof (invoke_MultiPartsN d (-1) (fun _ => NoSpace [] (FilterParts (denote ci rm e))) c eq_refl eq_refl) as H.
    destruct (mpn_split d (-1) (cvalue c)) as [[done parts] cur]. cbv zeta in H. rewrite H.
    unfold FilterParts at 1 2 3. rewrite !invoke_NoSpace_cb. rewrite !invoke_callback, !invoke_Filter, IHe. cbn [cparts].
    destruct (eval ci rm e _) as [m rs]. cbn [fst snd nospace_arg]. unfold add_nospace, set_nospace.
    cbn [messages nospace usage]. change (sm_add [] [star]) with (B [42]). rewrite sm_merge_star, sm_add_star_l. reflexivity.
  - (* Partition *)
    rewrite invoke_callback, invoke_Batch. cbn [map]. rewrite invoke_Filter, invoke_Retain, !invoke_to_a, IHe.
    destruct (eval ci rm e c); reflexivity.
  - (* Setenv *)
    unfold Setenv. rewrite invoke_callback, invoke_to_a. apply IHe.
  - (* Getenv *)
    unfold Getenv. rewrite invoke_callback. apply invoke_ActionValues.
  - (* Batch *)
    rewrite invoke_Batch. f_equal. induction H as [|x l Hx Hl IH]; [reflexivity|].
    cbn [map]. rewrite Hx, IH. reflexivity.
Qed.

(* ---------- corollaries stated in Props/C12.v ---------- *)
Lemma prefix_rebuild p x a c : cvalue c = p ++ x ->
  invoke (Prefix false p a) c =
    (fst (invoke a (set_cvalue c x)), rv_prefix p (snd (invoke a (set_cvalue c x)))).
Proof.
  intro H. rewrite invoke_Prefix. cbn [match_has_prefix]. rewrite H, has_prefix_app, drop_app. reflexivity.
Qed.

Lemma prefix_incompatible p a c :
  has_prefix (cvalue c) p = false -> has_prefix p (cvalue c) = false -> invoke (Prefix false p a) c = (meta0, []).
Proof. intros H1 H2. rewrite invoke_Prefix. cbn [match_has_prefix]. rewrite H1, H2. reflexivity. Qed.

Lemma rv_prefix_In p rs r : In r (rv_prefix p rs) ->
  exists y, In y rs /\ value r = p ++ value y /\ display r = display y /\ description r = description y
            /\ style r = style y /\ tag r = tag y.
Proof.
  unfold rv_prefix. intro H. apply in_map_iff in H as (y & <- & Hy). exists y. repeat split; auto.
Qed.

Lemma multiparts_rebuild sep n cb c r : (n =? 0)%Z = false -> (n =? 1)%Z = false ->
  In r (snd (invoke (ActionMultiPartsN sep n cb) c)) ->
  let '(done, parts, cur) := mpn_split sep n (cvalue c) in
  exists y, In y (snd (invoke (cb (with_vp c cur parts)) (with_vp c cur parts))) /\
            value r = done ++ value y /\ display r = display y /\ description r = description y.
Proof.
  intros H0 H1 Hin. pose proof (invoke_MultiPartsN sep n cb c H0 H1) as H.
  destruct (mpn_split sep n (cvalue c)) as [[done parts] cur]. cbv zeta in H. rewrite H in Hin. cbn [snd] in Hin.
  apply rv_prefix_In in Hin as (y & Hy & Hv & Hd & Hde & _). exists y. auto.
Qed.

Lemma rv_filter_In vs rs r : In r (rv_filter vs rs) <-> In r rs /\ in_strs (value r) vs = false.
Proof. unfold rv_filter. rewrite filter_In, negb_true_iff. reflexivity. Qed.
Lemma rv_retain_In vs rs r : In r (rv_retain vs rs) <-> In r rs /\ in_strs (value r) vs = true.
Proof. unfold rv_retain. rewrite filter_In. reflexivity. Qed.

Lemma uniquelist_no_repeat ci rm d e c r :
  In r (snd (invoke (denote ci rm (EUniqueList d e)) c)) ->
  let '(done, parts, cur) := mpn_split d (-1) (cvalue c) in
  exists y, value r = done ++ value y /\ in_strs (value y) parts = false.
Proof.
  rewrite refines. cbn [eval]. destruct (mpn_split d (-1) (cvalue c)) as [[done parts] cur].
  destruct (eval ci rm e _) as [m rs]. cbn [snd]. intro H.
  apply rv_prefix_In in H as (y & Hy & Hv & _). apply rv_filter_In in Hy as [_ Hn]. exists y. auto.
Qed.
