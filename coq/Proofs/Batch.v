(* Proofs/Batch.v — C09: conflict-free members commute, so every schedule of a Batch yields
   the store that running the members one after the other yields; and it has no data race. *)
From Coq Require Import Lia.
From CV Require Import Base.Str Model.Batch.
Local Open Scope nat_scope.

Section Proofs.
  Variable val : Type.
  Notation store := (store val).
  Notation step := (step val).

  Definition eqs (m1 m2 : store) : Prop := forall l, m1 l = m2 l.
  Lemma eqs_refl m : eqs m m. Proof. intro; reflexivity. Qed.
  Lemma eqs_trans a b c : eqs a b -> eqs b c -> eqs a c. Proof. intros H1 H2 l. rewrite H1. apply H2. Qed.
  Lemma eqs_sym a b : eqs a b -> eqs b a. Proof. intros H l. symmetry. apply H. Qed.

  Lemma exec1_equiv m1 m2 (s : step) : respects val s -> eqs m1 m2 -> eqs (exec1 val m1 s) (exec1 val m2 s).
  Proof.
    intros Hr He l. unfold exec1. destruct (Nat.eqb l (wr s)); [|apply He].
    apply Hr. intros x _. apply He.
  Qed.
  Lemma exec_equiv t : Forall (respects val) t -> forall m1 m2, eqs m1 m2 -> eqs (exec val m1 t) (exec val m2 t).
  Proof.
    induction 1 as [|s t Hs _ IH]; intros m1 m2 He; [exact He|]. cbn [exec fold_left]. apply IH. apply exec1_equiv; assumption.
  Qed.

  (* two independent steps commute *)
  Lemma swap m (s t : step) : respects val s -> respects val t ->
    wr s <> wr t -> ~ In (wr t) (rds s) -> ~ In (wr s) (rds t) ->
    eqs (exec1 val (exec1 val m t) s) (exec1 val (exec1 val m s) t).
  Proof.
    intros Hs Ht Hw H1 H2 l. unfold exec1 at 1 3.
    destruct (Nat.eqb l (wr s)) eqn:E1; destruct (Nat.eqb l (wr t)) eqn:E2.
    - apply Nat.eqb_eq in E1. apply Nat.eqb_eq in E2. congruence.
    - unfold exec1 at 2. rewrite E1. apply Hs. intros x Hx. unfold exec1.
      destruct (Nat.eqb x (wr t)) eqn:E; [apply Nat.eqb_eq in E; subst; contradiction|reflexivity].
    - unfold exec1 at 1. rewrite E2. apply Ht. intros x Hx. unfold exec1.
      destruct (Nat.eqb x (wr s)) eqn:E; [apply Nat.eqb_eq in E; subst; contradiction|reflexivity].
    - unfold exec1. rewrite E1, E2. reflexivity.
  Qed.

  (* a step independent of a whole thread can be moved behind it *)
  Lemma commute (a : list step) (t : step) : Forall (respects val) a -> respects val t ->
    ~ In (wr t) (touches val a) -> (forall l, In l (writes val a) -> l <> wr t /\ ~ In l (rds t)) ->
    forall m, eqs (exec val (exec1 val m t) a) (exec1 val (exec val m a) t).
  Proof.
    induction 1 as [|s a Hs Ha IH]; intros Ht Hn Hw m; [apply eqs_refl|].
    cbn [exec fold_left]. fold (exec val (exec1 val (exec1 val m t) s) a). fold (exec val (exec1 val m s) a).
    assert (Hws : wr s <> wr t /\ ~ In (wr s) (rds t)) by (apply Hw; left; reflexivity).
    assert (Hrs : ~ In (wr t) (rds s)).
    { intro H. apply Hn. unfold touches. apply in_or_app. right. cbn [reads flat_map]. apply in_or_app. left. exact H. }
    eapply eqs_trans.
    - apply exec_equiv; [exact Ha|]. apply swap; [exact Hs|exact Ht|tauto|exact Hrs|tauto].
    - apply IH; [exact Ht| |].
      + intro H. apply Hn. unfold touches in *. apply in_app_or in H as [H|H]; apply in_or_app.
        * left. right. exact H.
        * right. cbn [reads flat_map]. apply in_or_app. right. exact H.
      + intros l Hl. apply Hw. right. exact Hl.
  Qed.

  Lemma cf_tail_l s (a b : list step) : conflict_free val (s :: a) b -> conflict_free val a b.
  Proof.
    intros [H1 H2]. split.
    - intros l Hl. apply H1. right. exact Hl.
    - intros l Hl Hin. apply (H2 l Hl). unfold touches in *. apply in_app_or in Hin as [Hin|Hin]; apply in_or_app.
      + left. right. exact Hin.
      + right. cbn [reads flat_map]. apply in_or_app. right. exact Hin.
  Qed.
  Lemma cf_tail_r t (a b : list step) : conflict_free val a (t :: b) -> conflict_free val a b.
  Proof.
    intros [H1 H2]. split.
    - intros l Hl Hin. apply (H1 l Hl). unfold touches in *. apply in_app_or in Hin as [Hin|Hin]; apply in_or_app.
      + left. right. exact Hin.
      + right. cbn [reads flat_map]. apply in_or_app. right. exact Hin.
    - intros l Hl. apply H2. right. exact Hl.
  Qed.

  Theorem schedule_independent sched : forall (a b : list step) m,
    Forall (respects val) a -> Forall (respects val) b -> conflict_free val a b ->
    eqs (run2 val sched a b m) (exec val (exec val m a) b).
  Proof.
    induction sched as [|w sched IH]; intros a b m Ha Hb Hcf; [apply eqs_refl|].
    destruct w; cbn [run2].
    - destruct a as [|s a]; [apply IH; assumption|].
      inversion Ha; subst. eapply eqs_trans; [apply IH; [assumption|assumption|eapply cf_tail_l; exact Hcf]|]. apply eqs_refl.
    - destruct b as [|t b]; [apply IH; assumption|].
      inversion Hb as [|? ? Ht Hb']; subst.
      eapply eqs_trans; [apply IH; [assumption|assumption|eapply cf_tail_r; exact Hcf]|].
      cbn [exec fold_left]. fold (exec val (exec1 val (exec val m a) t) b).
      apply exec_equiv; [exact Hb'|]. destruct Hcf as [H1 H2]. apply commute; [exact Ha|exact Ht| |].
      + apply H2. left. reflexivity.
      + intros l Hl. split.
        * intro E. subst. apply (H1 (wr t) Hl). unfold touches. apply in_or_app. left. left. reflexivity.
        * intro Hin. apply (H1 l Hl). unfold touches. apply in_or_app. right. cbn [reads flat_map]. apply in_or_app. left. exact Hin.
  Qed.

  (* conflict-free threads have no data race, whatever the schedule *)
  Theorem conflict_free_no_race (a b : list step) : conflict_free val a b -> ~ race val a b.
  Proof.
    intros [H1 H2] (s & t & l & Hs & Ht & H).
    assert (Hws : In (wr s) (writes val a)) by (apply in_map; exact Hs).
    assert (Hwt : In (wr t) (writes val b)) by (apply in_map; exact Ht).
    destruct H as [[E [E2|E2]]|[E E2]]; subst.
    - apply (H1 (wr s) Hws). unfold touches. apply in_or_app. left. rewrite <- E2. exact Hwt.
    - apply (H1 (wr s) Hws). unfold touches. apply in_or_app. right. apply in_flat_map. exists t. auto.
    - apply (H2 (wr t) Hwt). unfold touches. apply in_or_app. right. apply in_flat_map. exists s. auto.
  Qed.
End Proofs.

(* ---------- any number of members: every interleaving equals running them left to right ---------- *)
Section Many.
  Variable val : Type.
  Notation step := (step val).

  Inductive interleaving : list (list step) -> list step -> Prop :=
  | il_done ts : Forall (fun t => t = []) ts -> interleaving ts []
  | il_step pre s t post l : interleaving (pre ++ t :: post) l -> interleaving (pre ++ (s :: t) :: post) (s :: l).

  (* every two distinct members are conflict free *)
  Fixpoint pairwise (ts : list (list step)) : Prop :=
    match ts with
    | [] => True
    | t :: rest => Forall (conflict_free val t) rest /\ pairwise rest
    end.

  Lemma cf_sym (a b : list step) : conflict_free val a b -> conflict_free val b a.
  Proof. intros [H1 H2]. split; assumption. Qed.

  Lemma pairwise_app pre x post : pairwise (pre ++ x :: post) ->
    Forall (fun a => conflict_free val a x) pre /\ pairwise (pre ++ post) /\ Forall (conflict_free val x) post.
  Proof.
    induction pre as [|p pre IH]; cbn [app pairwise].
    - intros [H1 H2]. split; [constructor|]. split; assumption.
    - intros [H1 H2]. destruct (IH H2) as (A & B & C). apply Forall_app in H1 as [H1a H1b].
      inversion H1b as [|? ? Hpx Hpp]; subst. split; [constructor; assumption|]. split; [|exact C].
      split; [apply Forall_app; split; assumption|exact B].
  Qed.

  Lemma pairwise_shrink pre s t post : pairwise (pre ++ (s :: t) :: post) -> pairwise (pre ++ t :: post).
  Proof.
    induction pre as [|p pre IH]; cbn [app pairwise].
    - intros [H1 H2]. split; [|exact H2]. eapply Forall_impl; [|exact H1]. intros b Hb. eapply cf_tail_l. exact Hb.
    - intros [H1 H2]. split; [|apply IH; exact H2]. apply Forall_app in H1 as [H1a H1b]. apply Forall_app. split; [exact H1a|].
      inversion H1b as [|? ? Hpx Hpp]; subst. constructor; [|exact Hpp]. eapply cf_tail_r. exact Hpx.
  Qed.

  Lemma concat_touch (pre : list (list step)) l : In l (touches val (concat pre)) -> exists a, In a pre /\ In l (touches val a).
  Proof.
    unfold touches, writes, reads. intro H. apply in_app_or in H as [H|H].
    - apply in_map_iff in H as (s & <- & Hs). apply in_concat in Hs as (a & Ha & Hsa). exists a. split; [exact Ha|].
      apply in_or_app. left. apply in_map. exact Hsa.
    - apply in_flat_map in H as (s & Hs & Hl). apply in_concat in Hs as (a & Ha & Hsa). exists a. split; [exact Ha|].
      apply in_or_app. right. apply in_flat_map. exists s. auto.
  Qed.
  Lemma concat_write (pre : list (list step)) l : In l (writes val (concat pre)) -> exists a, In a pre /\ In l (writes val a).
  Proof.
    unfold writes. intro H. apply in_map_iff in H as (s & <- & Hs). apply in_concat in Hs as (a & Ha & Hsa).
    exists a. split; [exact Ha|apply in_map; exact Hsa].
  Qed.

  Theorem every_interleaving_is_sequential ts l : interleaving ts l ->
    Forall (Forall (respects val)) ts -> pairwise ts ->
    forall m, eqs val (exec val m l) (exec val m (concat ts)).
  Proof.
    induction 1 as [ts Hnil|pre s t post l Hil IH]; intros Hr Hp m.
    - replace (concat ts) with (@nil step); [apply eqs_refl|]. symmetry. clear Hr Hp.
      induction Hnil as [|x ts Hx _ IHn]; [reflexivity|]. subst. exact IHn.
    - cbn [exec fold_left]. fold (exec val (exec1 val m s) l).
      assert (Hr' : Forall (Forall (respects val)) (pre ++ t :: post)).
      { apply Forall_app in Hr as [Hr1 Hr2]. apply Forall_app. split; [exact Hr1|]. inversion Hr2 as [|? ? Hst Hpost]; subst.
        constructor; [inversion Hst; assumption|exact Hpost]. }
      eapply eqs_trans; [apply IH; [exact Hr'|apply pairwise_shrink with (s := s); exact Hp]|].
      assert (exec_app : forall m0 (x y : list step), exec val m0 (x ++ y) = exec val (exec val m0 x) y)
        by (intros; unfold exec; apply fold_left_app).
      rewrite !concat_app. cbn [concat]. rewrite !exec_app.
      change (exec val (exec val m (concat pre)) (s :: t)) with (exec val (exec1 val (exec val m (concat pre)) s) t).
      apply Forall_app in Hr as [Hr1 Hr2]. inversion Hr2 as [|? ? Hst Hpost]; subst. inversion Hst as [|? ? Hs Ht]; subst.
      apply exec_equiv; [apply Forall_concat; exact Hpost|]. apply exec_equiv; [exact Ht|].
      { destruct (pairwise_app _ _ _ Hp) as (Hpre & _ & _).
        apply commute; [apply Forall_concat; exact Hr1|exact Hs| |].
        * intro Hin. apply concat_touch in Hin as (a & Ha & Hl). rewrite Forall_forall in Hpre.
          destruct (Hpre a Ha) as [_ H2]. apply (H2 (wr s)); [left; reflexivity|exact Hl].
        * intros x Hx. apply concat_write in Hx as (a & Ha & Hxa). rewrite Forall_forall in Hpre.
          destruct (Hpre a Ha) as [H1 _]. split.
          -- intro E. subst. apply (H1 (wr s) Hxa). unfold touches. apply in_or_app. left. left. reflexivity.
          -- intro Hin. apply (H1 x Hxa). unfold touches. apply in_or_app. right. cbn [reads flat_map]. apply in_or_app. left. exact Hin. }
  Qed.
End Many.

(* ---------- what Merge yields (invokedAction.go:36-43, value.go:49-61, meta.go:9-15) ---------- *)
From CV Require Import Base.Utf8 Model.Common Model.MultiParts Model.Action Proofs.MultiParts Proofs.Integrate Proofs.Export Proofs.Determinism.

Lemma fold_store_In rs : forall m k r,
  In (k, r) (fold_left (fun m r => store (value r) r m) rs m) -> In (k, r) m \/ In r rs.
Proof.
  induction rs as [|x rs IH]; intros m k r H; cbn [fold_left] in H; [left; exact H|].
  apply IH in H as [H|H]; [|right; right; exact H].
  apply store_In in H as [E|H]; [injection E as -> ->; right; left; reflexivity|left; exact H].
Qed.

Lemma fold_store_keys_all rs : forall m x,
  (In x rs \/ In (value x) (map fst m)) -> In (value x) (map fst (fold_left (fun m r => store (value r) r m) rs m)).
Proof.
  induction rs as [|y rs IH]; intros m x H; cbn [fold_left].
  - destruct H as [[]|H]. exact H.
  - apply IH. destruct H as [[->|H]|H].
    + right. change (value x) with (fst (value x, x)). apply in_map. apply store_has.
    + left. exact H.
    + right. apply store_keys_keep. exact H.
Qed.

Lemma fold_store_last rs x : forall m,
  In (value x, x) (fold_left (fun m r => store (value r) r m) (rs ++ [x]) m).
Proof. intro m. rewrite fold_left_app. cbn [fold_left]. apply store_has. Qed.

(* Unique: one candidate per inserted value, taken from the input, the last one wins *)
Theorem unique_spec rs :
  NoDup (map value (rv_unique rs)) /\
  (forall r, In r (rv_unique rs) -> In r rs) /\
  (forall x, In x rs -> exists r, In r (rv_unique rs) /\ value r = value x).
Proof.
  unfold rv_unique.
  destruct (fold_store_keys rs [] (NoDup_nil _) (fun _ _ H => match H with end)) as [Hn Hk].
  set (m := fold_left (fun m r => store (value r) r m) rs []) in *.
  split; [|split].
  - eapply Permutation.Permutation_NoDup; [apply Permutation.Permutation_map; symmetry; apply Proofs.Integrate.sort_by_display_perm|].
    rewrite (map_value_snd _ Hk). exact Hn.
  - intros r Hr. eapply Permutation.Permutation_in in Hr; [|apply Proofs.Integrate.sort_by_display_perm].
    apply in_map_iff in Hr as ([k r0] & <- & Hin). apply fold_store_In in Hin as [[]|Hin]. exact Hin.
  - intros x Hx. pose proof (fold_store_keys_all rs [] x (or_introl Hx)) as Hin. fold m in Hin.
    apply in_map_iff in Hin as ([k r] & Hk' & Hin). cbn [fst] in Hk'. subst k. exists r. split.
    + eapply Permutation.Permutation_in; [symmetry; apply Proofs.Integrate.sort_by_display_perm|]. apply in_map_iff. exists (value x, r). auto.
    + symmetry. apply (Hk _ _ Hin).
Qed.

Theorem unique_last_wins rs x : In x (rv_unique (rs ++ [x])).
Proof.
  unfold rv_unique. eapply Permutation.Permutation_in; [symmetry; apply Proofs.Integrate.sort_by_display_perm|].
  apply in_map_iff. exists (value x, x). split; [reflexivity|apply fold_store_last].
Qed.

(* the merged meta: messages united, last non-empty usage *)
Lemma fold_merge_messages l : forall m x,
  In x (messages (fold_left (fun m o => meta_merge m (fst o)) l m)) <->
  In x (messages m) \/ exists i : invoked, In i l /\ In x (messages (fst i)).
Proof.
  induction l as [|o l IH]; intros m x; cbn [fold_left].
  - split; [auto|intros [H|(i & [] & _)]; exact H].
  - rewrite IH. unfold meta_merge at 1. cbn [messages]. rewrite msgs_merge_In. split.
    + intros [[H|H]|(i & Hi & Hx)]; [auto|right; exists o; split; [left; reflexivity|exact H]|right; exists i; split; [right; exact Hi|exact Hx]].
    + intros [H|(i & [->|Hi] & Hx)]; [left; left; exact H|left; right; exact Hx|right; exists i; auto].
Qed.

Theorem merge_messages_united x (a b : invoked) rest :
  In x (messages (fst (merge_invoked (a :: b :: rest)))) <-> exists i, In i (a :: b :: rest) /\ In x (messages (fst i)).
Proof.
  cbn [merge_invoked fst]. rewrite fold_merge_messages. split.
  - intros [H|H]; [exists a; split; [left; reflexivity|exact H]|exact H].
  - intros (i & Hi & Hx). right. exists i. auto.
Qed.

Theorem merge_values_union (a b : invoked) rest :
  snd (merge_invoked (a :: b :: rest)) = rv_unique (snd a ++ flat_map snd (a :: b :: rest)).
Proof. reflexivity. Qed.

Lemma fold_merge_usage l : forall m,
  usage (fold_left (fun m o => meta_merge m (fst o)) l m) =
  fold_left (fun u (o : invoked) => if is_empty (usage (fst o)) then u else usage (fst o)) l (usage m).
Proof. induction l as [|o l IH]; intro m; cbn [fold_left]; [reflexivity|]. rewrite IH. reflexivity. Qed.

Theorem merge_usage_last_nonempty (a b : invoked) rest :
  usage (fst (merge_invoked (a :: b :: rest))) =
  fold_left (fun u (o : invoked) => if is_empty (usage (fst o)) then u else usage (fst o)) (a :: b :: rest) (usage (fst a)).
Proof. cbn [merge_invoked fst]. apply fold_merge_usage. Qed.
