(* Proofs/Bridge.v — C20: what crosses the bridge arrives intact. *)
From Coq Require Import Lia.
From CV Require Import Base.Str Base.Utf8 Model.Common Model.Bridge.
Local Open Scope nat_scope.

Lemma split_tab_join v d : ~ In tab v -> split_tab (v ++ [tab] ++ d) = (v, d).
Proof.
  induction v as [|c v IH]; intro H.
  - cbn [app split_tab]. rewrite beq_refl. reflexivity.
  - cbn [app split_tab]. destruct (beq c tab) eqn:E; [apply beq_true in E; subst; exfalso; apply H; left; reflexivity|].
    cbn [app] in IH. rewrite IH by (intro; apply H; right; assumption). reflexivity.
Qed.
Lemma split_tab_plain v : ~ In tab v -> split_tab v = (v, []).
Proof.
  induction v as [|c v IH]; intro H; [reflexivity|]. cbn [split_tab].
  destruct (beq c tab) eqn:E; [apply beq_true in E; subst; exfalso; apply H; left; reflexivity|].
  rewrite IH by (intro; apply H; right; assumption). reflexivity.
Qed.

(* value and description survive the trip through cobra's "value TAB description" strings *)
Theorem value_description_roundtrip r : ~ In tab (value r) ->
  split_tab (cobra_value r) = (value r, description r).
Proof.
  intro H. unfold cobra_value. destruct (description r) as [|c d] eqn:E.
  - apply split_tab_plain. exact H.
  - apply split_tab_join. exact H.
Qed.

(* a value that itself contains a tab does not survive *)
Theorem tab_in_value_refuted : exists r, split_tab (cobra_value r) <> (value r, description r).
Proof. exists (mkRaw (B [97;9;98]) [] [] [] [] [] []). vm_compute. discriminate. Qed.

Lemma bit_nofilecomp_plain : bit d_nofilecomp d_nospace = false /\ bit d_nofilecomp d_nofilecomp = true /\
  bit (d_nofilecomp + d_nospace) d_nospace = true /\ bit (d_nofilecomp + d_nospace) d_nofilecomp = true /\
  bit d_nofilecomp d_error = false /\ bit (d_nofilecomp + d_nospace) d_error = false /\
  bit d_nofilecomp d_filterdirs = false /\ bit (d_nofilecomp + d_nospace) d_filterdirs = false /\
  bit d_nofilecomp d_filterext = false /\ bit (d_nofilecomp + d_nospace) d_filterext = false.
Proof. repeat split; reflexivity. Qed.

(* the directive: file completion always disabled, NoSpace iff a served value has a no-space suffix *)
Theorem directive_spec m vs :
  bit (cobra_directive m vs) d_nofilecomp = true /\
  (bit (cobra_directive m vs) d_nospace = true <-> exists r, In r vs /\ sm_matches (nospace m) (value r) = true) /\
  bit (cobra_directive m vs) d_error = false /\ bit (cobra_directive m vs) d_filterdirs = false /\
  bit (cobra_directive m vs) d_filterext = false.
Proof.
  unfold cobra_directive, any_nospace. destruct (existsb _ vs) eqn:E.
  - repeat split; try reflexivity. intros _. apply existsb_exists in E. exact E.
  - repeat split; try reflexivity; try discriminate. intros (r & Hr & Hm).
    assert (existsb (fun r => sm_matches (nospace m) (value r)) vs = true) by (apply existsb_exists; exists r; auto). congruence.
Qed.

(* both directions composed: what carapace serves through cobra, read back by ActionCobra, is
   the same list of values and descriptions; no-space becomes all-or-nothing *)
Theorem bridge_roundtrip m vs : vs <> [] -> (forall r, In r vs -> ~ In tab (value r)) ->
  directive_to_action (cobra_directive m vs) (cobra_values vs) =
    SvValues (map (fun r => (value r, description r)) vs) (any_nospace m vs).
Proof.
  intros Hne Ht. unfold directive_to_action, cobra_directive.
  assert (Hv : map split_tab (cobra_values vs) = map (fun r => (value r, description r)) vs).
  { unfold cobra_values. rewrite map_map. apply map_ext_in. intros r Hr. apply value_description_roundtrip. apply Ht. exact Hr. }
  destruct (any_nospace m vs); cbn [Nat.add]; (destruct vs as [|r vs']; [contradiction|]);
    cbn [cobra_values map] in *; rewrite <- Hv; reflexivity.
Qed.

(* the directives of a cobra completion function, in the order ToA tests them *)
Theorem directive_priority d values :
  (bit d d_error = true -> directive_to_action d values = SvMessage) /\
  (bit d d_error = false -> bit d d_filterdirs = true ->
     directive_to_action d values = SvDirs (match values with [] => None | v :: _ => Some v end) (bit d d_nospace)) /\
  (bit d d_error = false -> bit d d_filterdirs = false -> bit d d_filterext = true ->
     directive_to_action d values = SvFiles (map (fun v => byte 46 :: v) values) (bit d d_nospace)) /\
  (bit d d_error = false -> bit d d_filterdirs = false -> bit d d_filterext = false ->
     directive_to_action d values =
       match values with
       | [] => if bit d d_nofilecomp then SvValues [] (bit d d_nospace) else SvFiles [] (bit d d_nospace)
       | _ => SvValues (map split_tab values) (bit d d_nospace)
       end).
Proof.
  unfold directive_to_action. repeat split; intros; repeat match goal with H : bit _ _ = _ |- _ => rewrite H; clear H end; reflexivity.
Qed.

(* which completion the generated ValidArgsFunction serves: the dash completions exactly after
   an explicit `--` that is followed by at least one argument, with the index counted from it *)
Theorem bridge_slot_spec dash n :
  match bridge_slot dash n with
  | DashIndex i => exists d, dash = Some d /\ d < n /\ i = n - d
  | PosIndex i => i = n /\ (forall d, dash = Some d -> n <= d)
  end.
Proof.
  unfold bridge_slot. destruct dash as [d|]; [|split; [reflexivity|discriminate]].
  destruct (Nat.ltb_spec d n).
  - exists d. auto.
  - split; [reflexivity|]. intros d' E. injection E as <-. exact H.
Qed.
