(* Proofs/Cache.v — C14: invariants of the cache state machine over every history. *)
From Coq Require Import ZArith Lia.
From CV Require Import Base.Str Base.Utf8 Model.Common Model.Shells Model.JsonParse Model.Action Model.Export Model.Cache
     Base.SortPerm Proofs.Export Proofs.JsonString Proofs.ExportBytes.
Local Open Scope nat_scope.

Lemma name_eqb_true a b : name_eqb a b = true <-> a = b.
Proof.
  destruct a as [a1 a2], b as [b1 b2]. unfold name_eqb. cbn [fst snd]. rewrite andb_true_iff, !str_eqb_true.
  split; [intros [-> ->]; reflexivity|intro H; inversion H; auto].
Qed.
Lemma name_eqb_refl a : name_eqb a a = true.
Proof. apply name_eqb_true. reflexivity. Qed.

Lemma lookup_remove_same f n : lookup (remove f n) n = None.
Proof. induction f as [|[n' e] f IH]; simpl; [reflexivity|]. destruct (name_eqb n n') eqn:E; [exact IH|]. simpl. rewrite E. exact IH. Qed.
Lemma lookup_remove_other f n m : name_eqb m n = false -> lookup (remove f n) m = lookup f m.
Proof.
  intro H. induction f as [|[n' e] f IH]; simpl; [reflexivity|]. destruct (name_eqb n n') eqn:E.
  - apply name_eqb_true in E. subst n'. rewrite H. exact IH.
  - simpl. rewrite IH. reflexivity.
Qed.
Lemma lookup_write_same f n e : lookup (write f n e) n = Some e.
Proof. unfold write. simpl. rewrite name_eqb_refl. reflexivity. Qed.
Lemma lookup_write_other f n e m : name_eqb m n = false -> lookup (write f n e) m = lookup f m.
Proof. intro H. unfold write. simpl. rewrite H. apply lookup_remove_other. exact H. Qed.

Definition norm_inv (r : invoked) : invoked := (norm_meta (fst r), norm_values (snd r)).
(* what is read back from the bytes written for r: normalised, and every text as Go's encoder
   leaves it (invalid UTF-8 -> U+FFFD; valid text unchanged) *)
Definition read_back (r : invoked) : invoked :=
  (mkMeta (msgs_merge [] (map sanitize (messages (fst r)))) (sanitize (nospace (fst r))) (sanitize (usage (fst r))),
   map (fun x => strip (san_raw x)) (isort_by value_ltb' (snd r))).

Definition valid_invoked (r : invoked) : Prop :=
  Forall all_valid (messages (fst r)) /\ all_valid (nospace (fst r)) /\ all_valid (usage (fst r)) /\ Forall valid_raw (snd r).
Lemma map_id_on {A} (f : A -> A) l : Forall (fun x => f x = x) l -> map f l = l.
Proof. induction 1 as [|x l Hx Hl IH]; [reflexivity|]. cbn. rewrite Hx, IH. reflexivity. Qed.
Theorem read_back_valid r : valid_invoked r -> read_back r = norm_inv r.
Proof.
  intros (Hm & Hn & Hu & Hv). unfold read_back, norm_inv, norm_meta, norm_values. destruct r as [[ms ns us] vs]. cbn [fst snd messages nospace usage set_messages] in *.
  rewrite (map_id_on sanitize ms) by (eapply Forall_impl; [|exact Hm]; intros a Ha; apply sanitize_valid; exact Ha).
  rewrite !sanitize_valid by assumption. f_equal.
  apply map_ext_in. intros x Hx. apply san_raw_valid.
  rewrite Forall_forall in Hv. apply Hv. rewrite isort_In in Hx. exact Hx.
Qed.

Section CacheProofs.
  Variable version : str.
  (* the byte-level round trip (Proofs/ExportBytes.v): the bytes written for r import to read_back r *)
  Lemma print_imports : forall r, exists e, import (print version r) = IOk e /\ completion_of e = read_back r.
  Proof.
    intro r. unfold print. rewrite import_export_bytes. eexists. split; [reflexivity|]. reflexivity.
  Qed.

  Notation step := (step version).
  Notation run := (run version).

  (* every stored entry was written by a real invocation without messages, not in the future *)
  Definition Inv (w : world) : Prop :=
    forall n e, lookup (fs w) n = Some e ->
      (mtime e <= now w)%Z /\
      forall r, origin e = Some r -> content e = print version r /\ messages (fst r) = [].

  Lemma inv_init : Inv world0.
  Proof. intros n e H. discriminate. Qed.

  Lemma inv_write w n e : Inv w -> (mtime e <= now w)%Z ->
    (forall r, origin e = Some r -> content e = print version r /\ messages (fst r) = []) ->
    Inv (mkWorld (write (fs w) n e) (now w)).
  Proof.
    intros Hi Ht He m e' H. cbn [fs now] in *. destruct (name_eqb m n) eqn:E.
    - apply name_eqb_true in E. subst m. rewrite lookup_write_same in H. injection H as <-. auto.
    - rewrite lookup_write_other in H by exact E. exact (Hi m e' H).
  Qed.

  Theorem step_inv w o : Inv w -> Inv (fst (step w o)).
  Proof.
    intro Hi. destruct o as [site k1 k2 t r|d|n b|n]; cbn [Cache.step].
    - destruct k1 as [ids|]; [|exact Hi].
      destruct (loadE w (file_name site ids) t); [exact Hi|].
      destruct (messages (fst r)) eqn:Em; [|exact Hi]. destruct k2 as [ids2|]; [|exact Hi]. cbn [fst].
      apply inv_write; [exact Hi|cbn; lia|]. cbn [origin content]. intros r0 H. injection H as <-. auto.
    - cbn [fst]. intros n e H. cbn [fs now] in *. destruct (Hi n e H) as [H1 H2]. split; [lia|exact H2].
    - cbn [fst]. apply inv_write; [exact Hi|cbn; lia|]. cbn [origin]. intros r0 H. discriminate.
    - cbn [fst]. intros m e H. cbn [fs now] in *. destruct (name_eqb m n) eqn:E.
      + apply name_eqb_true in E. subst. rewrite lookup_remove_same in H. discriminate.
      + rewrite lookup_remove_other in H by exact E. exact (Hi m e H).
  Qed.

  Theorem run_inv ops : forall w, Inv w -> Inv (fst (run w ops)).
  Proof.
    induction ops as [|o ops IH]; intros w Hi; cbn [Cache.run]; [exact Hi|].
    pose proof (step_inv w o Hi) as H1. destruct (step w o) as [w1 x]. cbn [fst] in H1.
    specialize (IH w1 H1). destruct (run w1 ops) as [w2 xs]. exact IH.
  Qed.

  Definition reachable (w : world) : Prop := exists ops, fst (run world0 ops) = w.
  Theorem reachable_inv w : reachable w -> Inv w.
  Proof. intros [ops <-]. apply run_inv, inv_init. Qed.

  Definition fresh (w : world) (e : entry) (timeout : Z) : Prop := (timeout < 0 \/ now w <= mtime e + timeout)%Z.

  Lemma load_some w n t b : load w n t = Some b -> exists e, lookup (fs w) n = Some e /\ content e = b /\ fresh w e t.
  Proof.
    unfold load. destruct (lookup (fs w) n) as [e|]; [|discriminate].
    destruct ((0 <=? t)%Z && (mtime e + t <? now w)%Z) eqn:E; [discriminate|]. intro H. injection H as <-.
    exists e. split; [reflexivity|]. split; [reflexivity|]. unfold fresh.
    apply andb_false_iff in E as [E|E]; [left; apply Z.leb_gt in E; lia|right; apply Z.ltb_ge in E; lia].
  Qed.

  (* a served (not real) answer is the normalised result of the most recent stored real
     invocation under this very name, and that invocation is not older than the timeout *)
  Theorem transparent w site ids k2 t r w' res : Inv w ->
    step w (OInvoke site (Some ids) k2 t r) = (w', Served false res) ->
    w' = w /\
    exists e, lookup (fs w) (file_name site ids) = Some e /\ fresh w e t /\
              (forall r0, origin e = Some r0 -> res = read_back r0 /\ messages (fst r0) = []).
  Proof.
    intros Hi H. cbn [Cache.step] in H. unfold loadE in H.
    destruct (load w (file_name site ids) t) as [b|] eqn:El.
    - destruct (import b) as [e0|] eqn:Ei.
      + injection H as <- <-. split; [reflexivity|].
        destruct (load_some _ _ _ _ El) as (e & He & Hc & Hf). exists e. split; [exact He|]. split; [exact Hf|].
        intros r0 Ho. destruct (Hi _ _ He) as [_ Hs]. destruct (Hs r0 Ho) as [Hp Hm]. split; [|exact Hm].
        destruct (print_imports r0) as (e1 & H1 & H2). rewrite <- Hc, Hp, H1 in Ei. injection Ei as <-. exact H2.
      + destruct (messages (fst r)); [destruct k2|]; discriminate.
    - destruct (messages (fst r)); [destruct k2|]; discriminate.
  Qed.

  (* a real invocation happens iff no usable entry exists (or the key function fails) *)
  Theorem real_iff_miss w site k1 k2 t r :
    (exists w', step w (OInvoke site k1 k2 t r) = (w', Served true r)) <->
    (k1 = None \/ exists ids, k1 = Some ids /\ loadE w (file_name site ids) t = None).
  Proof.
    cbn [Cache.step]. destruct k1 as [ids|].
    - destruct (loadE w (file_name site ids) t) as [e|] eqn:El.
      + split; [intros [w' H]; discriminate|intros [H|(ids' & H & H')]; [discriminate|injection H as <-; congruence]].
      + split; [intros _; right; exists ids; auto|intros _].
        destruct (messages (fst r)); [destruct k2|]; eauto.
    - split; eauto.
  Qed.

  (* real results are handed out untouched *)
  Theorem real_is_exact w o w' res : step w o = (w', Served true res) ->
    exists site k1 k2 t, o = OInvoke site k1 k2 t res.
  Proof.
    destruct o as [site k1 k2 t r|d|n b|n]; cbn [Cache.step]; try discriminate.
    destruct k1 as [ids|].
    - destruct (loadE w (file_name site ids) t); [discriminate|].
      destruct (messages (fst r)); [destruct k2|]; intro H; injection H as _ <-; eauto.
    - intro H; injection H as _ <-; eauto.
  Qed.

  (* results carrying messages are never stored *)
  Theorem messages_never_stored w site k1 k2 t r : messages (fst r) <> [] ->
    fst (step w (OInvoke site k1 k2 t r)) = w.
  Proof.
    intro Hm. cbn [Cache.step]. destruct k1 as [ids|]; [|reflexivity].
    destruct (loadE w (file_name site ids) t); [reflexivity|].
    destruct (messages (fst r)); [contradiction|reflexivity].
  Qed.

  (* an entry whose content does not decode is treated as absent *)
  Theorem corrupt_is_absent w site ids k2 t r e :
    lookup (fs w) (file_name site ids) = Some e -> import (content e) = IMsg ->
    snd (step w (OInvoke site (Some ids) k2 t r)) = Served true r.
  Proof.
    intros He Hi. cbn [Cache.step]. unfold loadE, load. rewrite He.
    destruct ((0 <=? t)%Z && (mtime e + t <? now w)%Z); [|rewrite Hi];
      destruct (messages (fst r)); try destruct k2; reflexivity.
  Qed.

  (* an invocation reads and writes only entries of its own call site *)
  Theorem isolation w site k1 k2 t r m :
    fst m <> site -> lookup (fs (fst (step w (OInvoke site k1 k2 t r)))) m = lookup (fs w) m.
  Proof.
    intro Hne. cbn [Cache.step]. destruct k1 as [ids|]; [|reflexivity].
    destruct (loadE w (file_name site ids) t); [reflexivity|].
    destruct (messages (fst r)); [|reflexivity]. destruct k2 as [ids2|]; [|reflexivity]. cbn [fst fs].
    apply lookup_write_other. apply not_true_iff_false. intro E. apply name_eqb_true in E. apply Hne. rewrite E. reflexivity.
  Qed.
End CacheProofs.

(* names: two (site, keys) pairs share a file iff their joins coincide *)
Theorem name_shared site ids site' ids' :
  file_name site ids = file_name site' ids' <-> site = site' /\ join_ids ids = join_ids ids'.
Proof. unfold file_name. split; [intro H; inversion H; auto|intros [-> ->]; reflexivity]. Qed.

Theorem join_collision_refuted :
  join_ids [B [97;1;98]] = join_ids [B [97]; B [98]] /\ key_string [B [97;10;98]] = key_string [B [97]; B [98]].
Proof. split; reflexivity. Qed.

(* keys free of the separator are isolated: the join is injective on them *)
Lemma split1_join_ids ids : ids <> [] -> (forall x, In x ids -> ~ In (byte 1) x) -> split1 (byte 1) (join_ids ids) = ids.
Proof. intros Hne H. unfold join_ids. apply split1_join; assumption. Qed.

Theorem join_injective ids ids' : ids <> [] -> ids' <> [] ->
  (forall x, In x ids -> ~ In (byte 1) x) -> (forall x, In x ids' -> ~ In (byte 1) x) ->
  join_ids ids = join_ids ids' -> ids = ids'.
Proof.
  intros H1 H2 H3 H4 E. rewrite <- (split1_join_ids ids H1 H3), <- (split1_join_ids ids' H2 H4), E. reflexivity.
Qed.
