(* Proofs/Descent.v — on lines whose words in front of each sub-command name are only the ones cobra
   skips (empty words, lone dashes), carapace's traverse reaches the command cobra's Find reaches, with
   the same words left; the slot theorem of one command then applies there (C01 on command trees). *)
From Coq Require Import Lia.
From CV Require Import Base.Str Model.Pflag Model.Descent Proofs.Pflag.
Local Open Scope nat_scope.

Definition skipped (w : str) : Prop := w = [] \/ w = B [45].
Definition plain_name (n : str) : Prop := n <> [] /\ starts_dash n = false.

(* the fragment: along the way only skipped words stand in front of a sub-command name, and in the
   command that is reached no word names one of its sub-commands *)
Inductive path_clean : cmd -> list str -> Prop :=
| PcDescend c pre name rest sub :
    Forall skipped pre -> Forall (fun w => find_next (csubs c) w = None) pre ->
    plain_name name -> find_next (csubs c) name = Some sub ->
    path_clean sub (pre ++ rest) -> path_clean c (pre ++ name :: rest)
| PcStay c ws : Forall (fun w => find_next (csubs c) w = None) ws -> path_clean c ws.

(* ---------- cobra ---------- *)
Lemma skipped_not_consuming fs w : skipped w -> str_eqb w dash2 = false /\ consumes_next fs w = false /\
  (negb (match w with [] => true | _ => false end) && negb (starts_dash w)) = false.
Proof. intros [->| ->]; repeat split; reflexivity. Qed.

Lemma plain_not_consuming fs n : plain_name n -> str_eqb n dash2 = false /\ consumes_next fs n = false.
Proof.
  intros [Hne Hd]. split.
  - apply str_eqb_false. intros ->. discriminate.
  - unfold consumes_next. rewrite Hd. destruct n as [|c n']; [contradiction|].
    cbn [starts_dash] in Hd. cbn [has_prefix dash2 B map].
    destruct (beq (ascii_of_nat 45) c) eqn:E; [|reflexivity].
    apply beq_true in E. subst c. discriminate.
Qed.

Lemma strip_skip fs pre l : Forall skipped pre -> strip_flags fs (pre ++ l) = strip_flags fs l.
Proof.
  induction 1 as [|w pre Hw Hp IH]; [reflexivity|]. cbn [app strip_flags].
  destruct (skipped_not_consuming fs w Hw) as (E1 & E2 & E3). rewrite E1, E2, E3. exact IH.
Qed.
Lemma strip_name fs n rest : plain_name n -> strip_flags fs (n :: rest) = n :: strip_flags fs rest.
Proof.
  intro H. destruct (plain_not_consuming fs n H) as [E1 E2]. destruct H as [Hne Hd]. cbn [strip_flags]. rewrite E1, E2, Hd.
  destruct n; [contradiction|reflexivity].
Qed.
Lemma amf_skip fs pre n rest : Forall skipped pre -> plain_name n ->
  args_minus_first fs (pre ++ n :: rest) n = pre ++ rest.
Proof.
  intros Hp Hn. induction Hp as [|w pre Hw Hp IH].
  - cbn [app args_minus_first]. destruct (plain_not_consuming fs n Hn) as [E1 E2]. destruct Hn as [_ Hd].
    rewrite E1, E2, Hd, str_eqb_refl. reflexivity.
  - cbn [app args_minus_first]. destruct (skipped_not_consuming fs w Hw) as (E1 & E2 & _). rewrite E1, E2.
    assert (E : negb (starts_dash w) && str_eqb w n = false).
    { destruct Hw as [->| ->]; [|reflexivity]. destruct Hn as [Hne _]. destruct n; [contradiction|reflexivity]. }
    rewrite E, IH. reflexivity.
Qed.
Lemma strip_In_n fs n : forall args x, length args <= n -> In x (strip_flags fs args) -> In x args.
Proof.
  induction n as [|n IH]; intros args x Hl H.
  - destruct args; [contradiction|cbn in Hl; lia].
  - destruct args as [|s rest]; [contradiction|]. cbn [strip_flags] in H. cbn [length] in Hl.
    destruct (str_eqb s dash2); [contradiction|].
    destruct (consumes_next fs s).
    + destruct rest as [|v [|y r3]]; try contradiction. right. right. apply IH; [cbn [length] in *; lia|exact H].
    + destruct (negb _ && negb _).
      * destruct H as [<-|H]; [left; reflexivity|right]. apply IH; [lia|exact H].
      * right. apply IH; [lia|exact H].
Qed.
Lemma strip_In fs args x : In x (strip_flags fs args) -> In x args.
Proof. apply (strip_In_n fs (length args)). lia. Qed.

Lemma innerfind_stay fuel c ws : Forall (fun w => find_next (csubs c) w = None) ws -> innerfind fuel c ws = (c, ws).
Proof.
  intro H. destruct fuel as [|f]; [reflexivity|]. cbn [innerfind].
  destruct (strip_flags (cflags c) ws) as [|next l] eqn:E; [reflexivity|].
  assert (Hin : In next ws) by (apply (strip_In (cflags c)); rewrite E; left; reflexivity).
  rewrite Forall_forall in H. rewrite (H next Hin). reflexivity.
Qed.

(* ---------- carapace ---------- *)
Lemma scan_stay c : forall ws st cand pos, Forall (fun w => find_next (csubs c) w = None) ws ->
  t_scan c ws st cand pos = ScStay (t_loop (cflags c) (cil c) ws st).
Proof.
  induction ws as [|w rest IH]; intros st cand pos H; [reflexivity|]. inversion H as [|? ? Hw Hr]; subst.
  cbn [t_scan t_loop]. destruct (t_dash st); [reflexivity|]. destruct (t_inflag st); [apply IH; exact Hr|].
  destruct (str_eqb w dash2); [reflexivity|].
  destruct (starts_dash w && negb (str_eqb w (B [45])) && (cil c || Nat.eqb (t_npos st) 0)); [apply IH; exact Hr|].
  rewrite Hw. destruct cand; apply IH; exact Hr.
Qed.

(* skipped words are positional for the parser: it never rejects them *)
Lemma parse_skipped fs il pre : Forall skipped pre -> forall st, exists st', pf_parse fs il pre st = POk st'.
Proof.
  induction 1 as [|w pre Hw Hp IH]; intro st; [exists st; reflexivity|]. cbn [pf_parse].
  destruct (p_stopped st); [apply IH|].
  destruct Hw as [->| ->]; cbn; apply IH.
Qed.

Lemma scan_descend c pre name rest sub : Forall skipped pre -> Forall (fun w => find_next (csubs c) w = None) pre ->
  plain_name name -> find_next (csubs c) name = Some sub ->
  forall st pos, t_dash st = false -> t_inflag st = None ->
  (exists p, parse (cflags c) (cil c) (t_inargs st ++ pre) = POk p) ->
  t_scan c (pre ++ name :: rest) st false pos = ScDescend sub ((pos ++ pre) ++ rest).
Proof.
  intros Hs Hn Hname Hsub. induction Hs as [|w pre Hw Hp IH]; intros st pos Hd Hf Hparse; inversion Hn as [|? ? Hnw Hnr]; subst.
  - cbn [app t_scan]. rewrite Hd, Hf. destruct Hname as [Hne Hsd].
    assert (E1 : str_eqb name dash2 = false) by (apply str_eqb_false; intros ->; discriminate).
    rewrite E1, Hsd. cbn [andb]. rewrite Hsub. rewrite app_nil_r in Hparse. destruct Hparse as [p Hp]. rewrite Hp.
    rewrite app_nil_r. reflexivity.
  - cbn [app t_scan]. rewrite Hd, Hf.
    assert (E1 : str_eqb w dash2 = false) by (destruct Hw as [->| ->]; reflexivity).
    assert (E2 : starts_dash w && negb (str_eqb w (B [45])) = false) by (destruct Hw as [->| ->]; reflexivity).
    assert (E3 : negb (match w with [] => true | _ => false end) && negb (starts_dash w) = false) by (destruct Hw as [->| ->]; reflexivity).
    rewrite E1, E2. cbn [andb]. rewrite Hnw, E3. cbn [orb].
    rewrite (IH Hnr (mkT (t_inargs st ++ [w]) (S (t_npos st)) None false) (pos ++ [w])); try reflexivity.
    + rewrite <- !app_assoc. reflexivity.
    + cbn [t_inargs]. rewrite <- app_assoc. exact Hparse.
Qed.

(* ---------- agreement ---------- *)
Theorem descent_agrees c ws : path_clean c ws -> forall fuel cur, length ws < fuel ->
  fst (t_traverse fuel c ws cur) = fst (innerfind fuel c ws) /\
  snd (t_traverse fuel c ws cur) =
    traverse (cflags (fst (innerfind fuel c ws))) (cil (fst (innerfind fuel c ws))) (snd (innerfind fuel c ws)) cur.
Proof.
  induction 1 as [c pre name rest sub Hs Hn Hname Hsub Hclean IH|c ws Hstay]; intros fuel cur Hf.
  - destruct fuel as [|f]; [lia|]. cbn [t_traverse innerfind].
    rewrite strip_skip by exact Hs. rewrite (strip_name _ _ _ Hname). rewrite Hsub.
    rewrite (amf_skip _ _ _ _ Hs Hname).
    rewrite (scan_descend c pre name rest sub Hs Hn Hname Hsub t0 [] eq_refl eq_refl).
    + cbn [app]. apply IH. rewrite !app_length in *. cbn [length] in Hf. lia.
    + cbn [t_inargs t0 app]. unfold parse. destruct (parse_skipped (cflags c) (cil c) pre Hs p0) as [st' E]. exists st'. exact E.
  - destruct fuel as [|f]; [lia|]. rewrite (innerfind_stay (S f) c ws Hstay). cbn [t_traverse fst snd].
    rewrite (scan_stay c ws t0 false [] Hstay). split; reflexivity.
Qed.

(* C01 on command trees, in the fragment *)
Theorem tree_slot_sound c ws cur : path_clean c ws ->
  let c' := fst (cobra_find c ws) in
  find_short (cflags c') (byte 61) = None ->
  fst (tree_traverse c ws cur) = c' /\
  slot_sound (cflags c') (cil c') (snd (cobra_find c ws)) (snd (tree_traverse c ws cur)).
Proof.
  intros Hc c' Hq. unfold tree_traverse, cobra_find in *.
  destruct (descent_agrees c ws Hc (S (length ws)) cur ltac:(lia)) as [H1 H2].
  split; [exact H1|]. rewrite H2. apply traverse_slot_sound. exact Hq.
Qed.

(* a line with a skipped word, a sub-command, and a flag of that sub-command *)
Definition ex_sub : cmd := Cmd (B [114;47;115]) (B [115;117;98]) [B [115]] ex_flags false [].                      (* sub, alias s *)
Definition ex_root : cmd := Cmd (B [114]) (B [114;111;111;116]) [] [] true [ex_sub].
Example ex_descent :
  path_clean ex_root [[]; B [115;117;98]; w_x; w_str] /\
  cobra_find ex_root [[]; B [115;117;98]; w_x; w_str] = (ex_sub, [[]; w_x; w_str]) /\
  tree_traverse ex_root [[]; B [115;117;98]; w_x; w_str] [] = (ex_sub, SPositional 3).
Proof.
  split; [|split; reflexivity].
  apply (PcDescend ex_root [[]] (B [115;117;98]) [w_x; w_str] ex_sub).
  - repeat constructor.
  - repeat constructor.
  - split; [discriminate|reflexivity].
  - reflexivity.
  - apply PcStay. repeat constructor.
Qed.

(* outside the fragment the statement is false of the code: a flag word (and a skipped word) in
   front of the sub-command name — cobra hands both to the non-interspersed sub-command, traverse only
   the skipped word (known finding C01-parent-flag-before-subcommand) *)
Definition ex_verbose : flag := mkFlag (B [118;101;114;98;111;115;101]) KBool (B [118]).
Definition ex_gamma : cmd := Cmd (B [114;47;103]) (B [103;97;109;109;97]) [] [ex_verbose] false [].
Definition ex_root2 : cmd := Cmd (B [114]) (B [114;111;111;116]) [] [ex_verbose] true [ex_gamma].
Theorem parent_flag_refuted :
  let ws := [B [45]; B [45;118]; B [103;97;109;109;97]; w_x] in
  let c' := fst (cobra_find ex_root2 ws) in
  fst (tree_traverse ex_root2 ws []) = c' /\
  snd (cobra_find ex_root2 ws) = [B [45]; B [45;118]; w_x] /\
  snd (tree_traverse ex_root2 ws []) = SPositional 2 /\
  ~ slot_sound (cflags c') (cil c') (snd (cobra_find ex_root2 ws)) (snd (tree_traverse ex_root2 ws [])).
Proof.
  cbv zeta. repeat split; try reflexivity.
  vm_compute. intro H. specialize (H w_x _ eq_refl eq_refl). destruct H as (_ & _ & H). vm_compute in H. discriminate.
Qed.
