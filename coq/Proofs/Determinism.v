(* Proofs/Determinism.v — order theory behind C10: ByDisplay.Less (as regenerated from the
   source) is a strict weak order that is total on records with distinct values; hence ANY
   sorting procedure (Go's unstable pdqsort included) maps every permutation of such a list
   to the same result, and map-iteration order cannot reach the output. *)
From Coq Require Import Lia Permutation Sorted.
From CV Require Import Base.Str Base.Utf8 Gen.Tables Model.Common Model.MultiParts Model.Action Proofs.MultiParts.
Local Open Scope nat_scope.

(* ---------- byte-lexicographic order on strings ---------- *)
Lemma nat_of_ascii_inj a b : nat_of_ascii a = nat_of_ascii b -> a = b.
Proof. intro H. rewrite <- (ascii_nat_embedding a), <- (ascii_nat_embedding b), H. reflexivity. Qed.

Lemma str_ltb_irrefl a : str_ltb a a = false.
Proof. induction a as [|x a IH]; simpl; [reflexivity|]. rewrite Nat.ltb_irrefl. exact IH. Qed.

Lemma str_ltb_trans a b c : str_ltb a b = true -> str_ltb b c = true -> str_ltb a c = true.
Proof.
  revert b c. induction a as [|x a IH]; intros [|y b] [|z c]; simpl; try congruence.
  destruct (nat_of_ascii x <? nat_of_ascii y) eqn:E1, (nat_of_ascii y <? nat_of_ascii x) eqn:E2;
  destruct (nat_of_ascii y <? nat_of_ascii z) eqn:E3, (nat_of_ascii z <? nat_of_ascii y) eqn:E4;
  destruct (nat_of_ascii x <? nat_of_ascii z) eqn:E5, (nat_of_ascii z <? nat_of_ascii x) eqn:E6;
  try congruence;
  repeat match goal with
         | H : (_ <? _) = true |- _ => apply Nat.ltb_lt in H
         | H : (_ <? _) = false |- _ => apply Nat.ltb_ge in H
         end; try lia.
  apply IH.
Qed.

Lemma str_trichotomy a b : str_ltb a b = true \/ a = b \/ str_ltb b a = true.
Proof.
  revert b. induction a as [|x a IH]; intros [|y b]; simpl; auto.
  destruct (nat_of_ascii x <? nat_of_ascii y) eqn:E1; [auto|].
  destruct (nat_of_ascii y <? nat_of_ascii x) eqn:E2; [auto|].
  apply Nat.ltb_ge in E1. apply Nat.ltb_ge in E2.
  assert (x = y) by (apply nat_of_ascii_inj; lia). subst y.
  destruct (IH b) as [H|[H|H]]; [auto|subst; auto|auto].
Qed.

Lemma str_eqb_sym a b : str_eqb a b = str_eqb b a.
Proof.
  destruct (str_eqb a b) eqn:E.
  - apply str_eqb_true in E. subst. symmetry. apply str_eqb_refl.
  - symmetry. apply str_eqb_false. apply str_eqb_false in E. congruence.
Qed.

(* ---------- the lexicographic comparison over a field list ---------- *)
Section LexF.
  Variable fs : list (raw -> str).

  Lemma lexf_asym : forall a b, lex_ltbf fs a b = true -> lex_ltbf fs b a = false.
  Proof.
    induction fs as [|k ks' IH]; intros a b; cbn [lex_ltbf]; [discriminate|].
    rewrite (str_eqb_sym (k b) (k a)). destruct (str_eqb (k a) (k b)); [apply IH|apply str_ltb_antisym].
  Qed.

  Lemma lexf_trans : forall a b c, lex_ltbf fs a b = true -> lex_ltbf fs b c = true -> lex_ltbf fs a c = true.
  Proof.
    induction fs as [|k ks' IH]; intros a b c; cbn [lex_ltbf]; [discriminate|].
    destruct (str_eqb (k a) (k b)) eqn:E1; destruct (str_eqb (k b) (k c)) eqn:E2.
    - apply str_eqb_true in E1. apply str_eqb_true in E2. rewrite E1, E2, str_eqb_refl. apply IH.
    - apply str_eqb_true in E1. rewrite E1, E2. auto.
    - apply str_eqb_true in E2. rewrite <- E2, E1. auto.
    - intros H1 H2. pose proof (str_ltb_trans _ _ _ H1 H2) as H3.
      destruct (str_eqb (k a) (k c)) eqn:E3; [|exact H3].
      apply str_eqb_true in E3. rewrite E3, str_ltb_irrefl in H3. discriminate.
  Qed.

  (* co-transitivity (negative transitivity of the strict part) *)
  Lemma lexf_cotrans : forall z x y, lex_ltbf fs z x = true -> lex_ltbf fs y x = true \/ lex_ltbf fs z y = true.
  Proof.
    induction fs as [|k ks' IH]; intros z x y; cbn [lex_ltbf]; [discriminate|].
    destruct (str_trichotomy (k y) (k x)) as [T|[T|T]].
    - intros _. left. destruct (str_eqb (k y) (k x)) eqn:E; [|exact T].
      apply str_eqb_true in E. rewrite E, str_ltb_irrefl in T. discriminate.
    - rewrite T, str_eqb_refl. destruct (str_eqb (k z) (k x)) eqn:E; [apply IH|]. intro H. right. exact H.
    - destruct (str_eqb (k z) (k x)) eqn:E.
      + apply str_eqb_true in E. intros _. right. rewrite E.
        destruct (str_eqb (k x) (k y)) eqn:E2; [|exact T].
        apply str_eqb_true in E2. rewrite E2, str_ltb_irrefl in T. discriminate.
      + intro H. right. pose proof (str_ltb_trans _ _ _ H T) as H3.
        destruct (str_eqb (k z) (k y)) eqn:E2; [|exact H3].
        apply str_eqb_true in E2. rewrite E2, str_ltb_irrefl in H3. discriminate.
  Qed.

  Lemma lexf_le_trans : forall x y z, le (lex_ltbf fs) x y -> le (lex_ltbf fs) y z -> le (lex_ltbf fs) x z.
  Proof.
    unfold le. intros x y z H1 H2. destruct (lex_ltbf fs z x) eqn:E; [|reflexivity].
    destruct (lexf_cotrans z x y E) as [H|H]; congruence.
  Qed.

  (* total on records with distinct values as soon as one of the compared fields is the value *)
  Lemma lexf_total : (exists g, In g fs /\ forall r, g r = value r) ->
    forall a b, value a <> value b -> lex_ltbf fs a b = true \/ lex_ltbf fs b a = true.
  Proof.
    induction fs as [|k ks' IH]; intros (g & Hin & Hg) a b Hne; [destruct Hin|]. cbn [lex_ltbf].
    rewrite (str_eqb_sym (k b) (k a)). destruct (str_eqb (k a) (k b)) eqn:E.
    - destruct Hin as [->|Hin]; [|apply IH; [exists g; auto|assumption]].
      apply str_eqb_true in E. exfalso. apply Hne. rewrite <- !Hg. exact E.
    - destruct (str_trichotomy (k a) (k b)) as [T|[T|T]]; auto.
      rewrite T, str_eqb_refl in E. discriminate.
  Qed.
End LexF.

Definition n_Value : str := B [86;97;108;117;101].
Lemma lex_asym ks : forall a b, lex_ltb ks a b = true -> lex_ltb ks b a = false.
Proof. apply lexf_asym. Qed.
Lemma lex_le_trans ks : forall x y z, le (lex_ltb ks) x y -> le (lex_ltb ks) y z -> le (lex_ltb ks) x z.
Proof. apply lexf_le_trans. Qed.
Lemma lex_total ks : In n_Value ks -> forall a b, value a <> value b -> lex_ltb ks a b = true \/ lex_ltb ks b a = true.
Proof.
  intro Hin. apply lexf_total. exists (field_by_name n_Value). split; [apply in_map; exact Hin|reflexivity].
Qed.

(* ---------- any correct sort is deterministic on records with distinct values ---------- *)
Lemma NoDup_map_inv' {A B} (g : A -> B) l : NoDup (map g l) -> NoDup l.
Proof. apply NoDup_map_inv. Qed.

Theorem any_sort_unique ks (l1 l2 : list raw) :
  In n_Value ks -> NoDup (map value l1) -> Permutation l1 l2 ->
  Sorted (le (lex_ltb ks)) l1 -> Sorted (le (lex_ltb ks)) l2 -> l1 = l2.
Proof.
  intros Hk Hnd Hp H1 H2.
  apply (sorted_perm_unique (lex_ltb ks) (lex_le_trans ks)); try assumption.
  - intros x y Hx Hy Hne. apply lex_total; [exact Hk|]. intro E.
    clear -Hnd Hx Hy Hne E. induction l1 as [|a l IH]; [destruct Hx|].
    simpl in Hnd. inversion Hnd as [|? ? Hn Hd]; subst.
    destruct Hx as [->|Hx], Hy as [->|Hy].
    + congruence.
    + apply Hn. rewrite E. apply in_map. exact Hy.
    + apply Hn. rewrite <- E. apply in_map. exact Hx.
    + apply IH; assumption.
  - apply NoDup_map_inv in Hnd. exact Hnd.
Qed.

Lemma sort_sorted ks l : Sorted (le (lex_ltb ks)) (isort_by (lex_ltb ks) l).
Proof. apply isort_sorted. apply lex_asym. Qed.

Lemma perm_nodup_values (l1 l2 : list raw) : Permutation l1 l2 -> NoDup (map value l1) -> NoDup (map value l2).
Proof. intros Hp Hn. eapply Permutation_NoDup; [apply Permutation_map; exact Hp|exact Hn]. Qed.

(* the model's sort gives the same list for every permutation of its input *)
Theorem sort_perm_invariant ks l1 l2 :
  In n_Value ks -> NoDup (map value l1) -> Permutation l1 l2 ->
  isort_by (lex_ltb ks) l1 = isort_by (lex_ltb ks) l2.
Proof.
  intros Hk Hnd Hp. apply (any_sort_unique ks); try assumption.
  - eapply perm_nodup_values; [apply Permutation_sym, isort_perm|exact Hnd].
  - rewrite isort_perm, Hp. symmetry. apply isort_perm.
  - apply sort_sorted.
  - apply sort_sorted.
Qed.

(* ... and so does any other procedure that returns a sorted permutation (Go's sort.Sort) *)
Theorem gosort_is_model_sort ks (gosort : list raw -> list raw) :
  (forall l, Sorted (le (lex_ltb ks)) (gosort l)) -> (forall l, Permutation (gosort l) l) ->
  In n_Value ks -> forall l, NoDup (map value l) -> gosort l = isort_by (lex_ltb ks) l.
Proof.
  intros Hs Hp Hk l Hnd. apply (any_sort_unique ks); try assumption.
  - eapply perm_nodup_values; [apply Permutation_sym, Hp|exact Hnd].
  - rewrite Hp. symmetry. apply isort_perm.
  - apply Hs.
  - apply sort_sorted.
Qed.

(* the key the code sorts by today contains the value (obligation re-checked against the source) *)
Lemma key_has_value : In n_Value common_ByDisplay_less_fields.
Proof. vm_compute. auto. Qed.

Theorem sort_by_display_perm_invariant l1 l2 :
  NoDup (map value l1) -> Permutation l1 l2 -> sort_by_display l1 = sort_by_display l2.
Proof. intros. apply sort_perm_invariant; [apply key_has_value|assumption|assumption]. Qed.

(* ---------- map-derived lists: Unique ---------- *)
Lemma fold_store_keys rs m :
  NoDup (map fst m) -> (forall k r, In (k, r) m -> k = value r) ->
  NoDup (map fst (fold_left (fun m r => store (value r) r m) rs m)) /\
  (forall k r, In (k, r) (fold_left (fun m r => store (value r) r m) rs m) -> k = value r).
Proof.
  revert m. induction rs as [|x rs IH]; intros m Hn Hk; cbn [fold_left]; [auto|].
  apply IH.
  - apply Proofs.MultiParts.store_keys_nodup. exact Hn.
  - intros k r Hin. apply Proofs.MultiParts.store_In in Hin as [E|Hin]; [injection E as -> ->; reflexivity|apply Hk; exact Hin].
Qed.

Lemma map_value_snd (m : list (str * raw)) : (forall k r, In (k, r) m -> k = value r) -> map value (map snd m) = map fst m.
Proof.
  induction m as [|[k r] m IH]; intro H; [reflexivity|]. simpl. f_equal.
  - symmetry. apply (H k r). left. reflexivity.
  - apply IH. intros k0 r0 Hin. apply H. right. exact Hin.
Qed.

(* RawValues.Unique: whatever order the Go map is iterated in (any permutation pi of its
   entries), the result is the one the model computes *)
Theorem unique_order_independent rs (pi : list raw) :
  Permutation pi (map snd (fold_left (fun m r => store (value r) r m) rs [])) ->
  sort_by_display pi = rv_unique rs.
Proof.
  intro Hp. unfold rv_unique.
  destruct (fold_store_keys rs [] (NoDup_nil _) (fun _ _ H => match H with end)) as [Hn Hk].
  symmetry. apply sort_by_display_perm_invariant; [|symmetry; exact Hp].
  rewrite (map_value_snd _ Hk). exact Hn.
Qed.

(* ---------- the Value stage (internal/shell.Value before the formatter) ---------- *)
From CV Require Import Model.Shells Model.ShellValue.

Lemma Permutation_filter {A} (g : A -> bool) l l' : Permutation l l' -> Permutation (filter g l) (filter g l').
Proof.
  induction 1 as [|x l l' Hp IH|x y l|l l' l'' H1 IH1 H2 IH2]; simpl.
  - constructor.
  - destruct (g x); [constructor; exact IH|exact IH].
  - destruct (g x), (g y); try reflexivity. apply perm_swap.
  - etransitivity; eassumption.
Qed.

Lemma NoDup_values_filter (g : raw -> bool) l : NoDup (map value l) -> NoDup (map value (filter g l)).
Proof.
  induction l as [|x l IH]; simpl; intro H; [constructor|].
  inversion H as [|? ? Hn Hd]; subst. destruct (g x); simpl; [|apply IH; exact Hd].
  constructor; [|apply IH; exact Hd]. intro Hin. apply Hn.
  apply in_map_iff in Hin as (y & Hy & Hin). apply filter_In in Hin as [Hin _]. rewrite <- Hy. apply in_map. exact Hin.
Qed.

Lemma decolor_values l : map value (decolor l) = map value l.
Proof. unfold decolor. rewrite map_map. reflexivity. Qed.

Lemma stage_filter_perm e w V V' :
  NoDup (map value V) -> Permutation V V' ->
  NoDup (map value (stage_filter e w V)) /\ Permutation (stage_filter e w V) (stage_filter e w V').
Proof.
  intros Hn Hp. unfold stage_filter.
  assert (H1 : NoDup (map value (if nocolor e then decolor V else V)))
    by (destruct (nocolor e); [rewrite decolor_values|]; exact Hn).
  assert (H2 : Permutation (if nocolor e then decolor V else V) (if nocolor e then decolor V' else V'))
    by (destruct (nocolor e); [apply Permutation_map|]; exact Hp).
  destruct (unfiltered e); [auto|]. unfold filter_prefix. split; [apply NoDup_values_filter; exact H1|apply Permutation_filter; exact H2].
Qed.

Theorem value_stage_perm e shell w m V V' :
  messages m = [] \/ has_channel shell = true ->
  NoDup (map value V) -> Permutation V V' ->
  stage_values e shell w m V = stage_values e shell w m V'.
Proof.
  intros Hm Hn Hp. unfold stage_values. f_equal.
  destruct (stage_filter_perm e w V V' Hn Hp) as [H1 H2].
  unfold stage_integrate. destruct (has_channel shell) eqn:Ec.
  - apply sort_by_display_perm_invariant; assumption.
  - destruct Hm as [Hm|Hm]; [|discriminate]. rewrite Hm. cbn [integrate].
    apply sort_by_display_perm_invariant; assumption.
Qed.

Theorem Value_perm e shell w m V V' :
  messages m = [] \/ has_channel shell = true ->
  NoDup (map value V) -> Permutation V V' ->
  Value e shell w m V = Value e shell w m V'.
Proof. intros Hm Hn Hp. unfold Value. rewrite (value_stage_perm e shell w m V V' Hm Hn Hp). reflexivity. Qed.

(* ---------- without the tie-break the statement is false ---------- *)
Definition n_Display : str := B [68;105;115;112;108;97;121].
Definition ra : raw := mkRaw (B [120;97]) (B [97]) [] [] [] [] [].      (* value xa, display a *)
Definition rb : raw := mkRaw (B [121;97]) (B [97]) [] [] [] [] [].      (* value ya, display a *)
Theorem display_only_key_refuted :
  exists l1 l2 : list raw, Permutation l1 l2 /\ NoDup (map value l1) /\
    Sorted (le (lex_ltb [n_Display])) l1 /\ Sorted (le (lex_ltb [n_Display])) l2 /\ l1 <> l2.
Proof.
  exists [ra; rb], [rb; ra]. split; [apply perm_swap|]. split.
  - constructor; [intros [H|[]]; discriminate|constructor; [intros []|constructor]].
  - split; [|split]; try (repeat constructor; fail). discriminate.
Qed.

(* ---------- audited map-range sites (tools/goaudit regenerates Gen/Sites.v) ----------
   Every `range` over a map in the anchored packages, with the reason why its iteration order
   cannot reach the output.  A site that is not listed here breaks [map_sites_covered]. *)
From CV Require Import Gen.Sites.
Definition audited_map_sites : list str := [
  (* builds the member list of a Batch in map order; members produce distinct values unless a
     placeholder action returns a static segment (C10-multipartsP finding) *)
  B [97;99;116;105;111;110;46;103;111;58;65;99;116;105;111;110;46;77;117;108;116;105;80;97;114;116;115;80;58;32;114;97;110;103;101;32;109;97;116;99;104;101;100;83;101;103;109;101;110;116;115];
  (* existential test (continue path on any mismatch): order irrelevant *)
  B [97;99;116;105;111;110;46;103;111;58;65;99;116;105;111;110;46;77;117;108;116;105;80;97;114;116;115;80;58;32;114;97;110;103;101;32;115;116;97;116;105;99;77;97;116;99;104;101;115];
  (* registers one completion per distinct flag name: order irrelevant *)
  B [99;97;114;97;112;97;99;101;46;103;111;58;67;97;114;97;112;97;99;101;46;70;108;97;103;67;111;109;112;108;101;116;105;111;110;58;32;114;97;110;103;101;32;97;99;116;105;111;110;115];
  (* values keyed by value, sorted by (display, value) afterwards *)
  B [100;105;102;102;46;103;111;58;68;105;102;102;58;32;114;97;110;103;101;32;109;101;114;103;101;100];
  (* copies every entry into a fresh map: order irrelevant *)
  B [105;110;116;101;114;110;97;108;47;99;111;109;109;111;110;47;109;101;115;115;97;103;101;46;103;111;58;77;101;115;115;97;103;101;115;46;67;108;111;110;101;58;32;114;97;110;103;101;32;109;46;109;101;115;115;97;103;101;115];
  (* sorted afterwards / set operations *)
  B [105;110;116;101;114;110;97;108;47;99;111;109;109;111;110;47;109;101;115;115;97;103;101;46;103;111;58;77;101;115;115;97;103;101;115;46;71;101;116;58;32;114;97;110;103;101;32;109;46;109;101;115;115;97;103;101;115];
  B [105;110;116;101;114;110;97;108;47;99;111;109;109;111;110;47;109;101;115;115;97;103;101;46;103;111;58;77;101;115;115;97;103;101;115;46;73;110;116;101;103;114;97;116;101;58;32;114;97;110;103;101;32;109;46;109;101;115;115;97;103;101;115];
  B [105;110;116;101;114;110;97;108;47;99;111;109;109;111;110;47;109;101;115;115;97;103;101;46;103;111;58;77;101;115;115;97;103;101;115;46;77;97;114;115;104;97;108;74;83;79;78;58;32;114;97;110;103;101;32;109;46;109;101;115;115;97;103;101;115];
  B [105;110;116;101;114;110;97;108;47;99;111;109;109;111;110;47;109;101;115;115;97;103;101;46;103;111;58;77;101;115;115;97;103;101;115;46;77;101;114;103;101;58;32;114;97;110;103;101;32;111;116;104;101;114;46;109;101;115;115;97;103;101;115];
  B [105;110;116;101;114;110;97;108;47;99;111;109;109;111;110;47;109;101;115;115;97;103;101;46;103;111;58;77;101;115;115;97;103;101;115;46;83;117;112;112;114;101;115;115;58;32;114;97;110;103;101;32;109;46;109;101;115;115;97;103;101;115];
  B [105;110;116;101;114;110;97;108;47;99;111;109;109;111;110;47;118;97;108;117;101;46;103;111;58;82;97;119;86;97;108;117;101;115;46;69;97;99;104;84;97;103;58;32;114;97;110;103;101;32;116;97;103;71;114;111;117;112;115];
  B [105;110;116;101;114;110;97;108;47;99;111;109;109;111;110;47;118;97;108;117;101;46;103;111;58;82;97;119;86;97;108;117;101;115;46;85;110;105;113;117;101;58;32;114;97;110;103;101;32;117;110;105;113;117;101;82;97;119;86;97;108;117;101;115];
  B [105;110;116;101;114;110;97;108;47;99;111;110;102;105;103;47;99;111;110;102;105;103;46;103;111;58;99;111;110;102;105;103;77;97;112;46;75;101;121;115;58;32;114;97;110;103;101;32;99];
  B [105;110;116;101;114;110;97;108;47;99;111;110;102;105;103;47;99;111;110;102;105;103;46;103;111;58;108;111;97;100;58;32;114;97;110;103;101;32;117;110;109;97;114;115;104;97;108;108;101;100];
  B [105;110;116;101;114;110;97;108;47;115;104;101;108;108;47;115;104;101;108;108;46;103;111;58;83;110;105;112;112;101;116;58;32;114;97;110;103;101;32;115;104;101;108;108;83;110;105;112;112;101;116;115];
  B [105;110;118;111;107;101;100;65;99;116;105;111;110;46;103;111;58;73;110;118;111;107;101;100;65;99;116;105;111;110;46;84;111;77;117;108;116;105;80;97;114;116;115;65;58;32;114;97;110;103;101;32;117;110;105;113;117;101;86;97;108;115];
  B [115;116;111;114;97;103;101;46;103;111;58;95;115;116;111;114;97;103;101;46;99;104;101;99;107;58;32;114;97;110;103;101;32;101;110;116;114;121;46;102;108;97;103];
  B [115;116;111;114;97;103;101;46;103;111;58;95;115;116;111;114;97;103;101;46;99;104;101;99;107;58;32;114;97;110;103;101;32;115]
].
Lemma map_sites_covered : forallb (fun s => Model.Action.in_strs s audited_map_sites) map_range_sites = true.
Proof. vm_compute. reflexivity. Qed.

(* ---------- one MultiParts stage: its output does not depend on the order in which the map hands
   out its entries (the entries have distinct values: they are the map's keys) ---------- *)
Definition vltb (a b : raw) : bool := str_ltb (value a) (value b).
Lemma vltb_asym a b : vltb a b = true -> vltb b a = false.
Proof.
  unfold vltb. intro H. destruct (str_ltb (value b) (value a)) eqn:E; [|reflexivity].
  pose proof (str_ltb_trans _ _ _ H E) as T. rewrite str_ltb_irrefl in T. discriminate.
Qed.
Lemma vle_trans x y z : le vltb x y -> le vltb y z -> le vltb x z.
Proof.
  unfold le, vltb. intros H1 H2.
  destruct (str_ltb (value z) (value x)) eqn:E; [|reflexivity]. exfalso.
  destruct (str_trichotomy (value y) (value z)) as [T|[T|T]].
  - pose proof (str_ltb_trans _ _ _ T E). congruence.
  - rewrite T in H1. congruence.
  - congruence.
Qed.
Theorem multiparts_stage_order_independent (l1 l2 : list raw) :
  NoDup (map value l1) -> Permutation l1 l2 -> isort_by vltb l1 = isort_by vltb l2.
Proof.
  intros Hnd Hp.
  apply (sorted_perm_unique vltb vle_trans).
  - intros x y Hx Hy Hne.
    assert (Hv : value x <> value y).
    { intro E. apply Hne. rewrite isort_In in Hx, Hy. clear -Hnd Hx Hy E.
      induction l1 as [|a l IH]; [destruct Hx|]. simpl in Hnd. inversion Hnd as [|? ? Hn Hd]; subst.
      destruct Hx as [Ex|Hx], Hy as [Ey|Hy].
      - congruence.
      - subst a. exfalso. apply Hn. rewrite E. apply in_map. exact Hy.
      - subst a. exfalso. apply Hn. rewrite <- E. apply in_map. exact Hx.
      - apply IH; assumption. }
    unfold vltb. destruct (str_trichotomy (value x) (value y)) as [T|[T|T]]; [auto|contradiction|auto].
  - apply (NoDup_map_inv value). eapply Permutation_NoDup; [apply Permutation_map, Permutation_sym, isort_perm|exact Hnd].
  - rewrite isort_perm, Hp. symmetry. apply isort_perm.
  - apply isort_sorted. apply vltb_asym.
  - apply isort_sorted. apply vltb_asym.
Qed.
