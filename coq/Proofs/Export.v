(* Proofs/Export.v — C13: the document tree printed by MarshalJSON decodes to the same
   completion (normalised: values sorted by value, messages as a sorted set); ActionImport
   is all-or-message. *)
From CV Require Import Base.Str Base.Utf8 Model.Common Model.JsonParse Model.Action Model.Export Proofs.Algebra.
Local Open Scope nat_scope.

Definition strip (r : raw) : raw := mkRaw (value r) (display r) (description r) (style r) (tag r) (uid r) [].

Lemma dec_raw_to_json r : dec_raw (raw_to_json r) = Some (strip r).
Proof. destruct r as [v d de st t u rs]. destruct de, st, t, u; reflexivity. Qed.

Lemma dec_raws_to_json vs : dec_raws (map raw_to_json vs) = Some (map strip vs).
Proof. induction vs as [|r vs IH]; [reflexivity|]. cbn [map dec_raws]. rewrite dec_raw_to_json, IH. reflexivity. Qed.

Lemma dec_strs_JStr ms : dec_strs (map JStr ms) = Some ms.
Proof. induction ms as [|m ms IH]; [reflexivity|]. cbn [map dec_strs]. rewrite IH. reflexivity. Qed.

(* norm: what a round trip is allowed to change *)
Definition norm_meta (m : meta) : meta := set_messages m (msgs_merge [] (messages m)).
Definition norm_values (vs : list raw) : list raw := map strip (isort_by value_ltb' vs).

Theorem roundtrip_tree ver m vs :
  of_json (to_json ver m vs) = Some (mkExport ver (norm_meta m) (Some (norm_values vs))).
Proof.
  unfold to_json, of_json. cbn [dec_members]. unfold resolve, top_names. cbn [find].
  change (str_eqb k_version k_version) with true. cbv iota.
  destruct m as [ms ns us]. cbn -[dec_strs dec_raws msgs_merge isort_by].
  rewrite dec_strs_JStr. cbn -[dec_raws msgs_merge isort_by]. rewrite dec_raws_to_json. reflexivity.
Qed.

(* norm preserves the candidates (as a multiset, with all exported fields), the message set,
   the no-space set and the usage *)
Lemma norm_values_perm vs : Permutation.Permutation (norm_values vs) (map strip vs).
Proof. unfold norm_values. apply Permutation.Permutation_map. apply isort_perm. Qed.
Lemma norm_meta_keeps m : nospace (norm_meta m) = nospace m /\ usage (norm_meta m) = usage m.
Proof. split; reflexivity. Qed.

Lemma msg_add_In s x l : In x (msg_add s l) <-> x = s \/ In x l.
Proof.
  induction l as [|y l IH]; simpl; [intuition congruence|].
  destruct (str_eqb s y) eqn:E.
  - apply str_eqb_true in E. subst. simpl. intuition congruence.
  - destruct (str_ltb s y); simpl; [intuition congruence|]. rewrite IH. intuition congruence.
Qed.
Lemma msgs_merge_In a b x : In x (msgs_merge a b) <-> In x a \/ In x b.
Proof.
  unfold msgs_merge. revert a. induction b as [|s b IH]; intro a; simpl; [intuition|].
  rewrite IH, msg_add_In. intuition congruence.
Qed.
Lemma norm_meta_messages m x : In x (messages (norm_meta m)) <-> In x (messages m).
Proof. cbn [norm_meta set_messages messages]. rewrite msgs_merge_In. simpl. intuition. Qed.

(* ActionImport: either the complete decoded completion or exactly one message and no values *)
Theorem import_all_or_message err b c :
  (import b = IMsg /\ invoke (ActionImport err b) c = (mkMeta [err] [] [], [])) \/
  (exists j e, jparse b = Some j /\ of_json j = Some e /\ import b = IOk e /\
               invoke (ActionImport err b) c = (e_meta e, match e_values e with Some vs => vs | None => [] end)).
Proof.
  unfold ActionImport. rewrite invoke_callback. unfold import.
  destruct (jparse b) as [j|] eqn:Ej.
  - destruct (of_json j) as [e|] eqn:Ee.
    + right. exists j, e. split; [reflexivity|]. split; [exact Ee|]. split; reflexivity.
    + left. split; [reflexivity|apply invoke_ActionMessage].
  - left. split; [reflexivity|apply invoke_ActionMessage].
Qed.

Theorem invalid_json_is_message err b c :
  jparse b = None -> invoke (ActionImport err b) c = (mkMeta [err] [] [], []).
Proof.
  intro H. unfold ActionImport. rewrite invoke_callback. unfold import. rewrite H. apply invoke_ActionMessage.
Qed.
