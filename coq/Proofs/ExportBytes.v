(* Proofs/ExportBytes.v — the bytes `_carapace export` prints (Model/Shells.v export_format), read
   back by ActionImport (Model/Export.v import): byte-level round trip of a completion. *)
From Coq Require Import Lia.
From CV Require Import Base.Str Base.Utf8 Base.Json Base.SortPerm Model.Common Model.Shells Model.JsonParse Model.Action Model.Export
                       Proofs.Utf8 Proofs.JsonString Proofs.JsonRoundtrip Proofs.Export.
Local Open Scope nat_scope.

Lemma opt_member_print k s :
  somes [omitempty k s] = map pmem (opt_member k s).
Proof. destruct s; reflexivity. Qed.

Lemma somes_app {A} (a b : list (option A)) : somes (a ++ b) = somes a ++ somes b.
Proof. induction a as [|[x|] a IH]; cbn; [reflexivity|rewrite IH; reflexivity|exact IH]. Qed.

Lemma export_value_is_jprint r : export_value r = jprint (raw_to_json r).
Proof.
  unfold export_value, raw_to_json. cbn [jprint]. unfold json_object. f_equal. f_equal.
  rewrite somes_members.
  change [Some (member (B [118;97;108;117;101]) (json_string (value r))); Some (member (B [100;105;115;112;108;97;121]) (json_string (display r)));
          omitempty (B [100;101;115;99;114;105;112;116;105;111;110]) (description r); omitempty (B [115;116;121;108;101]) (style r);
          omitempty (B [116;97;103]) (tag r); omitempty (B [117;105;100]) (uid r)]
    with ([Some (member k_value (json_string (value r))); Some (member k_display (json_string (display r)))]
          ++ [omitempty k_description (description r)] ++ [omitempty k_style (style r)] ++ [omitempty k_tag (tag r)] ++ [omitempty k_uid (uid r)]).
  rewrite !somes_app, !opt_member_print, !map_app. reflexivity.
Qed.

Lemma export_format_is_jprint e m vs : export_format e m vs = jprint (to_json (version e) m vs).
Proof.
  unfold export_format, to_json. cbn [jprint map]. unfold json_object. f_equal. f_equal. cbn [somes].
  rewrite !map_map.
  assert (E : map export_value (isort_by value_ltb vs) = map (fun x => jprint (raw_to_json x)) (isort_by value_ltb' vs)).
  { apply map_ext. exact export_value_is_jprint. }
  rewrite E. reflexivity.
Qed.

Lemma raw_to_json_strs r : strs_only (raw_to_json r).
Proof.
  unfold raw_to_json. constructor. repeat (apply Forall_cons; [constructor|]).
  repeat (apply Forall_app; split); unfold opt_member;
    repeat match goal with |- context [match ?s with [] => _ | _ :: _ => _ end] => destruct s end;
    repeat constructor.
Qed.
Lemma to_json_strs ver m vs : strs_only (to_json ver m vs).
Proof.
  unfold to_json. constructor. repeat (apply Forall_cons; cbn [snd]); try constructor.
  - apply Forall_forall. intros j Hj. apply in_map_iff in Hj as (s & <- & _). constructor.
  - apply Forall_forall. intros j Hj. apply in_map_iff in Hj as (r & <- & _). apply raw_to_json_strs.
Qed.

(* the document that is read back *)
Theorem export_bytes_parse e m vs :
  jparse (export_format e m vs) = Some (jsan (to_json (version e) m vs)).
Proof. rewrite export_format_is_jprint. apply jparse_jprint. apply to_json_strs. Qed.

(* ---------- decoding the sanitised document ---------- *)
Definition san_raw (r : raw) : raw :=
  mkRaw (sanitize (value r)) (sanitize (display r)) (sanitize (description r)) (sanitize (style r)) (sanitize (tag r)) (sanitize (uid r)) (rstyle r).

Lemma sane_chunk_nonempty rb : from_decode rb -> sane_chunk rb <> [].
Proof.
  destruct rb as [r bs]. intros (s0 & rest0 & Hd). cbn [fst snd] in Hd. apply decode1_shape in Hd. unfold sane_chunk. cbn [snd].
  destruct Hd; try discriminate; destruct (bv c <? 128)%N; discriminate.
Qed.
Lemma sanitize_cons c s : sanitize (c :: s) <> [].
Proof.
  unfold sanitize. pose proof (chunks_from_decode (c :: s)) as Hf.
  destruct (chunks (c :: s)) as [|rb cs] eqn:E.
  - unfold chunks in E. cbn [length chunks_fuel] in E. destruct (decode1 (c :: s)) as [[[r bs] rest]|] eqn:Ed; [discriminate|].
    exfalso. exact (decode1_cons _ _ Ed).
  - cbn [flat_map]. inversion Hf as [|? ? Hrb _]; subst. pose proof (sane_chunk_nonempty rb Hrb).
    destruct (sane_chunk rb); [contradiction|discriminate].
Qed.

Lemma keys_sane : sanitize k_version = k_version /\ sanitize k_messages = k_messages /\ sanitize k_nospace = k_nospace /\
  sanitize k_usage = k_usage /\ sanitize k_values = k_values /\ sanitize k_value = k_value /\ sanitize k_display = k_display /\
  sanitize k_description = k_description /\ sanitize k_style = k_style /\ sanitize k_tag = k_tag /\ sanitize k_uid = k_uid.
Proof. repeat split; vm_compute; reflexivity. Qed.

Lemma opt_member_san k s : sanitize k = k ->
  map (fun kv : str * jval => let '(k0, v) := kv in (sanitize k0, jsan v)) (opt_member k s) = opt_member k (sanitize s).
Proof.
  intro Hk. unfold opt_member. destruct s as [|c s']; [reflexivity|].
  pose proof (sanitize_cons c s') as Hne. destruct (sanitize (c :: s')) as [|d t] eqn:E; [contradiction|].
  cbn [map jsan]. rewrite Hk, E. reflexivity.
Qed.

Lemma jsan_raw r : jsan (raw_to_json r) = raw_to_json (san_raw r).
Proof.
  destruct keys_sane as (_ & _ & _ & _ & _ & Kv & Kd & Kde & Ks & Kt & Ku).
  unfold raw_to_json. cbn [jsan]. rewrite !map_app. cbn [map jsan].
  rewrite !opt_member_san by assumption. rewrite Kv, Kd. reflexivity.
Qed.

Theorem import_export_bytes e m vs :
  import (export_format e m vs) =
    IOk (mkExport (sanitize (version e))
                  (mkMeta (msgs_merge [] (map sanitize (messages m))) (sanitize (nospace m)) (sanitize (usage m)))
                  (Some (map (fun r => strip (san_raw r)) (isort_by value_ltb' vs)))).
Proof.
  unfold import. rewrite export_bytes_parse.
  destruct keys_sane as (Kver & Kmsg & Kns & Kus & Kvals & _).
  unfold to_json. cbn [jsan map]. rewrite Kver, Kmsg, Kns, Kus, Kvals. rewrite !map_map. cbn [jsan].
  assert (Ev : map (fun x => jsan (raw_to_json x)) (isort_by value_ltb' vs) = map raw_to_json (map san_raw (isort_by value_ltb' vs))).
  { rewrite map_map. apply map_ext. exact jsan_raw. }
  rewrite Ev.
  assert (Em : map (fun x : str => JStr (sanitize x)) (messages m) = map JStr (map sanitize (messages m))).
  { rewrite map_map. reflexivity. }
  rewrite Em.
  unfold of_json. cbn [dec_members]. unfold resolve, top_names. cbn [find].
  change (str_eqb k_version k_version) with true. cbv iota.
  cbn -[dec_strs dec_raws msgs_merge isort_by sanitize].
  rewrite dec_strs_JStr. cbn -[dec_raws msgs_merge isort_by sanitize]. rewrite dec_raws_to_json. rewrite map_map. reflexivity.
Qed.

(* valid UTF-8 everywhere: the completion that comes back is the normalised one (C13 at byte level) *)
Definition valid_raw (r : raw) : Prop :=
  all_valid (value r) /\ all_valid (display r) /\ all_valid (description r) /\ all_valid (style r) /\ all_valid (tag r) /\ all_valid (uid r).
Lemma san_raw_valid r : valid_raw r -> strip (san_raw r) = strip r.
Proof.
  intros (H1 & H2 & H3 & H4 & H5 & H6). unfold san_raw, strip. cbn.
  rewrite !sanitize_valid by assumption. reflexivity.
Qed.
