(* Proofs/Files.v — C16: what actionPath offers, entry by entry. *)
From CV Require Import Base.Str Base.Utf8 Model.Common Model.MultiParts Model.Action Model.Files.
Local Open Scope nat_scope.

(* every candidate of actionPath is the typed directory part, unchanged, followed by the name of an
   entry of the listed directory (plus "/" for directories and links to directories) *)
Theorem action_path_shape fs cwd home sfx dir_only cdir value v :
  In v (pr_values (action_path fs cwd home sfx dir_only cdir value)) ->
  exists files name k, readdir fs (fdir (ctx_abs cwd home cdir value)) = Some files /\ In (name, k) files /\
    (v = dir_part value ++ name ++ sl \/ (v = dir_part value ++ name /\ dir_only = false)).
Proof.
  unfold action_path. destruct (readdir fs (fdir (ctx_abs cwd home cdir value))) as [files|] eqn:E; [|intros []].
  cbn [pr_values]. intro H. apply in_flat_map in H as ([name k] & Hin & Hv). exists files, name, k.
  split; [reflexivity|]. split; [exact Hin|]. cbn [fst snd] in Hv.
  destruct (negb _ && has_prefix name dot); [destruct Hv|].
  destruct ((match k with KDir => true | _ => false end) || stat_is_dir fs _).
  - destruct Hv as [<-|[]]. left. reflexivity.
  - destruct dir_only; [destruct Hv|]. destruct (existsb _ _); [|destruct Hv].
    destruct Hv as [<-|[]]. right. split; reflexivity.
Qed.

(* the typed directory part is kept byte for byte in front of every candidate *)
Corollary typed_part_unchanged fs cwd home sfx dir_only cdir value v :
  In v (pr_values (action_path fs cwd home sfx dir_only cdir value)) -> has_prefix v (dir_part value) = true.
Proof.
  intro H. destruct (action_path_shape _ _ _ _ _ _ _ _ H) as (files & name & k & _ & _ & [->|[-> _]]); apply has_prefix_app.
Qed.

(* dot entries only when the typed last segment starts with a dot *)
Theorem hidden_rule fs cwd home sfx dir_only cdir value v :
  In v (pr_values (action_path fs cwd home sfx dir_only cdir value)) ->
  (negb (has_suffix (ctx_abs cwd home cdir value) sl) && has_prefix (fbase (ctx_abs cwd home cdir value)) dot) = false ->
  exists name, has_prefix name dot = false /\ (v = dir_part value ++ name ++ sl \/ v = dir_part value ++ name).
Proof.
  unfold action_path. intros H Hh.
  destruct (readdir fs (fdir (ctx_abs cwd home cdir value))) as [files|]; [|destruct H].
  cbn [pr_values] in H. apply in_flat_map in H as ([n k] & Hin & Hv). cbn [fst snd] in Hv. rewrite Hh in Hv. cbn [negb andb] in Hv.
  destruct (has_prefix n dot) eqn:Ed; [destruct Hv|]. exists n. split; [exact Ed|]. unfold display_folder in Hv.
  destruct ((match k with KDir => true | _ => false end) || stat_is_dir fs _).
  - destruct Hv as [<-|[]]. left. reflexivity.
  - destruct dir_only; [destruct Hv|]. destruct (existsb _ _); [|destruct Hv]. destruct Hv as [<-|[]]. right. reflexivity.
Qed.

(* directories and links to directories get the slash; plain files only for ActionFiles and only
   with an allowed suffix *)
Theorem entry_rule fs cwd home sfx dir_only cdir value files name k :
  readdir fs (fdir (ctx_abs cwd home cdir value)) = Some files -> In (name, k) files ->
  let abs := ctx_abs cwd home cdir value in
  let shown := (negb (has_suffix abs sl) && has_prefix (fbase abs) dot) || negb (has_prefix name dot) in
  let isdir := (match k with KDir => true | _ => false end) || stat_is_dir fs (fdir abs ++ sl ++ name) in
  let sfx' := match sfx with [] => [[]] | _ => sfx end in
  (shown && isdir = true -> In (dir_part value ++ name ++ sl) (pr_values (action_path fs cwd home sfx dir_only cdir value))) /\
  (shown && negb isdir && negb dir_only && existsb (fun s => has_suffix name s) sfx' = true ->
     In (dir_part value ++ name) (pr_values (action_path fs cwd home sfx dir_only cdir value))).
Proof.
  cbv zeta. intros Hr Hin. unfold action_path. rewrite Hr. cbn [pr_values].
  set (sh := negb (has_suffix (ctx_abs cwd home cdir value) sl) && has_prefix (fbase (ctx_abs cwd home cdir value)) dot).
  split; intro H; apply in_flat_map; exists (name, k); (split; [exact Hin|]); cbn [fst snd]; fold sh.
  - apply andb_true_iff in H as [H1 H2]. destruct sh; cbn [negb andb orb] in *.
    + rewrite H2. left. reflexivity.
    + apply negb_true_iff in H1. rewrite H1. rewrite H2. left. reflexivity.
  - apply andb_true_iff in H as [H Hs]. apply andb_true_iff in H as [H Hd]. apply andb_true_iff in H as [Hsh Hi].
    destruct dir_only; [discriminate|]. apply negb_true_iff in Hi. rewrite Hi.
    match goal with |- context [existsb ?f ?l] => replace (existsb f l) with true by (symmetry; exact Hs) end.
    destruct sh; cbn [negb andb orb] in *; [left; reflexivity|]. apply negb_true_iff in Hsh. rewrite Hsh. left. reflexivity.
Qed.
