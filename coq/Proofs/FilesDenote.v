(* Proofs/FilesDenote.v — C16: what a typed path DENOTES.  The kernel walks a path segment by segment
   and follows symbolic links ([resolve]); carapace cleans the path lexically first (filepath.Abs /
   Clean in Context.Abs and filepath.Dir).  For a rooted path without a `..` segment the two agree:
   the cleaned path denotes exactly what the typed path denotes, whatever links the tree contains.
   With `..` they differ (known finding C16-lexical-dotdot): witness below. *)
From Coq Require Import Lia.
From CV Require Import Base.Str Model.Common Model.Action Model.Files.
Local Open Scope nat_scope.

Definition keep (s : str) : bool := negb (is_empty s || str_eqb s dot).

(* b is a with some skippable segments ("" and ".") deleted *)
Inductive skipsub : list str -> list str -> Prop :=
| ss_nil : skipsub [] []
| ss_keep s a b : skipsub a b -> skipsub (s :: a) (s :: b)
| ss_skip s a b : keep s = false -> skipsub a b -> skipsub (s :: a) b.

Lemma skipsub_refl a : skipsub a a.
Proof. induction a; constructor; assumption. Qed.
Lemma skipsub_app_l c a b : skipsub a b -> skipsub (c ++ a) (c ++ b).
Proof. intro H. induction c; [exact H|]. cbn [app]. constructor. exact IHc. Qed.
Lemma skipsub_filter a : skipsub a (filter keep a).
Proof.
  induction a as [|s a IH]; [constructor|]. cbn [filter]. destruct (keep s) eqn:E; [apply ss_keep|apply ss_skip]; assumption.
Qed.

Section Resolve.
Variable fs : fsys.

Lemma resolve_mono fuel : forall cur segs r, resolve fs fuel cur segs = Some r -> resolve fs (S fuel) cur segs = Some r.
Proof.
  induction fuel as [|f IH]; intros cur segs r H; [discriminate|].
  cbn [resolve] in H. cbn [resolve]. destruct segs as [|s rest]; [exact H|].
  destruct (is_empty s || str_eqb s dot); [apply IH; exact H|].
  destruct (str_eqb s dotdot); [apply IH; exact H|].
  destruct (fs_kind fs (path_of (cur ++ [s]))) as [[| |t]|]; try (apply IH; exact H); [|discriminate].
  destruct (rooted t); apply IH; exact H.
Qed.
Lemma resolve_mono_le f1 f2 cur segs r : f1 <= f2 -> resolve fs f1 cur segs = Some r -> resolve fs f2 cur segs = Some r.
Proof. intro Hle. induction Hle as [|m Hle IH]; [auto|]. intro H0. apply resolve_mono. auto. Qed.

(* deleting skippable segments does not change the result (and needs no more fuel) *)
Lemma resolve_skipsub fuel : forall cur a b r, skipsub a b -> resolve fs fuel cur a = Some r -> resolve fs fuel cur b = Some r.
Proof.
  induction fuel as [|f IH]; intros cur a b r Hs H; [discriminate|].
  destruct Hs as [|s a b Hs|s a b Hk Hs].
  - exact H.
  - cbn [resolve] in *. destruct (is_empty s || str_eqb s dot); [apply (IH _ _ _ _ Hs H)|].
    destruct (str_eqb s dotdot); [apply (IH _ _ _ _ Hs H)|].
    destruct (fs_kind fs (path_of (cur ++ [s]))) as [[| |t]|]; try (apply (IH _ _ _ _ Hs H)); [|discriminate].
    destruct (rooted t); apply (IH _ _ _ _ (skipsub_app_l _ _ _ Hs) H).
  - cbn [resolve] in H. unfold keep in Hk. apply Bool.negb_false_iff in Hk. rewrite Hk in H.
    apply resolve_mono. apply (IH _ _ _ _ Hs H).
Qed.

(* inserting skippable segments costs one step of fuel each *)
Lemma resolve_skipsup fuel : forall cur a b r, skipsub a b -> resolve fs fuel cur b = Some r ->
  exists fuel', resolve fs fuel' cur a = Some r.
Proof.
  induction fuel as [|f IH]; intros cur a b r Hs H; [discriminate|].
  induction Hs as [|s a b Hs IHs|s a b Hk Hs IHs].
  - exists 1. exact H.
  - cbn [resolve] in H.
    assert (Hstep : forall cur' a' b', skipsub a' b' -> resolve fs f cur' b' = Some r ->
              exists fuel', resolve fs fuel' cur' a' = Some r) by (intros; eapply IH; eassumption).
    destruct (is_empty s || str_eqb s dot) eqn:E1.
    { destruct (Hstep _ _ _ Hs H) as [f' Hf']. exists (S f'). cbn [resolve]. rewrite E1. exact Hf'. }
    destruct (str_eqb s dotdot) eqn:E2.
    { destruct (Hstep _ _ _ Hs H) as [f' Hf']. exists (S f'). cbn [resolve]. rewrite E1, E2. exact Hf'. }
    destruct (fs_kind fs (path_of (cur ++ [s]))) as [[| |t]|] eqn:E3; try discriminate.
    + destruct (Hstep _ _ _ Hs H) as [f' Hf']. exists (S f'). cbn [resolve]. rewrite E1, E2, E3. exact Hf'.
    + destruct (Hstep _ _ _ Hs H) as [f' Hf']. exists (S f'). cbn [resolve]. rewrite E1, E2, E3. exact Hf'.
    + destruct (rooted t) eqn:E4.
      * destruct (Hstep _ _ _ (skipsub_app_l (split1 slash t) _ _ Hs) H) as [f' Hf']. exists (S f'). cbn [resolve]. rewrite E1, E2, E3, E4. exact Hf'.
      * destruct (Hstep _ _ _ (skipsub_app_l (split1 slash t) _ _ Hs) H) as [f' Hf']. exists (S f'). cbn [resolve]. rewrite E1, E2, E3, E4. exact Hf'.
  - destruct (IHs H) as [f' Hf']. exists (S f'). cbn [resolve]. unfold keep in Hk. apply Bool.negb_false_iff in Hk. rewrite Hk. exact Hf'.
Qed.

(* a segment list denotes r from cur: the walk ends there (fuel is a modelling device: some amount suffices) *)
Definition denotes_from (cur segs r : list str) : Prop := exists fuel, resolve fs fuel cur segs = Some r.

Theorem denotes_filter cur segs r : denotes_from cur segs r <-> denotes_from cur (filter keep segs) r.
Proof.
  split; intros [f H].
  - exists f. apply (resolve_skipsub f _ _ _ _ (skipsub_filter segs) H).
  - apply (resolve_skipsup f _ _ _ _ (skipsub_filter segs) H).
Qed.

Corollary denotes_same_kept cur a b r : filter keep a = filter keep b -> (denotes_from cur a r <-> denotes_from cur b r).
Proof. intro E. rewrite (denotes_filter cur a), (denotes_filter cur b), E. reflexivity. Qed.
End Resolve.

(* ---------- filepath.Clean ---------- *)
Definition nodd (p : str) : bool := forallb (fun s => negb (str_eqb s dotdot)) (split1 slash p).

Lemma clean_stack_nodd r segs : forallb (fun s => negb (str_eqb s dotdot)) segs = true ->
  forall stack, clean_stack r segs stack = rev stack ++ filter keep segs.
Proof.
  induction segs as [|s segs IH]; intros H stack; cbn [clean_stack filter]; [rewrite app_nil_r; reflexivity|].
  cbn [forallb] in H. apply Bool.andb_true_iff in H as [Hs H]. apply Bool.negb_true_iff in Hs.
  unfold keep at 1. destruct (is_empty s || str_eqb s dot); cbn [negb]; [apply IH; exact H|].
  rewrite Hs. rewrite IH by exact H. cbn [rev]. rewrite <- app_assoc. reflexivity.
Qed.

Lemma split1_no_sep sep s : forall f, In f (split1 sep s) -> ~ In sep f.
Proof.
  induction s as [|c s IH]; intros f Hf; cbn [split1] in Hf.
  - destruct Hf as [<-|[]]. intros [].
  - destruct (beq c sep) eqn:E.
    + destruct Hf as [<-|Hf]; [intros []|apply IH; exact Hf].
    + destruct (split1 sep s) as [|g gs] eqn:Es.
      * destruct Hf as [<-|[]]. intros [Hc|[]]. subst c. rewrite beq_refl in E. discriminate.
      * destruct Hf as [<-|Hf].
        -- intros [Hc|Hc]; [subst c; rewrite beq_refl in E; discriminate|]. apply (IH g); [left; reflexivity|exact Hc].
        -- apply IH. right. exact Hf.
Qed.

Lemma filter_keep_idem l : filter keep (filter keep l) = filter keep l.
Proof. induction l as [|s l IH]; [reflexivity|]. cbn [filter]. destruct (keep s) eqn:E; [cbn [filter]; rewrite E, IH; reflexivity|exact IH]. Qed.

Lemma clean_segments p : rooted p = true -> nodd p = true ->
  filter keep (split1 slash (clean p)) = filter keep (split1 slash p).
Proof.
  intros Hr Hn. unfold clean. destruct p as [|c p']; [discriminate|]. set (p := c :: p') in *. cbv zeta. rewrite Hr.
  rewrite (clean_stack_nodd true _ Hn []). cbn [rev app].
  set (l := filter keep (split1 slash p)).
  change (sl ++ join sl l) with (slash :: join [slash] l). cbn [split1]. rewrite beq_refl. cbn [filter].
  change (keep []) with false. cbv iota.
  destruct l as [|x l'] eqn:El; [reflexivity|]. rewrite split1_join.
  - rewrite <- El. unfold l. apply filter_keep_idem.
  - discriminate.
  - intros f Hf. rewrite <- El in Hf. unfold l in Hf. apply filter_In in Hf as [Hf _]. apply (split1_no_sep _ _ _ Hf).
Qed.

Definition denotes (fs : fsys) (p : str) (r : list str) : Prop := denotes_from fs [] (split1 slash p) r.

(* the cleaned path denotes what the typed path denotes, through any symbolic links *)
Theorem clean_denotes fs p r : rooted p = true -> nodd p = true -> (denotes fs (clean p) r <-> denotes fs p r).
Proof. intros Hr Hn. unfold denotes. apply denotes_same_kept. apply clean_segments; assumption. Qed.

(* with `..` it does not: /l is a link to the directory /a/b; the kernel reads /l/../c as /a/c, Clean as /c *)
Definition dd_fs : fsys :=
  [(B [47;97], KDir); (B [47;97;47;98], KDir); (B [47;97;47;99], KDir); (B [47;108], KLink (B [47;97;47;98]))].
Definition dd_path : str := B [47;108;47;46;46;47;99].
Theorem dotdot_refuted :
  realpath dd_fs dd_path = Some (B [47;97;47;99]) /\ clean dd_path = B [47;99] /\ realpath dd_fs (clean dd_path) = None.
Proof. repeat split; vm_compute; reflexivity. Qed.

(* non-vacuity: a rooted path without `..`, through a link, with skippable segments *)
Example clean_denotes_example :
  let p := B [47;108;47;47;46;47;120] in      (* /l//./x with /l -> /a/b and /a/b/x a directory *)
  let fs := (B [47;97;47;98;47;120], KDir) :: dd_fs in
  rooted p = true /\ nodd p = true /\ clean p = B [47;108;47;120] /\
  realpath fs p = Some (B [47;97;47;98;47;120]) /\ realpath fs (clean p) = Some (B [47;97;47;98;47;120]).
Proof. repeat split; vm_compute; reflexivity. Qed.

(* ---------- Context.Abs and filepath.Dir, segment by segment ---------- *)
Notation segs p := (split1 slash p).

Lemma split1_app_sep sep a b : split1 sep (a ++ sep :: b) = split1 sep a ++ split1 sep b.
Proof.
  induction a as [|c a IH]; cbn [app split1].
  - rewrite beq_refl. reflexivity.
  - destruct (beq c sep); [rewrite IH; reflexivity|]. rewrite IH.
    destruct (split1 sep a) as [|f fs] eqn:E; [exfalso; exact (split1_nonempty _ _ E)|]. reflexivity.
Qed.
Lemma split1_single sep x : ~ In sep x -> split1 sep x = [x].
Proof.
  induction x as [|c x IH]; intro H; [reflexivity|]. cbn [split1].
  assert (Hc : beq c sep = false) by (apply beq_false; intro E; apply H; left; exact E). rewrite Hc, IH; [reflexivity|].
  intro Hin. apply H. right. exact Hin.
Qed.
Lemma join_split1 sep s : join [sep] (split1 sep s) = s.
Proof.
  induction s as [|c s IH]; [reflexivity|]. cbn [split1]. destruct (beq c sep) eqn:E.
  - apply beq_true in E. subst c. destruct (split1 sep s) as [|f fs] eqn:Es; [exfalso; exact (split1_nonempty _ _ Es)|].
    change (join [sep] ([] :: f :: fs)) with ([] ++ [sep] ++ join [sep] (f :: fs)). rewrite IH. reflexivity.
  - destruct (split1 sep s) as [|f fs] eqn:Es; [exfalso; exact (split1_nonempty _ _ Es)|].
    destruct fs as [|g gs]; cbn [join] in *; rewrite <- IH; reflexivity.
Qed.
Lemma join_snoc sep l x : l <> [] -> join sep (l ++ [x]) = join sep l ++ sep ++ x.
Proof.
  induction l as [|y l IH]; intro H; [contradiction|]. destruct l as [|z l'].
  - reflexivity.
  - change (join sep ((y :: z :: l') ++ [x])) with (y ++ sep ++ join sep ((z :: l') ++ [x])). rewrite IH by discriminate.
    change (join sep (y :: z :: l')) with (y ++ sep ++ join sep (z :: l')). rewrite <- !app_assoc. reflexivity.
Qed.

(* filepath's view of the last slash *)
Lemma split_last_slash_spec p : forall accd accs, ~ In slash accs -> (accd = [] \/ exists d', accd = d' ++ sl) ->
  let r := split_last_slash p accd accs in
  fst r ++ snd r = accd ++ accs ++ p /\ ~ In slash (snd r) /\ (fst r = [] \/ exists d', fst r = d' ++ sl).
Proof.
  induction p as [|c p IH]; intros accd accs Hs Hd; cbn [split_last_slash].
  - cbn [fst snd]. rewrite app_nil_r. auto.
  - destruct (beq c slash) eqn:E.
    + apply beq_true in E. subst c. destruct (IH (accd ++ accs ++ [slash]) [] (fun H => H)) as (H1 & H2 & H3).
      { right. exists (accd ++ accs). rewrite <- app_assoc. reflexivity. }
      split; [|split; assumption]. rewrite H1. cbn [app]. rewrite <- !app_assoc. reflexivity.
    + apply beq_false in E. destruct (IH accd (accs ++ [c])) as (H1 & H2 & H3).
      { intro Hin. apply in_app_or in Hin as [Hin|[Hin|[]]]; [exact (Hs Hin)|exact (E Hin)]. }
      { exact Hd. }
      split; [|split; assumption]. rewrite H1, <- !app_assoc. reflexivity.
Qed.
Lemma segs_dir_part p : segs (dir_part p) = removelast (segs p) ++ [[]].
Proof.
  destruct (split_last_slash_spec p [] [] (fun H => H) (or_introl eq_refl)) as (H1 & H2 & H3). cbn [app] in H1.
  fold (dir_part p) in *. fold (last_seg p) in *. destruct H3 as [H3|[d' H3]].
  - rewrite H3 in *. cbn [app] in H1. rewrite <- H1. rewrite (split1_single _ _ H2). reflexivity.
  - rewrite H3 in *. rewrite <- H1. unfold sl. rewrite <- app_assoc. cbn [app]. rewrite !split1_app_sep.
    rewrite (split1_single _ _ H2). cbn [split1]. rewrite removelast_last. reflexivity.
Qed.
Lemma rooted_dir_part p : rooted p = true -> rooted (dir_part p) = true.
Proof.
  intro Hr. destruct (split_last_slash_spec p [] [] (fun H => H) (or_introl eq_refl)) as (H1 & H2 & H3). cbn [app] in H1.
  fold (dir_part p) in *. fold (last_seg p) in *. destruct p as [|c p']; [discriminate|]. cbn [rooted] in Hr. apply beq_true in Hr. subst c.
  destruct (dir_part (slash :: p')) as [|d ds] eqn:Ed.
  - cbn [app] in H1. exfalso. apply H2. rewrite H1. left. reflexivity.
  - cbn [app] in H1. injection H1 as -> _. cbn [rooted]. apply beq_refl.
Qed.

(* the segments of a cleaned rooted path *)
Lemma clean_split p : rooted p = true -> nodd p = true ->
  segs (clean p) = [] :: match filter keep (segs p) with [] => [[]] | l => l end.
Proof.
  intros Hr Hn. unfold clean. destruct p as [|c p']; [discriminate|]. set (p := c :: p') in *. cbv zeta. rewrite Hr.
  rewrite (clean_stack_nodd true _ Hn []). cbn [rev app].
  set (l := filter keep (segs p)).
  change (sl ++ join sl l) with (slash :: join [slash] l). cbn [split1]. rewrite beq_refl. f_equal.
  destruct l as [|x l'] eqn:El; [reflexivity|]. rewrite split1_join; [reflexivity|discriminate|].
  intros f Hf. rewrite <- El in Hf. unfold l in Hf. apply filter_In in Hf as [Hf _]. apply (split1_no_sep _ _ _ Hf).
Qed.

(* Context.Abs puts back a trailing "/" or "/." that Clean removed *)
Definition abs_of (p : str) : str :=
  let result := clean p in
  if has_suffix p sl && negb (has_suffix result sl) then result ++ sl
  else if has_suffix p (B [47;46]) && negb (has_suffix result (B [47;46])) then result ++ B [47;46]
  else result.

Lemma last_seg_of_suffix p x : has_suffix p (slash :: x) = true -> ~ In slash x -> exists A, segs p = A ++ [x] /\ A <> [].
Proof.
  intros H Hx. apply has_suffix_spec in H as (r & ->). rewrite split1_app_sep, (split1_single _ _ Hx).
  exists (segs r). split; [reflexivity|apply split1_nonempty].
Qed.
Lemma suffix_of_last_seg p A x : segs p = A ++ [x] -> A <> [] -> has_suffix p (slash :: x) = true.
Proof.
  intros E HA. apply has_suffix_spec. exists (join sl A). rewrite <- (join_split1 slash p), E. unfold sl. rewrite join_snoc by exact HA. reflexivity.
Qed.

Lemma all_kept l : Forall (fun s => keep s = true) (filter keep l).
Proof. apply Forall_forall. intros s H. apply filter_In in H as [_ H]. exact H. Qed.
Lemma filter_keep_all l : Forall (fun s => keep s = true) l -> filter keep l = l.
Proof. induction 1 as [|s l Hs Hl IH]; [reflexivity|]. cbn [filter]. rewrite Hs, IH. reflexivity. Qed.

Lemma app_last_inj {A} (l1 l2 : list A) x y : l1 ++ [x] = l2 ++ [y] -> l1 = l2 /\ x = y.
Proof. intro H. apply app_inj_tail in H. exact H. Qed.

Theorem abs_dir_segments p : rooted p = true -> nodd p = true ->
  filter keep (segs (fdir (abs_of p))) = filter keep (removelast (segs p)).
Proof.
  intros Hr Hn.
  (* the segments of p: a non-empty front and the last one *)
  assert (HS : exists A x, segs p = A ++ [x] /\ A <> []).
  { destruct p as [|c p']; [discriminate|]. cbn [rooted] in Hr. apply beq_true in Hr. subst c. cbn [split1]. rewrite beq_refl.
    destruct (exists_last (split1_nonempty slash p')) as (A' & x & E). exists ([] :: A'), x. rewrite E. split; [reflexivity|discriminate]. }
  destruct HS as (A & x & ES & HA). rewrite ES, removelast_last.
  pose proof (clean_split p Hr Hn) as HC. rewrite ES in HC. rewrite filter_app in HC. cbn [filter] in HC.
  set (l := filter keep A ++ (if keep x then [x] else [])) in *.
  assert (Hl : Forall (fun s => keep s = true) l).
  { unfold l. apply Forall_app. split; [apply all_kept|]. destruct (keep x) eqn:E; [apply Forall_cons; [exact E|apply Forall_nil]|apply Forall_nil]. }
  (* suffixes of p and of the cleaned path, in terms of x and l *)
  assert (Hps : has_suffix p sl = true <-> x = []).
  { split.
    - intro H. destruct (last_seg_of_suffix p [] H (fun F => F)) as (A2 & E2 & _). rewrite ES in E2. apply app_inj_tail in E2 as [_ E2]. exact E2.
    - intros ->. apply (suffix_of_last_seg p A [] ES HA). }
  assert (Hpd : has_suffix p (B [47;46]) = true <-> x = dot).
  { split.
    - intro H. assert (Hd : ~ In slash dot) by (intros [F|[]]; discriminate).
      destruct (last_seg_of_suffix p dot H Hd) as (A2 & E2 & _). rewrite ES in E2. apply app_inj_tail in E2 as [_ E2]. exact E2.
    - intros ->. apply (suffix_of_last_seg p A dot ES HA). }
  assert (Hcs : has_suffix (clean p) sl = true -> l = []).
  { intro H. destruct (last_seg_of_suffix (clean p) [] H (fun F => F)) as (A2 & E2 & _). rewrite HC in E2.
    destruct l as [|y l'] eqn:El; [reflexivity|]. exfalso.
    destruct (exists_last (l := y :: l') ltac:(discriminate)) as (l0 & z & Ez). rewrite Ez in E2, Hl.
    change ([] :: l0 ++ [z]) with (([] :: l0) ++ [z]) in E2. apply app_inj_tail in E2 as [_ E2]. subst z.
    apply Forall_app in Hl as [_ Hl]. inversion Hl as [|? ? Hk _]. discriminate. }
  assert (Hcd : has_suffix (clean p) (B [47;46]) = false).
  { destruct (has_suffix (clean p) (B [47;46])) eqn:H; [|reflexivity]. exfalso.
    assert (Hd : ~ In slash dot) by (intros [F|[]]; discriminate).
    destruct (last_seg_of_suffix (clean p) dot H Hd) as (A2 & E2 & _). rewrite HC in E2.
    destruct l as [|y l'] eqn:El.
    - change [[]; []] with ([[]] ++ [[]] : list str) in E2. apply app_inj_tail in E2 as [_ E2]. discriminate.
    - destruct (exists_last (l := y :: l') ltac:(discriminate)) as (l0 & z & Ez). rewrite Ez in E2, Hl.
      change ([] :: l0 ++ [z]) with (([] :: l0) ++ [z]) in E2. apply app_inj_tail in E2 as [_ E2]. subst z.
      apply Forall_app in Hl as [_ Hl]. inversion Hl as [|? ? Hk _]. discriminate. }
  (* the directory of the restored path: Clean again, on its own directory part *)
  assert (Hfd : forall R, rooted R = true -> forallb (fun s => negb (str_eqb s dotdot)) (removelast (segs R)) = true ->
            filter keep (segs (fdir R)) = filter keep (removelast (segs R))).
  { intros R HrR HnR. unfold fdir. rewrite clean_segments.
    - rewrite segs_dir_part, filter_app. cbn [filter]. change (keep []) with false. cbv iota. apply app_nil_r.
    - apply rooted_dir_part. exact HrR.
    - unfold nodd. rewrite segs_dir_part, forallb_app, HnR. reflexivity. }
  assert (Hrc : rooted (clean p) = true).
  { unfold clean. destruct p; [discriminate|]. cbv zeta. rewrite Hr. reflexivity. }
  assert (Hnl : forallb (fun s => negb (str_eqb s dotdot)) l = true).
  { apply forallb_forall. intros s Hs. unfold nodd in Hn. rewrite forallb_forall in Hn. apply Hn. rewrite ES. unfold l in Hs.
    apply in_app_or in Hs as [Hs|Hs]; [apply filter_In in Hs as [Hs _]; apply in_or_app; left; exact Hs|].
    destruct (keep x); [destruct Hs as [<-|[]]; apply in_or_app; right; left; reflexivity|destruct Hs]. }
  assert (HnC : forallb (fun s => negb (str_eqb s dotdot)) ([] :: match l with [] => [[]] | s :: l0 => s :: l0 end) = true).
  { cbn [forallb]. destruct l; [reflexivity|exact Hnl]. }
  unfold abs_of. cbv zeta.
  assert (Hcase : x = [] \/ x = dot \/ (x <> [] /\ x <> dot)).
  { destruct (str_eq_dec x []) as [->|H1]; [left; reflexivity|]. destruct (str_eq_dec x dot) as [->|H2]; [right; left; reflexivity|right; right; split; assumption]. }
  destruct Hcase as [Ex|[Ex|[Ex1 Ex2]]].
  - (* p ends in a slash *)
    assert (E1 : has_suffix p sl = true) by (apply Hps; exact Ex). rewrite E1.
    subst x. change (keep []) with false in *. cbv iota in l. unfold l in *. rewrite app_nil_r in *.
    destruct (has_suffix (clean p) sl) eqn:E2; cbn [negb andb].
    + specialize (Hcs eq_refl). rewrite Hcd. cbn [negb]. rewrite Bool.andb_true_r.
      assert (E3 : has_suffix p (B [47;46]) = false).
      { destruct (has_suffix p (B [47;46])) eqn:E3; [|reflexivity]. assert (F : [] = dot) by (apply Hpd; reflexivity). discriminate. }
      rewrite E3.
      rewrite Hfd; [|exact Hrc|rewrite HC, Hcs; reflexivity]. rewrite HC, Hcs. reflexivity.
    + assert (ER : segs (clean p ++ sl) = segs (clean p) ++ [[]]) by (unfold sl; rewrite split1_app_sep; reflexivity).
      rewrite Hfd.
      * rewrite ER, removelast_last, HC. cbn [filter]. change (keep []) with false. cbv iota.
        destruct (filter keep A) eqn:EA; [reflexivity|]. rewrite <- EA. apply filter_keep_idem.
      * destruct (clean p) eqn:Ec; [discriminate|]. exact Hrc.
      * rewrite ER, removelast_last, HC. exact HnC.
  - (* p ends in "/." *)
    assert (E1 : has_suffix p sl = false).
    { destruct (has_suffix p sl) eqn:E1; [|reflexivity]. assert (F : x = []) by (apply Hps; reflexivity). rewrite F in Ex. discriminate. }
    assert (E3 : has_suffix p (B [47;46]) = true) by (apply Hpd; exact Ex). rewrite E1, E3. cbn [andb].
    subst x. change (keep dot) with false in *. cbv iota in l. unfold l in *. rewrite app_nil_r in *.
    rewrite Hcd. cbn [negb andb].
    assert (ER : segs (clean p ++ B [47;46]) = segs (clean p) ++ [dot]) by (change (B [47;46]) with (slash :: dot); rewrite split1_app_sep; reflexivity).
    rewrite Hfd.
    + rewrite ER, removelast_last, HC. cbn [filter]. change (keep []) with false. cbv iota.
      destruct (filter keep A) eqn:EA; [reflexivity|]. rewrite <- EA. apply filter_keep_idem.
    + destruct (clean p) eqn:Ec; [discriminate|]. exact Hrc.
    + rewrite ER, removelast_last, HC. exact HnC.
  - (* an ordinary last segment *)
    assert (E1 : has_suffix p sl = false).
    { destruct (has_suffix p sl) eqn:E1; [|reflexivity]. exfalso. apply Ex1. apply Hps. reflexivity. }
    assert (E3 : has_suffix p (B [47;46]) = false).
    { destruct (has_suffix p (B [47;46])) eqn:E3; [|reflexivity]. exfalso. apply Ex2. apply Hpd. reflexivity. }
    rewrite E1, E3. cbn [andb].
    assert (Hk : keep x = true).
    { unfold keep. destruct x as [|c x']; [contradiction|]. cbn [is_empty orb].
      destruct (str_eqb (c :: x') dot) eqn:Ed; [|reflexivity]. apply str_eqb_true in Ed. contradiction. }
    subst l. rewrite Hk in *. rewrite Hfd; [|exact Hrc|].
    + rewrite HC. destruct (filter keep A ++ [x]) as [|y l'] eqn:El; [destruct (filter keep A); discriminate|].
      rewrite <- El. change ([] :: filter keep A ++ [x]) with (([] :: filter keep A) ++ [x]). rewrite removelast_last.
      cbn [filter]. change (keep []) with false. cbv iota. apply filter_keep_idem.
    + rewrite HC. destruct (filter keep A ++ [x]) as [|y l'] eqn:El; [destruct (filter keep A); discriminate|].
      rewrite <- El. change ([] :: filter keep A ++ [x]) with (([] :: filter keep A) ++ [x]). rewrite removelast_last.
      rewrite <- El in Hnl. rewrite forallb_app in Hnl. apply Bool.andb_true_iff in Hnl as [Hnl _]. cbn [forallb]. exact Hnl.
Qed.

(* ---------- the directory actionPath lists is the directory the typed path denotes ---------- *)
Definition tilde_start (s : str) : bool := match s with c :: _ => beq c tilde | [] => false end.

Lemma ctx_abs_relative cwd home cdir value : rooted cdir = true -> rooted value = false -> tilde_start value = false ->
  ctx_abs cwd home cdir value = abs_of (cdir ++ sl ++ value).
Proof.
  intros Hc Hv Ht. unfold ctx_abs, tilde_start in *. rewrite Hv. rewrite Ht. cbn [orb].
  destruct cdir as [|c cd]; [discriminate|]. cbn [rooted] in Hc. apply beq_true in Hc. subst c.
  cbn [app expand_home]. change (beq slash tilde) with false. cbv iota. unfold fabs. cbn [rooted]. rewrite beq_refl. reflexivity.
Qed.
Lemma ctx_abs_absolute cwd home cdir value : rooted value = true -> ctx_abs cwd home cdir value = abs_of value.
Proof.
  intros Hv. unfold ctx_abs. rewrite Hv. cbn [orb].
  destruct value as [|c v]; [discriminate|]. cbn [rooted] in Hv. apply beq_true in Hv. subst c.
  cbn [expand_home]. change (beq slash tilde) with false. cbv iota. unfold fabs. cbn [rooted]. rewrite beq_refl. reflexivity.
Qed.

Theorem listed_dir_relative cwd home cdir value :
  rooted cdir = true -> rooted value = false -> tilde_start value = false -> nodd (cdir ++ sl ++ value) = true ->
  filter keep (segs (fdir (ctx_abs cwd home cdir value))) = filter keep (segs (cdir ++ sl ++ dir_part value)).
Proof.
  intros Hc Hv Ht Hn. rewrite ctx_abs_relative by assumption.
  assert (Hr : rooted (cdir ++ sl ++ value) = true) by (destruct cdir; [discriminate|exact Hc]).
  rewrite (abs_dir_segments _ Hr Hn). unfold sl. cbn [app]. rewrite !split1_app_sep.
  rewrite removelast_app by apply split1_nonempty. rewrite segs_dir_part, !filter_app. cbn [filter]. change (keep []) with false. cbv iota.
  rewrite app_nil_r. reflexivity.
Qed.
Theorem listed_dir_absolute cwd home cdir value : rooted value = true -> nodd value = true ->
  filter keep (segs (fdir (ctx_abs cwd home cdir value))) = filter keep (segs (dir_part value)).
Proof.
  intros Hv Hn. rewrite ctx_abs_absolute by assumption. rewrite (abs_dir_segments _ Hv Hn).
  rewrite segs_dir_part, filter_app. cbn [filter]. change (keep []) with false. cbv iota. rewrite app_nil_r. reflexivity.
Qed.

(* hence: walked by the kernel (through any symbolic links), the directory that actionPath reads is the
   directory part of the typed path taken from Context.Dir — for typed paths without `..` *)
Corollary listed_dir_denotes_relative fs cwd home cdir value r :
  rooted cdir = true -> rooted value = false -> tilde_start value = false -> nodd (cdir ++ sl ++ value) = true ->
  (denotes fs (fdir (ctx_abs cwd home cdir value)) r <-> denotes fs (cdir ++ sl ++ dir_part value) r).
Proof. intros. unfold denotes. apply denotes_same_kept. apply listed_dir_relative; assumption. Qed.
Corollary listed_dir_denotes_absolute fs cwd home cdir value r : rooted value = true -> nodd value = true ->
  (denotes fs (fdir (ctx_abs cwd home cdir value)) r <-> denotes fs (dir_part value) r).
Proof. intros. unfold denotes. apply denotes_same_kept. apply listed_dir_absolute; assumption. Qed.

Example listed_dir_example :
  let cdir := B [47;119] in let value := B [108;47;47;120;47;46;47;102] in     (* Context.Dir /w, typed l//x/./f *)
  rooted cdir = true /\ rooted value = false /\ tilde_start value = false /\ nodd (cdir ++ sl ++ value) = true /\
  fdir (ctx_abs (B [47;99;119;100]) (B [47;104]) cdir value) = B [47;119;47;108;47;120] /\ dir_part value = B [108;47;47;120;47;46;47].
Proof. repeat split; vm_compute; reflexivity. Qed.
