(* Proofs/Flags.v — C07: the offered names are exactly the acceptable ones, and an offered
   long name is accepted by the parser model of C01 and sets that very flag. *)
From Coq Require Import Lia.
From CV Require Import Base.Str Model.Pflag Model.Flags Proofs.Pflag.
Local Open Scope nat_scope.

(* ---------- exactly the acceptable flags ---------- *)
Lemma names_long_spec envh fs ch n :
  In n (names_long envh fs ch) <->
  exists f, In f fs /\ acceptable envh fs ch f = true /\
            (n = dash2 ++ fd_name f \/ (short_ok f = true /\ n = dash1 ++ fd_short f)).
Proof.
  unfold names_long. rewrite in_flat_map. split.
  - intros (f & Hf & Hn). exists f. split; [exact Hf|]. destruct (acceptable envh fs ch f); [|contradiction].
    split; [reflexivity|]. destruct Hn as [<-|Hn]; [left; reflexivity|].
    destruct (short_ok f); [|contradiction]. destruct Hn as [<-|[]]. right. auto.
  - intros (f & Hf & Ha & Hn). exists f. split; [exact Hf|]. rewrite Ha.
    destruct Hn as [->|[Hs ->]]; [left; reflexivity|]. right. rewrite Hs. left. reflexivity.
Qed.

Lemma names_chain_spec envh fs ch cur letters n :
  In n (names_chain envh fs ch cur letters) <->
  exists f, In f fs /\ acceptable envh fs (ch ++ map fd_name letters) f = true /\ short_ok f = true /\ n = cur ++ fd_short f.
Proof.
  unfold names_chain. rewrite in_flat_map. split.
  - intros (f & Hf & Hn). exists f. split; [exact Hf|].
    destruct (acceptable envh fs (ch ++ map fd_name letters) f); [|contradiction].
    destruct (short_ok f); [|contradiction]. destruct Hn as [<-|[]]. auto.
  - intros (f & Hf & Ha & Hs & ->). exists f. split; [exact Hf|]. rewrite Ha, Hs. left. reflexivity.
Qed.

Lemma names_offered_long envh fs ch cur n : has_prefix cur dash2 || str_eqb cur dash1 = true ->
  (exists l, names_offered envh fs ch cur = NNames l /\
     (In n l <-> has_prefix n cur = true /\ In n (names_long envh fs ch))).
Proof.
  intro H. unfold names_offered. rewrite H. eexists. split; [reflexivity|]. rewrite filter_In. tauto.
Qed.

(* what "acceptable" says, clause by clause *)
Lemma acceptable_spec envh fs ch f :
  acceptable envh fs ch f = true <->
  (fd_hidden f = true -> envh = true) /\ fd_dep f = false /\
  (is_changed ch f = true -> repeatable f = true) /\
  (forall o, In o fs -> fd_name o <> fd_name f -> is_changed ch o = true -> shares_group f o = false).
Proof.
  unfold acceptable, excluded. rewrite !andb_true_iff, !negb_true_iff. split.
  - intros [[[H1 H2] H3] H4]. repeat split.
    + intro Hh. rewrite Hh in H1. destruct envh; [reflexivity|discriminate].
    + exact H2.
    + intro Hc. rewrite Hc in H3. exact H3.
    + intros o Ho Hne Hc. destruct (shares_group f o) eqn:Es; [|reflexivity].
      assert (E : existsb (fun o0 => negb (str_eqb (fd_name o0) (fd_name f)) && is_changed ch o0 && shares_group f o0) fs = true).
      { apply existsb_exists. exists o. split; [exact Ho|]. rewrite Hc, Es.
        apply str_eqb_false in Hne. rewrite Hne. reflexivity. }
      congruence.
  - intros (H1 & H2 & H3 & H4). repeat split.
    + destruct (fd_hidden f); [rewrite H1; reflexivity|reflexivity].
    + exact H2.
    + destruct (is_changed ch f); [rewrite H3; reflexivity|reflexivity].
    + destruct (existsb _ fs) eqn:E; [|reflexivity]. apply existsb_exists in E as (o & Ho & E).
      apply andb_true_iff in E as [E Es]. apply andb_true_iff in E as [En Ec].
      apply negb_true_iff, str_eqb_false in En. rewrite (H4 o Ho En Ec) in Es. discriminate.
Qed.

(* a chain is extended only while every letter typed so far takes no argument *)
Lemma chain_letters_noarg fs cs l : chain_letters fs cs = ChLetters l ->
  length l = length cs /\ Forall (fun f => noarg f = true /\ In f fs) l.
Proof.
  revert l. induction cs as [|c cs IH]; intros l H; cbn [chain_letters] in H.
  - injection H as <-. split; [reflexivity|constructor].
  - destruct (find_short fs c) as [f|] eqn:Ef; [|discriminate]. destruct (noarg f) eqn:En; [|discriminate].
    destruct (chain_letters fs cs) as [| |l'] eqn:El; try discriminate. injection H as <-.
    destruct (IH l' eq_refl) as [H1 H2]. split; [cbn; lia|]. constructor; [|exact H2].
    split; [exact En|]. unfold find_short in Ef. apply find_some in Ef. tauto.
Qed.

(* ---------- sub-commands ---------- *)
Lemma subcommand_names_spec envh subs n :
  In n (subcommand_names envh subs) <->
  exists c, In c subs /\ (cd_hidden c = true -> envh = true) /\ cd_dep c = false /\ (n = cd_name c \/ In n (cd_aliases c)).
Proof.
  unfold subcommand_names. rewrite in_flat_map. split.
  - intros (c & Hc & Hn). exists c. split; [exact Hc|].
    destruct (cd_hidden c) eqn:Eh, envh, (cd_dep c) eqn:Ed; cbn in Hn; try contradiction;
      (split; [auto|]); (split; [reflexivity|]); destruct Hn as [<-|Hn]; auto; discriminate.
  - intros (c & Hc & H1 & H2 & Hn). exists c. split; [exact Hc|]. rewrite H2.
    assert (E : negb (cd_hidden c) || envh = true) by (destruct (cd_hidden c); [rewrite H1; reflexivity|reflexivity]).
    rewrite E. cbn. destruct Hn as [->|Hn]; auto.
Qed.

(* ---------- an offered long name is accepted and sets that very flag ---------- *)
Definition to_flag (f : fdef) : flag := mkFlag (fd_name f) (fd_kind f) (fd_short f).
(* a name cobra can define: not empty, not starting with a dash, no `=` *)
Definition wf_name (n : str) : Prop := n <> [] /\ starts_dash n = false /\ ~ In (byte 61) n.

Lemma cut_eq_noeq n : ~ In (byte 61) n -> cut_eq n = (n, None).
Proof.
  induction n as [|c n IH]; intro H; [reflexivity|]. cbn [cut_eq].
  destruct (beq c (byte 61)) eqn:E; [apply beq_true in E; subst; exfalso; apply H; left; reflexivity|].
  rewrite IH by (intro; apply H; right; assumption). reflexivity.
Qed.

Lemma long_name_step fs il st n f rest :
  p_stopped st = false -> wf_name n -> find_flag fs n = Some f ->
  pfp fs il None ((dash2 ++ n) :: rest) st =
    if takes_next f then pfp fs il (Some f) rest st else pfp fs il None rest (set_flag st n (noopt f)).
Proof.
  intros Hs (Hne & Hd & Heq) Hf. cbn [pfp]. rewrite Hs.
  assert (E1 : str_eqb (dash2 ++ n) dash2 = false).
  { apply str_eqb_false. intro E. destruct n; [contradiction|discriminate]. }
  rewrite E1. change (starts_dash (dash2 ++ n)) with true. cbn [negb orb].
  assert (E2 : str_eqb (dash2 ++ n) dash1 = false) by reflexivity. unfold dash1 in E2. rewrite E2.
  change (has_prefix (dash2 ++ n) dash2) with true. cbn [negb].
  unfold long_parts. rewrite drop2_dash2, (cut_eq_noeq n Heq).
  destruct n as [|c n']; [contradiction|]. cbn [starts_dash] in Hd. rewrite Hd, Hf. reflexivity.
Qed.

Theorem offered_long_accepted fs il ws st n f v :
  parse fs il ws = POk st -> p_stopped st = false -> wf_name n -> find_flag fs n = Some f ->
  exists st', parse fs il (ws ++ (dash2 ++ n) :: (if takes_next f then [v] else [])) = POk st' /\
              last (p_sets st') no_set = (n, if takes_next f then v else noopt f) /\
              p_args st' = p_args st.
Proof.
  intros Hp Hs Hn Hf. unfold parse in *. rewrite pfp_is_pf_parse in Hp.
  destruct (pfp fs il None ws p0) as [s| |] eqn:Er; try discriminate. injection Hp as ->.
  rewrite pfp_is_pf_parse, pfp_app, Er, (long_name_step fs il st n f _ Hs Hn Hf).
  destruct (takes_next f).
  - cbn [pfp]. eexists. split; [reflexivity|]. cbn [set_flag p_sets p_args]. rewrite (find_flag_name _ _ _ Hf).
    split; [apply last_last|reflexivity].
  - cbn [pfp]. eexists. split; [reflexivity|]. cbn [set_flag p_sets p_args]. split; [apply last_last|reflexivity].
Qed.

(* non-vacuity and a reading of the rule on a concrete flag set *)
Definition exf : list fdef :=
  [ mkFdef (B [97;108;108]) (B [97]) KBool false false false [[B [97;108;108]; B [99;111;117;110;116]]];   (* all, -a, group {all count} *)
    mkFdef (B [99;111;117;110;116]) (B [99]) KCount false false false [[B [97;108;108]; B [99;111;117;110;116]]];   (* count, -c, same group *)
    mkFdef (B [111;108;100]) (B [111]) KBool true true false [];             (* old: deprecated *)
    mkFdef (B [115;116;114]) (B [115]) KStr false false false [] ].          (* str, -s *)
Example ex_names :
  names_offered false exf [] dash2 = NNames [B [45;45;97;108;108]; B [45;45;99;111;117;110;116]; B [45;45;115;116;114]] /\
  names_offered false exf [] dash1 = NNames [B [45;45;97;108;108]; B [45;97]; B [45;45;99;111;117;110;116]; B [45;99]; B [45;45;115;116;114]; B [45;115]] /\
  names_offered false exf [B [99;111;117;110;116]] dash1 = NNames [B [45;45;99;111;117;110;116]; B [45;99]; B [45;45;115;116;114]; B [45;115]] /\
  names_offered false exf [] (B [45;99]) = NNames [B [45;99;99]; B [45;99;115]] /\
  names_offered false exf [] (B [45;115]) = NOther.
Proof. repeat split; reflexivity. Qed.

(* ---------- an offered shorthand name is accepted and sets that very flag ---------- *)
Lemma short_word_step fs il st c f rest : p_stopped st = false -> beq c (byte 45) = false -> Pflag.find_short fs c = Some f ->
  pfp fs il None ((byte 45 :: [c]) :: rest) st =
    if takes_next f then pfp fs il (Some f) rest (add_sets st [])
    else pfp fs il None rest (add_sets st [(fname f, noopt f)]).
Proof.
  intros Hs Hc Hf. cbn [pfp]. rewrite Hs.
  assert (E1 : str_eqb [byte 45; c] dash2 = false).
  { cbn [str_eqb dash2 B map]. rewrite beq_refl. cbn [andb]. unfold byte in Hc. rewrite Hc. reflexivity. }
  rewrite E1. change (starts_dash [byte 45; c]) with true. cbn [negb orb].
  change (str_eqb [byte 45; c] (B [45])) with false.
  assert (E2 : has_prefix [byte 45; c] dash2 = false).
  { cbn [has_prefix dash2 B map]. rewrite beq_refl. cbn [andb]. unfold beq in *. rewrite Ascii.eqb_sym. unfold byte in Hc. rewrite Hc. reflexivity. }
  rewrite E2. cbn [negb drop chain]. rewrite Hf. destruct (takes_next f); reflexivity.
Qed.

Theorem offered_short_accepted fs il ws st c f v :
  parse fs il ws = POk st -> p_stopped st = false -> beq c (byte 45) = false -> Pflag.find_short fs c = Some f ->
  exists st', parse fs il (ws ++ [byte 45; c] :: (if takes_next f then [v] else [])) = POk st' /\
              last (p_sets st') no_set = (fname f, if takes_next f then v else noopt f) /\
              p_args st' = p_args st.
Proof.
  intros Hp Hs Hc Hf. unfold parse in *. rewrite pfp_is_pf_parse in Hp.
  destruct (pfp fs il None ws p0) as [s| |] eqn:Er; try discriminate. injection Hp as ->.
  rewrite pfp_is_pf_parse, pfp_app, Er, (short_word_step fs il st c f _ Hs Hc Hf).
  destruct (takes_next f).
  - cbn [pfp]. eexists. split; [reflexivity|]. cbn [set_flag add_sets p_sets p_args]. rewrite app_nil_r.
    split; [apply last_last|reflexivity].
  - cbn [pfp]. eexists. split; [reflexivity|]. cbn [add_sets p_sets p_args]. split; [apply last_last|reflexivity].
Qed.
