(* Proofs/Framing.v — C04: the delimiter-framed formats decode into one intact record per
   candidate.  Sanitizer tables are the regenerated ones; the obligations on them
   ("drops TAB and LF", "replacements contain no separator") are closed by vm_compute. *)
From CV Require Import Base.Str Base.Utf8 Gen.Tables Model.Common Model.Shells Spec.FmtDecode.
Local Open Scope nat_scope.

(* ---------- generic facts ---------- *)
Lemma cut1_app sep a b : ~ In sep a -> cut1 sep (a ++ sep :: b) = (a, Some b).
Proof.
  induction a as [|c a IH]; intro H.
  - cbn [app cut1]. rewrite beq_refl. reflexivity.
  - cbn [app cut1]. destruct (beq c sep) eqn:E.
    + apply beq_true in E. subst. exfalso. apply H. left. reflexivity.
    + rewrite IH by (intro; apply H; right; assumption). reflexivity.
Qed.

Lemma cut1_none sep a : ~ In sep a -> cut1 sep a = (a, None).
Proof.
  induction a as [|c a IH]; intro H; [reflexivity|].
  cbn [cut1]. destruct (beq c sep) eqn:E.
  - apply beq_true in E. subst. exfalso. apply H. left. reflexivity.
  - rewrite IH by (intro; apply H; right; assumption). reflexivity.
Qed.

(* a byte occurs in the result of a replacer only if it was in the input or in a replacement *)
Lemma rep1_notin t c b :
  (forall kv, In kv t -> ~ In b (snd kv)) -> b <> c -> ~ In b (rep1 t c).
Proof.
  induction t as [|[k v] t IH]; intros Ht Hbc; simpl.
  - intros [H|[]]. congruence.
  - destruct (beq c k).
    + apply (Ht (k, v)). left. reflexivity.
    + apply IH; [intros kv Hkv; apply Ht; right; exact Hkv|exact Hbc].
Qed.
Lemma replace1_notin t s b :
  (forall kv, In kv t -> ~ In b (snd kv)) -> ~ In b s -> ~ In b (replace1 t s).
Proof.
  intros Ht. induction s as [|c s IH]; intro Hs; [intros []|].
  rewrite replace1_cons. rewrite in_app_iff. intros [H|H].
  - revert H. apply rep1_notin; [exact Ht|]. intro E. subst. apply Hs. left. reflexivity.
  - revert H. apply IH. intro. apply Hs. right. assumption.
Qed.

Definition sep_free (b : ascii) (t : table) : bool :=
  forallb (fun kv => negb (mem b (snd kv))) t.
Lemma sep_free_spec b t : sep_free b t = true -> forall kv, In kv t -> ~ In b (snd kv).
Proof.
  unfold sep_free. rewrite forallb_forall. intros H kv Hkv Hin. specialize (H kv Hkv).
  apply negb_true_iff in H. apply mem_false in H. contradiction.
Qed.

(* a deleting sanitizer leaves none of its keys *)
Definition deletes (t : table) (b : ascii) : bool := drops t && mem b (keys t).
Lemma deletes_spec t b s : deletes t b = true -> ~ In b (replace1 t s).
Proof.
  unfold deletes. intro H. apply andb_true_iff in H as [Hd Hk].
  apply replace1_drops_notin; [exact Hd|apply mem_In; exact Hk].
Qed.

(* ================================================================== fish *)
Definition fish_project (v : raw) : drec :=
  let val := replace1 fish_sanitizer (value v) in
  mkD val val (replace1 fish_sanitizer (trimmed_description (description v))) None [] [].

Lemma fish_sanitizer_deletes : deletes fish_sanitizer LF = true /\ deletes fish_sanitizer TABc = true /\
                               deletes fish_sanitizer (byte 13) = true.
Proof. repeat split; vm_compute; reflexivity. Qed.

Theorem fish_roundtrip vs :
  vs <> [] -> decode_fish (fish_format vs) = Some (map fish_project vs).
Proof.
  intro Hne. unfold decode_fish, fish_format.
  destruct fish_sanitizer_deletes as [Hlf [Htab _]].
  set (line := fun v : raw => replace1 fish_sanitizer (value v) ++ tab ++
                              replace1 fish_sanitizer (trimmed_description (description v))).
  assert (Hnl : forall f, In f (map line vs) -> ~ In LF f).
  { intros f Hf. apply in_map_iff in Hf as [v [<- _]]. unfold line. rewrite !in_app_iff.
    intros [H|[H|H]].
    - revert H. apply deletes_spec. exact Hlf.
    - destruct H as [H|[]]. vm_compute in H. discriminate.
    - revert H. apply deletes_spec. exact Hlf. }
  assert (Hmne : map line vs <> []) by (destruct vs; [congruence|discriminate]).
  change nl with [LF].
  destruct (join [LF] (map line vs)) eqn:J.
  - (* the joined text is empty: impossible, every line contains a TAB *)
    exfalso. destruct vs as [|v vs]; [congruence|].
    assert (Hin : In TABc (join [LF] (map line (v :: vs)))).
    { cbn [map]. destruct (map line vs) as [|l ls].
      - cbn [join]. unfold line. rewrite !in_app_iff. right. left. left. reflexivity.
      - change (join [LF] (line v :: l :: ls)) with (line v ++ [LF] ++ join [LF] (l :: ls)).
        rewrite in_app_iff. left. unfold line. rewrite !in_app_iff. right. left. left. reflexivity. }
    rewrite J in Hin. destruct Hin.
  - rewrite <- J. rewrite split1_join by assumption.
    f_equal. rewrite map_map. apply map_ext. intro v. unfold line, fish_project.
    change (tab ++ ?x) with (TABc :: x).
    rewrite cut1_app; [reflexivity|]. apply deletes_spec. exact Htab.
Qed.

(* ================================================================== bash: flag \001 lines *)
Lemma strip_trailing_lf_id s c : last_byte s = Some c -> c <> LF -> strip_trailing_lf s = s.
Proof.
  unfold strip_trailing_lf, last_byte. destruct (rev s) as [|d r] eqn:E; [discriminate|].
  intros H Hc. inversion H; subst. cbn [strip_trailing_lf_rev].
  destruct (beq c LF) eqn:B; [apply beq_true in B; contradiction|].
  rewrite <- E. apply rev_involutive.
Qed.

Theorem bash_framing flagstr lines c :
  ~ In (byte 1) flagstr ->
  lines <> [] -> (forall l, In l lines -> ~ In LF l) ->
  last_byte (flagstr ++ byte 1 :: join [LF] lines) = Some c -> c <> LF ->
  join [LF] lines <> [] ->
  existsb nonempty lines = true ->
  decode_bash (flagstr ++ byte 1 :: join [LF] lines) =
    Some (str_eqb flagstr (B [116;114;117;101]), lines).
Proof.
  intros Hf Hne Hl Hlast Hc Hj Hsome. unfold decode_bash.
  rewrite (strip_trailing_lf_id _ _ Hlast Hc). rewrite cut1_app by exact Hf.
  destruct (join [LF] lines) eqn:J; [congruence|]. rewrite <- J.
  rewrite split1_join by assumption.
  assert (X : forallb (fun l => negb (nonempty l)) lines = false).
  { destruct (forallb (fun l => negb (nonempty l)) lines) eqn:F; [|reflexivity].
    rewrite forallb_forall in F. apply existsb_exists in Hsome as [l [Hin Hn]].
    specialize (F l Hin). rewrite Hn in F. discriminate. }
  rewrite X. reflexivity.
Qed.

(* the quoted bash text contains no line break and no \001 when the value has no \001 *)
Lemma bash_sanitizer_deletes : deletes bash_sanitizer LF = true /\ deletes bash_sanitizer TABc = true /\
                               deletes bash_sanitizer (byte 13) = true.
Proof. repeat split; vm_compute; reflexivity. Qed.
Lemma bash_tables_sep_free :
  sep_free LF bash_escapingReplacer = true /\ sep_free LF bash_escapingQuotedReplacer = true /\
  sep_free (byte 1) bash_escapingReplacer = true /\ sep_free (byte 1) bash_escapingQuotedReplacer = true /\
  sep_free (byte 1) bash_sanitizer = true.
Proof. repeat split; vm_compute; reflexivity. Qed.

Theorem bash_quote_no_separator wb v :
  ~ In (byte 1) v -> ~ In LF (bash_quote wb v) /\ ~ In (byte 1) (bash_quote wb v).
Proof.
  intro H1. destruct bash_sanitizer_deletes as [Hlf _].
  destruct bash_tables_sep_free as [A [Bq [C [D E]]]].
  assert (S1 : ~ In LF (replace1 bash_sanitizer v)) by (apply deletes_spec; exact Hlf).
  assert (S2 : ~ In (byte 1) (replace1 bash_sanitizer v)).
  { apply replace1_notin; [apply sep_free_spec; exact E|exact H1]. }
  unfold bash_quote.
  destruct (has_prefix (replace1 bash_sanitizer v) (B [126])).
  - split; apply replace1_notin; try assumption; apply sep_free_spec; assumption.
  - destruct (bash_requires_quoting wb (replace1 bash_sanitizer v)); [|split; assumption].
    split; rewrite !in_app_iff; intros [H|[H|H]];
      try (destruct H as [H|[]]; vm_compute in H; discriminate);
      revert H; apply replace1_notin; try assumption; apply sep_free_spec; assumption.
Qed.

(* ================================================================== refutations *)
(* cmd-clink: an empty description makes the appendchar land in the description slot *)
Lemma cmd_clink_refuted :
  exists m vs, decode_cmd_clink (cmd_clink_format m vs) =
               Some [(Some (B [97]), Some (B [97]), Some (B [32]), None)].
Proof.
  exists (mkMeta [] [] []), [mkRaw (B [97]) (B [97]) [] [] [] [] []]. vm_compute. reflexivity.
Qed.

(* bash-ble: a TAB inside the value cuts the insert text *)
Lemma bash_ble_refuted :
  exists m v, option_map (map d_insert) (decode_bash_ble (bash_ble_format m [v])) <> Some [value v].
Proof.
  exists (mkMeta [] [] []), (mkRaw (B [97;9;98]) (B [97]) [] [] [] [] []). vm_compute. discriminate.
Qed.

(* zsh: a record whose value line is empty vanishes in `read -A` and the arrays shift *)
Lemma zsh_empty_line_refuted :
  exists e m vs, decode_zsh (zsh_format e m vs) = None.
Proof.
  exists (mkFenv [] false None None [] false [] [] [] [] []), (mkMeta [] (B [42]) []),
         [mkRaw [] (B [100]) [] [] [] [] []]. vm_compute. reflexivity.
Qed.

(* ================================================================== TrimmedDescription *)
Lemma first_line_no_lf d : ~ In LF (first_line d).
Proof.
  induction d as [|c d IH]; [intros []|]. cbn [first_line].
  destruct (beq c (byte 10)) eqn:E; [intros []|].
  intros [H|H]; [|exact (IH H)]. subst. change (byte 10) with LF in E. rewrite beq_refl in E. discriminate.
Qed.

Lemma trimmed_description_truncated d :
  common_TrimmedDescription_maxLength <? length (chunks (trim_space (first_line d))) = true ->
  exists body, trimmed_description d = body ++ B [46;46;46] /\
               body = encode_runes (firstn_runes (common_TrimmedDescription_maxLength - 3) (chunks (trim_space (first_line d)))).
Proof.
  intro H. unfold trimmed_description. rewrite H. eexists. split; reflexivity.
Qed.

Lemma firstn_runes_length n l : length (firstn_runes n l) <= n.
Proof.
  revert l; induction n as [|n IH]; intros [|[r b] l]; simpl; try lia. specialize (IH l). lia.
Qed.
