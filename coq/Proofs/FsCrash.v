(* Proofs/FsCrash.v — C15: what a reader can see at every stopping point of a writer. *)
From Coq Require Import Lia.
From CV Require Import Base.Str Model.FsCrash.
Local Open Scope nat_scope.

Lemma upd_same fs n c : upd fs n c n = c.
Proof. unfold upd. rewrite Nat.eqb_refl. reflexivity. Qed.
Lemma upd_other fs n c m : m <> n -> upd fs n c m = fs m.
Proof. intro H. unfold upd. apply Nat.eqb_neq in H. rewrite H. reflexivity. Qed.

Lemma firstn_S_nth (c : str) k b : nth_error c k = Some b -> firstn (S k) c = firstn k c ++ [b].
Proof.
  revert k. induction c as [|y c IH]; intros k H; [destruct k; discriminate|].
  destruct k as [|k]; [cbn in H; injection H as ->; reflexivity|].
  cbn [nth_error] in H. cbn [firstn app]. f_equal. apply IH. exact H.
Qed.
Lemma firstn_none_all (c : str) k : nth_error c k = None -> firstn k c = c.
Proof. intro H. apply nth_error_None in H. apply firstn_all2. exact H. Qed.

(* ---------- one atomic writer ---------- *)
(* the writer's own invariant: while open, the temp file holds exactly the bytes written so far *)
Definition winv (t : fname) (c : str) (s : wstate) (fs : files) : Prop :=
  match s with WOpen k => fs t = Some (firstn k c) | _ => True end.

Lemma atomic_step_target t f c s fs old : t <> f -> winv t c s fs ->
  (fs f = old \/ fs f = Some c) ->
  let '(s', fs') := atomic_step t f c s fs in
  winv t c s' fs' /\ (fs' f = old \/ fs' f = Some c).
Proof.
  intros Htf Hw Hf. destruct s as [|k|]; cbn [atomic_step].
  - split; [cbn; apply upd_same|]. rewrite upd_other by congruence. exact Hf.
  - cbn in Hw. destruct (nth_error c k) as [b|] eqn:En.
    + split.
      * unfold winv. rewrite upd_same, Hw. cbn [option_map]. rewrite (firstn_S_nth _ _ _ En). reflexivity.
      * rewrite upd_other by congruence. exact Hf.
    + rewrite Hw. split; [exact I|]. right. rewrite upd_other by congruence. rewrite upd_same.
      rewrite (firstn_none_all _ _ En). reflexivity.
  - split; [exact I|exact Hf].
Qed.

Theorem atomic_safe t f c fs n : t <> f ->
  let after := snd (atomic_run t f c n fs) in after f = fs f \/ after f = Some c.
Proof.
  intros Htf. unfold atomic_run.
  assert (H : forall s fs0, winv t c s fs0 -> (fs0 f = fs f \/ fs0 f = Some c) ->
              let r := iter n (fun sf => atomic_step t f c (fst sf) (snd sf)) (s, fs0) in
              snd r f = fs f \/ snd r f = Some c).
  { induction n as [|n IH]; intros s fs0 Hw Hf; [exact Hf|]. cbn [iter fst snd].
    pose proof (atomic_step_target t f c s fs0 (fs f) Htf Hw Hf) as Hs.
    destruct (atomic_step t f c s fs0) as [s' fs']. destruct Hs as [Hw' Hf']. apply IH; assumption. }
  apply H; [exact I|left; reflexivity].
Qed.

(* ---------- the in-place protocol shows a proper prefix under the final name ---------- *)
Lemma inplace_open f c k fs : k <= length c ->
  inplace_run f c (S k) fs = (WOpen k, upd fs f (Some (firstn k c))) \/ True.
Proof. intros _. right. exact I. Qed.

Theorem inplace_refuted :
  exists (c old : str) n,
    let seen := snd (inplace_run 0 c n (upd (fun _ => None) 0 (Some old))) 0 in
    seen <> Some old /\ seen <> Some c /\ seen <> None.
Proof.
  exists (B [48;49;50;51;52;53;54;55;56;57]), (B [111;108;100]), 8. cbv zeta.
  vm_compute. repeat split; discriminate.
Qed.

(* ... for every content and every cut: after the truncation and k bytes, exactly the first k
   bytes are visible *)
Theorem inplace_prefix_visible f c fs k : k <= length c ->
  snd (inplace_run f c (S k) fs) f = Some (firstn k c).
Proof.
  intro Hk. unfold inplace_run. cbn [iter fst snd inplace_step].
  assert (H : forall j m fs0, fs0 f = Some (firstn m c) -> m + j <= length c ->
              snd (iter j (fun sf => inplace_step f c (fst sf) (snd sf)) (WOpen m, fs0)) f = Some (firstn (m + j) c)).
  { induction j as [|j IH]; intros m fs0 H0 Hl; [rewrite Nat.add_0_r; exact H0|].
    cbn [iter fst snd inplace_step]. destruct (nth_error c m) as [b|] eqn:En.
    - replace (m + S j) with (S m + j) by lia. apply IH; [|lia].
      rewrite upd_same, H0. cbn [option_map]. rewrite (firstn_S_nth _ _ _ En). reflexivity.
    - apply nth_error_None in En. lia. }
  apply (H k 0); [apply upd_same|lia].
Qed.

(* ---------- two atomic writers under every schedule ---------- *)
Definition sinv t1 t2 f c1 c2 (old : option str) (x : sys) : Prop :=
  winv t1 c1 (s1 x) (sfs x) /\ winv t2 c2 (s2 x) (sfs x) /\
  (sfs x f = old \/ sfs x f = Some c1 \/ sfs x f = Some c2).

Lemma atomic_step_frame t f c s fs m : m <> t -> m <> f -> snd (atomic_step t f c s fs) m = fs m.
Proof.
  intros H1 H2. destruct s as [|k|]; cbn [atomic_step snd].
  - apply upd_other. exact H1.
  - destruct (nth_error c k); cbn [snd]; [apply upd_other; exact H1|].
    destruct (fs t); [|reflexivity]. rewrite upd_other by exact H1. apply upd_other. exact H2.
  - reflexivity.
Qed.

Lemma winv_frame t c s fs fs' : fs' t = fs t -> winv t c s fs -> winv t c s fs'.
Proof. intros H. destruct s; cbn; try tauto. rewrite H. tauto. Qed.

Lemma sys_step_inv t1 t2 f c1 c2 old x who : t1 <> f -> t2 <> f -> t1 <> t2 ->
  sinv t1 t2 f c1 c2 old x -> sinv t1 t2 f c1 c2 old (sys_step t1 t2 f c1 c2 x who).
Proof.
  intros H1 H2 H12 (Hw1 & Hw2 & Hf). unfold sys_step. destruct who.
  - destruct (atomic_step t1 f c1 (s1 x) (sfs x)) as [s fs] eqn:E. cbn [s1 s2 sfs]. unfold sinv. cbn [s1 s2 sfs].
    assert (Hfr : fs t2 = sfs x t2) by (rewrite <- (atomic_step_frame t1 f c1 (s1 x) (sfs x) t2) by congruence; rewrite E; reflexivity).
    destruct (s1 x) as [|k|] eqn:Es; cbn [atomic_step] in E.
    + injection E as <- <-. split; [cbn; apply upd_same|]. split; [eapply winv_frame; [|exact Hw2]; exact Hfr|].
      rewrite upd_other by congruence. exact Hf.
    + cbn in Hw1. destruct (nth_error c1 k) as [b|] eqn:En.
      * injection E as <- <-. split; [unfold winv; rewrite upd_same, Hw1; cbn [option_map]; rewrite (firstn_S_nth _ _ _ En); reflexivity|].
        split; [eapply winv_frame; [|exact Hw2]; exact Hfr|]. rewrite upd_other by congruence. exact Hf.
      * rewrite Hw1 in E. injection E as <- <-. split; [exact I|]. split; [eapply winv_frame; [|exact Hw2]; exact Hfr|].
        right. left. rewrite upd_other by congruence. rewrite upd_same. rewrite (firstn_none_all _ _ En). reflexivity.
    + injection E as <- <-. split; [exact I|]. split; [exact Hw2|exact Hf].
  - destruct (atomic_step t2 f c2 (s2 x) (sfs x)) as [s fs] eqn:E. cbn [s1 s2 sfs]. unfold sinv. cbn [s1 s2 sfs].
    assert (Hfr : fs t1 = sfs x t1) by (rewrite <- (atomic_step_frame t2 f c2 (s2 x) (sfs x) t1) by congruence; rewrite E; reflexivity).
    destruct (s2 x) as [|k|] eqn:Es; cbn [atomic_step] in E.
    + injection E as <- <-. split; [eapply winv_frame; [|exact Hw1]; exact Hfr|]. split; [cbn; apply upd_same|].
      rewrite upd_other by congruence. exact Hf.
    + cbn in Hw2. destruct (nth_error c2 k) as [b|] eqn:En.
      * injection E as <- <-. split; [eapply winv_frame; [|exact Hw1]; exact Hfr|].
        split; [unfold winv; rewrite upd_same, Hw2; cbn [option_map]; rewrite (firstn_S_nth _ _ _ En); reflexivity|].
        rewrite upd_other by congruence. exact Hf.
      * rewrite Hw2 in E. injection E as <- <-. split; [eapply winv_frame; [|exact Hw1]; exact Hfr|]. split; [exact I|].
        right. right. rewrite upd_other by congruence. rewrite upd_same. rewrite (firstn_none_all _ _ En). reflexivity.
    + injection E as <- <-. split; [exact Hw1|]. split; [exact I|exact Hf].
Qed.

(* every schedule, stopped anywhere: a reader of the target sees the old entry or one of the
   two complete new entries *)
Theorem two_atomic_writers t1 t2 f c1 c2 fs sched : t1 <> f -> t2 <> f -> t1 <> t2 ->
  let fs' := sfs (sys_run t1 t2 f c1 c2 sched fs) in
  fs' f = fs f \/ fs' f = Some c1 \/ fs' f = Some c2.
Proof.
  intros H1 H2 H12. unfold sys_run.
  assert (H : forall x, sinv t1 t2 f c1 c2 (fs f) x -> sinv t1 t2 f c1 c2 (fs f) (fold_left (sys_step t1 t2 f c1 c2) sched x)).
  { induction sched as [|w sched IH]; intros x Hx; [exact Hx|]. cbn [fold_left]. apply IH. apply sys_step_inv; assumption. }
  destruct (H (mkSys WStart WStart fs)) as (_ & _ & Hf); [|exact Hf].
  split; [exact I|]. split; [exact I|]. left. reflexivity.
Qed.
