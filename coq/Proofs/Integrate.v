(* Proofs/Integrate.v — Messages.Integrate and the filter stage of Value (C02, C06) *)
From Coq Require Import Permutation.
From CV Require Import Base.Str Base.Utf8 Gen.Tables Model.Common Model.Shells Model.ShellValue.
Local Open Scope nat_scope.

(* ---------- the ERR values extend the typed word ---------- *)
Lemma has_prefix_app_l a b : has_prefix (a ++ b) a = true.
Proof. apply has_prefix_app. Qed.

Lemma strip_err_extends w x : has_prefix (strip_err w ++ ERR ++ x) w = true.
Proof.
  unfold strip_err.
  destruct (has_suffix w (B [69;82;82])) eqn:E3.
  { apply has_suffix_spec in E3 as [r ->]. rewrite trim_suffix_app.
    apply has_prefix_spec. exists x. unfold ERR. rewrite <- app_assoc. reflexivity. }
  destruct (has_suffix w (B [69;82])) eqn:E2.
  { apply has_suffix_spec in E2 as [r ->]. rewrite trim_suffix_app.
    apply has_prefix_spec. exists (B [82] ++ x). unfold ERR. rewrite <- !app_assoc. reflexivity. }
  destruct (has_suffix w (B [69])) eqn:E1.
  { apply has_suffix_spec in E1 as [r ->]. rewrite trim_suffix_app.
    apply has_prefix_spec. exists (B [82;82] ++ x). unfold ERR. rewrite <- !app_assoc. reflexivity. }
  apply has_prefix_spec. exists (ERR ++ x). reflexivity.
Qed.

Lemma err_value_extends w i : has_prefix (err_value (strip_err w) i) w = true.
Proof.
  unfold err_value. destruct (i =? 0).
  - rewrite <- (app_nil_r ERR). rewrite app_assoc. rewrite <- app_assoc. apply strip_err_extends.
  - apply strip_err_extends.
Qed.

(* the `_` filler extends the typed word (it is built from the word as typed) *)
Lemma filler_extends w ds drs : has_prefix (value (filler w ds drs)) w = true.
Proof. unfold filler. cbn [value]. apply has_prefix_app. Qed.


(* ---------- the numbering loop ---------- *)
Lemma contains_value_app vs x s :
  contains_value (vs ++ [x]) s = contains_value vs s || str_eqb (value x) s.
Proof.
  unfold contains_value. rewrite existsb_app. simpl. rewrite orb_false_r. reflexivity.
Qed.

Lemma err_pick_spec fuel vs p i v d i' :
  err_pick fuel vs p i = Some (v, d, i') ->
  exists j, i <= j /\ v = err_value p j /\ d = err_display j /\ i' = S j /\ contains_value vs v = false.
Proof.
  revert i; induction fuel as [|f IH]; intro i; simpl; [discriminate|].
  destruct (contains_value vs (err_value p i)) eqn:E.
  - intro H. destruct (IH _ H) as [j [Hj R]]. exists j. split; [lia|exact R].
  - intro H. inversion H; subst. exists i. repeat split; auto.
Qed.

Definition is_err_entry (p es ers : str) (msgs : list str) (a : raw) : Prop :=
  exists j, value a = err_value p j /\ display a = err_display j /\ In (description a) msgs /\
            style a = es /\ rstyle a = ers /\ tag a = [] /\ uid a = [].

Lemma integrate_loop_spec msgs : forall vs p i es ers out,
  integrate_loop msgs vs p i es ers = Some out ->
  exists added,
    out = vs ++ added /\
    map description added = msgs /\
    (forall a, In a added -> is_err_entry p es ers msgs a) /\
    (forall a, In a added -> contains_value vs (value a) = false) /\
    NoDup (map value added).
Proof.
  induction msgs as [|m msgs IH]; intros vs p i es ers out; cbn [integrate_loop].
  - intro H. inversion H; subst. exists []. rewrite app_nil_r. repeat split; auto; try (intros a []). constructor.
  - destruct (err_pick (S (length vs)) vs p i) as [[[v d] i']|] eqn:E; [|discriminate].
    intro H. apply err_pick_spec in E as [j [_ [-> [-> [-> Hnc]]]]].
    destruct (IH _ _ _ _ _ _ H) as [added [-> [Hd [He [Hc Hnd]]]]].
    set (new := mkRaw (err_value p j) (err_display j) m es [] [] ers) in *.
    exists (new :: added). split; [rewrite <- app_assoc; reflexivity|].
    split; [simpl; f_equal; exact Hd|].
    split.
    { intros a [<-|Ha].
      - exists j. cbn. repeat split; auto.
      - destruct (He a Ha) as [k [H1 [H2 [H3 R]]]]. exists k. repeat split; auto; try apply R. right. exact H3. }
    split.
    { intros a [<-|Ha]; [exact Hnc|].
      specialize (Hc a Ha). rewrite contains_value_app in Hc. apply orb_false_iff in Hc. apply Hc. }
    { simpl. constructor; [|exact Hnd].
      intro Hin. apply in_map_iff in Hin as [a [Hv Ha]].
      specialize (Hc a Ha). rewrite contains_value_app in Hc. apply orb_false_iff in Hc as [_ Hc].
      cbn [value new] in Hc. rewrite <- Hv in Hc. rewrite str_eqb_refl in Hc. discriminate. }
Qed.

(* ---------- Integrate ---------- *)
Lemma sort_by_display_perm vs : Permutation (sort_by_display vs) vs.
Proof. apply isort_perm. Qed.

Theorem integrate_spec msgs vs w es ers ds drs vs1 :
  msgs <> [] ->
  integrate_loop msgs vs (strip_err w) 0 es ers = Some vs1 ->
  exists added,
    map description added = msgs /\
    (forall a, In a added -> is_err_entry (strip_err w) es ers msgs a) /\
    (forall a, In a added -> contains_value vs (value a) = false) /\
    NoDup (map value added) /\
    Permutation (integrate msgs vs w es ers ds drs)
                (vs ++ added ++ match vs ++ added with [_] => [filler w ds drs] | _ => [] end).
Proof.
  intros Hm H. destruct (integrate_loop_spec _ _ _ _ _ _ _ H) as [added [-> [Hd [He [Hc Hnd]]]]].
  exists added. repeat split; auto.
  unfold integrate. destruct msgs as [|m ms]; [congruence|]. rewrite H.
  rewrite sort_by_display_perm. rewrite app_assoc.
  destruct (vs ++ added) as [|x [|y l]]; rewrite ?app_nil_r; reflexivity.
Qed.

Lemma integrate_at_least_two msgs vs w es ers ds drs vs1 :
  msgs <> [] ->
  integrate_loop msgs vs (strip_err w) 0 es ers = Some vs1 ->
  2 <= length (integrate msgs vs w es ers ds drs).
Proof.
  intros Hm H. destruct (integrate_spec _ _ _ _ _ ds drs _ Hm H) as [added [Hd [_ [_ [_ Hp]]]]].
  rewrite (Permutation_length Hp).
  assert (Hl : 1 <= length added).
  { rewrite <- (map_length description), Hd. destruct msgs; [congruence|simpl; lia]. }
  rewrite !app_length.
  destruct (vs ++ added) as [|x [|y l]] eqn:E.
  - apply (f_equal (@length raw)) in E. rewrite app_length in E. simpl in E. lia.
  - simpl. apply (f_equal (@length raw)) in E. rewrite app_length in E. simpl in E. lia.
  - apply (f_equal (@length raw)) in E. rewrite app_length in E. simpl in E. simpl. lia.
Qed.

Lemma integrate_no_messages vs w es ers ds drs : integrate [] vs w es ers ds drs = vs.
Proof. reflexivity. Qed.

(* every error entry extends the typed word *)
Lemma err_entry_extends w es ers msgs a :
  is_err_entry (strip_err w) es ers msgs a -> has_prefix (value a) w = true.
Proof. intros [j [-> _]]. apply err_value_extends. Qed.

(* ---------- the filter stage (C02) ---------- *)
Lemma decolor_In r vs : In r (decolor vs) ->
  exists r0, In r0 vs /\ value r = value r0 /\ display r = display r0 /\ description r = description r0 /\
             tag r = tag r0 /\ uid r = uid r0.
Proof.
  unfold decolor. rewrite in_map_iff. intros [r0 [<- H]]. exists r0. cbn. repeat split; auto.
Qed.

Theorem filter_sound e w vs r :
  unfiltered e = false -> In r (stage_filter e w vs) -> match_has_prefix (ci e) (value r) w = true.
Proof.
  unfold stage_filter. intros -> H. unfold filter_prefix in H. apply filter_In in H. apply H.
Qed.

Theorem filter_complete e w vs r :
  nocolor e = false -> In r vs -> match_has_prefix (ci e) (value r) w = true -> In r (stage_filter e w vs).
Proof.
  unfold stage_filter. intros -> Hin Hm. destruct (unfiltered e); [exact Hin|].
  unfold filter_prefix. apply filter_In. split; assumption.
Qed.

Theorem filter_complete_nocolor e w vs r :
  nocolor e = true -> In r vs -> match_has_prefix (ci e) (value r) w = true ->
  In (mkRaw (value r) (display r) (description r) [] (tag r) (uid r) (rstyle r)) (stage_filter e w vs).
Proof.
  unfold stage_filter. intros -> Hin Hm.
  assert (Hd : In (mkRaw (value r) (display r) (description r) [] (tag r) (uid r) (rstyle r)) (decolor vs)).
  { unfold decolor. apply in_map_iff. exists r. split; [reflexivity|exact Hin]. }
  destruct (unfiltered e); [exact Hd|]. unfold filter_prefix. apply filter_In. split; [exact Hd|exact Hm].
Qed.

Theorem filter_nothing_added e w vs r :
  In r (stage_filter e w vs) ->
  exists r0, In r0 vs /\ value r = value r0 /\ display r = display r0 /\ description r = description r0 /\ tag r = tag r0.
Proof.
  unfold stage_filter. intro H.
  assert (H' : In r (if nocolor e then decolor vs else vs)).
  { destruct (unfiltered e); [exact H|]. unfold filter_prefix in H. apply filter_In in H. apply H. }
  destruct (nocolor e).
  - destruct (decolor_In _ _ H') as [r0 [H0 [H1 [H2 [H3 [H4 _]]]]]]. exists r0. auto.
  - exists r. auto.
Qed.

Theorem passthrough e w vs :
  unfiltered e = true -> nocolor e = false -> stage_filter e w vs = vs.
Proof. unfold stage_filter. intros -> ->. reflexivity. Qed.

(* channel formats are not integrated: the candidate list of export/elvish/zsh is the filtered list *)
Lemma channel_no_integrate e shell w m vs :
  has_channel shell = true -> stage_integrate e shell w m vs = vs.
Proof. unfold stage_integrate. intros ->. reflexivity. Qed.

Lemma has_channel_export : has_channel s_export = true.
Proof. vm_compute. reflexivity. Qed.
Lemma has_channel_elvish : has_channel s_elvish = true.
Proof. vm_compute. reflexivity. Qed.
Lemma has_channel_zsh : has_channel s_zsh = true.
Proof. vm_compute. reflexivity. Qed.
Lemma no_channel_others :
  forallb (fun s => negb (has_channel s))
          [s_bash; s_bash_ble; s_cmd_clink; s_fish; s_ion; s_nushell; s_oil; s_powershell; s_tcsh; s_xonsh] = true.
Proof. vm_compute. reflexivity. Qed.

(* the message channels carry every message *)
Lemma elvish_channel e m vs :
  exists pre post, elvish_format e m vs = pre ++ Json.json_array (map Json.json_string (messages m)) ++ post.
Proof.
  unfold elvish_format.
  set (m1 := Some (Json.member (B [85;115;97;103;101]) _)).
  set (m3 := Some (Json.member (B [68;101;115;99;114;105;112;116;105;111;110;83;116;121;108;101]) _)).
  set (m4 := Some (Json.member (B [67;97;110;100;105;100;97;116;101;115]) _)).
  set (arr := Json.json_array (map Json.json_string (messages m))).
  destruct m1 as [x1|] eqn:E1; [|discriminate]. destruct m3 as [x3|] eqn:E3; [|discriminate].
  destruct m4 as [x4|] eqn:E4; [|discriminate].
  exists (B [123] ++ x1 ++ B [44] ++ Json.json_string (B [77;101;115;115;97;103;101;115]) ++ B [58]),
         (B [44] ++ x3 ++ B [44] ++ x4 ++ B [125]).
  unfold Json.json_object. cbn [Json.somes Str.join]. unfold Json.member.
  rewrite <- !app_assoc. reflexivity.
Qed.
