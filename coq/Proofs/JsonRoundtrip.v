(* Proofs/JsonRoundtrip.v — reading back what the encoder prints: for every document tree
   built from strings, arrays and objects, parse (print j) = the tree with every string
   sanitised (invalid UTF-8 -> U+FFFD, exactly what Go's encoder does to it).  For the export
   document this is the byte-level statement behind C13 and the premise of C14. *)
From Coq Require Import Lia.
From CV Require Import Base.Str Base.Utf8 Base.Json Model.JsonParse Proofs.Utf8 Proofs.JsonString.
Local Open Scope nat_scope.

Definition comma : str := B [44].
Fixpoint jprint (j : jval) : str :=
  match j with
  | JStr s => json_string s
  | JArr l => json_array (map jprint l)
  | JObj ms => json_object (map (fun kv => let '(k, v) := kv in Some (member k (jprint v))) ms)
  | JNull => lit_null
  | JBool true => lit_true
  | JBool false => lit_false
  | JNum s => s
  end.
Fixpoint jsan (j : jval) : jval :=
  match j with
  | JStr s => JStr (sanitize s)
  | JArr l => JArr (map jsan l)
  | JObj ms => JObj (map (fun kv => let '(k, v) := kv in (sanitize k, jsan v)) ms)
  | other => other
  end.
Inductive strs_only : jval -> Prop :=
| SoStr s : strs_only (JStr s)
| SoArr l : Forall strs_only l -> strs_only (JArr l)
| SoObj ms : Forall (fun kv => strs_only (snd kv)) ms -> strs_only (JObj ms).

(* induction over trees with their nested lists *)
Section JvalInd.
  Variable P : jval -> Prop.
  Hypothesis HStr : forall s, P (JStr s).
  Hypothesis HArr : forall l, Forall strs_only l -> Forall P l -> P (JArr l).
  Hypothesis HObj : forall ms, Forall (fun kv => strs_only (snd kv)) ms -> Forall (fun kv => P (snd kv)) ms -> P (JObj ms).
  Fixpoint strs_only_ind' (j : jval) (H : strs_only j) {struct H} : P j :=
    match H in strs_only j0 return P j0 with
    | SoStr s => HStr s
    | SoArr l Hl => HArr l Hl
        ((fix go (l : list jval) (Hl : Forall strs_only l) {struct Hl} : Forall P l :=
            match Hl in Forall _ l0 return Forall P l0 with
            | Forall_nil _ => Forall_nil _
            | Forall_cons x Hx Hr => Forall_cons x (strs_only_ind' x Hx) (go _ Hr)
            end) l Hl)
    | SoObj ms Hm => HObj ms Hm
        ((fix go (ms : list (str * jval)) (Hm : Forall (fun kv => strs_only (snd kv)) ms) {struct Hm}
              : Forall (fun kv => P (snd kv)) ms :=
            match Hm in Forall _ l0 return Forall (fun kv => P (snd kv)) l0 with
            | Forall_nil _ => Forall_nil _
            | Forall_cons x Hx Hr => Forall_cons x (strs_only_ind' (snd x) Hx) (go _ Hr)
            end) ms Hm)
    end.
End JvalInd.

(* ---------- one-step equations of the parser on the delimiters the printer uses ---------- *)
Definition lbr : ascii := byte 91.
Definition rbr : ascii := byte 93.
Definition lbc : ascii := byte 123.
Definition rbc : ascii := byte 125.
Definition com : ascii := byte 44.
Definition col : ascii := byte 58.

Lemma pvalue_str f body : pvalue (S f) (dq :: body) =
  match pstring (S f) body [] with Some (x, r') => Some (JStr x, r') | None => None end.
Proof. reflexivity. Qed.
Lemma pvalue_arr f r : pvalue (S f) (lbr :: r) =
  match skip_ws r with
  | d :: r' => if nb d =? 93 then Some (JArr [], r')
               else match pelems f r [] with Some (vs, r2) => Some (JArr vs, r2) | None => None end
  | [] => None
  end.
Proof. reflexivity. Qed.
Lemma pvalue_obj f r : pvalue (S f) (lbc :: r) =
  match skip_ws r with
  | d :: r' => if nb d =? 125 then Some (JObj [], r')
               else match pmembers f r [] with Some (ms, r2) => Some (JObj ms, r2) | None => None end
  | [] => None
  end.
Proof. reflexivity. Qed.
Lemma pelems_eq f s acc : pelems (S f) s acc =
  match pvalue f s with
  | Some (v, r) =>
    match skip_ws r with
    | c :: r' => if nb c =? 44 then pelems f r' (v :: acc)
                 else if nb c =? 93 then Some (rev (v :: acc), r')
                 else None
    | [] => None
    end
  | None => None
  end.
Proof. reflexivity. Qed.
Lemma pmembers_str f body acc : pmembers (S f) (dq :: body) acc =
  match pstring (S f) body [] with
  | Some (key, r1) =>
    match skip_ws r1 with
    | c :: r2 =>
      if nb c =? 58 then
        match pvalue f r2 with
        | Some (v, r3) =>
          match skip_ws r3 with
          | d :: r4 => if nb d =? 44 then pmembers f r4 ((key, v) :: acc)
                       else if nb d =? 125 then Some (rev ((key, v) :: acc), r4)
                       else None
          | [] => None
          end
        | None => None
        end
      else None
    | [] => None
    end
  | None => None
  end.
Proof. reflexivity. Qed.

(* the first byte of a printed tree is a quote, a bracket or a brace: never white space, never a closing delimiter *)
Definition opener (c : ascii) : Prop := c = dq \/ c = lbr \/ c = lbc.
Lemma jprint_head j : strs_only j -> exists c t, jprint j = c :: t /\ opener c.
Proof.
  intro H. destruct H.
  - exists dq. eexists. split; [reflexivity|left; reflexivity].
  - exists lbr. eexists. split; [reflexivity|right; left; reflexivity].
  - exists lbc. eexists. split; [reflexivity|right; right; reflexivity].
Qed.
Lemma opener_skip c t : opener c -> skip_ws (c :: t) = c :: t.
Proof. intros [H|[H|H]]; rewrite H; reflexivity. Qed.
Lemma opener_not_rbr c : opener c -> nb c =? 93 = false.
Proof. intros [H|[H|H]]; rewrite H; reflexivity. Qed.
Lemma opener_not_rbc c : opener c -> nb c =? 125 = false.
Proof. intros [H|[H|H]]; rewrite H; reflexivity. Qed.

Lemma jprint_len j : strs_only j -> 2 <= length (jprint j).
Proof.
  intro H. destruct H.
  - cbn [jprint]. pose proof (json_string_length s). lia.
  - cbn [jprint]. unfold json_array. rewrite !app_length. cbn. lia.
  - cbn [jprint]. unfold json_object. rewrite !app_length. cbn. lia.
Qed.

Lemma somes_map_Some {A B} (g : A -> B) l : somes (map (fun x => Some (g x)) l) = map g l.
Proof. induction l as [|x l IH]; [reflexivity|]. cbn. rewrite IH. reflexivity. Qed.

Lemma join_cons2 sep x y (l : list str) : join sep (x :: y :: l) = x ++ sep ++ join sep (y :: l).
Proof. reflexivity. Qed.

Lemma skip_ws_nows c t : is_ws c = false -> skip_ws (c :: t) = c :: t.
Proof. intro H. cbn [skip_ws]. rewrite H. reflexivity. Qed.

Definition PV (j : jval) : Prop := forall fuel rest, 2 * length (jprint j) + 1 <= fuel ->
  pvalue fuel (jprint j ++ rest) = Some (jsan j, rest).

Lemma elems_ok l : Forall strs_only l -> Forall PV l -> l <> [] ->
  forall fuel acc rest, 2 * length (join comma (map jprint l)) + 2 <= fuel ->
  pelems fuel (join comma (map jprint l) ++ rbr :: rest) acc = Some (rev acc ++ map jsan l, rest).
Proof.
  intros Hs Hp. induction Hp as [|e l He Hl IH]; intros Hne fuel acc rest Hf; [contradiction|].
  inversion Hs as [|? ? Hse Hsl]; subst.
  destruct fuel as [|f]; [lia|]. rewrite pelems_eq.
  destruct l as [|y l'].
  - cbn [map join] in *. rewrite (He f (rbr :: rest)) by lia.
    rewrite (skip_ws_nows rbr) by reflexivity. change (nb rbr =? 44) with false. change (nb rbr =? 93) with true.
    cbn [rev map]. reflexivity.
  - cbn [map] in *. rewrite join_cons2 in *. rewrite !app_length in Hf. cbn [length comma B map] in Hf.
    rewrite <- !app_assoc. cbn [comma B map app]. change (ascii_of_nat 44) with com.
    rewrite (He f (com :: join [com] (jprint y :: map jprint l') ++ rbr :: rest)) by lia.
    rewrite (skip_ws_nows com) by reflexivity.
    change (nb com =? 44) with true. cbv iota. change [com] with comma.
    rewrite (IH Hsl ltac:(discriminate) f (jsan e :: acc) rest).
    + cbn [rev map]. rewrite <- app_assoc. reflexivity.
    + change [ascii_of_nat 44] with comma in Hf. lia.
Qed.

Definition pmem (kv : str * jval) : str := member (fst kv) (jprint (snd kv)).
Definition sanm (kv : str * jval) : str * jval := (sanitize (fst kv), jsan (snd kv)).

Lemma pmem_shape k v : pmem (k, v) = dq :: flat_map json_chunk (chunks k) ++ dq :: col :: jprint v.
Proof. unfold pmem, member, json_string. cbn [fst snd app]. rewrite <- app_assoc. reflexivity. Qed.

Lemma pmem_len k v : length (chunks k) + 3 + length (jprint v) <= length (pmem (k, v)).
Proof.
  unfold pmem, member. cbn [fst snd]. rewrite !app_length. pose proof (json_string_length k). change (length (B [58])) with 1. lia.
Qed.

Lemma members_ok ms : Forall (fun kv => strs_only (snd kv)) ms -> Forall (fun kv => PV (snd kv)) ms -> ms <> [] ->
  forall fuel acc rest, 2 * length (join comma (map pmem ms)) + 2 <= fuel ->
  pmembers fuel (join comma (map pmem ms) ++ rbc :: rest) acc = Some (rev acc ++ map sanm ms, rest).
Proof.
  intros Hs Hp. induction Hp as [|[k v] l He Hl IH]; intros Hne fuel acc rest Hf; [contradiction|].
  inversion Hs as [|? ? Hse Hsl]; subst. cbn [snd] in He, Hse.
  destruct fuel as [|f]; [lia|].
  destruct l as [|y l'].
  - cbn [map join] in *. pose proof (pmem_len k v) as Hlen. rewrite pmem_shape in *. cbn [app]. rewrite <- app_assoc. cbn [app].
    rewrite pmembers_str. rewrite pstring_json_string by lia.
    rewrite (skip_ws_nows col) by reflexivity.
    change (nb col =? 58) with true. cbv iota.
    rewrite (He f (rbc :: rest)) by lia.
    rewrite (skip_ws_nows rbc) by reflexivity. change (nb rbc =? 44) with false. change (nb rbc =? 125) with true.
    cbn [rev map]. reflexivity.
  - cbn [map] in *. rewrite join_cons2 in *. rewrite !app_length in Hf. cbn [length comma B map] in Hf.
    pose proof (pmem_len k v) as Hlen. rewrite pmem_shape in *.
    rewrite <- !app_assoc. cbn [comma B map app]. change (ascii_of_nat 44) with com. rewrite <- !app_assoc. cbn [app].
    rewrite pmembers_str. rewrite pstring_json_string by lia.
    rewrite (skip_ws_nows col) by reflexivity.
    change (nb col =? 58) with true. cbv iota.
    rewrite (He f (com :: join [com] (pmem y :: map pmem l') ++ rbc :: rest)) by lia.
    rewrite (skip_ws_nows com) by reflexivity.
    change (nb com =? 44) with true. cbv iota. change [com] with comma.
    rewrite (IH Hsl ltac:(discriminate) f ((sanitize k, jsan v) :: acc) rest).
    + cbn [rev map]. rewrite <- app_assoc. reflexivity.
    + change [ascii_of_nat 44] with comma in Hf. lia.
Qed.

Lemma somes_members ms :
  somes (map (fun kv : str * jval => let '(k, v) := kv in Some (member k (jprint v))) ms) = map pmem ms.
Proof. induction ms as [|[k v] ms IH]; [reflexivity|]. cbn [map somes]. rewrite IH. reflexivity. Qed.

Theorem pvalue_jprint j : strs_only j -> PV j.
Proof.
  intro H. induction H as [s|l Hs IH|ms Hs IH] using strs_only_ind'; intros fuel rest Hf.
  - (* a string *)
    cbn [jprint jsan] in *. pose proof (json_string_length s) as Hl. unfold json_string in *. cbn [app]. rewrite <- app_assoc. cbn [app].
    destruct fuel as [|f]; [lia|]. rewrite pvalue_str, pstring_json_string by (cbn [length] in *; lia). reflexivity.
  - (* an array *)
    cbn [jprint jsan] in *. unfold json_array in *. rewrite !app_length in Hf. cbn [length B map] in Hf.
    cbn [B map app]. change (ascii_of_nat 91) with lbr. rewrite <- !app_assoc. cbn [app]. change (ascii_of_nat 93) with rbr.
    destruct fuel as [|f]; [lia|]. rewrite pvalue_arr.
    destruct l as [|e l'].
    + cbn [map join app]. rewrite (skip_ws_nows rbr) by reflexivity. reflexivity.
    + assert (Hne : e :: l' <> []) by discriminate.
      inversion Hs as [|? ? Hse _]; subst. destruct (jprint_head e Hse) as (c & t & Ec & Hc).
      assert (Ej : exists t', join (B [44]) (map jprint (e :: l')) = c :: t').
      { destruct l' as [|y l'']; cbn [map]; [cbn [join]; eexists; exact Ec|]. rewrite join_cons2, Ec. cbn [app]. eexists. reflexivity. }
      destruct Ej as [t' Ej]. rewrite Ej at 1. cbn [app]. rewrite (opener_skip c _ Hc), (opener_not_rbr c Hc).
      change (B [44]) with comma in *. change [ascii_of_nat 44] with comma.
      rewrite (elems_ok (e :: l') Hs IH Hne f [] rest); [reflexivity|]. change [ascii_of_nat 44] with comma in Hf. lia.
  - (* an object *)
    cbn [jprint jsan] in *. unfold json_object in *. rewrite somes_members in *.
    assert (Es : map (fun kv : str * jval => let '(k, v) := kv in (sanitize k, jsan v)) ms = map sanm ms).
    { apply map_ext. intros [k v]. reflexivity. }
    rewrite Es. rewrite !app_length in Hf. cbn [length B map] in Hf.
    cbn [B map app]. change (ascii_of_nat 123) with lbc. rewrite <- !app_assoc. cbn [app]. change (ascii_of_nat 125) with rbc.
    destruct fuel as [|f]; [lia|]. rewrite pvalue_obj.
    destruct ms as [|[k v] ms'].
    + cbn [map join app]. rewrite (skip_ws_nows rbc) by reflexivity. reflexivity.
    + assert (Hne : (k, v) :: ms' <> []) by discriminate.
      assert (Ej : exists t', join (B [44]) (map pmem ((k, v) :: ms')) = dq :: t').
      { destruct ms' as [|y l'']; cbn [map]; [cbn [join]; rewrite pmem_shape; eexists; reflexivity|].
        rewrite join_cons2, pmem_shape. cbn [app]. eexists. reflexivity. }
      destruct Ej as [t' Ej]. rewrite Ej at 1. cbn [app].
      rewrite (skip_ws_nows dq) by reflexivity. change (nb dq =? 125) with false. cbv iota.
      change (B [44]) with comma in *. change [ascii_of_nat 44] with comma.
      rewrite (members_ok ((k, v) :: ms') Hs IH Hne f [] rest); [reflexivity|]. change [ascii_of_nat 44] with comma in Hf. lia.
Qed.

(* a whole document *)
Theorem jparse_jprint j : strs_only j -> jparse (jprint j) = Some (jsan j).
Proof.
  intro H. unfold jparse. rewrite <- (app_nil_r (jprint j)) at 2.
  rewrite (pvalue_jprint j H) by lia. reflexivity.
Qed.
