(* Proofs/JsonShells.v — C04 for the formats that are JSON documents (elvish, ion, nushell, powershell,
   xonsh): a JSON reader (Model/JsonParse.v, the reader of C13) applied to the emitted bytes yields ONE
   record per candidate, in order, each with exactly the fields that were put in (strings only changed
   by the encoder's own UTF-8 sanitising).  Rests on Proofs/JsonRoundtrip.v (parse . print on trees). *)
From Coq Require Import Lia.
From CV Require Import Base.Str Base.Utf8 Base.Json Gen.Tables Model.Common Model.Shells Model.JsonParse.
From CV Require Import Proofs.Utf8 Proofs.JsonString Proofs.JsonRoundtrip.
Local Open Scope nat_scope.

(* an object of string members *)
Definition sobj (ms : list (str * str)) : jval := JObj (map (fun kv => (fst kv, JStr (snd kv))) ms).
Lemma sobj_strs_only ms : strs_only (sobj ms).
Proof. constructor. apply Forall_forall. intros [k v] H. apply in_map_iff in H as ([k' s] & E & _). inversion E; subst. constructor. Qed.

Lemma jprint_sobj ms : jprint (sobj ms) = json_object (map (fun kv => Some (member (fst kv) (json_string (snd kv)))) ms).
Proof. unfold sobj. cbn [jprint]. rewrite map_map. f_equal. Qed.

(* an array of records *)
Theorem jparse_records {A} (f : A -> jval) (vs : list A) : (forall v, strs_only (f v)) ->
  jparse (json_array (map (fun v => jprint (f v)) vs)) = Some (JArr (map (fun v => jsan (f v)) vs)).
Proof.
  intro H. rewrite <- (map_map f jprint). change (json_array (map jprint (map f vs))) with (jprint (JArr (map f vs))).
  rewrite jparse_jprint.
  - cbn [jsan]. rewrite map_map. reflexivity.
  - constructor. apply Forall_forall. intros j Hj. apply in_map_iff in Hj as (v & <- & _). apply H.
Qed.

(* ---------- xonsh ---------- *)
Definition xonsh_record (m : meta) (v : raw) : jval :=
  let q := xonsh_quote (value v) in
  let q' := if sm_matches (nospace m) (replace1 xonsh_sanitizer (value v)) then q else q ++ B [32] in
  sobj [(B [86;97;108;117;101], q');
        (B [68;105;115;112;108;97;121], replace1 xonsh_sanitizer (display v));
        (B [68;101;115;99;114;105;112;116;105;111;110], trimmed_description (description v));
        (B [83;116;121;108;101], rstyle v)].
Theorem xonsh_records m vs : jparse (xonsh_format m vs) = Some (JArr (map (fun v => jsan (xonsh_record m v)) vs)).
Proof. apply (jparse_records (xonsh_record m) vs). intro v. apply sobj_strs_only. Qed.

(* ---------- ion ---------- *)
Definition ion_record (m : meta) (v : raw) : jval :=
  let val := replace1 ion_sanitizer (value v) in
  let dis := replace1 ion_sanitizer (display v) in
  let des := replace1 ion_sanitizer (description v) in
  let val' := if sm_matches (nospace m) val then val else val ++ B [32] in
  let dis' := match des with [] => dis | _ => dis ++ B [32;40] ++ trimmed_description des ++ B [41] end in
  sobj [(B [86;97;108;117;101], val'); (B [68;105;115;112;108;97;121], dis')].
Theorem ion_records m vs : jparse (ion_format m vs) = Some (JArr (map (fun v => jsan (ion_record m v)) vs)).
Proof. apply (jparse_records (ion_record m) vs). intro v. apply sobj_strs_only. Qed.

(* ---------- powershell: candidates with an empty value are skipped by the formatter ---------- *)
Definition ps_kept (vs : list raw) : list raw := filter (fun v => match value v with [] => false | _ => true end) vs.
Definition powershell_record (e : fenv) (m : meta) (v : raw) : jval :=
  let val := replace1 powershell_sanitizer (value v) in
  let ns := sm_matches (nospace m) val in
  let q := powershell_quote val in
  let q' := if ns then q else q ++ B [32] in
  let has_desc := match description v with [] => false | _ => true end in
  let td := replace1 powershell_sanitizer (trimmed_description (description v)) in
  let use_tip := tooltip e && has_desc in
  let tip := if use_tip then ps_e (g1 e) ++ ps_e (g2 e) ++ td ++ ps_reset else B [32] in
  let item0 := B [96;101;91;50;49;59;50;50;59;50;51;59;50;52;59;50;53;59;50;57;109] ++ ps_e (rstyle v)
               ++ replace1 powershell_sanitizer (display v) ++ ps_reset in
  let item1 := if has_desc && negb use_tip
               then item0 ++ ps_e (g1 e) ++ B [32] ++ ps_e (g2 e) ++ B [40] ++ td ++ B [41] ++ ps_reset
               else item0 in
  let item := item1 ++ B [96;101;91;48;109] in
  sobj [(B [67;111;109;112;108;101;116;105;111;110;84;101;120;116], q');
        (B [76;105;115;116;73;116;101;109;84;101;120;116], item);
        (B [84;111;111;108;84;105;112], tip)].
Lemma powershell_format_kept e m vs :
  powershell_format e m vs = json_array (map (fun v => jprint (powershell_record e m v)) (ps_kept vs)).
Proof.
  unfold powershell_format. f_equal. induction vs as [|v vs IH]; [reflexivity|].
  cbn [flat_map ps_kept filter]. fold (ps_kept vs). destruct (value v) eqn:E.
  - cbn [app]. exact IH.
  - cbn [map app]. f_equal; [|exact IH]. unfold powershell_record. rewrite E. reflexivity.
Qed.
Theorem powershell_records e m vs :
  jparse (powershell_format e m vs) = Some (JArr (map (fun v => jsan (powershell_record e m v)) (ps_kept vs))).
Proof. rewrite powershell_format_kept. apply (jparse_records (powershell_record e m)). intro v. apply sobj_strs_only. Qed.

(* ---------- elvish: one document with the messages and the candidates ---------- *)
Definition elvish_record (m : meta) (v : raw) : jval :=
  let val := replace1 elvish_sanitizer (value v) in
  let dis := replace1 elvish_sanitizer (display v) in
  let des := replace1 elvish_sanitizer (trimmed_description (description v)) in
  let suffix := if sm_matches (nospace m) val then [] else B [32] in
  sobj [(B [86;97;108;117;101], val); (B [68;105;115;112;108;97;121], dis);
        (B [68;101;115;99;114;105;112;116;105;111;110], des);
        (B [67;111;100;101;83;117;102;102;105;120], suffix); (B [83;116;121;108;101], rstyle v)].
Definition elvish_tree (e : fenv) (m : meta) (vs : list raw) : jval :=
  let usage' := match vs with [] => usage m | _ => [] end in
  JObj [(B [85;115;97;103;101], JStr usage');
        (B [77;101;115;115;97;103;101;115], JArr (map JStr (messages m)));
        (B [68;101;115;99;114;105;112;116;105;111;110;83;116;121;108;101], JStr (g1 e));
        (B [67;97;110;100;105;100;97;116;101;115], JArr (map (elvish_record m) vs))].
Lemma elvish_format_tree e m vs : elvish_format e m vs = jprint (elvish_tree e m vs).
Proof.
  unfold elvish_format, elvish_tree. cbn [jprint map]. rewrite !map_map. reflexivity.
Qed.
Lemma elvish_tree_strs_only e m vs : strs_only (elvish_tree e m vs).
Proof.
  constructor. repeat (apply Forall_cons; [cbn [snd]|]); try apply Forall_nil; try constructor.
  - apply Forall_forall. intros j Hj. apply in_map_iff in Hj as (s & <- & _). constructor.
  - apply Forall_forall. intros j Hj. apply in_map_iff in Hj as (v & <- & _). apply sobj_strs_only.
Qed.
Theorem elvish_document e m vs : jparse (elvish_format e m vs) = Some (jsan (elvish_tree e m vs)).
Proof. rewrite elvish_format_tree. apply jparse_jprint. apply elvish_tree_strs_only. Qed.
(* ... whose Candidates member has one record per candidate, in order *)
Theorem elvish_records e m vs : exists usage msgs style,
  jparse (elvish_format e m vs) =
  Some (JObj [(B [85;115;97;103;101], usage); (B [77;101;115;115;97;103;101;115], msgs);
              (B [68;101;115;99;114;105;112;116;105;111;110;83;116;121;108;101], style);
              (B [67;97;110;100;105;100;97;116;101;115], JArr (map (fun v => jsan (elvish_record m v)) vs))]).
Proof.
  rewrite elvish_document. unfold elvish_tree. cbn [jsan map]. rewrite (map_map (elvish_record m) jsan).
  eexists _, _, _.
  repeat match goal with |- context [sanitize (B ?l)] =>
    let x := eval vm_compute in (sanitize (B l)) in change (sanitize (B l)) with x end.
  reflexivity.
Qed.

(* ---------- nushell (candidates without a style: the style member is spliced in as pre-rendered JSON) ---------- *)
Definition nushell_record (m : meta) (v : raw) : jval :=
  let val := replace1 nushell_sanitizer (value v) in
  let dis := replace1 nushell_sanitizer (display v) in
  let des := replace1 nushell_sanitizer (description v) in
  let q := nushell_quote val in
  let q' := if sm_matches (nospace m) val then q else q ++ B [32] in
  sobj ([(B [118;97;108;117;101], q'); (B [100;105;115;112;108;97;121], dis)] ++
        match trimmed_description des with [] => [] | d => [(B [100;101;115;99;114;105;112;116;105;111;110], d)] end).
Lemma nushell_format_records m vs : Forall (fun v => rstyle v = []) vs ->
  nushell_format m vs = json_array (map (fun v => jprint (nushell_record m v)) vs).
Proof.
  intro H. unfold nushell_format. f_equal. apply map_ext_in. intros v Hv. rewrite Forall_forall in H. rewrite (H v Hv).
  unfold nushell_record. rewrite jprint_sobj. unfold json_object. f_equal. f_equal. f_equal.
  unfold omitempty. destruct (trimmed_description (replace1 nushell_sanitizer (description v))); reflexivity.
Qed.
Theorem nushell_records m vs : Forall (fun v => rstyle v = []) vs ->
  jparse (nushell_format m vs) = Some (JArr (map (fun v => jsan (nushell_record m v)) vs)).
Proof. intro H. rewrite (nushell_format_records m vs H). apply (jparse_records (nushell_record m)). intro v. apply sobj_strs_only. Qed.

(* keys and record shape survive the sanitising: non-vacuity on a value with a blank, a quote and invalid UTF-8 *)
Example xonsh_records_example :
  jparse (xonsh_format (mkMeta [] [] []) [mkRaw (B [97;32;39;255]) (B [97;32;39;255]) [] [] [] [] []]) =
  Some (JArr [JObj [(B [86;97;108;117;101], JStr (B [39;97;32;92;39;239;191;189;39;32]));
                    (B [68;105;115;112;108;97;121], JStr (B [97;32;39;239;191;189]));
                    (B [68;101;115;99;114;105;112;116;105;111;110], JStr []);
                    (B [83;116;121;108;101], JStr [])]]).
Proof. vm_compute. reflexivity. Qed.
