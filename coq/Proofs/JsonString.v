(* Proofs/JsonRoundtrip, part 1 — the string reader applied to what the string encoder prints. *)
From Coq Require Import ZArith Lia ZifyN ZifyBool.
From CV Require Import Base.Str Base.Utf8 Base.Json Model.JsonParse Proofs.Utf8.
Local Open Scope nat_scope.

(* what survives: invalid bytes become U+FFFD (as in Go's encoder); valid UTF-8 is unchanged *)
Definition sane_chunk (rb : N * str) : str :=
  match snd rb with
  | [c] => if (bv c <? 128)%N then [c] else encode_rune RuneError
  | bs => bs
  end.
Definition sanitize (s : str) : str := flat_map sane_chunk (chunks s).

(* one single-byte chunk: 256 cases, each by computation *)
Lemma pstring_step_single c : forall r f tail acc,
  pstring (S f) (json_chunk (r, [c]) ++ tail) acc = pstring f tail (acc ++ sane_chunk (r, [c])).
Proof.
  destruct c as [[] [] [] [] [] [] [] []]; intros r f tail acc; reflexivity.
Qed.

Lemma nb_bv c : nb c = N.to_nat (bv c).
Proof. reflexivity. Qed.

(* a multi-byte chunk *)
Lemma pstring_step_multi s0 r bs rest0 : decode1 s0 = Some (r, bs, rest0) -> 2 <= length bs ->
  forall f tail acc, pstring (S f) (json_chunk (r, bs) ++ tail) acc = pstring f tail (acc ++ bs).
Proof.
  intros Hd Hl f tail acc.
  pose proof (decode_encode _ _ _ _ Hd Hl) as Henc. pose proof (decode1_local _ _ _ _ Hd Hl tail) as Hloc.
  assert (Hjc : json_chunk (r, bs) = if (r =? 8232)%N then B [92;117;50;48;50;56] else if (r =? 8233)%N then B [92;117;50;48;50;57] else bs).
  { unfold json_chunk. destruct bs as [|a [|b l]]; cbn [length] in Hl; try lia. reflexivity. }
  rewrite Hjc. destruct (r =? 8232)%N eqn:E1.
  { apply N.eqb_eq in E1. subst r. rewrite <- Henc. reflexivity. }
  destruct (r =? 8233)%N eqn:E2.
  { apply N.eqb_eq in E2. subst r. rewrite <- Henc. reflexivity. }
  apply decode1_shape in Hd.
  destruct Hd as [c rest Hc|c rest Hc|c0 c1 rest H0 H1|c0 c1 c2 rest H0 H1 H2|c0 c1 c2 c3 rest H0 H1 H2 H3]; cbn [length] in Hl; try lia;
    cbn [app pstring]; rewrite (nb_bv c0);
    (assert (Ea : N.to_nat (bv c0) =? 34 = false) by (apply Nat.eqb_neq; lia));
    (assert (Eb : N.to_nat (bv c0) <? 32 = false) by (apply Nat.ltb_ge; lia));
    (assert (Ec : N.to_nat (bv c0) =? 92 = false) by (apply Nat.eqb_neq; lia));
    rewrite Ea, Eb, Ec; cbn [app] in Hloc; rewrite Hloc; reflexivity.
Qed.

(* every chunk of a string comes from a decoding step *)
Definition from_decode (rb : N * str) : Prop := exists s0 rest0, decode1 s0 = Some (fst rb, snd rb, rest0).
Lemma chunks_fuel_from_decode fuel : forall s, Forall from_decode (chunks_fuel fuel s).
Proof.
  induction fuel as [|f IH]; intro s; cbn [chunks_fuel]; [constructor|].
  destruct (decode1 s) as [[[r bs] rest]|] eqn:E; [|constructor].
  constructor; [exists s, rest; exact E|apply IH].
Qed.
Lemma chunks_from_decode s : Forall from_decode (chunks s).
Proof. apply chunks_fuel_from_decode. Qed.

Lemma pstring_step rb : from_decode rb -> forall f tail acc,
  pstring (S f) (json_chunk rb ++ tail) acc = pstring f tail (acc ++ sane_chunk rb).
Proof.
  destruct rb as [r bs]. intros (s0 & rest0 & Hd) f tail acc. cbn [fst snd] in Hd.
  destruct bs as [|a [|b l]].
  - apply decode1_shape in Hd. inversion Hd.
  - apply pstring_step_single.
  - assert (Hl : 2 <= length (a :: b :: l)) by (cbn; lia).
    rewrite (pstring_step_multi _ _ _ _ Hd Hl). reflexivity.
Qed.

Lemma pstring_chunks cs : Forall from_decode cs -> forall fuel acc tail, length cs < fuel ->
  pstring fuel (flat_map json_chunk cs ++ dq :: tail) acc = Some (acc ++ flat_map sane_chunk cs, tail).
Proof.
  induction 1 as [|rb cs Hrb Hcs IH]; intros fuel acc tail Hf.
  - destruct fuel as [|f]; [cbn in Hf; lia|]. cbn. rewrite app_nil_r. reflexivity.
  - destruct fuel as [|f]; [cbn in Hf; lia|]. cbn [flat_map]. rewrite <- app_assoc.
    rewrite (pstring_step rb Hrb). rewrite IH by (cbn [length] in Hf; lia). rewrite <- app_assoc. reflexivity.
Qed.

Lemma chunks_fuel_length fuel : forall s, length (chunks_fuel fuel s) <= fuel.
Proof. induction fuel as [|f IH]; intro s; cbn [chunks_fuel]; [cbn; lia|]. destruct (decode1 s) as [[[r bs] rest]|]; cbn [length]; [specialize (IH rest)|]; lia. Qed.
Lemma chunks_length s : length (chunks s) <= length s.
Proof. apply chunks_fuel_length. Qed.

(* the body of a printed string literal, read back *)
Theorem pstring_json_string s fuel tail : length (chunks s) < fuel ->
  pstring fuel (flat_map json_chunk (chunks s) ++ dq :: tail) [] = Some (sanitize s, tail).
Proof.
  intro H. rewrite pstring_chunks; [reflexivity|apply chunks_from_decode|exact H].
Qed.

(* each chunk prints to at least one byte: a printed literal is at least as long as its number of chunks + 2 *)
Lemma json_chunk_nonempty rb : from_decode rb -> 1 <= length (json_chunk rb).
Proof.
  destruct rb as [r bs]. intros (s0 & rest0 & Hd). cbn [fst snd] in Hd. apply decode1_shape in Hd. unfold json_chunk.
  destruct Hd; repeat match goal with |- context [if ?b then _ else _] => destruct b end; cbn; lia.
Qed.
Lemma json_string_length s : length (chunks s) + 2 <= length (json_string s).
Proof.
  unfold json_string. cbn [length]. rewrite app_length. cbn [length].
  assert (H : length (chunks s) <= length (flat_map json_chunk (chunks s))).
  { pose proof (chunks_from_decode s) as Hf. induction Hf as [|rb cs Hrb Hcs IH]; [cbn; lia|].
    cbn [flat_map length]. rewrite app_length. pose proof (json_chunk_nonempty rb Hrb). lia. }
  lia.
Qed.

(* valid UTF-8 survives unchanged *)
Definition all_valid (s : str) : Prop := Forall (fun rb => match snd rb with [c] => (bv c < 128)%N | _ => True end) (chunks s).
Lemma decode1_cons c s : decode1 (c :: s) <> None.
Proof.
  unfold decode1.
  repeat match goal with
         | |- context [if ?b then _ else _] => destruct b
         | |- context [match ?l with [] => _ | _ :: _ => _ end] => destruct l
         end; discriminate.
Qed.
Lemma chunks_fuel_concat fuel : forall s, length s <= fuel -> concat (map snd (chunks_fuel fuel s)) = s.
Proof.
  induction fuel as [|f IH]; intros s H; cbn [chunks_fuel].
  - destruct s; [reflexivity|cbn in H; lia].
  - destruct (decode1 s) as [[[r bs] rest]|] eqn:E.
    + pose proof (decode1_split _ _ _ _ E) as Es. cbn [map concat snd]. rewrite IH; [symmetry; exact Es|].
      apply decode1_shape in E. rewrite Es, app_length in H. destruct E; cbn [length] in *; lia.
    + destruct s; [reflexivity|exfalso; exact (decode1_cons _ _ E)].
Qed.
Theorem sanitize_valid s : all_valid s -> sanitize s = s.
Proof.
  unfold all_valid, sanitize. intro H.
  rewrite <- (chunks_fuel_concat (length s) s) at 2 by lia. fold (chunks s).
  induction H as [|rb cs Hrb Hcs IH]; [reflexivity|]. cbn [flat_map map concat]. rewrite IH. f_equal.
  unfold sane_chunk. destruct rb as [r bs]. cbn [snd] in *. destruct bs as [|c [|d l]]; try reflexivity.
  apply N.ltb_lt in Hrb. rewrite Hrb. reflexivity.
Qed.
