(* Proofs/MultiParts.v — lemmas behind Props/C11.v *)
From CV Require Import Base.Str Base.Utf8 Base.SortPerm Model.Common Model.MultiParts.
From Coq Require Import Lia Permutation.
Local Open Scope nat_scope.

(* ------------------------------------------------------------------ index *)
Lemma has_prefix_length s p : has_prefix s p = true -> length p <= length s.
Proof. intro H. apply has_prefix_spec in H as [r ->]. rewrite app_length. lia. Qed.

Lemma index_spec s d i : index s d = Some i ->
  has_prefix (drop i s) d = true /\ i + length d <= length s.
Proof.
  revert i. induction s as [|c s IH]; intros i H; cbn [index] in H.
  - destruct (has_prefix [] d) eqn:E; [|discriminate]. injection H as <-. split; [exact E|].
    apply has_prefix_length in E. simpl in *. lia.
  - destruct (has_prefix (c :: s) d) eqn:E.
    + injection H as <-. split; [exact E|]. apply has_prefix_length in E. simpl in *. lia.
    + destruct (index s d) as [j|] eqn:Ej; [|discriminate]. simpl in H. injection H as <-.
      destruct (IH j eq_refl) as [H1 H2]. split; [exact H1|simpl; lia].
Qed.

Lemma has_prefix_app_l a b p : has_prefix a p = true -> has_prefix (a ++ b) p = true.
Proof. intro H. apply has_prefix_spec in H as [r ->]. rewrite <- app_assoc. apply has_prefix_app. Qed.

Lemma has_prefix_app_short a b p : length p <= length a -> has_prefix (a ++ b) p = has_prefix a p.
Proof.
  revert a. induction p as [|c p IH]; intros a H; [reflexivity|].
  destruct a as [|x a]; [simpl in H; lia|]. simpl. rewrite IH; [reflexivity|simpl in H; lia].
Qed.

(* an occurrence found inside w is found at the same place in w ++ r *)
Lemma index_app_some w r d i : index w d = Some i -> index (w ++ r) d = Some i.
Proof.
  revert i. induction w as [|c w IH]; intros i H.
  - cbn [index] in H. destruct (has_prefix [] d) eqn:E; [|discriminate]. injection H as <-.
    destruct d as [|x d]; [|discriminate]. simpl. destruct r; reflexivity.
  - cbn [index] in H. destruct (has_prefix (c :: w) d) eqn:E.
    + injection H as <-. change ((c :: w) ++ r) with (c :: w ++ r). cbn [index].
      change (c :: w ++ r) with ((c :: w) ++ r). rewrite (has_prefix_app_l _ _ _ E). reflexivity.
    + destruct (index w d) as [j|] eqn:Ej; [|discriminate]. simpl in H. injection H as <-.
      pose proof (index_spec _ _ _ Ej) as [_ Hlen].
      change ((c :: w) ++ r) with (c :: w ++ r). cbn [index].
      change (c :: w ++ r) with ((c :: w) ++ r).
      rewrite has_prefix_app_short by (simpl; lia). rewrite E. rewrite (IH j eq_refl). reflexivity.
Qed.

(* no occurrence inside w: an occurrence in w ++ r ends beyond w *)
Lemma index_app_none w r d i : d <> [] -> index w d = None -> index (w ++ r) d = Some i -> length w < i + length d.
Proof.
  intro Hd. revert i. induction w as [|c w IH]; intros i Hn H.
  - destruct d; [contradiction|]. simpl. lia.
  - cbn [index] in Hn. destruct (has_prefix (c :: w) d) eqn:E; [discriminate|].
    destruct (index w d) as [j|] eqn:Ej; [discriminate|].
    change ((c :: w) ++ r) with (c :: w ++ r) in H. cbn [index] in H.
    destruct (has_prefix (c :: w ++ r) d) eqn:E2.
    + injection H as <-. destruct (Nat.le_gt_cases (length d) (length (c :: w))) as [Hle|Hgt]; [|simpl in *; lia].
      change (c :: w ++ r) with ((c :: w) ++ r) in E2. rewrite has_prefix_app_short in E2 by exact Hle. congruence.
    + destruct (index (w ++ r) d) as [k|] eqn:Ek; [|discriminate]. simpl in H. injection H as <-.
      specialize (IH k eq_refl eq_refl). simpl. lia.
Qed.

(* ------------------------------------------------------------------ take / drop *)
Lemma take_app_le n a b : n <= length a -> take n (a ++ b) = take n a.
Proof. revert a; induction n as [|n IH]; intros [|x a] H; simpl in *; try reflexivity; try lia. f_equal. apply IH. lia. Qed.
Lemma drop_app_le n a b : n <= length a -> drop n (a ++ b) = drop n a ++ b.
Proof. revert a; induction n as [|n IH]; intros [|x a] H; simpl in *; try reflexivity; try lia. apply IH. lia. Qed.
Lemma take_app_ge n a b : length a <= n -> has_prefix (take n (a ++ b)) a = true.
Proof.
  revert n; induction a as [|x a IH]; intros n H; [apply has_prefix_nil|].
  destruct n as [|n]; [simpl in H; lia|]. simpl. rewrite beq_refl. simpl. apply IH. simpl in H. lia.
Qed.

(* ------------------------------------------------------------------ split_after *)
Lemma split_after_f_concat fuel s d : concat (split_after_f fuel s d) = s.
Proof.
  revert s; induction fuel as [|f IH]; intro s; simpl; [apply app_nil_r|].
  destruct (index s d) as [i|]; simpl; [|apply app_nil_r].
  rewrite IH. apply take_drop.
Qed.

Lemma split_after_f_nonempty fuel s d : split_after_f fuel s d <> [].
Proof. destruct fuel; simpl; [discriminate|]. destruct (index s d); discriminate. Qed.

Lemma index_nil_none d : d <> [] -> index [] d = None.
Proof. destruct d; [contradiction|reflexivity]. Qed.

(* enough fuel: the result does not depend on it *)
Lemma split_after_f_fuel f1 f2 s d : d <> [] -> length s <= f1 -> length s <= f2 ->
  split_after_f f1 s d = split_after_f f2 s d.
Proof.
  intro Hd. revert f2 s. induction f1 as [|f1 IH]; intros f2 s H1 H2.
  - destruct s; [|simpl in H1; lia]. destruct f2; cbn [split_after_f]; [reflexivity|]. rewrite index_nil_none by exact Hd. reflexivity.
  - destruct f2 as [|f2].
    + destruct s; [|simpl in H2; lia]. cbn [split_after_f]. rewrite index_nil_none by exact Hd. reflexivity.
    + cbn [split_after_f]. destruct (index s d) as [i|] eqn:E; [|reflexivity]. f_equal.
      pose proof (index_spec _ _ _ E) as [_ Hl].
      assert (length d > 0) by (destruct d; [contradiction|simpl; lia]).
      apply IH; rewrite drop_length; lia.
Qed.

(* the inductive reading of SplitAfter *)
Inductive SA (d : str) : str -> list str -> Prop :=
| SA_none s : index s d = None -> SA d s [s]
| SA_some s i l : index s d = Some i -> SA d (drop (i + length d) s) l -> SA d s (take (i + length d) s :: l).

Lemma split_after_f_SA d fuel s : d <> [] -> length s <= fuel -> SA d s (split_after_f fuel s d).
Proof.
  intro Hd. revert s. induction fuel as [|f IH]; intros s H.
  - destruct s; [|simpl in H; lia]. cbn [split_after_f]. apply SA_none. apply index_nil_none. exact Hd.
  - cbn [split_after_f]. destruct (index s d) as [i|] eqn:E; [|apply SA_none; exact E].
    apply SA_some; [exact E|]. apply IH.
    pose proof (index_spec _ _ _ E) as [_ Hl].
    assert (length d > 0) by (destruct d; [contradiction|simpl; lia]).
    rewrite drop_length. lia.
Qed.

Lemma SA_fun d s l1 l2 : SA d s l1 -> SA d s l2 -> l1 = l2.
Proof.
  intro H. revert l2. induction H as [s Hn|s i l Hi Hr IH]; intros l2 H2; inversion H2; subst; try congruence.
  assert (i0 = i) by congruence. subst. f_equal. apply IH. assumption.
Qed.

Lemma SA_nonempty d s l : SA d s l -> l <> [].
Proof. intros []; discriminate. Qed.

Lemma SA_split_after d s : d <> [] -> SA d s (split_after s d).
Proof. intro Hd. destruct d as [|c d]; [contradiction|]. simpl. apply split_after_f_SA; [discriminate|lia]. Qed.

(* prefix compatibility: the segments of w, all but the last, are segments of w ++ r, and the
   next segment of w ++ r extends the last segment of w *)
Lemma SA_prefix d w tw : d <> [] -> SA d w tw -> forall r,
  exists x tl, SA d (w ++ r) (removelast tw ++ x :: tl) /\ has_prefix x (last tw []) = true.
Proof.
  intros Hd H. induction H as [w Hn|w i l Hi Hr IH]; intro r.
  - simpl. destruct (index (w ++ r) d) as [j|] eqn:E.
    + exists (take (j + length d) (w ++ r)), (split_after (drop (j + length d) (w ++ r)) d). split.
      * apply SA_some; [exact E|]. apply SA_split_after. exact Hd.
      * apply take_app_ge. pose proof (index_app_none _ _ _ _ Hd Hn E). lia.
    + exists (w ++ r), []. split; [apply SA_none; exact E|apply has_prefix_app].
  - destruct (IH r) as (x & tl & H1 & H2).
    pose proof (index_spec _ _ _ Hi) as [_ Hl].
    exists x, tl. split.
    + pose proof (SA_nonempty _ _ _ Hr) as Hne.
      replace (removelast (take (i + length d) w :: l)) with (take (i + length d) w :: removelast l)
        by (destruct l; [contradiction|reflexivity]).
      rewrite <- (take_app_le _ w r Hl). cbn [app]. apply SA_some.
      * apply index_app_some. exact Hi.
      * rewrite drop_app_le by exact Hl. exact H1.
    + pose proof (SA_nonempty _ _ _ Hr) as Hne.
      replace (last (take (i + length d) w :: l) []) with (last l []) by (destruct l; [contradiction|reflexivity]).
      exact H2.
Qed.

Lemma SA_concat d s l : SA d s l -> concat l = s.
Proof. induction 1; simpl; [apply app_nil_r|]. rewrite IHSA. apply take_drop. Qed.

(* ------------------------------------------------------------------ tokenize *)
Lemma append_last_nonempty l d : l <> [] -> append_last l d <> [].
Proof. destruct l as [|x [|y l]]; simpl; [contradiction|discriminate|discriminate]. Qed.

Lemma append_last_concat l d : l <> [] -> concat (append_last l d) = concat l ++ d.
Proof.
  induction l as [|x l IH]; [contradiction|]. intros _. destruct l as [|y l].
  - simpl. rewrite !app_nil_r. reflexivity.
  - change (append_last (x :: y :: l) d) with (x :: append_last (y :: l) d).
    change (concat (x :: append_last (y :: l) d)) with (x ++ concat (append_last (y :: l) d)).
    rewrite IH by discriminate.
    change (concat (x :: y :: l)) with (x ++ concat (y :: l)). rewrite app_assoc. reflexivity.
Qed.

Lemma append_last_length l d : length (append_last l d) = length l.
Proof. induction l as [|x [|y l] IH]; simpl in *; auto. Qed.

Definition nonempty_all (ds : list str) : Prop := Forall (fun d => d <> []) ds.

Lemma tokenize_nonempty ds s : nonempty_all ds -> tokenize ds s <> [].
Proof.
  revert s. induction ds as [|d ds IH]; intros s H; [discriminate|].
  inversion H as [|? ? Hd Hds]; subst. cbn [tokenize].
  pose proof (SA_split_after d s Hd) as HS. apply SA_nonempty in HS.
  destruct (split_after s d) as [|w ws]; [contradiction|]. cbn [flat_map].
  intro E. apply app_eq_nil in E as [E _].
  destruct (has_suffix w d); [apply append_last_nonempty in E; [exact E|]|]; revert E; try apply IH; auto.
Qed.

Lemma concat_flat_map {A} (f : A -> list str) l :
  concat (flat_map f l) = concat (map (fun x => concat (f x)) l).
Proof. induction l as [|x l IH]; simpl; [reflexivity|]. rewrite concat_app, IH. reflexivity. Qed.

Lemma tokenize_concat ds s : nonempty_all ds -> concat (tokenize ds s) = s.
Proof.
  revert s. induction ds as [|d ds IH]; intros s H; [simpl; apply app_nil_r|].
  inversion H as [|? ? Hd Hds]; subst. cbn [tokenize]. rewrite concat_flat_map.
  rewrite <- (SA_concat d s _ (SA_split_after d s Hd)) at 2.
  f_equal. rewrite <- (map_id (split_after s d)) at 2. apply map_ext. intro w.
  destruct (has_suffix w d) eqn:E.
  - rewrite append_last_concat by (apply tokenize_nonempty; exact Hds). rewrite IH by exact Hds.
    apply has_suffix_spec in E as [r ->]. rewrite trim_suffix_app. reflexivity.
  - rewrite IH by exact Hds. unfold trim_suffix. rewrite E. reflexivity.
Qed.

(* one divider: the tokens are the SplitAfter segments *)
Lemma tokenize_single d s : tokenize [d] s = split_after s d.
Proof.
  cbn [tokenize]. induction (split_after s d) as [|w l IH]; [reflexivity|].
  cbn [flat_map]. rewrite IH. destruct (has_suffix w d) eqn:E; cbn [append_last app].
  - apply has_suffix_spec in E as [r ->]. rewrite trim_suffix_app. reflexivity.
  - unfold trim_suffix. rewrite E. reflexivity.
Qed.

(* ------------------------------------------------------------------ firstn facts *)
Lemma concat_firstn_prefix (l : list str) n : has_prefix (concat l) (concat (firstn n l)) = true.
Proof.
  rewrite <- (firstn_skipn n l) at 1. rewrite concat_app. apply has_prefix_app.
Qed.

Lemma removelast_length {A} (l : list A) : l <> [] -> length (removelast l) = length l - 1.
Proof.
  induction l as [|x l IH]; [contradiction|]. intros _. destruct l as [|y l]; [reflexivity|].
  change (removelast (x :: y :: l)) with (x :: removelast (y :: l)).
  change (length (x :: removelast (y :: l))) with (S (length (removelast (y :: l)))).
  rewrite IH by discriminate. simpl. lia.
Qed.

Lemma concat_removelast_last (l : list str) : l <> [] -> concat l = concat (removelast l) ++ last l [].
Proof.
  intro H. rewrite (app_removelast_last [] H) at 1. rewrite concat_app. simpl. rewrite app_nil_r. reflexivity.
Qed.

(* single non-empty divider, case sensitive: the candidate of v extends the typed text *)
Lemma single_extends d w r : d <> [] ->
  has_prefix (concat (firstn (length (tokenize [d] w)) (tokenize [d] (w ++ r)))) w = true.
Proof.
  intro Hd. rewrite !tokenize_single.
  pose proof (SA_split_after d w Hd) as Hw.
  remember (split_after w d) as tw eqn:Etw. clear Etw.
  destruct (SA_prefix d w _ Hd Hw r) as (x & tl & H1 & H2).
  rewrite (SA_fun _ _ _ _ (SA_split_after d (w ++ r) Hd) H1).
  pose proof (SA_nonempty _ _ _ Hw) as Hne.
  assert (Hn : length tw = length (removelast tw) + 1)
    by (rewrite removelast_length by exact Hne; destruct tw; [contradiction|simpl; lia]).
  rewrite Hn. rewrite firstn_app. rewrite firstn_all2 by lia.
  replace (length (removelast tw) + 1 - length (removelast tw)) with 1 by lia.
  cbn [firstn]. rewrite concat_app. change (concat [x]) with (x ++ []). rewrite app_nil_r.
  rewrite <- (SA_concat d w tw Hw). rewrite (concat_removelast_last _ Hne).
  apply has_prefix_spec in H2 as [q ->]. rewrite app_assoc. apply has_prefix_app.
Qed.

(* ------------------------------------------------------------------ the uniqueVals map *)
Lemma store_In k r m k' r' : In (k', r') (store k r m) -> (k', r') = (k, r) \/ In (k', r') m.
Proof.
  induction m as [|[k0 r0] m IH]; simpl.
  - intros [H|[]]; left; symmetry; exact H.
  - destruct (str_eqb k k0) eqn:E; simpl.
    + intros [H|H]; [left; symmetry; exact H|right; right; exact H].
    + intros [H|H]; [right; left; exact H|]. destruct (IH H) as [H'|H']; [left; exact H'|right; right; exact H'].
Qed.

Lemma store_has k r m : In (k, r) (store k r m).
Proof.
  induction m as [|[k0 r0] m IH]; simpl; [left; reflexivity|].
  destruct (str_eqb k k0); simpl; [left; reflexivity|right; exact IH].
Qed.

Lemma store_keys_keep k r m k' : In k' (map fst m) -> In k' (map fst (store k r m)).
Proof.
  induction m as [|[k0 r0] m IH]; simpl; [intros []|].
  destruct (str_eqb k k0) eqn:E; simpl.
  - apply str_eqb_true in E. subst. auto.
  - intros [H|H]; [left; exact H|right; apply IH; exact H].
Qed.

Lemma store_keys_in k r m k' : In k' (map fst (store k r m)) -> In k' (map fst m) \/ k' = k.
Proof.
  induction m as [|[k1 r1] m IH]; simpl.
  - intros [H|[]]; right; symmetry; exact H.
  - destruct (str_eqb k k1) eqn:E1; simpl.
    + apply str_eqb_true in E1. subst. intros [H|H]; [left; left; exact H|left; right; exact H].
    + intros [H|H]; [left; left; exact H|]. destruct (IH H) as [H'|H']; [left; right; exact H'|right; exact H'].
Qed.

Lemma store_keys_nodup k r m : NoDup (map fst m) -> NoDup (map fst (store k r m)).
Proof.
  induction m as [|[k0 r0] m IH]; simpl; intro H.
  - constructor; [intros []|constructor].
  - inversion H as [|? ? Hn Hd]; subst. destruct (str_eqb k k0) eqn:E; simpl.
    + apply str_eqb_true in E. subst. constructor; assumption.
    + constructor; [|apply IH; exact Hd]. intro Hin.
      destruct (store_keys_in _ _ _ _ Hin) as [Hk|Hk]; [contradiction|].
      subst. rewrite str_eqb_refl in E. discriminate.
Qed.

(* what one stored candidate says about the value it came from *)
Definition from_val (ci : bool) (ds : list str) (cv : str) (n : nat) (val r : raw) : Prop :=
  match_has_prefix ci (value val) cv = true /\
  1 <= n <= length (tokenize ds (value val)) /\
  value r = concat (firstn n (tokenize ds (value val))) /\
  nth_error (tokenize ds (value val)) (n - 1) = Some (display r) /\
  tag r = tag val /\
  ((length (tokenize ds (value val)) = n /\ description r = description val /\ style r = style val) \/
   (length (tokenize ds (value val)) <> n /\ description r = [] /\ style r = [])).

Definition map_inv ci ds cv n (seen : list raw) (m : list (str * raw)) : Prop :=
  NoDup (map fst m) /\
  (forall k r, In (k, r) m -> k = value r /\ exists val, In val seen /\ from_val ci ds cv n val r) /\
  (forall val, In val seen -> match_has_prefix ci (value val) cv = true ->
               n <= length (tokenize ds (value val)) ->
               In (concat (firstn n (tokenize ds (value val)))) (map fst m)).

Lemma mp_step_inv ci ds cv n seen m val m' :
  map_inv ci ds cv n seen m ->
  mp_step ci ds cv n (Some m) val = Some m' ->
  map_inv ci ds cv n (seen ++ [val]) m'.
Proof.
  intros (Hnd & Hs & Hc) H. unfold mp_step in H.
  assert (Hkeep : m' = m -> (match_has_prefix ci (value val) cv = true -> n <= length (tokenize ds (value val)) -> False) ->
                  map_inv ci ds cv n (seen ++ [val]) m').
  { intros -> Hno. split; [exact Hnd|]. split.
    - intros k r Hin. destruct (Hs k r Hin) as [Hk (v & Hv & Hf)]. split; [exact Hk|].
      exists v. split; [apply in_or_app; left; exact Hv|exact Hf].
    - intros v Hv Hm Hl. apply in_app_or in Hv as [Hv|[<-|[]]]; [apply Hc; assumption|]. exfalso. apply Hno; assumption. }
  destruct (match_has_prefix ci (value val) cv) eqn:Em; [|injection H as <-; apply Hkeep; [reflexivity|discriminate]].
  destruct (n <=? length (tokenize ds (value val))) eqn:El;
    [|injection H as <-; apply Hkeep; [reflexivity|]; intros _ Hl; apply Nat.leb_gt in El; lia].
  apply Nat.leb_le in El.
  destruct n as [|k]; [discriminate|].
  destruct (nth_error (tokenize ds (value val)) k) as [dsp|] eqn:En; [|discriminate].
  set (v := concat (firstn (S k) (tokenize ds (value val)))) in *.
  assert (Hgen : forall r0, Some (store v r0 m) = Some m' -> value r0 = v -> from_val ci ds cv (S k) val r0 ->
                 map_inv ci ds cv (S k) (seen ++ [val]) m').
  { intros r0 E Hv Hf. injection E as <-. split; [apply store_keys_nodup; exact Hnd|]. split.
    - intros k0 r Hin. apply store_In in Hin as [Hin|Hin].
      + injection Hin as -> ->. split; [symmetry; exact Hv|]. exists val. split; [apply in_or_app; right; left; reflexivity|exact Hf].
      + destruct (Hs k0 r Hin) as [Hk (v0 & Hv0 & Hf0)]. split; [exact Hk|].
        exists v0. split; [apply in_or_app; left; exact Hv0|exact Hf0].
    - intros v0 Hv0 Hm Hl. apply in_app_or in Hv0 as [Hv0|[<-|[]]].
      + apply store_keys_keep. apply Hc; assumption.
      + fold v. change v with (fst (v, r0)). apply in_map. apply store_has. }
  destruct (length (tokenize ds (value val)) =? S k) eqn:Eq.
  - apply Nat.eqb_eq in Eq. eapply Hgen; [exact H|reflexivity|].
    unfold from_val. cbn [value display description style tag]. rewrite Nat.sub_succ, Nat.sub_0_r.
    repeat split; auto; try lia.
  - apply Nat.eqb_neq in Eq. eapply Hgen; [exact H|reflexivity|].
    unfold from_val. cbn [value display description style tag]. rewrite Nat.sub_succ, Nat.sub_0_r.
    repeat split; auto; try lia.
Qed.

Lemma mp_fold_inv ci ds cv n vals seen m m' :
  map_inv ci ds cv n seen m ->
  fold_left (mp_step ci ds cv n) vals (Some m) = Some m' ->
  map_inv ci ds cv n (seen ++ vals) m'.
Proof.
  revert seen m. induction vals as [|val vals IH]; intros seen m Hinv H; cbn [fold_left] in H.
  - injection H as <-. rewrite app_nil_r. exact Hinv.
  - destruct (mp_step ci ds cv n (Some m) val) as [m1|] eqn:E.
    + replace (seen ++ val :: vals) with ((seen ++ [val]) ++ vals) by (rewrite <- app_assoc; reflexivity).
      eapply IH; [eapply mp_step_inv; eassumption|exact H].
    + exfalso. clear -H. induction vals as [|x l IHl]; cbn [fold_left] in H; [discriminate|]. apply IHl. exact H.
Qed.

Lemma map_inv_init ci ds cv n : map_inv ci ds cv n [] [].
Proof. split; [constructor|]. split; [intros ? ? []|intros ? []]. Qed.

Lemma to_multiparts_inv ci ds vals cv out ns :
  to_multiparts ci ds vals cv = Some (out, ns) ->
  exists m, out = isort_by (fun a b => str_ltb (value a) (value b)) (map snd m) /\ map_inv ci ds cv (length (tokenize ds cv)) vals m.
Proof.
  unfold to_multiparts. intro H.
  destruct (fold_left _ vals (Some [])) as [m|] eqn:E; [|discriminate]. injection H as <- _.
  exists m. split; [reflexivity|]. change vals with ([] ++ vals). eapply mp_fold_inv; [apply map_inv_init|exact E].
Qed.

(* ---- totality: no panic as soon as the typed text has at least one segment *)
Lemma mp_step_total ci ds cv n m val : 1 <= n -> exists m', mp_step ci ds cv n (Some m) val = Some m'.
Proof.
  intro Hn. unfold mp_step.
  destruct (match_has_prefix ci (value val) cv); [|eauto].
  destruct (n <=? length (tokenize ds (value val))) eqn:El; [|eauto].
  apply Nat.leb_le in El. destruct n as [|k]; [lia|].
  destruct (nth_error (tokenize ds (value val)) k) eqn:En.
  - destruct (length (tokenize ds (value val)) =? S k); eauto.
  - apply nth_error_None in En. lia.
Qed.

Lemma mp_fold_total ci ds cv n vals m : 1 <= n -> exists m', fold_left (mp_step ci ds cv n) vals (Some m) = Some m'.
Proof.
  intro Hn. revert m. induction vals as [|v vals IH]; intro m; cbn [fold_left]; [eauto|].
  destruct (mp_step_total ci ds cv n m v Hn) as [m1 ->]. apply IH.
Qed.

(* ------------------------------------------------------------------ statements used by Props/C11.v *)
Lemma keys_are_values ci ds cv n seen m : map_inv ci ds cv n seen m -> map value (map snd m) = map fst m.
Proof.
  intros (_ & Hs & _). induction m as [|[k r] m IH]; [reflexivity|]. simpl. f_equal.
  - destruct (Hs k r (or_introl eq_refl)) as [-> _]. reflexivity.
  - apply IH. intros k0 r0 Hin. apply Hs. right. exact Hin.
Qed.

Lemma mp_sound ci ds vals cv out ns :
  nonempty_all ds ->
  to_multiparts ci ds vals cv = Some (out, ns) ->
  forall r, In r out ->
  exists val, In val vals /\ match_has_prefix ci (value val) cv = true /\
              has_prefix (value val) (value r) = true /\
              exists k, 1 <= k <= length (tokenize ds (value val)) /\
                        value r = concat (firstn k (tokenize ds (value val))).
Proof.
  intros Hds H r Hin. destruct (to_multiparts_inv _ _ _ _ _ _ H) as (m & -> & (_ & Hs & _)).
  rewrite isort_In in Hin. apply in_map_iff in Hin as ([k r0] & <- & Hin). simpl.
  destruct (Hs k r0 Hin) as [_ (val & Hv & (Hm & Hn & Hval & _))].
  exists val. repeat split; try assumption.
  - rewrite Hval. rewrite <- (tokenize_concat ds (value val) Hds) at 1. apply concat_firstn_prefix.
  - exists (length (tokenize ds cv)). split; assumption.
Qed.

Lemma mp_complete_unique ci ds vals cv out ns :
  to_multiparts ci ds vals cv = Some (out, ns) ->
  NoDup (map value out) /\
  forall val, In val vals -> match_has_prefix ci (value val) cv = true ->
    length (tokenize ds cv) <= length (tokenize ds (value val)) ->
    exists r, In r out /\ value r = concat (firstn (length (tokenize ds cv)) (tokenize ds (value val))).
Proof.
  intro H. destruct (to_multiparts_inv _ _ _ _ _ _ H) as (m & -> & Hinv).
  pose proof (keys_are_values _ _ _ _ _ _ Hinv) as Hk. destruct Hinv as (Hnd & Hs & Hc). split.
  - apply (Permutation_NoDup (l := map value (map snd m))); [apply Permutation_map, Permutation_sym, isort_perm|].
    rewrite Hk. exact Hnd.
  - intros val Hv Hm Hl. specialize (Hc val Hv Hm Hl). apply in_map_iff in Hc as ([k r] & Hkr & Hin).
    simpl in Hkr. subst k. exists r. split; [rewrite isort_In; apply in_map_iff; exists (concat (firstn (length (tokenize ds cv)) (tokenize ds (value val))), r); split; [reflexivity|exact Hin]|].
    destruct (Hs _ _ Hin) as [E _]. symmetry. exact E.
Qed.

Lemma mp_final_step ci ds vals cv out ns :
  to_multiparts ci ds vals cv = Some (out, ns) ->
  forall r, In r out -> exists val, In val vals /\ from_val ci ds cv (length (tokenize ds cv)) val r.
Proof.
  intros H r Hin. destruct (to_multiparts_inv _ _ _ _ _ _ H) as (m & -> & (_ & Hs & _)).
  rewrite isort_In in Hin. apply in_map_iff in Hin as ([k r0] & <- & Hin). destruct (Hs k r0 Hin) as [_ Hx]. exact Hx.
Qed.

Lemma mp_total ci ds vals cv : nonempty_all ds -> to_multiparts ci ds vals cv <> None.
Proof.
  intros Hds. unfold to_multiparts.
  assert (Hn : 1 <= length (tokenize ds cv)).
  { pose proof (tokenize_nonempty ds cv Hds). destruct (tokenize ds cv); [contradiction|simpl; lia]. }
  destruct (mp_fold_total ci ds cv _ vals [] Hn) as [m' ->]. discriminate.
Qed.

Lemma mp_extends_single d vals cv out ns : d <> [] ->
  to_multiparts false [d] vals cv = Some (out, ns) ->
  forall r, In r out -> has_prefix (value r) cv = true.
Proof.
  intros Hd H r Hin. destruct (mp_final_step _ _ _ _ _ _ H r Hin) as (val & _ & (Hm & _ & Hv & _)).
  simpl in Hm. apply has_prefix_spec in Hm as [q Hq]. rewrite Hv, Hq. apply single_extends. exact Hd.
Qed.

(* intermediate candidates end with the divider (one non-empty divider) *)
Lemma SA_nonlast_suffix d s l : SA d s l -> forall i x, nth_error l i = Some x -> S i < length l -> has_suffix x d = true.
Proof.
  induction 1 as [s Hn|s j l Hj Hr IH]; intros i x Hx Hi.
  - simpl in Hi. lia.
  - destruct i as [|i].
    + simpl in Hx. injection Hx as <-. apply has_suffix_spec.
      pose proof (index_spec _ _ _ Hj) as [Hp Hl]. apply has_prefix_spec in Hp as [q Hq].
      exists (take j s). rewrite <- (take_drop j s) at 1. rewrite Hq.
      rewrite app_assoc. rewrite <- (app_nil_r (take j s ++ d)) at 2.
      replace (j + length d) with (length (take j s ++ d)) by (rewrite app_length, take_length; lia).
      rewrite take_app. rewrite app_nil_r. reflexivity.
    + simpl in Hx, Hi. apply (IH i x Hx). lia.
Qed.

Lemma concat_firstn_S (l : list str) k x : nth_error l k = Some x -> concat (firstn (S k) l) = concat (firstn k l) ++ x.
Proof.
  revert k. induction l as [|y l IH]; intros k H; [destruct k; discriminate|].
  destruct k as [|k]; simpl in *.
  - injection H as ->. rewrite app_nil_r. reflexivity.
  - rewrite (IH k H). rewrite app_assoc. reflexivity.
Qed.

Lemma mp_intermediate_single d ci vals cv out ns : d <> [] ->
  to_multiparts ci [d] vals cv = Some (out, ns) ->
  forall r, In r out ->
  exists val, In val vals /\
    ((value r = value val /\ description r = description val /\ style r = style val /\ tag r = tag val) \/
     (has_suffix (value r) d = true /\ description r = [] /\ style r = [] /\ tag r = tag val)).
Proof.
  intros Hd H r Hin. destruct (mp_final_step _ _ _ _ _ _ H r Hin) as (val & Hv & (Hm & Hn & Hval & Hnth & Htag & Hfin)).
  exists val. split; [exact Hv|]. destruct Hfin as [(Hl & Hde & Hst)|(Hl & Hde & Hst)].
  - left. repeat split; try assumption. rewrite Hval, <- Hl, firstn_all.
    apply tokenize_concat. constructor; [exact Hd|constructor].
  - right. repeat split; try assumption.
    set (n := length (tokenize [d] cv)) in *.
    destruct n as [|k]; [lia|]. rewrite Nat.sub_succ, Nat.sub_0_r in Hnth.
    rewrite Hval, (concat_firstn_S _ _ _ Hnth).
    rewrite tokenize_single in Hnth, Hn, Hl.
    pose proof (SA_nonlast_suffix d _ _ (SA_split_after d (value val) Hd) k _ Hnth) as Hs.
    assert (Hlt : S k < length (split_after (value val) d)) by lia.
    specialize (Hs Hlt). apply has_suffix_spec in Hs as [q ->]. apply has_suffix_spec.
    eexists. rewrite app_assoc. reflexivity.
Qed.
