(* Proofs/Pflag.v — C01 on the long-form fragment: the slot traverse chooses for the word under
   the cursor is the slot into which pflag puts the completed word. *)
From Coq Require Import Lia.
From CV Require Import Base.Str Model.Pflag.
Local Open Scope nat_scope.

(* pflag's parser with its one-word look-ahead made explicit: [pend] = a flag that will take the
   next word as its value *)
Inductive pres := Done (s : pstate) | Pending (s : pstate) (f : flag) | Err.

Definition set_flag (st : pstate) (n v : str) : pstate := mkP (p_args st) (p_dash st) (p_sets st ++ [(n, v)]) false.
Definition add_sets (st : pstate) (sets : list (str * str)) : pstate := mkP (p_args st) (p_dash st) (p_sets st ++ sets) false.

Fixpoint pfp (fs : list flag) (il : bool) (pend : option flag) (ws : list str) (st : pstate) : pres :=
  match ws with
  | [] => match pend with Some f => Pending st f | None => Done st end
  | w :: rest =>
    match pend with
    | Some f => pfp fs il None rest (set_flag st (fname f) w)
    | None =>
      if p_stopped st then pfp fs il None rest (mkP (p_args st ++ [w]) (p_dash st) (p_sets st) true)
      else if str_eqb w dash2 then pfp fs il None rest (mkP (p_args st) (Some (length (p_args st))) (p_sets st) true)
      else if negb (starts_dash w) || str_eqb w (B [45]) then
        pfp fs il None rest (mkP (p_args st ++ [w]) (p_dash st) (p_sets st) (negb il))
      else if negb (has_prefix w dash2) then
        match chain fs (drop 1 w) with
        | None => Err
        | Some (sets, pend') => pfp fs il pend' rest (add_sets st sets)
        end
      else
        let '(n, v) := long_parts w in
        match n with
        | [] => Err
        | c :: _ =>
          if beq c (byte 45) then Err
          else match find_flag fs n with
               | None => Err
               | Some f =>
                 match v with
                 | Some x => pfp fs il None rest (set_flag st n x)
                 | None => if takes_next f then pfp fs il (Some f) rest st
                           else pfp fs il None rest (set_flag st n (noopt f))
                 end
               end
        end
    end
  end.

Definition to_presult (r : pres) : presult := match r with Done s => POk s | _ => PErr end.

Lemma find_flag_name fs n f : find_flag fs n = Some f -> fname f = n.
Proof.
  induction fs as [|g fs IH]; simpl; [discriminate|]. destruct (str_eqb (fname g) n) eqn:E.
  - intro H. injection H as <-. apply str_eqb_true. exact E.
  - exact IH.
Qed.

(* the explicit-pending parser is pflag's parser *)
Lemma pfp_is_pf_parse_gen fs il ws : forall st,
  pf_parse fs il ws st = to_presult (pfp fs il None ws st) /\
  (forall f, match ws with x :: r => pf_parse fs il r (set_flag st (fname f) x) | [] => PErr end
             = to_presult (pfp fs il (Some f) ws st)).
Proof.
  induction ws as [|w rest IH]; intro st; (split; [|intro f0; cbn [pfp]; try reflexivity; apply IH]); [reflexivity|].
  cbn [pf_parse pfp]. destruct (p_stopped st); [apply IH|].
  destruct (str_eqb w dash2); [apply IH|].
  destruct (negb (starts_dash w) || str_eqb w (B [45])); [apply IH|].
  destruct (negb (has_prefix w dash2)).
  { destruct (chain fs (drop 1 w)) as [[sets [g|]]|]; [| apply IH | reflexivity].
    destruct (IH (add_sets st sets)) as [_ H2]. rewrite <- (H2 g).
    destruct rest as [|x rest']; [reflexivity|]. unfold set_flag, add_sets. cbn [p_args p_dash p_sets]. rewrite <- app_assoc. reflexivity. }
  destruct (long_parts w) as [n v]. destruct n as [|c n']; [reflexivity|].
  destruct (beq c (byte 45)); [reflexivity|].
  destruct (find_flag fs (c :: n')) as [f|] eqn:Ef; [|reflexivity].
  destruct v as [x|]; [apply IH|].
  destruct (takes_next f); [|apply IH].
  destruct (IH st) as [_ H2]. rewrite <- (H2 f). rewrite (find_flag_name _ _ _ Ef). reflexivity.
Qed.
Lemma pfp_is_pf_parse fs il ws st : pf_parse fs il ws st = to_presult (pfp fs il None ws st).
Proof. apply pfp_is_pf_parse_gen. Qed.

(* composition: parsing a ++ b = parsing a, then b from where a stopped *)
Lemma pfp_app fs il a : forall pend b st,
  pfp fs il pend (a ++ b) st =
    match pfp fs il pend a st with
    | Done s => pfp fs il None b s
    | Pending s f => pfp fs il (Some f) b s
    | Err => Err
    end.
Proof.
  induction a as [|w rest IH]; intros pend b st.
  - cbn [app pfp]. destruct pend; reflexivity.
  - cbn [app pfp]. destruct pend as [f|]; [apply IH|].
    destruct (p_stopped st); [apply IH|].
    destruct (str_eqb w dash2); [apply IH|].
    destruct (negb (starts_dash w) || str_eqb w (B [45])); [apply IH|].
    destruct (negb (has_prefix w dash2)); [destruct (chain fs (drop 1 w)) as [[sets pd]|]; [apply IH|reflexivity]|].
    destruct (long_parts w) as [n v]. destruct n as [|c n']; [reflexivity|].
    destruct (beq c (byte 45)); [reflexivity|].
    destruct (find_flag fs (c :: n')) as [f|]; [|reflexivity].
    destruct v as [x|]; [apply IH|]. destruct (takes_next f); apply IH.
Qed.


(* ---------- traverse's bookkeeping follows the parser ---------- *)
Lemma t_inargs_all fs il ws : forall st, t_inargs (t_loop fs il ws st) = t_inargs st ++ ws.
Proof.
  induction ws as [|w rest IH]; intro st; cbn [t_loop]; [rewrite app_nil_r; reflexivity|].
  destruct (t_dash st); [reflexivity|].
  destruct (t_inflag st); [rewrite IH; cbn [t_inargs]; rewrite <- app_assoc; reflexivity|].
  destruct (str_eqb w dash2); [reflexivity|].
  destruct (starts_dash w && negb (str_eqb w (B [45])) && (il || Nat.eqb (t_npos st) 0)); rewrite IH; cbn [t_inargs]; rewrite <- app_assoc; reflexivity.
Qed.

Definition pending_of (r : pres) : option flag := match r with Pending _ f => Some f | _ => None end.
Definition state_of (r : pres) : option pstate := match r with Done s | Pending s _ => Some s | Err => None end.

Lemma lookup_arg_long fs w n v : has_prefix w dash2 = true -> long_parts w = (n, v) ->
  lookup_arg fs w = match find_flag fs n with
                    | Some f => Some (f, match v with Some _ => dash2 ++ n ++ B [61] | None => w end, v)
                    | None => None
                    end.
Proof. intros H1 H2. unfold lookup_arg. rewrite H1, H2. reflexivity. Qed.

(* once the parser has stopped, every further word is an argument *)
Lemma pfp_stopped fs il ws : forall st, p_stopped st = true ->
  exists p', pfp fs il None ws st = Done p' /\ p_stopped p' = true /\ p_dash p' = p_dash st /\
             p_args p' = p_args st ++ ws /\ p_sets p' = p_sets st.
Proof.
  induction ws as [|w rest IH]; intros st Hs; cbn [pfp].
  - exists st. rewrite app_nil_r. auto.
  - rewrite Hs. destruct (IH (mkP (p_args st ++ [w]) (p_dash st) (p_sets st) true) eq_refl) as (p' & H1 & H2 & H3 & H4 & H5).
    exists p'. cbn in *. rewrite <- app_assoc in H4. auto.
Qed.

(* joint invariant between traverse's state and the parser's *)
Definition J (il : bool) (tst : tstate) (pend : option flag) (pst : pstate) : Prop :=
  t_dash tst = false /\ t_inflag tst = pend /\ p_dash pst = None /\
  (p_stopped pst = false -> il = true \/ t_npos tst = 0) /\
  (p_stopped pst = true -> il = false /\ t_npos tst <> 0) /\
  (pend <> None -> p_stopped pst = false).

Lemma flag_cond il tst : il = true \/ t_npos tst = 0 -> il || Nat.eqb (t_npos tst) 0 = true.
Proof. intros [H|H]; rewrite H; [reflexivity|]. apply orb_true_r. Qed.

(* the flag a shorthand word leaves waiting, as traverse sees it, is the one the parser leaves waiting *)
Lemma chain_pending fs ls : find_short fs (byte 61) = None -> forall sets pend, chain fs ls = Some (sets, pend) ->
  match lookup_short_letters fs ls with
  | Some (f, false) => if takes_next f then Some f else None
  | _ => None
  end = pend.
Proof.
  intro Hq. induction ls as [|c ls IH]; intros sets pend H; cbn [chain lookup_short_letters] in *.
  - injection H as <- <-. reflexivity.
  - destruct (find_short fs c) as [f|]; [|discriminate].
    destruct ls as [|e v].
    + destruct (takes_next f); injection H as <- <-; reflexivity.
    + destruct (beq e (byte 61)) eqn:Ee.
      * cbn [andb] in H. destruct v as [|v0 v']; cbn [negb] in H.
        -- destruct (takes_next f); [injection H as <- <-; reflexivity|].
           (* `-b=`: the parser goes on with the letter `=` and fails *)
           cbn [chain] in H. apply beq_true in Ee. subst e. rewrite Hq in H. discriminate.
        -- injection H as <- <-. reflexivity.
      * cbn [andb] in H. destruct (takes_next f); [injection H as <- <-; reflexivity|].
        destruct (chain fs (e :: v)) as [[sets' pend']|] eqn:Ec; [|discriminate]. injection H as <- <-.
        exact (IH _ _ eq_refl).
Qed.

Lemma joint fs il ws : find_short fs (byte 61) = None ->
  forall tst pend pst, J il tst pend pst ->
  forall r, pfp fs il pend ws pst = r -> r <> Err ->
  t_inflag (t_loop fs il ws tst) = pending_of r /\
  (forall p', state_of r = Some p' -> p_dash p' = None ->
     (il || Nat.eqb (t_npos (t_loop fs il ws tst)) 0) = negb (p_stopped p')).
Proof.
  intro Hq. induction ws as [|w rest IH]; intros tst pend pst (Jd & Jf & Jn & Ju & Js & Jp) r Hr Hne.
  - cbn [pfp t_loop] in *. destruct pend as [f|]; subst r; cbn [pending_of state_of]; (split; [exact Jf|]).
    + intros p' E Hd. injection E as <-. rewrite (Jp ltac:(discriminate)). cbn [negb].
      apply flag_cond, Ju, Jp. discriminate.
    + intros p' E Hd. injection E as <-. destruct (p_stopped pst) eqn:Es; cbn [negb].
      * destruct (Js eq_refl) as [-> Hn]. cbn [orb]. apply Nat.eqb_neq. exact Hn.
      * apply flag_cond, Ju. reflexivity.
  - cbn [t_loop]. rewrite Jd. rewrite Jf. cbn [pfp] in Hr. destruct pend as [f|].
    + (* the word is the pending flag's value on both sides *)
      apply (IH _ None (set_flag pst (fname f) w)); [|exact Hr|exact Hne].
      assert (Es : p_stopped pst = false) by (apply Jp; discriminate).
      unfold J. cbn [t_dash t_inflag t_npos p_stopped p_dash set_flag]. repeat split; auto; try discriminate.
    + destruct (p_stopped pst) eqn:Es.
      * (* the parser has stopped (a positional before, flags not interspersed) *)
        destruct (Js eq_refl) as [Hil Hn].
        destruct (str_eqb w dash2) eqn:Ew.
        -- destruct (pfp_stopped fs il rest (mkP (p_args pst ++ [w]) (p_dash pst) (p_sets pst) true) eq_refl) as (p' & H1 & H2 & H3 & _).
           rewrite H1 in Hr. subst r. cbn [pending_of state_of t_inflag t_npos]. split; [reflexivity|].
           intros p'' E _. injection E as <-. rewrite H2, Hil. cbn [orb negb]. apply Nat.eqb_neq. exact Hn.
        -- assert (Hc : starts_dash w && negb (str_eqb w (B [45])) && (il || Nat.eqb (t_npos tst) 0) = false).
           { rewrite Hil. cbn [orb]. apply Nat.eqb_neq in Hn. rewrite Hn. apply andb_false_r. }
           rewrite Hc. apply (IH _ None (mkP (p_args pst ++ [w]) (p_dash pst) (p_sets pst) true)); [|exact Hr|exact Hne].
           unfold J. cbn [t_dash t_inflag t_npos p_stopped p_dash]. repeat split; auto; try discriminate.
      * destruct (str_eqb w dash2) eqn:Ew.
        -- (* `--` *)
           destruct (pfp_stopped fs il rest (mkP (p_args pst) (Some (length (p_args pst))) (p_sets pst) true) eq_refl) as (p' & H1 & H2 & H3 & _).
           rewrite H1 in Hr. subst r. cbn [pending_of state_of t_inflag t_npos]. split; [reflexivity|].
           intros p'' E Hd. injection E as <-. rewrite H3 in Hd. discriminate.
        -- destruct (negb (starts_dash w) || str_eqb w (B [45])) eqn:Ep.
           ++ (* positional (a lone dash included) *)
              assert (Hc : starts_dash w && negb (str_eqb w (B [45])) = false).
              { destruct (starts_dash w); [|reflexivity]. cbn [negb orb andb] in *. rewrite Ep. reflexivity. }
              rewrite Hc. cbn [andb].
              apply (IH _ None (mkP (p_args pst ++ [w]) (p_dash pst) (p_sets pst) (negb il))); [|exact Hr|exact Hne].
              unfold J. cbn [t_dash t_inflag t_npos p_stopped p_dash]. repeat split; auto; try discriminate.
              all: destruct il; cbn [negb]; intros; auto; try discriminate; try congruence.
           ++ (* a flag word *)
              apply orb_false_iff in Ep as [Ep Ep1]. apply negb_false_iff in Ep.
              rewrite Ep, Ep1, (flag_cond il tst (Ju eq_refl)). cbn [negb andb].
              unfold pending_after.
              destruct (has_prefix w dash2) eqn:Hw; cbn [negb] in Hr.
              ** (* long form *)
                 destruct (long_parts w) as [n v] eqn:El. rewrite (lookup_arg_long fs w n v Hw El).
                 destruct n as [|c n']; [subst r; contradiction|].
                 destruct (beq c (byte 45)); [subst r; contradiction|].
                 destruct (find_flag fs (c :: n')) as [f|] eqn:Ef; [|subst r; contradiction].
                 destruct v as [x|].
                 --- apply (IH _ None (set_flag pst (c :: n') x)); [|exact Hr|exact Hne].
                     unfold J. cbn [t_dash t_inflag t_npos p_stopped p_dash set_flag]. repeat split; auto; try discriminate.
                 --- destruct (takes_next f).
                     +++ apply (IH _ (Some f) pst); [|exact Hr|exact Hne].
                         unfold J. cbn [t_dash t_inflag t_npos]. repeat split; auto; try discriminate; try congruence.
                     +++ apply (IH _ None (set_flag pst (c :: n') (noopt f))); [|exact Hr|exact Hne].
                         unfold J. cbn [t_dash t_inflag t_npos p_stopped p_dash set_flag]. repeat split; auto; try discriminate.
              ** (* a shorthand word *)
                 destruct (chain fs (drop 1 w)) as [[sets pend']|] eqn:Ec; [|subst r; contradiction].
                 rewrite (chain_pending fs (drop 1 w) Hq sets pend' Ec).
                 apply (IH _ pend' (add_sets pst sets)); [|exact Hr|exact Hne].
                 unfold J. cbn [t_dash t_inflag t_npos p_stopped p_dash add_sets]. repeat split; auto; try discriminate.
Qed.

(* ---------- what the parser does with one more word ---------- *)
Lemma pending_last fs il ws : forall pend st0 st f, pfp fs il pend ws st0 = Pending st f ->
  (ws = [] /\ pend = Some f /\ st = st0) \/
  (ws <> [] /\ exists st1, pfp fs il pend (removelast ws) st0 = Done st1 /\ p_dash st1 = p_dash st /\ p_args st1 = p_args st).
Proof.
  induction ws as [|w rest IH]; intros pend st0 st f H.
  - cbn [pfp] in H. destruct pend as [g|]; [|discriminate]. injection H as <- <-. left. auto.
  - right. split; [discriminate|].
    assert (Hrl : forall pd s', pfp fs il pd rest s' = Pending st f ->
              (rest = [] /\ pd = Some f /\ st = s') \/
              (removelast (w :: rest) = w :: removelast rest /\
               exists st1, pfp fs il pd (removelast rest) s' = Done st1 /\ p_dash st1 = p_dash st /\ p_args st1 = p_args st)).
    { intros pd s' H'. destruct (IH pd s' st f H') as [?|[Hn ?]]; [left; assumption|right; split; [|assumption]].
      destruct rest; [contradiction|reflexivity]. }
    cbn [pfp] in H. destruct pend as [g|].
    + destruct (Hrl _ _ H) as [(_ & E & _)|[E1 E2]]; [discriminate|]. rewrite E1. cbn [pfp]. exact E2.
    + destruct (p_stopped st0) eqn:Es.
      { destruct (Hrl _ _ H) as [(_ & E & _)|[E1 E2]]; [discriminate|]. rewrite E1. cbn [pfp]. rewrite Es. exact E2. }
      destruct (str_eqb w dash2) eqn:Ew.
      { destruct (Hrl _ _ H) as [(_ & E & _)|[E1 E2]]; [discriminate|]. rewrite E1. cbn [pfp]. rewrite Es, Ew. exact E2. }
      destruct (negb (starts_dash w) || str_eqb w (B [45])) eqn:Ep.
      { destruct (Hrl _ _ H) as [(_ & E & _)|[E1 E2]]; [discriminate|]. rewrite E1. cbn [pfp]. rewrite Es, Ew, Ep. exact E2. }
      destruct (negb (has_prefix w dash2)) eqn:Eh.
      { destruct (chain fs (drop 1 w)) as [[sets pd]|] eqn:Ech; [|discriminate].
        destruct (Hrl _ _ H) as [(Er & E & Est)|[E1 E2]].
        - subst rest st. cbn [removelast pfp]. exists st0. cbn [add_sets p_dash p_args]. auto.
        - rewrite E1. cbn [pfp]. rewrite Es, Ew, Ep, Eh, Ech. exact E2. }
      destruct (long_parts w) as [n v] eqn:El. destruct n as [|c n']; [discriminate|].
      destruct (beq c (byte 45)) eqn:Ec; [discriminate|].
      destruct (find_flag fs (c :: n')) as [g|] eqn:Ef; [|discriminate].
      destruct v as [x|].
      { destruct (Hrl _ _ H) as [(_ & E & _)|[E1 E2]]; [discriminate|]. rewrite E1. cbn [pfp]. rewrite Es, Ew, Ep, Eh, El, Ec, Ef. exact E2. }
      destruct (takes_next g) eqn:Et.
      * destruct (Hrl _ _ H) as [(Er & E & Est)|[E1 E2]].
        -- subst rest st. cbn [removelast pfp]. exists st0. auto.
        -- rewrite E1. cbn [pfp]. rewrite Es, Ew, Ep, Eh, El, Ec, Ef, Et. exact E2.
      * destruct (Hrl _ _ H) as [(_ & E & _)|[E1 E2]]; [discriminate|]. rewrite E1. cbn [pfp]. rewrite Es, Ew, Ep, Eh, El, Ec, Ef, Et. exact E2.
Qed.

(* `--` is recorded at the moment the parser stops, never while a flag is waiting *)
Lemma pfp_dash_inv fs il ws : forall pend st0, p_dash st0 = None ->
  forall p' d, state_of (pfp fs il pend ws st0) = Some p' -> p_dash p' = Some d ->
  d <= length (p_args p') /\ p_stopped p' = true /\ pending_of (pfp fs il pend ws st0) = None.
Proof.
  induction ws as [|w rest IH]; intros pend st0 H0 p' d Hs Hd.
  - cbn [pfp] in Hs. destruct pend; cbn [state_of] in Hs; injection Hs as <-; congruence.
  - cbn [pfp] in *. destruct pend as [g|]; [apply (IH None (set_flag st0 (fname g) w)); assumption|].
    destruct (p_stopped st0) eqn:Es.
    { destruct (pfp_stopped fs il rest (mkP (p_args st0 ++ [w]) (p_dash st0) (p_sets st0) true) eq_refl) as (q & H1 & H2 & H3 & _).
      rewrite H1 in *. cbn [state_of] in Hs. injection Hs as <-. cbn [p_dash] in H3. congruence. }
    destruct (str_eqb w dash2).
    { destruct (pfp_stopped fs il rest (mkP (p_args st0) (Some (length (p_args st0))) (p_sets st0) true) eq_refl) as (q & H1 & H2 & H3 & H4 & _).
      rewrite H1 in *. cbn [state_of pending_of] in *. injection Hs as <-. cbn [p_dash p_args] in H3, H4.
      rewrite H3 in Hd. injection Hd as <-. rewrite H4, app_length. repeat split; auto. lia. }
    destruct (negb (starts_dash w) || str_eqb w (B [45])); [eapply IH; eassumption|].
    destruct (negb (has_prefix w dash2)).
    { destruct (chain fs (drop 1 w)) as [[sets pd]|]; [|discriminate]. eapply IH; [|eassumption|eassumption]; assumption. }
    destruct (long_parts w) as [n v]. destruct n as [|c n']; [discriminate|].
    destruct (beq c (byte 45)); [discriminate|].
    destruct (find_flag fs (c :: n')) as [g|]; [|discriminate].
    destruct v as [x|]; [eapply IH; [|eassumption|eassumption]; assumption|].
    destruct (takes_next g); (eapply IH; [|eassumption|eassumption]; assumption).
Qed.

Lemma cut_eq_app s : forall n x v, cut_eq s = (n, Some x) -> cut_eq (n ++ B [61] ++ v) = (n, Some v).
Proof.
  induction s as [|c s IH]; intros n x v H; cbn [cut_eq] in H; [discriminate|].
  destruct (beq c (byte 61)) eqn:E.
  - injection H as <- _. cbn. reflexivity.
  - destruct (cut_eq s) as [n' v'] eqn:E'. injection H as <- ->. cbn [app cut_eq]. rewrite E.
    rewrite (IH n' x v eq_refl). reflexivity.
Qed.

Lemma drop2_dash2 s : drop 2 (dash2 ++ s) = s.
Proof. reflexivity. Qed.

Lemma plain_not_dash2 p : plain p = true -> str_eqb p dash2 = false.
Proof. unfold plain. intro H. apply str_eqb_false. intros ->. discriminate. Qed.

Definition no_set : str * str := ([], []).

(* The slot chosen for the word under the cursor, against what the parser does with the
   completed word.  Every conclusion is under the premise that the program accepts the line. *)
Definition slot_sound (fs : list flag) (il : bool) (ws : list str) (s : slot) : Prop :=
  match s with
  | SPositional i => forall p st', plain p = true -> parse fs il (ws ++ [p]) = POk st' ->
      p_dash st' = None /\ nth_error (p_args st') i = Some p /\ length (p_args st') = S i
  | SDash i => forall p st', parse fs il (ws ++ [p]) = POk st' ->
      exists d, p_dash st' = Some d /\ nth_error (p_args st') (d + i) = Some p /\ length (p_args st') = S (d + i)
  | SFlagValue n prefix => forall v st', parse fs il (ws ++ [prefix ++ v]) = POk st' ->
      last (p_sets st') no_set = (n, v)
  | SBoolValue prefix => forall v st', parse fs il (ws ++ [prefix ++ v]) = POk st' ->
      exists n f, find_flag fs n = Some f /\ fkind f = KBool /\ last (p_sets st') no_set = (n, v)
  | SFlagNames | SMessage => True
  end.

Lemma parse_app fs il ws x : parse fs il (ws ++ [x]) =
  to_presult (match pfp fs il None ws p0 with
              | Done s => pfp fs il None [x] s
              | Pending s f => pfp fs il (Some f) [x] s
              | Err => Err
              end).
Proof. unfold parse. rewrite pfp_is_pf_parse, pfp_app. reflexivity. Qed.

Lemma attached_value fs il st n x f v cur :
  p_stopped st = false -> has_prefix cur dash2 = true -> long_parts cur = (n, Some x) -> find_flag fs n = Some f ->
  forall st', to_presult (pfp fs il None [(dash2 ++ n ++ B [61]) ++ v] st) = POk st' -> last (p_sets st') no_set = (n, v).
Proof.
  intros Hs Hp Hl Hf st'. cbn [pfp]. rewrite Hs.
  assert (E1 : str_eqb ((dash2 ++ n ++ B [61]) ++ v) dash2 = false).
  { apply str_eqb_false. intro E. apply (f_equal (@length ascii)) in E. rewrite !app_length in E. cbn in E. lia. }
  rewrite E1. change (starts_dash ((dash2 ++ n ++ B [61]) ++ v)) with true. cbn [negb orb].
  assert (E2 : str_eqb ((dash2 ++ n ++ B [61]) ++ v) (B [45]) = false).
  { apply str_eqb_false. intro E. apply (f_equal (@length ascii)) in E. rewrite !app_length in E. cbn in E. lia. }
  rewrite E2. change (has_prefix ((dash2 ++ n ++ B [61]) ++ v) dash2) with true. cbn [negb].
  unfold long_parts. rewrite <- !app_assoc. rewrite drop2_dash2.
  unfold long_parts in Hl. rewrite (cut_eq_app _ _ _ v Hl).
  destruct n as [|c n']; [discriminate|]. destruct (beq c (byte 45)); [discriminate|]. rewrite Hf.
  cbn [to_presult]. intro E. injection E as <-. cbn [set_flag p_sets]. apply last_last.
Qed.

Theorem traverse_slot_sound fs il ws cur :
  find_short fs (byte 61) = None -> slot_sound fs il ws (traverse fs il ws cur).
Proof.
  intro Hq.
  assert (J0 : J il t0 None p0) by (unfold J; cbn; repeat split; auto; try discriminate).
  destruct (pfp fs il None ws p0) as [st|st f|] eqn:Er.
  - (* the typed words parse completely *)
    destruct (joint fs il ws Hq t0 None p0 J0 _ Er ltac:(discriminate)) as [Hf Hc]. cbn [pending_of state_of] in Hf, Hc.
    unfold traverse, finish. cbv zeta. rewrite Hf, t_inargs_all. cbn [t_inargs t0 app]. unfold parse at 1. rewrite pfp_is_pf_parse, Er. cbn [to_presult].
    destruct (p_dash st) as [d|] eqn:Ed.
    + destruct (pfp_dash_inv fs il ws None p0 eq_refl st d) as (Hle & Hs & _); [rewrite Er; reflexivity|exact Ed|].
      cbn [slot_sound]. intros p st' H. rewrite parse_app, Er in H. cbn [pfp] in H. rewrite Hs in H. cbn in H. injection H as <-.
      exists d. cbn [p_dash p_args]. replace (d + (length (p_args st) - d)) with (length (p_args st)) by lia.
      split; [exact Ed|]. split; [rewrite nth_error_app2, Nat.sub_diag by lia; reflexivity|]. rewrite app_length. cbn. lia.
    + specialize (Hc st eq_refl Ed). rewrite Hc.
      destruct (starts_dash cur && negb (p_stopped st)) eqn:Ecur.
      * apply andb_true_iff in Ecur as [_ Ens]. apply negb_true_iff in Ens.
        unfold lookup_arg. destruct (has_prefix cur dash2) eqn:Ehp; [|exact I].
        destruct (long_parts cur) as [n v] eqn:El. destruct (find_flag fs n) as [f|] eqn:Ef; [|exact I].
        destruct v as [x|]; [|exact I].
        destruct (fkind f) eqn:Ek; cbn [slot_sound]; intros v st' H; rewrite parse_app, Er in H;
          pose proof (attached_value fs il st n x f v cur Ens Ehp El Ef st' H) as HL;
          try (rewrite (find_flag_name _ _ _ Ef); exact HL).
        exists n, f. auto.
      * cbn [slot_sound]. intros p st' Hp H. rewrite parse_app, Er in H. cbn [pfp] in H.
        destruct (p_stopped st).
        -- cbn in H. injection H as <-. cbn [p_dash p_args]. split; [exact Ed|].
           split; [rewrite nth_error_app2, Nat.sub_diag by lia; reflexivity|]. rewrite app_length. cbn. lia.
        -- rewrite (plain_not_dash2 p Hp) in H. unfold plain in Hp. rewrite Hp in H. cbn in H. injection H as <-. cbn [p_dash p_args]. split; [exact Ed|].
           split; [rewrite nth_error_app2, Nat.sub_diag by lia; reflexivity|]. rewrite app_length. cbn. lia.
  - (* the last typed word leaves a flag waiting for its argument *)
    destruct (joint fs il ws Hq t0 None p0 J0 _ Er ltac:(discriminate)) as [Hf _]. cbn [pending_of] in Hf.
    unfold traverse, finish. cbv zeta. rewrite Hf, t_inargs_all. cbn [t_inargs t0 app].
    destruct (pending_last fs il ws None p0 st f Er) as [(_ & E & _)|[_ (st1 & Hrl & Hd1 & _)]]; [discriminate|].
    unfold parse at 1. rewrite pfp_is_pf_parse, Hrl. cbn [to_presult]. rewrite Hd1.
    destruct (p_dash st) as [d|] eqn:Ed.
    + destruct (pfp_dash_inv fs il ws None p0 eq_refl st d) as (_ & _ & Hp); [rewrite Er; reflexivity|exact Ed|]. rewrite Er in Hp. discriminate.
    + cbn [slot_sound app]. intros v st' H. rewrite parse_app, Er in H. cbn in H. injection H as <-. cbn [set_flag p_sets].
      apply last_last.
  - (* the typed words are rejected: every premise is false *)
    assert (Hno : forall x st', parse fs il (ws ++ [x]) <> POk st') by (intros x st' H; rewrite parse_app, Er in H; discriminate).
    destruct (traverse fs il ws cur); cbn [slot_sound]; try exact I; intros; exfalso; eapply Hno; eassumption.
Qed.

(* ---------- non-vacuity: every kind of slot arises on lines the program accepts ---------- *)
Definition ex_flags : list flag :=
  [mkFlag (B [115;116;114]) KStr (B [115]); mkFlag (B [98;111;111;108]) KBool (B [98]); mkFlag (B [104;101;108;112]) KBool (B [104])].   (* str -s, bool -b, help -h *)
Definition w_str : str := B [45;45;115;116;114].                       (* --str *)
Definition w_str_eq : str := B [45;45;115;116;114;61].                 (* --str= *)
Definition w_bool_eq : str := B [45;45;98;111;111;108;61;116].         (* --bool=t *)
Definition w_x : str := B [120].
Definition w_bs : str := B [45;98;115].                                (* -bs : bool, then str waiting for its value *)
Definition w_sv : str := B [45;115;118].                               (* -sv : str = v *)
Example ex_slots :
  traverse ex_flags true [w_x; w_str] [] = SFlagValue (B [115;116;114]) [] /\
  traverse ex_flags true [w_x; w_bs] [] = SFlagValue (B [115;116;114]) [] /\
  traverse ex_flags true [w_x] w_str_eq = SFlagValue (B [115;116;114]) w_str_eq /\
  traverse ex_flags true [] w_bool_eq = SBoolValue (B [45;45;98;111;111;108;61]) /\
  traverse ex_flags true [w_x; w_str; w_x] w_x = SPositional 1 /\
  traverse ex_flags true [w_sv; B [45]] w_x = SPositional 1 /\
  traverse ex_flags false [w_x; w_str] w_x = SPositional 2 /\
  traverse ex_flags false [B [45]; w_str] w_x = SPositional 2 /\
  traverse ex_flags true [w_x; dash2; w_str] w_x = SDash 1 /\
  (exists st, parse ex_flags true [w_x; w_str; w_x; w_x] = POk st) /\
  (exists st, parse ex_flags true [w_x; w_bs; w_x] = POk st /\ p_sets st = [(B [98;111;111;108], B [116;114;117;101]); (B [115;116;114], w_x)]) /\
  (exists st, parse ex_flags true [w_x; dash2; w_str; w_x] = POk st) /\
  find_short ex_flags (byte 61) = None.
Proof. repeat split; try reflexivity; eexists; vm_compute; try split; reflexivity. Qed.
