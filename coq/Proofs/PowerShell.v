(* Proofs/PowerShell.v — the PowerShell quoting after the repair: a value containing an active
   character, a single quote, or starting with `@`, is put in '...' with every ' doubled; it then
   reads back (Spec/Readers.v read_powershell_sp) as exactly the value. *)
From CV Require Import Base.Str Gen.Tables Model.Common Model.Shells Spec.Readers.
Local Open Scope nat_scope.

Definition double_sq (v : str) : str := flat_map (fun c => if beq c c_sq then [c_sq; c_sq] else [c]) v.
Definition ps_needs_quote (chars : str) (v : str) : bool :=
  contains_any v chars || match v with c :: _ => beq c (byte 64) | [] => false end.
Definition ps_quote_fixed (chars : str) (v : str) : str :=
  if ps_needs_quote chars v then c_sq :: double_sq v ++ [c_sq] else v.

(* the trigger characters cover everything that is active in a bare word, and `#` *)
Definition ps_chars_ok (chars : str) : bool :=
  forallb (fun c => negb (ps_active_bare c || beq c c_hash || beq c c_sq) || mem c chars) all_bytes.

Lemma ps_sq_quoted v rest : (forall d r, rest = d :: r -> beq d c_sq = false) ->
  ps_sq (double_sq v ++ c_sq :: rest) = Some (v, rest).
Proof.
  intro Hr. induction v as [|c v IH].
  - cbn [double_sq flat_map app ps_sq]. rewrite beq_refl. destruct rest as [|d r]; [reflexivity|].
    rewrite (Hr d r eq_refl). reflexivity.
  - cbn [double_sq flat_map]. fold (double_sq v). destruct (beq c c_sq) eqn:E.
    + apply beq_true in E. subst c. cbn [app ps_sq]. rewrite !beq_refl. rewrite IH. reflexivity.
    + cbn [app ps_sq]. rewrite E, IH. reflexivity.
Qed.

Lemma ps_bare_plain v rest : (forall c, In c v -> beq c c_sp = false /\ ps_active_bare c = false) ->
  (rest = [] \/ rest = [c_sp]) -> ps_bare (v ++ rest) = Some (v, rest).
Proof.
  intros Hv Hr. induction v as [|c v IH].
  - cbn [app]. destruct Hr as [->| ->]; reflexivity.
  - cbn [app ps_bare]. destruct (Hv c (or_introl eq_refl)) as [E1 E2]. rewrite E1, E2.
    rewrite IH by (intros d Hd; apply Hv; right; exact Hd). reflexivity.
Qed.

Theorem powershell_fixed_roundtrip chars v (blank : bool) : ps_chars_ok chars = true -> v <> [] ->
  read_powershell_sp (ps_quote_fixed chars v ++ (if blank then [c_sp] else [])) = Some (v, blank).
Proof.
  intros Hok Hne. unfold ps_quote_fixed. destruct (ps_needs_quote chars v) eqn:En.
  - cbn [app read_powershell_sp]. rewrite beq_refl. rewrite <- app_assoc. cbn [app].
    rewrite ps_sq_quoted.
    + destruct blank; reflexivity.
    + intros d r E. destruct blank; [injection E as <- _; reflexivity|discriminate].
  - unfold ps_needs_quote in En. apply orb_false_iff in En as [Ec Eat].
    assert (Hall : forall c, In c v -> beq c c_sp = false /\ ps_active_bare c = false /\ beq c c_hash = false /\ beq c c_sq = false).
    { intros c Hc. pose proof (forall_bytes _ Hok c) as H. cbv beta in H.
      apply orb_true_iff in H as [H|H].
      - apply negb_true_iff in H. apply orb_false_iff in H as [H H3]. apply orb_false_iff in H as [H1 H2].
        repeat split; auto. destruct (beq c c_sp) eqn:E; [|reflexivity].
        apply beq_true in E. subst c. discriminate.
      - exfalso. rewrite contains_any_false in Ec. apply (Ec c Hc). apply mem_In. exact H. }
    destruct v as [|c v']; [contradiction|].
    destruct (Hall c (or_introl eq_refl)) as (_ & _ & Hh & Hq).
    change ((c :: v') ++ (if blank then [c_sp] else [])) with (c :: (v' ++ (if blank then [c_sp] else []))).
    cbn [read_powershell_sp]. rewrite Hq, Eat, Hh. cbn [orb].
    change (c :: v' ++ (if blank then [c_sp] else [])) with ((c :: v') ++ (if blank then [c_sp] else [])).
    rewrite ps_bare_plain.
    + destruct blank; reflexivity.
    + intros d Hd. destruct (Hall d Hd) as (H1 & H2 & _). auto.
    + destruct blank; auto.
Qed.

(* the replacer table of the source (regenerated) is the doubling of single quotes *)
Definition sq_table_ok (t : table) : bool :=
  forallb (fun c => str_eqb (rep1 t c) (if beq c c_sq then [c_sq; c_sq] else [c])) all_bytes.
Lemma replace1_double_sq t v : sq_table_ok t = true -> replace1 t v = double_sq v.
Proof.
  intro H. unfold replace1, double_sq. apply flat_map_ext. intro c.
  pose proof (forall_bytes _ H c) as E. cbv beta in E. apply str_eqb_true in E. exact E.
Qed.

(* the regenerated tables have the shape the proof needs *)
Lemma powershell_tables_ok : ps_chars_ok powershell_ActionRawValues_any1 = true /\ sq_table_ok powershell_quoter = true.
Proof. split; vm_compute; reflexivity. Qed.

Lemma powershell_quote_is_fixed v : powershell_quote v = ps_quote_fixed powershell_ActionRawValues_any1 v.
Proof.
  unfold powershell_quote, ps_quote_fixed, ps_needs_quote. rewrite (replace1_double_sq _ v (proj2 powershell_tables_ok)).
  destruct (_ || _); reflexivity.
Qed.

(* the inserted text of the model, read back: exactly the (sanitised, non-empty) value *)
Theorem powershell_roundtrip v (blank : bool) : v <> [] ->
  read_powershell_sp (powershell_quote v ++ (if blank then [c_sp] else [])) = Some (v, blank).
Proof.
  intro H. rewrite powershell_quote_is_fixed. apply powershell_fixed_roundtrip; [exact (proj1 powershell_tables_ok)|exact H].
Qed.
