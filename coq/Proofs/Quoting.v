(* Proofs/Quoting.v — C03: the emitted text reads back as the value.
   Pattern (DESIGN 3.1): a boolean checker on a replacer table / trigger set, a soundness
   theorem proved once by induction over the value, and the obligation
   [checker Gen.<table> = true] closed by vm_compute over the 256 byte values.  A table edit
   that keeps the property still checks; one that breaks it makes the obligation fail. *)
From CV Require Import Base.Str Gen.Tables Model.Common Model.Shells Spec.Readers.
Local Open Scope nat_scope.

Definition is3 (c : ascii) : bool := beq c (byte 9) || beq c (byte 10) || beq c (byte 13).
Definition no3 (s : str) : Prop := forall c, In c s -> is3 c = false.

Lemma replace1_sanitized_no3 t s :
  drops t = true -> mem (byte 9) (keys t) = true -> mem (byte 10) (keys t) = true -> mem (byte 13) (keys t) = true ->
  no3 (replace1 t s).
Proof.
  intros Hd H9 H10 H13 c Hc. unfold is3.
  destruct (beq c (byte 9)) eqn:E9.
  { apply beq_true in E9; subst. exfalso. revert Hc. apply replace1_drops_notin; [exact Hd|apply mem_In; exact H9]. }
  destruct (beq c (byte 10)) eqn:E10.
  { apply beq_true in E10; subst. exfalso. revert Hc. apply replace1_drops_notin; [exact Hd|apply mem_In; exact H10]. }
  destruct (beq c (byte 13)) eqn:E13.
  { apply beq_true in E13; subst. exfalso. revert Hc. apply replace1_drops_notin; [exact Hd|apply mem_In; exact H13]. }
  reflexivity.
Qed.

(* ================================================================== bash, "..." *)
Definition dq_special (c : ascii) : bool := is c [36;96;34;92].
Definition dq_shape_ok (t : table) (c : ascii) : bool :=
  if dq_special c then str_eqb (rep1 t c) [c_bs; c] else str_eqb (rep1 t c) [c].
Definition dq_table_ok (t : table) : bool := forallb (dq_shape_ok t) all_bytes.

Lemma dq_shape_closed t c :
  dq_shape_ok t c = true ->
  forall rest, bash_dq (rep1 t c ++ rest) = option_map (fun '(w, r) => (c :: w, r)) (bash_dq rest).
Proof.
  unfold dq_shape_ok. intros H rest. destruct (dq_special c) eqn:S.
  - apply str_eqb_true in H. rewrite H. cbn [app bash_dq].
    change (is c [36;96;34;92]) with (dq_special c). rewrite S.
    replace (beq c_bs c_dq) with false by reflexivity.
    replace (beq c_bs c_dollar || beq c_bs c_bt) with false by reflexivity.
    replace (beq c_bs c_bs) with true by reflexivity. reflexivity.
  - apply str_eqb_true in H. rewrite H. cbn [app bash_dq].
    unfold dq_special, is in S. cbn [existsb] in S.
    apply orb_false_iff in S as [S1 S]. apply orb_false_iff in S as [S2 S].
    apply orb_false_iff in S as [S3 S]. apply orb_false_iff in S as [S4 _].
    change (byte 36) with c_dollar in S1. change (byte 96) with c_bt in S2.
    change (byte 34) with c_dq in S3. change (byte 92) with c_bs in S4.
    rewrite S3, S1, S2, S4. reflexivity.
Qed.

Lemma bash_dq_quoted t s rest :
  dq_table_ok t = true -> bash_dq (replace1 t s ++ c_dq :: rest) = Some (s, rest).
Proof.
  intro Hok. induction s as [|c s IH].
  - cbn [replace1 flat_map app bash_dq]. replace (beq c_dq c_dq) with true by reflexivity. reflexivity.
  - rewrite replace1_cons, <- app_assoc.
    rewrite dq_shape_closed by (apply (forall_bytes _ Hok)). rewrite IH. reflexivity.
Qed.

Theorem bash_quoted_roundtrip t s :
  dq_table_ok t = true -> read_bash (B [34] ++ replace1 t s ++ B [34]) = Some s.
Proof.
  intro Hok. change (B [34] ++ replace1 t s ++ B [34]) with (c_dq :: (replace1 t s ++ c_dq :: [])).
  unfold read_bash. replace (beq c_dq c_hash) with false by reflexivity.
  cbn [bash_word length].
  replace (beq c_dq c_bs) with false by reflexivity. replace (beq c_dq c_dq) with true by reflexivity.
  rewrite bash_dq_quoted by exact Hok.
  destruct (length (replace1 t s ++ [c_dq])) eqn:L.
  - rewrite app_length in L. simpl in L. lia.
  - cbn [bash_word option_map]. rewrite app_nil_r. reflexivity.
Qed.

Lemma bash_dq_table : dq_table_ok bash_escapingQuotedReplacer = true.
Proof. vm_compute. reflexivity. Qed.

(* ================================================================== backslash escaping, unquoted *)
(* bytes that mean nothing to the unquoted scanner *)
Definition bash_inert (c : ascii) : bool :=
  negb (beq c c_bs || beq c c_dq || beq c c_sq || bash_active_unquoted c || beq c c_lbrace).
Definition esc_shape_ok (t : table) (c : ascii) : bool :=
  (str_eqb (rep1 t c) [c_bs; c] && negb (beq c c_lf)) || (str_eqb (rep1 t c) [c] && bash_inert c).
(* TAB, CR, LF never reach the escaper: the sanitizer drops them first *)
Definition esc_table_ok (t : table) : bool := forallb (fun c => is3 c || esc_shape_ok t c) all_bytes.

Lemma bash_word_inert f c rest :
  bash_inert c = true -> bash_word (S f) (c :: rest) = option_map (cons c) (bash_word f rest).
Proof.
  unfold bash_inert. intro H. apply negb_true_iff in H.
  apply orb_false_iff in H as [H H5]. apply orb_false_iff in H as [H H4].
  apply orb_false_iff in H as [H H3]. apply orb_false_iff in H as [H1 H2].
  cbn [bash_word]. rewrite H1, H2, H3, H4, H5. reflexivity.
Qed.

Lemma bash_word_escaped t s : forall f,
  (forall c, In c s -> esc_shape_ok t c = true) ->
  length (replace1 t s) < f -> bash_word f (replace1 t s) = Some s.
Proof.
  induction s as [|c s IH]; intros f Hs Hl.
  - destruct f; [simpl in Hl; lia|]. reflexivity.
  - rewrite replace1_cons in *. specialize (Hs c (or_introl eq_refl)) as Hc.
    assert (Hs' : forall d, In d s -> esc_shape_ok t d = true) by (intros d Hd; apply Hs; right; exact Hd).
    unfold esc_shape_ok in Hc. apply orb_true_iff in Hc as [Hc|Hc]; apply andb_true_iff in Hc as [Hr Hi];
      apply str_eqb_true in Hr; rewrite Hr in *.
    + destruct f as [|f]; [simpl in Hl; lia|]. cbn [app bash_word].
      replace (beq c_bs c_bs) with true by reflexivity.
      apply negb_true_iff in Hi. rewrite Hi.
      rewrite IH; [reflexivity|exact Hs'|]. cbn [app length] in Hl. lia.
    + destruct f as [|f]; [simpl in Hl; lia|]. cbn [app].
      rewrite bash_word_inert by exact Hi.
      rewrite IH; [reflexivity|exact Hs'|]. cbn [app length] in Hl. lia.
Qed.

(* the tilde branch of bash: a value that starts with ~ is backslash-escaped *)
Theorem bash_tilde_roundtrip t s :
  esc_table_ok t = true -> no3 s -> has_prefix s (B [126]) = true ->
  read_bash (replace1 t s) = Some s.
Proof.
  intros Hok H3 Hp.
  assert (Hall : forall c, In c s -> esc_shape_ok t c = true).
  { intros c Hc. pose proof (forall_bytes _ Hok c) as H. cbv beta in H. rewrite (H3 c Hc) in H. exact H. }
  destruct s as [|c s]; [discriminate|].
  cbn [has_prefix B map] in Hp. apply andb_true_iff in Hp as [Hc _]. apply beq_true in Hc.
  unfold read_bash.
  assert (Hne : exists d r, replace1 t (c :: s) = d :: r /\ beq d c_hash = false).
  { rewrite replace1_cons. specialize (Hall c (or_introl eq_refl)). unfold esc_shape_ok in Hall.
    apply orb_true_iff in Hall as [H|H]; apply andb_true_iff in H as [Hr _]; apply str_eqb_true in Hr; rewrite Hr.
    - exists c_bs, (c :: replace1 t s). split; reflexivity.
    - exists c, (replace1 t s). split; [reflexivity|]. rewrite <- Hc. reflexivity. }
  destruct Hne as [d [r [E Hd]]]. rewrite E, Hd, <- E.
  apply bash_word_escaped; [exact Hall|lia].
Qed.

Lemma bash_escaping_table : esc_table_ok bash_escapingReplacer = true.
Proof. vm_compute. reflexivity. Qed.

(* ================================================================== bash, unquoted *)
(* every byte that is not inert must trigger quoting.  `?` is missing from requiresQuoting on the
   pinned tree (known finding C03-bash-glob-q): the positive theorem is stated for values
   without `?`, the refutation carries the witness. *)
Definition unq_chars_ok (chars : str) : bool :=
  forallb (fun c => bash_inert c || beq c (byte 63) || mem c chars) all_bytes.

Lemma bash_word_plain s : forall f,
  (forall c, In c s -> bash_inert c = true) -> length s < f -> bash_word f s = Some s.
Proof.
  induction s as [|c s IH]; intros f H Hl.
  - destruct f; [simpl in Hl; lia|]. reflexivity.
  - destruct f as [|f]; [simpl in Hl; lia|].
    rewrite bash_word_inert by (apply H; left; reflexivity).
    rewrite IH; [reflexivity|intros d Hd; apply H; right; exact Hd|simpl in Hl; lia].
Qed.

Theorem bash_unquoted_roundtrip chars wb s :
  unq_chars_ok chars = true ->
  contains_any s (chars ++ wb) = false -> ~ In (byte 63) s -> s <> [] ->
  (forall c r, s = c :: r -> beq c c_hash = false) ->
  read_bash s = Some s.
Proof.
  intros Hok Hc Hq Hne Hh.
  assert (Hall : forall c, In c s -> bash_inert c = true).
  { intros c Hin. pose proof (forall_bytes _ Hok c) as H. cbv beta in H.
    apply orb_true_iff in H as [H|H]; [apply orb_true_iff in H as [H|H]|].
    - exact H.
    - apply beq_true in H. subst. contradiction.
    - exfalso. rewrite contains_any_false in Hc. apply (Hc c Hin). apply in_or_app. left. apply mem_In. exact H. }
  destruct s as [|c r]; [congruence|]. unfold read_bash. rewrite (Hh c r eq_refl).
  apply bash_word_plain; [exact Hall|lia].
Qed.

Lemma bash_unq_chars : unq_chars_ok bash_requiresQuoting_chars = true.
Proof. vm_compute. reflexivity. Qed.

(* `?` is among the characters that force quoting (regenerated table) *)
Lemma bash_chars_has_question : mem (byte 63) bash_requiresQuoting_chars = true.
Proof. vm_compute. reflexivity. Qed.
Lemma no_question wb s : contains_any s (bash_requiresQuoting_chars ++ wb) = false -> ~ In (byte 63) s.
Proof.
  intros H Hin. rewrite contains_any_false in H. apply (H _ Hin). apply in_or_app. left. apply mem_In. exact bash_chars_has_question.
Qed.

(* ================================================================== zsh *)
(* layer 1: what _describe undoes *)
Definition desc_shape_ok (t : table) (c : ascii) : bool :=
  if beq c c_bs || beq c (byte 58) then str_eqb (rep1 t c) [c_bs; c] else str_eqb (rep1 t c) [c].
Definition desc_table_ok (t : table) : bool := forallb (desc_shape_ok t) all_bytes.

Lemma describe_unescape_cons_plain c rest :
  beq c c_bs = false -> describe_unescape (c :: rest) = c :: describe_unescape rest.
Proof.
  intro H. destruct rest as [|d rest]; [reflexivity|]. cbn [describe_unescape]. rewrite H. reflexivity.
Qed.

Lemma describe_roundtrip t s tail :
  desc_table_ok t = true ->
  describe_unescape (replace1 t s ++ tail) = s ++ describe_unescape tail.
Proof.
  intro Hok. induction s as [|c s IH]; [reflexivity|].
  rewrite replace1_cons, <- app_assoc. pose proof (forall_bytes _ Hok c) as Hc. cbv beta in Hc. unfold desc_shape_ok in Hc.
  destruct (beq c c_bs || beq c (byte 58)) eqn:E; apply str_eqb_true in Hc; rewrite Hc.
  - cbn [app describe_unescape]. replace (beq c_bs c_bs) with true by reflexivity.
    rewrite orb_comm in E. rewrite E. cbn [andb]. rewrite IH. reflexivity.
  - apply orb_false_iff in E as [E _]. cbn [app]. rewrite describe_unescape_cons_plain by exact E.
    rewrite IH. reflexivity.
Qed.

Lemma zsh_describe_table : desc_table_ok zsh_describeReplacer = true.
Proof. vm_compute. reflexivity. Qed.

(* layer 2: the default (unquoted) state *)
Definition zsh_inert (c : ascii) : bool :=
  negb (beq c c_sp || beq c c_bs || beq c c_dq || beq c c_sq || zsh_active_unquoted c).
Definition zesc_shape_ok (t : table) (c : ascii) : bool :=
  (str_eqb (rep1 t c) [c_bs; c] && negb (beq c c_lf)) || (str_eqb (rep1 t c) [c] && zsh_inert c).
Definition zesc_table_ok (t : table) : bool := forallb (fun c => is3 c || zesc_shape_ok t c) all_bytes.

Lemma zsh_word_inert f c rest :
  zsh_inert c = true -> zsh_word (S f) (c :: rest) = option_map (fun '(w, r) => (c :: w, r)) (zsh_word f rest).
Proof.
  unfold zsh_inert. intro H. apply negb_true_iff in H.
  apply orb_false_iff in H as [H H5]. apply orb_false_iff in H as [H H4].
  apply orb_false_iff in H as [H H3]. apply orb_false_iff in H as [H1 H2].
  cbn [zsh_word]. rewrite H1, H2, H3, H4, H5. reflexivity.
Qed.

(* [tail] is what follows the escaped value: nothing, or the separating blank *)
Lemma zsh_word_escaped t s tail : forall f,
  (forall c, In c s -> zesc_shape_ok t c = true) ->
  (tail = [] \/ tail = [c_sp]) ->
  length (replace1 t s) + length tail < f -> zsh_word f (replace1 t s ++ tail) = Some (s, tail).
Proof.
  induction s as [|c s IH]; intros f Hs Ht Hl.
  - cbn [replace1 flat_map app]. destruct f as [|f]; [simpl in Hl; lia|].
    destruct Ht as [->| ->]; cbn [zsh_word]; [reflexivity|].
    replace (beq c_sp c_sp) with true by reflexivity. reflexivity.
  - rewrite replace1_cons in *. specialize (Hs c (or_introl eq_refl)) as Hc.
    assert (Hs' : forall d, In d s -> zesc_shape_ok t d = true) by (intros d Hd; apply Hs; right; exact Hd).
    unfold zesc_shape_ok in Hc. apply orb_true_iff in Hc as [Hc|Hc]; apply andb_true_iff in Hc as [Hr Hi];
      apply str_eqb_true in Hr; rewrite Hr in *.
    + destruct f as [|f]; [simpl in Hl; lia|]. cbn [app zsh_word].
      replace (beq c_bs c_sp) with false by reflexivity.
      replace (beq c_bs c_bs) with true by reflexivity.
      apply negb_true_iff in Hi. rewrite Hi.
      rewrite IH; [reflexivity|exact Hs'|exact Ht|]. cbn [app length] in Hl. lia.
    + destruct f as [|f]; [simpl in Hl; lia|]. cbn [app].
      rewrite zsh_word_inert by exact Hi.
      rewrite IH; [reflexivity|exact Hs'|exact Ht|]. cbn [app length] in Hl. lia.
Qed.

Lemma zsh_default_table : zesc_table_ok zsh_defaultReplacer = true.
Proof. vm_compute. reflexivity. Qed.

(* the text emitted in the default state for a value outside the ~ branch, with or without blank *)
Definition zsh_default_emit (s : str) (blank : bool) : str :=
  replace1 zsh_describeReplacer (replace1 zsh_defaultReplacer s) ++ (if blank then [c_sp] else []).

Theorem zsh_default_roundtrip s blank :
  no3 s -> s <> [] ->
  (forall c r, s = c :: r -> beq c c_eq = false) ->
  read_zsh_sp [] [] (zsh_default_emit s blank) = Some (s, blank).
Proof.
  intros H3 Hne Heq. unfold read_zsh_sp, zsh_default_emit. cbv zeta. cbn [app].
  rewrite (describe_roundtrip _ _ _ zsh_describe_table).
  assert (Hall : forall c, In c s -> zesc_shape_ok zsh_defaultReplacer c = true).
  { intros c Hc. pose proof (forall_bytes _ zsh_default_table c) as H. cbv beta in H. rewrite (H3 c Hc) in H. exact H. }
  destruct s as [|c s]; [congruence|].
  (* the first byte of the escaped text is neither # nor = *)
  assert (Hfirst : forall tail, exists d r, replace1 zsh_defaultReplacer (c :: s) ++ tail = d :: r /\
                               (beq d c_hash || beq d c_eq) = false).
  { intro tail. rewrite replace1_cons. pose proof (Hall c (or_introl eq_refl)) as Hc. unfold zesc_shape_ok in Hc.
    apply orb_true_iff in Hc as [H|H]; apply andb_true_iff in H as [Hr Hi]; apply str_eqb_true in Hr; rewrite Hr.
    - eexists. eexists. split; [reflexivity|reflexivity].
    - eexists. eexists. split; [reflexivity|]. rewrite (Heq c s eq_refl), orb_false_r.
      (* # is only special at the start of a word, so the table has to escape it *)
      destruct (beq c c_hash) eqn:Eh; [|reflexivity].
      apply beq_true in Eh. subst c. exfalso.
      assert (X : rep1 zsh_defaultReplacer c_hash = [c_hash]) by exact Hr. vm_compute in X. discriminate. }
  destruct blank; cbn [describe_unescape].
  - destruct (Hfirst [c_sp]) as [d [r [E Hd]]]. rewrite E, Hd, <- E.
    rewrite zsh_word_escaped; [reflexivity|exact Hall|right; reflexivity|rewrite app_length; simpl; lia].
  - destruct (Hfirst []) as [d [r [E Hd]]]. rewrite E, Hd, <- E.
    rewrite zsh_word_escaped; [reflexivity|exact Hall|left; reflexivity|rewrite app_length; simpl; lia].
Qed.

Lemma zsh_equals_refuted :
  exists s, read_zsh_sp [] [] (zsh_default_emit s true) = None.
Proof. exists (B [61;97]). vm_compute. reflexivity. Qed.

(* ================================================================== nushell *)
Definition nu_shape_ok (t : table) (c : ascii) : bool :=
  if beq c c_dq || beq c c_bs then str_eqb (rep1 t c) [c_bs; c] else str_eqb (rep1 t c) [c].
Definition nu_table_ok (t : table) : bool := forallb (nu_shape_ok t) all_bytes.

Lemma nu_dq_quoted t s rest :
  nu_table_ok t = true -> nu_dq (replace1 t s ++ c_dq :: rest) = Some (s, rest).
Proof.
  intro Hok. induction s as [|c s IH].
  - cbn [replace1 flat_map app nu_dq]. replace (beq c_dq c_dq) with true by reflexivity. reflexivity.
  - rewrite replace1_cons, <- app_assoc. pose proof (forall_bytes _ Hok c) as Hc. cbv beta in Hc. unfold nu_shape_ok in Hc.
    destruct (beq c c_dq || beq c c_bs) eqn:E; apply str_eqb_true in Hc; rewrite Hc.
    + cbn [app nu_dq]. replace (beq c_bs c_dq) with false by reflexivity.
      replace (beq c_bs c_bs) with true by reflexivity. rewrite E. rewrite IH. reflexivity.
    + apply orb_false_iff in E as [E1 E2]. cbn [app nu_dq]. rewrite E1, E2, IH. reflexivity.
Qed.

Lemma nushell_escaper_table : nu_table_ok nushell_escaper = true.
Proof. vm_compute. reflexivity. Qed.

(* every byte that is active in a bare word triggers quoting *)
Definition nu_trigger_ok (chars : str) : bool :=
  forallb (fun c => negb (beq c c_sp || nu_active_bare c) || mem c chars) all_bytes.
Lemma nushell_trigger : nu_trigger_ok nushell_ActionRawValues_any1 = true.
Proof. vm_compute. reflexivity. Qed.

Lemma nu_bare_plain s :
  (forall c, In c s -> (beq c c_sp || nu_active_bare c) = false) -> nu_bare s = Some (s, []).
Proof.
  induction s as [|c s IH]; intro H; [reflexivity|].
  pose proof (H c (or_introl eq_refl)) as Hc. apply orb_false_iff in Hc as [H1 H2].
  cbn [nu_bare]. rewrite H1, H2, IH; [reflexivity|]. intros d Hd. apply H. right. exact Hd.
Qed.
Lemma nu_bare_plain_sp s :
  (forall c, In c s -> (beq c c_sp || nu_active_bare c) = false) -> nu_bare (s ++ [c_sp]) = Some (s, [c_sp]).
Proof.
  induction s as [|c s IH]; intro H.
  - cbn [app nu_bare]. replace (beq c_sp c_sp) with true by reflexivity. reflexivity.
  - pose proof (H c (or_introl eq_refl)) as Hc. apply orb_false_iff in Hc as [H1 H2].
    cbn [app nu_bare]. rewrite H1, H2, IH; [reflexivity|]. intros d Hd. apply H. right. exact Hd.
Qed.

Theorem nushell_roundtrip (val : str) (blank : bool) :
  val <> [] ->
  (forall c r, val = c :: r -> contains_any val nushell_ActionRawValues_any1 = false ->
               (beq c c_dollar || beq c c_hash) = false) ->
  read_nushell_sp (nushell_quote val ++ (if blank then [c_sp] else [])) = Some (val, blank).
Proof.
  intros Hne Hfirst. unfold nushell_quote.
  destruct (contains_any val nushell_ActionRawValues_any1) eqn:E.
  - destruct val as [|c rest]; [congruence|]. destruct (beq c (byte 126)) eqn:Et.
    + apply beq_true in Et. subst c.
      change (B [126;34] ++ replace1 nushell_escaper rest ++ B [34]) with
        (c_tilde :: c_dq :: (replace1 nushell_escaper rest ++ c_dq :: [])).
      cbn [app read_nushell_sp]. replace (beq c_tilde c_dq) with false by reflexivity.
      replace (beq c_tilde c_tilde) with true by reflexivity.
      cbn [has_prefix]. replace (beq c_dq c_dq) with true by reflexivity. cbn [andb drop].
      rewrite <- app_assoc. cbn [app]. rewrite nu_dq_quoted by exact nushell_escaper_table.
      destruct blank; reflexivity.
    + change (B [34] ++ replace1 nushell_escaper (c :: rest) ++ B [34]) with
        (c_dq :: (replace1 nushell_escaper (c :: rest) ++ c_dq :: [])).
      cbn [app read_nushell_sp]. replace (beq c_dq c_dq) with true by reflexivity.
      rewrite <- app_assoc. cbn [app]. rewrite nu_dq_quoted by exact nushell_escaper_table.
      destruct blank; reflexivity.
  - assert (Hall : forall c, In c val -> (beq c c_sp || nu_active_bare c) = false).
    { intros c Hc. pose proof (forall_bytes _ nushell_trigger c) as H. cbv beta in H.
      apply orb_true_iff in H as [H|H]; [apply negb_true_iff in H; exact H|].
      exfalso. rewrite contains_any_false in E. apply (E c Hc). apply mem_In. exact H. }
    destruct val as [|c rest]; [congruence|].
    specialize (Hfirst c rest eq_refl eq_refl). apply orb_false_iff in Hfirst as [F1 F2].
    pose proof (Hall c (or_introl eq_refl)) as Hc. apply orb_false_iff in Hc as [_ Hact].
    assert (Hdq : beq c c_dq = false).
    { unfold nu_active_bare, is in Hact. cbn [existsb] in Hact.
      repeat (apply orb_false_iff in Hact as [? Hact]). assumption. }
    assert (Htl : (beq c c_tilde && has_prefix rest [c_dq]) = false).
    { destruct (beq c c_tilde) eqn:Et; [|reflexivity]. cbn [andb]. destruct rest as [|d rest']; [reflexivity|].
      cbn [has_prefix]. destruct (beq c_dq d) eqn:Ed; [|reflexivity].
      apply beq_true in Ed. subst d. exfalso.
      pose proof (Hall c_dq (or_intror (or_introl eq_refl))) as X. vm_compute in X. discriminate. }
    destruct blank.
    + cbn [app]. unfold read_nushell_sp. rewrite Hdq.
      change ((c :: rest) ++ [c_sp]) with (c :: (rest ++ [c_sp])).
      assert (Htl' : (beq c c_tilde && has_prefix (rest ++ [c_sp]) [c_dq]) = false).
      { destruct (beq c c_tilde) eqn:Et; [|reflexivity]. cbn [andb]. destruct rest as [|d rest']; [reflexivity|].
        cbn [app has_prefix]. destruct (beq c_dq d) eqn:Ed; [|reflexivity].
        apply beq_true in Ed. subst d. exfalso.
        pose proof (Hall c_dq (or_intror (or_introl eq_refl))) as X. vm_compute in X. discriminate. }
      rewrite Htl', F1, F2. cbn [orb].
      change (c :: (rest ++ [c_sp])) with ((c :: rest) ++ [c_sp]).
      rewrite nu_bare_plain_sp by exact Hall. reflexivity.
    + rewrite app_nil_r. unfold read_nushell_sp. rewrite Hdq, Htl, F1, F2. cbn [orb].
      rewrite nu_bare_plain by exact Hall. reflexivity.
Qed.

(* ================================================================== refutations by witness *)
Lemma tcsh_refuted :
  exists v, read_tcsh (replace1 tcsh_quoter (replace1 tcsh_sanitizer v)) <> Some v.
Proof. exists (B [97;123;98]). vm_compute. discriminate. Qed.

Lemma oil_refuted :
  exists v, read_bash v <> Some v.     (* oil emits the value as it is *)
Proof. exists (B [97;32;98]). vm_compute. discriminate. Qed.

(* ================================================================== sanitizers only drop TAB / CR / LF *)
Definition sanitizer_ok (t : table) : bool :=
  drops t && forallb (fun c => is3 c) (keys t).
Lemma sanitizers_only_drop :
  forallb sanitizer_ok [bash_sanitizer; cmd_clink_sanitizer; elvish_sanitizer; fish_sanitizer; ion_sanitizer;
                        nushell_sanitizer; oil_sanitizer; powershell_sanitizer; tcsh_sanitizer; zsh_sanitizer] = true.
Proof. vm_compute. reflexivity. Qed.

Lemma sanitizer_subsequence t s :
  sanitizer_ok t = true -> replace1 t s = filter (fun c => negb (mem c (keys t))) s /\
                           (forall c, mem c (keys t) = true -> is3 c = true).
Proof.
  unfold sanitizer_ok. intro H. apply andb_true_iff in H as [Hd Hk]. split.
  - apply replace1_drops. exact Hd.
  - intros c Hc. rewrite forallb_forall in Hk. apply Hk. apply mem_In. exact Hc.
Qed.
