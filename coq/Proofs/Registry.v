(* Proofs/Registry.v — every goroutine gets the one entry that ends up in the registry. *)
From Coq Require Import Lia.
From CV Require Import Base.Str Model.Registry.
Local Open Scope nat_scope.

Definition agrees (r : reg) : Prop := forall i e, nth_error (pcs r) i = Some (Got e) -> slot r = Some e.

Lemma nth_upd_same l i p : i < length l -> nth_error (upd l i p) i = Some p.
Proof. revert i. induction l as [|x l IH]; intros [|i] H; cbn in *; try lia; [reflexivity|]. apply IH. lia. Qed.
Lemma nth_upd_other l i j p : i <> j -> nth_error (upd l i p) j = nth_error l j.
Proof. revert i j. induction l as [|x l IH]; intros [|i] [|j] H; cbn; try reflexivity; try lia. apply IH. lia. Qed.
Lemma nth_some_lt {A} (l : list A) i x : nth_error l i = Some x -> i < length l.
Proof. intro H. apply nth_error_Some. congruence. Qed.

Lemma step_agrees r i : agrees r -> agrees (step true r i).
Proof.
  intros Ha j e. unfold step. destruct (nth_error (pcs r) i) as [[| |g]|] eqn:Ei; try (intro H; exact (Ha _ _ H)).
  - destruct (slot r) as [s|] eqn:Es; cbn [pcs slot]; intro H.
    + destruct (Nat.eq_dec i j) as [->|Hne].
      * rewrite nth_upd_same in H by (eapply nth_some_lt; eassumption). injection H as <-. reflexivity.
      * rewrite nth_upd_other in H by exact Hne. rewrite <- Es. exact (Ha _ _ H).
    + destruct (Nat.eq_dec i j) as [->|Hne].
      * rewrite nth_upd_same in H by (eapply nth_some_lt; eassumption). discriminate.
      * rewrite nth_upd_other in H by exact Hne. rewrite <- Es. exact (Ha _ _ H).
  - destruct (slot r) as [s|] eqn:Es; cbn [pcs slot]; intro H.
    + destruct (Nat.eq_dec i j) as [->|Hne].
      * rewrite nth_upd_same in H by (eapply nth_some_lt; eassumption). injection H as <-. reflexivity.
      * rewrite nth_upd_other in H by exact Hne. rewrite <- Es. exact (Ha _ _ H).
    + destruct (Nat.eq_dec i j) as [->|Hne].
      * rewrite nth_upd_same in H by (eapply nth_some_lt; eassumption). injection H as <-. reflexivity.
      * rewrite nth_upd_other in H by exact Hne. pose proof (Ha _ _ H). congruence.
Qed.

Lemma run_agrees sched : forall r, agrees r -> agrees (run true sched r).
Proof. induction sched as [|i sched IH]; intros r Ha; cbn [run fold_left]; [exact Ha|]. apply IH. apply step_agrees. exact Ha. Qed.

Lemma init_agrees n : agrees (init n).
Proof.
  intros i e H. unfold init in H. cbn [pcs] in H. exfalso.
  assert (Hin : In (Got e) (repeat Start n)) by (eapply nth_error_In; exact H).
  apply repeat_spec in Hin. discriminate.
Qed.

(* whatever the number of goroutines and the schedule: everybody who has an entry has THE entry *)
Theorem registry_single_entry n sched i j e1 e2 :
  nth_error (pcs (run true sched (init n))) i = Some (Got e1) ->
  nth_error (pcs (run true sched (init n))) j = Some (Got e2) ->
  e1 = e2 /\ slot (run true sched (init n)) = Some e1.
Proof.
  intros H1 H2. pose proof (run_agrees sched (init n) (init_agrees n)) as Ha.
  pose proof (Ha _ _ H1) as E1. pose proof (Ha _ _ H2) as E2. split; [congruence|exact E1].
Qed.

(* without the second look under the write lock two goroutines that both missed create two entries *)
Theorem registry_unchecked_refuted : exists sched e1 e2,
  nth_error (pcs (run false sched (init 2))) 0 = Some (Got e1) /\
  nth_error (pcs (run false sched (init 2))) 1 = Some (Got e2) /\ e1 <> e2.
Proof. exists [0; 1; 0; 1], 0, 1. repeat split; try reflexivity. discriminate. Qed.

