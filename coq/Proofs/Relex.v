(* Proofs/Relex.v — C17: re-reading a candidate.  A value made of word characters and blanks,
   quoted in one of the three styles, is read back by the lexer as ONE word token carrying exactly
   that value, in any context (any number of runes read before, any continuation that starts with a
   blank or is the end of the text); lines of such words are read back word by word. *)
From Coq Require Import ZArith Lia ZifyN ZifyBool ZifyNat.
From CV Require Import Base.Str Base.Utf8 Model.Shlex Model.Split Proofs.Utf8 Proofs.JsonString.
Local Open Scope nat_scope.
Ltac Zify.zify_post_hook ::= Z.div_mod_to_equations.

(* ---------- UTF-8: runes of an encoded rune list ---------- *)
Lemma decode1_rest_shorter s r bs rest : decode1 s = Some (r, bs, rest) -> length rest < length s.
Proof.
  intro H. pose proof (decode1_split _ _ _ _ H) as Es. apply decode1_shape in H.
  rewrite Es, app_length. destruct H; cbn [length]; lia.
Qed.

Lemma chunks_fuel_irrelevant f1 : forall f2 s, length s <= f1 -> length s <= f2 -> chunks_fuel f1 s = chunks_fuel f2 s.
Proof.
  induction f1 as [|f1 IH]; intros f2 s H1 H2.
  - destruct s; [|cbn in H1; lia]. destruct f2; reflexivity.
  - destruct f2 as [|f2].
    + destruct s; [reflexivity|cbn in H2; lia].
    + cbn [chunks_fuel]. destruct (decode1 s) as [[[r bs] rest]|] eqn:E; [|reflexivity].
      pose proof (decode1_rest_shorter _ _ _ _ E). f_equal. apply IH; lia.
Qed.

Lemma encode_rune_nonempty r : 1 <= length (encode_rune r).
Proof. unfold encode_rune. repeat match goal with |- context [if ?b then _ else _] => destruct b end; cbn; lia. Qed.

Lemma chunks_encode_cons r s : scalar r -> chunks (encode_rune r ++ s) = (r, encode_rune r) :: chunks s.
Proof.
  intro H. unfold chunks. rewrite app_length. pose proof (encode_rune_nonempty r) as Hn.
  destruct (length (encode_rune r)) as [|n] eqn:El; [lia|]. cbn [Nat.add chunks_fuel].
  rewrite (encode_decode r s H). f_equal. apply chunks_fuel_irrelevant; lia.
Qed.

Lemma runes_encode_app rs : Forall scalar rs -> forall s, runes (encode_runes rs ++ s) = rs ++ runes s.
Proof.
  induction 1 as [|r rs Hr Hrs IH]; intro s; [reflexivity|].
  unfold encode_runes. cbn [flat_map]. rewrite <- app_assoc. unfold runes. rewrite chunks_encode_cons by exact Hr.
  cbn [map fst app]. f_equal. apply IH.
Qed.
Lemma runes_encode rs : Forall scalar rs -> runes (encode_runes rs) = rs.
Proof. intro H. rewrite <- (app_nil_r (encode_runes rs)). rewrite runes_encode_app by exact H. cbn. apply app_nil_r. Qed.

Lemma encode_runes_app a b : encode_runes (a ++ b) = encode_runes a ++ encode_runes b.
Proof. unfold encode_runes. apply flat_map_app. Qed.

(* dropping the last rune of an encoded list *)
Lemma drop_last_rune_snoc rs r : Forall scalar rs -> scalar r ->
  drop_last_rune (encode_runes rs ++ encode_rune r) = encode_runes rs.
Proof.
  intros Hrs Hr. unfold drop_last_rune.
  replace (encode_runes rs ++ encode_rune r) with (encode_runes (rs ++ [r])) by (rewrite encode_runes_app; cbn; rewrite app_nil_r; reflexivity).
  rewrite runes_encode by (apply Forall_app; split; [exact Hrs|constructor; [exact Hr|constructor]]).
  rewrite removelast_last. reflexivity.
Qed.

(* ---------- byte replacement seen on runes ---------- *)
Lemma replace_byte_app c by_ a b : replace_byte c by_ (a ++ b) = replace_byte c by_ a ++ replace_byte c by_ b.
Proof. induction a as [|x a IH]; [reflexivity|]. cbn [app replace_byte]. rewrite IH. apply app_assoc. Qed.

Lemma beq_vb_high x c : (128 <= x < 256)%N -> (bv c < 128)%N -> beq (vb x) c = false.
Proof. intros Hx Hc. apply beq_false. intro E. subst c. rewrite bv_vb in Hc by lia. lia. Qed.

Lemma replace_byte_rune c by_ r : (bv c < 128)%N ->
  replace_byte c by_ (encode_rune r) = if (r =? bv c)%N then by_ else encode_rune r.
Proof.
  intro Hc. unfold encode_rune.
  destruct (r <? 128)%N eqn:E1.
  { cbn [replace_byte]. rewrite app_nil_r. destruct (r =? bv c)%N eqn:E.
    - apply N.eqb_eq in E. subst r. rewrite vb_bv, beq_refl. reflexivity.
    - assert (Hb : beq (vb r) c = false). { apply beq_false. intro Hx. subst c. rewrite bv_vb in E by lia. lia. }
      rewrite Hb. reflexivity. }
  assert (Hne : (r =? bv c)%N = false) by lia. rewrite Hne.
  repeat match goal with |- context [if ?b then _ else _] => destruct b eqn:? end;
    cbn [replace_byte]; rewrite ?beq_vb_high by (try exact Hc; lia); reflexivity.
Qed.

Lemma replace_byte_runes c by_ rs : (bv c < 128)%N ->
  replace_byte c by_ (encode_runes rs) = flat_map (fun r => if (r =? bv c)%N then by_ else encode_rune r) rs.
Proof.
  intro Hc. induction rs as [|r rs IH]; [reflexivity|].
  unfold encode_runes in *. cbn [flat_map]. rewrite replace_byte_app, IH, replace_byte_rune by exact Hc. reflexivity.
Qed.

(* ---------- the scanner on word characters and blanks ---------- *)
Section Scan.
Variable wb : str.

(* a rune of the property's value alphabet: a Unicode scalar that the lexer classifies as a plain
   word character, or a blank *)
Definition wordish (r : N) : Prop := scalar r /\ (classify wb r = CUnknown \/ r = 32%N).
Definition esc1 (r : N) : list N := if (r =? 32)%N then [92; 32]%N else [r].
Definition esc_runes (rs : list N) : list N := flat_map esc1 rs.

Definition tok_ext (t : token) (val raw : str) : token :=
  mkTok (t_type t) (t_value t ++ val) (t_raw t ++ raw) (t_index t) (t_state t) (t_wbindex t).
Lemma tok_ext_ext t a b a' b' : tok_ext (tok_ext t a b) a' b' = tok_ext t (a ++ a') (b ++ b').
Proof. unfold tok_ext. cbn. rewrite !app_assoc. reflexivity. Qed.
Lemma tok_ext_nil t : tok_ext t [] [] = t.
Proof. destruct t. unfold tok_ext. cbn. rewrite !app_nil_r. reflexivity. Qed.
Lemma tok_add_raw_add t r : tok_add (tok_raw_add t r) r = tok_ext t (encode_rune r) (encode_rune r).
Proof. reflexivity. Qed.
Lemma tok_raw_add_ext t r : tok_raw_add t r = tok_ext t [] (encode_rune r).
Proof. destruct t. unfold tok_raw_add, tok_ext. cbn. rewrite app_nil_r. reflexivity. Qed.

Lemma class_32 : classify wb 32 = CSpace.  Proof. reflexivity. Qed.
Lemma class_92 : classify wb 92 = CEscape. Proof. reflexivity. Qed.
Lemma class_34 : classify wb 34 = CDQ.     Proof. reflexivity. Qed.
Lemma class_39 : classify wb 39 = CSQ.     Proof. reflexivity. Qed.

Lemma scalar_small r : (r < 128)%N -> scalar r.
Proof. intro H. unfold scalar. lia. Qed.

(* one step, by state and class *)
Lemma step_inword_plain prev r rs t c i : classify wb r = CUnknown ->
  scan_loop wb prev (r :: rs) (mkScan t SInWord c i) =
  scan_loop wb prev rs (mkScan (tok_ext t (encode_rune r) (encode_rune r)) SInWord (S c) (S i)).
Proof. intro H. cbn [scan_loop s_tok s_state s_consumed s_idx]. rewrite H. reflexivity. Qed.
Lemma step_inword_esc prev rs t c i :
  scan_loop wb prev (92%N :: rs) (mkScan t SInWord c i) =
  scan_loop wb prev rs (mkScan (tok_ext t [] (encode_rune 92)) SEsc (S c) (S i)).
Proof. cbn [scan_loop s_tok s_state s_consumed s_idx]. rewrite class_92, tok_raw_add_ext. reflexivity. Qed.
Lemma step_esc prev r rs t c i :
  scan_loop wb prev (r :: rs) (mkScan t SEsc c i) =
  scan_loop wb prev rs (mkScan (tok_ext t (encode_rune r) (encode_rune r)) SInWord (S c) (S i)).
Proof. cbn [scan_loop s_tok s_state s_consumed s_idx]. reflexivity. Qed.
Lemma step_dq prev r rs t c i : classify wb r <> CDQ -> classify wb r <> CEscape ->
  scan_loop wb prev (r :: rs) (mkScan t SQE c i) =
  scan_loop wb prev rs (mkScan (tok_ext t (encode_rune r) (encode_rune r)) SQE (S c) (S i)).
Proof. intros H1 H2. cbn [scan_loop s_tok s_state s_consumed s_idx]. destruct (classify wb r); try reflexivity; contradiction. Qed.
Lemma step_dq_close prev rs t c i :
  scan_loop wb prev (34%N :: rs) (mkScan t SQE c i) =
  scan_loop wb prev rs (mkScan (tok_ext t [] (encode_rune 34)) SInWord (S c) (S i)).
Proof. cbn [scan_loop s_tok s_state s_consumed s_idx]. rewrite class_34, tok_raw_add_ext. reflexivity. Qed.
Lemma step_sq prev r rs t c i : classify wb r <> CSQ ->
  scan_loop wb prev (r :: rs) (mkScan t SQ c i) =
  scan_loop wb prev rs (mkScan (tok_ext t (encode_rune r) (encode_rune r)) SQ (S c) (S i)).
Proof. intros H1. cbn [scan_loop s_tok s_state s_consumed s_idx]. destruct (classify wb r); try reflexivity; contradiction. Qed.
Lemma step_sq_close prev rs t c i :
  scan_loop wb prev (39%N :: rs) (mkScan t SQ c i) =
  scan_loop wb prev rs (mkScan (tok_ext t [] (encode_rune 39)) SInWord (S c) (S i)).
Proof. cbn [scan_loop s_tok s_state s_consumed s_idx]. rewrite class_39, tok_raw_add_ext. reflexivity. Qed.

(* runs *)
Lemma wordish_class r : wordish r -> classify wb r = CUnknown \/ (r = 32%N /\ classify wb r = CSpace).
Proof. intros [_ [H|H]]; [left; exact H|right; split; [exact H|subst r; apply class_32]]. Qed.

Lemma esc_runes_app a b : esc_runes (a ++ b) = esc_runes a ++ esc_runes b.
Proof. unfold esc_runes. apply flat_map_app. Qed.

Lemma esc_runes_plain r rs : (r =? 32)%N = false -> esc_runes (r :: rs) = r :: esc_runes rs.
Proof. intro H. unfold esc_runes. cbn [flat_map]. unfold esc1 at 1. rewrite H. reflexivity. Qed.
Lemma esc_runes_blank rs : esc_runes (32%N :: rs) = 92%N :: 32%N :: esc_runes rs.
Proof. reflexivity. Qed.
Lemma encode_runes_cons r rs : encode_runes (r :: rs) = encode_rune r ++ encode_runes rs.
Proof. reflexivity. Qed.

Lemma inword_run prev rs : Forall wordish rs -> forall tail t c i,
  scan_loop wb prev (esc_runes rs ++ tail) (mkScan t SInWord c i) =
  scan_loop wb prev tail (mkScan (tok_ext t (encode_runes rs) (encode_runes (esc_runes rs))) SInWord
                                 (c + length (esc_runes rs)) (i + length (esc_runes rs))).
Proof.
  induction 1 as [|r rs Hr Hrs IH]; intros tail t c i.
  - cbn. rewrite tok_ext_nil, !Nat.add_0_r. reflexivity.
  - destruct (wordish_class r Hr) as [Hc|[-> Hc]].
    + assert (Hne : (r =? 32)%N = false). { apply N.eqb_neq. intro E. subst r. rewrite class_32 in Hc. discriminate. }
      rewrite !esc_runes_plain by exact Hne. cbn [app length]. rewrite !encode_runes_cons.
      rewrite step_inword_plain by exact Hc. rewrite IH. rewrite tok_ext_ext.
      f_equal. f_equal; lia.
    + rewrite !esc_runes_blank. cbn [app length]. rewrite !encode_runes_cons.
      rewrite step_inword_esc, step_esc. rewrite IH. rewrite !tok_ext_ext.
      cbn [app]. f_equal. f_equal; lia.
Qed.

Lemma dq_run prev rs : Forall wordish rs -> forall tail t c i,
  scan_loop wb prev (rs ++ tail) (mkScan t SQE c i) =
  scan_loop wb prev tail (mkScan (tok_ext t (encode_runes rs) (encode_runes rs)) SQE (c + length rs) (i + length rs)).
Proof.
  induction 1 as [|r rs Hr Hrs IH]; intros tail t c i.
  - cbn. rewrite tok_ext_nil, !Nat.add_0_r. reflexivity.
  - cbn [app]. rewrite step_dq by (destruct (wordish_class r Hr) as [Hc|[_ Hc]]; rewrite Hc; discriminate).
    rewrite IH, tok_ext_ext. cbn [length]. rewrite !encode_runes_cons. f_equal. f_equal; lia.
Qed.
Lemma sq_run prev rs : Forall wordish rs -> forall tail t c i,
  scan_loop wb prev (rs ++ tail) (mkScan t SQ c i) =
  scan_loop wb prev tail (mkScan (tok_ext t (encode_runes rs) (encode_runes rs)) SQ (c + length rs) (i + length rs)).
Proof.
  induction 1 as [|r rs Hr Hrs IH]; intros tail t c i.
  - cbn. rewrite tok_ext_nil, !Nat.add_0_r. reflexivity.
  - cbn [app]. rewrite step_sq by (destruct (wordish_class r Hr) as [Hc|[_ Hc]]; rewrite Hc; discriminate).
    rewrite IH, tok_ext_ext. cbn [length]. rewrite !encode_runes_cons. f_equal. f_equal; lia.
Qed.

(* the runes of a value quoted in one of the three styles (Model/Split.v requote) *)
Definition item_runes (st : lstate) (rs : list N) : list N :=
  match st with
  | SQE => 34%N :: rs ++ [34%N]
  | SQ => 39%N :: rs ++ [39%N]
  | _ => esc_runes rs
  end.

(* the end of a word: a blank (left unread) or the end of the text *)
Definition word_end (tail : list N) : Prop := tail = [] \/ exists rest, tail = 32%N :: rest.

Lemma finish_inword prev t qs c i tail : t_raw t = encode_runes qs -> Forall scalar qs -> word_end tail ->
  scan_loop wb prev tail (mkScan t SInWord c i) = RTok t SInWord tail i.
Proof.
  intros Hraw Hqs [->|[rest ->]].
  - cbn [scan_loop s_tok s_state s_consumed s_idx]. f_equal.
    destruct t as [ty v raw ix st wi]. cbn [t_raw] in Hraw. subst raw. unfold tok_raw_dropl, tok_raw_add. cbn [t_type t_value t_raw t_index t_state t_wbindex].
    rewrite drop_last_rune_snoc; [reflexivity|exact Hqs|apply scalar_small; lia].
  - cbn [scan_loop s_tok s_state s_consumed s_idx]. rewrite class_32. f_equal; [|lia].
    destruct t as [ty v raw ix st wi]. cbn [t_raw] in Hraw. subst raw. unfold tok_raw_dropl, tok_raw_add. cbn [t_type t_value t_raw t_index t_state t_wbindex].
    rewrite drop_last_rune_snoc; [reflexivity|exact Hqs|apply scalar_small; lia].
Qed.

Lemma skip_blanks prev k : forall rs c i,
  scan_loop wb prev (repeat 32%N k ++ rs) (mkScan tok0 SStart c i) = scan_loop wb prev rs (mkScan tok0 SStart (c + k) (i + k)).
Proof.
  induction k as [|k IH]; intros rs c i.
  - cbn [repeat app]. rewrite !Nat.add_0_r. reflexivity.
  - cbn [repeat app]. cbn [scan_loop s_tok s_state s_consumed s_idx]. rewrite class_32.
    change (tok_raw_dropl (tok_raw_add tok0 32)) with tok0. rewrite IH. f_equal. f_equal; lia.
Qed.

Lemma wordish_scalar rs : Forall wordish rs -> Forall scalar rs.
Proof. intro H. eapply Forall_impl; [|exact H]. intros r [Hs _]. exact Hs. Qed.

Lemma esc_runes_scalar rs : Forall scalar rs -> Forall scalar (esc_runes rs).
Proof.
  induction 1 as [|r rs Hr Hrs IH]; [constructor|].
  unfold esc_runes. cbn [flat_map]. apply Forall_app. split; [|exact IH].
  unfold esc1. destruct (r =? 32)%N.
  - apply Forall_cons; [apply scalar_small; lia|]. apply Forall_cons; [apply scalar_small; lia|]. apply Forall_nil.
  - apply Forall_cons; [exact Hr|apply Forall_nil].
Qed.
Lemma item_runes_scalar st rs : Forall scalar rs -> Forall scalar (item_runes st rs).
Proof.
  intro H. assert (Hq : forall q, (q < 128)%N -> Forall scalar (q :: rs ++ [q])).
  { intros q Hq. constructor; [apply scalar_small; exact Hq|]. apply Forall_app. split; [exact H|]. apply Forall_cons; [apply scalar_small; exact Hq|apply Forall_nil]. }
  destruct st; cbn [item_runes]; try (apply esc_runes_scalar; exact H); apply Hq; lia.
Qed.

(* ONE quoted value, anywhere: any number of blanks in front, any context before, a blank or the end after *)
Definition word_tok (st : lstate) (rs : list N) (i : nat) : token :=
  mkTok TWord (encode_runes rs) (encode_runes (item_runes st rs)) i SStart 0.

Lemma word_scan_plain prev rs c i tail : Forall wordish rs -> esc_runes rs <> [] -> word_end tail ->
  scan_loop wb prev (esc_runes rs ++ tail) (mkScan tok0 SStart c i) =
  RTok (mkTok TWord (encode_runes rs) (encode_runes (esc_runes rs)) i SStart 0) SInWord tail (i + length (esc_runes rs)).
Proof.
  intros Hrs Hne Hend. pose proof (wordish_scalar rs Hrs) as Hsc.
  assert (Hfin : forall t c' i', t_raw t = encode_runes (esc_runes rs) ->
            scan_loop wb prev tail (mkScan t SInWord c' i') = RTok t SInWord tail i').
  { intros t c' i' Hraw. apply (finish_inword prev t (esc_runes rs)); [exact Hraw|apply esc_runes_scalar; exact Hsc|exact Hend]. }
  destruct rs as [|r rs]; [exfalso; apply Hne; reflexivity|].
  inversion Hrs as [|r' rs' Hr Hrs']; subst r' rs'.
  destruct (wordish_class r Hr) as [Hc|[-> Hc]].
  - assert (Hn32 : (r =? 32)%N = false) by (apply N.eqb_neq; intro E; subst r; rewrite class_32 in Hc; discriminate).
    rewrite !esc_runes_plain in * by exact Hn32. cbn [app length].
    cbn [scan_loop s_tok s_state s_consumed s_idx]. rewrite Hc.
    rewrite inword_run by exact Hrs'. rewrite Hfin.
    + unfold tok_ext. cbn [t_type t_value t_raw t_index t_state t_wbindex tok_add tok_type tok_index tok_raw_add tok0 app].
      rewrite !encode_runes_cons. f_equal; [f_equal; lia|lia].
    + cbn [t_raw tok_ext tok_add tok_type tok_index tok_raw_add tok0 app]. rewrite !encode_runes_cons. reflexivity.
  - rewrite !esc_runes_blank in *. cbn [app length].
    cbn [scan_loop s_tok s_state s_consumed s_idx]. rewrite class_92.
    cbn [scan_loop s_tok s_state s_consumed s_idx].
    rewrite inword_run by exact Hrs'. rewrite Hfin.
    + unfold tok_ext. cbn [t_type t_value t_raw t_index t_state t_wbindex tok_add tok_type tok_index tok_raw_add tok0 app].
      rewrite !encode_runes_cons. cbn [app]. f_equal; [f_equal; lia|lia].
    + cbn [t_raw tok_ext tok_add tok_type tok_index tok_raw_add tok0 app]. rewrite !encode_runes_cons. reflexivity.
Qed.

Theorem word_scan prev st rs k c i tail : Forall wordish rs -> item_runes st rs <> [] -> word_end tail ->
  scan_loop wb prev (repeat 32%N k ++ item_runes st rs ++ tail) (mkScan tok0 SStart c i) =
  RTok (word_tok st rs (i + k)) SInWord tail (i + k + length (item_runes st rs)).
Proof.
  intros Hrs Hne Hend. rewrite skip_blanks. pose proof (wordish_scalar rs Hrs) as Hsc.
  assert (Hfin : forall t c' i', t_raw t = encode_runes (item_runes st rs) ->
            scan_loop wb prev tail (mkScan t SInWord c' i') = RTok t SInWord tail i').
  { intros t c' i' Hraw. apply (finish_inword prev t (item_runes st rs)); [exact Hraw|apply item_runes_scalar; exact Hsc|exact Hend]. }
  destruct st; cbn [item_runes] in *; try (apply word_scan_plain; assumption).
  - (* double quotes *)
    cbn [app]. cbn [scan_loop s_tok s_state s_consumed s_idx]. rewrite class_34.
    rewrite <- app_assoc. rewrite dq_run by exact Hrs. cbn [app]. rewrite step_dq_close. rewrite Hfin.
    + unfold word_tok, tok_ext. cbn [item_runes t_type t_value t_raw t_index t_state t_wbindex tok_add tok_type tok_index tok_wbi tok_raw_add tok0 app length].
      rewrite app_nil_r, encode_runes_cons, encode_runes_app, app_length. cbn [length app]. rewrite <- !app_assoc.
      f_equal; [f_equal; lia|lia].
    + cbn [t_raw tok_ext tok_add tok_type tok_index tok_wbi tok_raw_add tok0 app]. rewrite encode_runes_cons, encode_runes_app, <- !app_assoc. reflexivity.
  - (* single quotes *)
    cbn [app]. cbn [scan_loop s_tok s_state s_consumed s_idx]. rewrite class_39.
    rewrite <- app_assoc. rewrite sq_run by exact Hrs. cbn [app]. rewrite step_sq_close. rewrite Hfin.
    + unfold word_tok, tok_ext. cbn [item_runes t_type t_value t_raw t_index t_state t_wbindex tok_add tok_type tok_index tok_wbi tok_raw_add tok0 app length].
      rewrite app_nil_r, encode_runes_cons, encode_runes_app, app_length. cbn [length app]. rewrite <- !app_assoc.
      f_equal; [f_equal; lia|lia].
    + cbn [t_raw tok_ext tok_add tok_type tok_index tok_wbi tok_raw_add tok0 app]. rewrite encode_runes_cons, encode_runes_app, <- !app_assoc. reflexivity.
Qed.

(* ---------- a line of quoted values ---------- *)
(* an item: k blanks, then a value quoted in style st *)
Definition item := (nat * lstate * list N)%type.
Definition it_runes (it : item) : list N := let '(k, st, rs) := it in repeat 32%N k ++ item_runes st rs.
Definition it_len (it : item) : nat := length (it_runes it).
Definition good_item (it : item) : Prop := let '(k, st, rs) := it in Forall wordish rs /\ item_runes st rs <> [].
Definition separated (it : item) : Prop := let '(k, _, _) := it in 1 <= k.
Definition line_runes (its : list item) : list N := flat_map it_runes its.

(* the tokens of a line that starts at rune index i *)
Fixpoint toks (i : nat) (its : list item) : list token :=
  match its with
  | [] => []
  | (k, st, rs) :: its' => with_state (word_tok st rs (i + k)) SInWord :: toks (i + k + length (item_runes st rs)) its'
  end.
(* what follows the last item: nothing, or blanks (then the lexer adds an empty word for the cursor) *)
Definition trail_toks (j n : nat) : list token :=
  match n with
  | 0 => if Nat.eqb j 0 then [mkTok TWord [] [] 0 SStart 0] else []
  | S _ => [mkTok TWord [] [] (j + n) SStart 0]
  end.

Lemma lex_trail fuel prev j n : 2 <= fuel -> (prev <> SWB) ->
  lex_all wb fuel prev (repeat 32%N n) j = trail_toks j n.
Proof.
  intros Hf Hp. destruct fuel as [|[|f]]; try lia. destruct n as [|n].
  - cbn [repeat lex_all scan_loop s_tok s_state s_consumed s_idx trail_toks].
    destruct (Nat.eqb j 0) eqn:E.
    + apply Nat.eqb_eq in E. subst j. cbn. reflexivity.
    + assert (Hb : (match prev with SWB => true | _ => false end || (1 <? 1)) = false) by (destruct prev; try reflexivity; contradiction).
      rewrite Hb. reflexivity.
  - cbn [lex_all]. rewrite <- (app_nil_r (repeat 32%N (S n))). rewrite skip_blanks.
    cbn [scan_loop s_tok s_state s_consumed s_idx trail_toks].
    assert (E0 : Nat.eqb (j + S n) 0 = false) by (apply Nat.eqb_neq; lia). rewrite E0.
    assert (E1 : (1 <? S (0 + S n)) = true) by (apply Nat.ltb_lt; lia). rewrite E1, Bool.orb_true_r.
    change (tok_raw_dropl (tok_raw_add tok0 0)) with tok0.
    cbn [tok_type tok_index with_state t_type t_value t_raw t_index t_state t_wbindex tok0].
    cbn [scan_loop s_tok s_state s_consumed s_idx]. rewrite E0. cbn. reflexivity.
Qed.

Lemma it_runes_head_blank it rest : separated it -> word_end (it_runes it ++ rest).
Proof. destruct it as [[k st] rs]. cbn [separated it_runes]. intro H. destruct k as [|k]; [lia|]. right. cbn [repeat app]. eexists. reflexivity. Qed.

Definition prev_after (its : list item) (prev : lstate) : lstate := match its with [] => prev | _ => SInWord end.

(* a line followed by anything that starts with a blank (or by nothing) *)
Theorem lex_items_gen its rest : Forall good_item its -> Forall separated (tl its) -> (its <> [] -> word_end rest) ->
  forall fuel prev i,
  lex_all wb (length its + fuel) prev (line_runes its ++ rest) i =
  toks i its ++ lex_all wb fuel (prev_after its prev) rest (i + length (line_runes its)).
Proof.
  induction its as [|[[k st] rs] its IH]; intros Hg Hs Hrest fuel prev i.
  - cbn [line_runes flat_map app toks length prev_after]. rewrite Nat.add_0_r. reflexivity.
  - inversion Hg as [|it its' Hgi Hg']; subst it its'. destruct Hgi as [Hrs Hne]. cbn [tl] in Hs.
    cbn [length Nat.add]. cbn [line_runes flat_map it_runes]. fold (line_runes its). rewrite <- !app_assoc. cbn [lex_all].
    assert (Hend : word_end (line_runes its ++ rest)).
    { destruct its as [|it2 its2].
      - cbn [line_runes flat_map app]. apply Hrest. discriminate.
      - inversion Hs as [|x l Hs2 Hs']; subst x l. cbn [line_runes flat_map]. rewrite <- app_assoc. apply it_runes_head_blank. exact Hs2. }
    rewrite (word_scan prev st rs k 0 i _ Hrs Hne Hend). cbn [with_state word_tok t_type toks prev_after].
    f_equal. rewrite IH.
    + rewrite !app_length, repeat_length. cbn [app]. f_equal. f_equal.
      replace (prev_after its SInWord) with SInWord by (destruct its; reflexivity). f_equal. lia.
    + exact Hg'.
    + destruct its; [constructor|]. cbn [tl]. inversion Hs; assumption.
    + intros _. apply Hrest. discriminate.
Qed.

Theorem lex_items its : Forall good_item its -> Forall separated (tl its) -> forall fuel prev i n,
  length its + 2 <= fuel -> prev <> SWB -> (its <> [] -> n = 0 \/ 1 <= n) ->
  lex_all wb fuel prev (line_runes its ++ repeat 32%N n) i = toks i its ++ trail_toks (i + length (line_runes its)) n.
Proof.
  intros Hg Hs fuel prev i n Hf Hp Hn.
  replace fuel with (length its + (fuel - length its)) by lia.
  rewrite lex_items_gen; [|exact Hg|exact Hs|].
  - f_equal. apply lex_trail; [lia|]. destruct its; cbn [prev_after]; [exact Hp|discriminate].
  - intro Hne. destruct (Hn Hne) as [->|H1]; [left; reflexivity|right]. destruct n; [lia|]. cbn [repeat]. eexists. reflexivity.
Qed.

(* a word whose quote is still open at the end of the text: the token carries the quote state *)
Definition open_q (st : lstate) : N := match st with SQ => 39%N | _ => 34%N end.
Lemma open_scan prev st u k c i : (st = SQE \/ st = SQ) -> Forall wordish u ->
  scan_loop wb prev (repeat 32%N k ++ open_q st :: u) (mkScan tok0 SStart c i) =
  RTok (mkTok TWord (encode_runes u) (encode_runes (open_q st :: u)) (i + k) SStart 0) st [] (i + k + S (length u)).
Proof.
  intros Hst Hu. rewrite skip_blanks. pose proof (wordish_scalar u Hu) as Hsc.
  assert (Hq : scalar (open_q st)) by (destruct st; apply scalar_small; cbn; lia).
  assert (Hdrop : forall ty v ix s0 wi, tok_raw_dropl (tok_raw_add (mkTok ty v (encode_runes (open_q st :: u)) ix s0 wi) 0) = mkTok ty v (encode_runes (open_q st :: u)) ix s0 wi).
  { intros. unfold tok_raw_dropl, tok_raw_add. cbn [t_type t_value t_raw t_index t_state t_wbindex].
    rewrite drop_last_rune_snoc; [reflexivity|constructor; assumption|apply scalar_small; lia]. }
  destruct Hst as [-> | ->]; cbn [open_q] in *.
  - cbn [scan_loop s_tok s_state s_consumed s_idx]. rewrite class_34.
    rewrite <- (app_nil_r u) at 1. rewrite dq_run by exact Hu.
    cbn [scan_loop s_tok s_state s_consumed s_idx]. unfold tok_ext.
    cbn [t_type t_value t_raw t_index t_state t_wbindex tok_add tok_type tok_index tok_wbi tok_raw_add tok0 app length].
    rewrite <- encode_runes_cons. rewrite Hdrop. f_equal; [f_equal; lia|lia].
  - cbn [scan_loop s_tok s_state s_consumed s_idx]. rewrite class_39.
    rewrite <- (app_nil_r u) at 1. rewrite sq_run by exact Hu.
    cbn [scan_loop s_tok s_state s_consumed s_idx]. unfold tok_ext.
    cbn [t_type t_value t_raw t_index t_state t_wbindex tok_add tok_type tok_index tok_wbi tok_raw_add tok0 app length].
    rewrite <- encode_runes_cons. rewrite Hdrop. f_equal; [f_equal; lia|lia].
Qed.

Definition open_tok (st : lstate) (u : list N) (i : nat) : token :=
  mkTok TWord (encode_runes u) (encode_runes (open_q st :: u)) i st 0.

Theorem lex_open its k st u : Forall good_item its -> Forall separated (tl its) -> (its <> [] -> 1 <= k) ->
  (st = SQE \/ st = SQ) -> Forall wordish u -> forall fuel prev i, length its + 2 <= fuel ->
  lex_all wb fuel prev (line_runes its ++ repeat 32%N k ++ open_q st :: u) i =
  toks i its ++ [open_tok st u (i + length (line_runes its) + k)].
Proof.
  intros Hg Hs Hk Hst Hu fuel prev i Hf.
  replace fuel with (length its + (fuel - length its)) by lia.
  rewrite lex_items_gen; [|exact Hg|exact Hs|].
  - f_equal. destruct (fuel - length its) as [|[|f]] eqn:Ef; try lia. cbn [lex_all].
    rewrite open_scan by assumption. cbn [with_state t_type t_value t_raw t_index t_wbindex].
    unfold open_tok. f_equal.
    cbn [scan_loop s_tok s_state s_consumed s_idx].
    assert (E0 : Nat.eqb (i + length (line_runes its) + k + S (length u)) 0 = false) by (apply Nat.eqb_neq; lia). rewrite E0.
    destruct Hst as [-> | ->]; reflexivity.
  - intro Hne. specialize (Hk Hne). right. destruct k; [lia|]. cbn [repeat app]. eexists. reflexivity.
Qed.
End Scan.

(* ---------- from runes to the bytes Action.split produces ---------- *)
Lemma flat_map_ext_Forall {A B} (f g : A -> list B) (P : A -> Prop) l :
  Forall P l -> (forall a, P a -> f a = g a) -> flat_map f l = flat_map g l.
Proof. intros H Hfg. induction H as [|a l Ha Hl IH]; [reflexivity|]. cbn [flat_map]. rewrite IH, (Hfg a Ha). reflexivity. Qed.

Lemma wordish_not wb r q : wordish wb r -> classify wb q <> CUnknown -> q <> 32%N -> (r =? q)%N = false.
Proof. intros [_ [H|H]] Hq Hq'; apply N.eqb_neq; intro E; congruence. Qed.

Lemma requote_runes wb st rs : Forall (wordish wb) rs -> requote st (encode_runes rs) = encode_runes (item_runes st rs).
Proof.
  intro H.
  assert (Hplain : replace_byte (byte 32) (B [92; 32]) (encode_runes rs) = encode_runes (esc_runes rs)).
  { rewrite replace_byte_runes by (vm_compute; reflexivity). change (bv (byte 32)) with 32%N. clear H.
    induction rs as [|r rs IH]; [reflexivity|]. cbn [flat_map]. rewrite IH. unfold esc_runes. cbn [flat_map]. rewrite encode_runes_app.
    f_equal. unfold esc1. destruct (r =? 32)%N; [reflexivity|]. cbn. rewrite app_nil_r. reflexivity. }
  destruct st; cbn [requote item_runes]; try exact Hplain.
  - rewrite replace_byte_runes by (vm_compute; reflexivity). change (bv (byte 34)) with 34%N.
    rewrite (flat_map_ext_Forall _ encode_rune (wordish wb) rs H).
    + rewrite encode_runes_cons, encode_runes_app. reflexivity.
    + intros r Hr. rewrite (wordish_not wb r 34 Hr); [reflexivity|rewrite class_34; discriminate|lia].
  - rewrite replace_byte_runes by (vm_compute; reflexivity). change (bv (byte 39)) with 39%N.
    rewrite (flat_map_ext_Forall _ encode_rune (wordish wb) rs H).
    + rewrite encode_runes_cons, encode_runes_app. reflexivity.
    + intros r Hr. rewrite (wordish_not wb r 39 Hr); [reflexivity|rewrite class_39; discriminate|lia].
Qed.

(* the text of a line: k blanks and the quoted value, item after item *)
Definition it_bytes (it : item) : str := let '(k, st, rs) := it in repeat (byte 32) k ++ requote st (encode_runes rs).
Definition line_bytes (its : list item) : str := flat_map it_bytes its.

Lemma encode_blanks k : encode_runes (repeat 32%N k) = repeat (byte 32) k.
Proof. induction k as [|k IH]; [reflexivity|]. cbn [repeat]. rewrite encode_runes_cons, IH. reflexivity. Qed.

Lemma line_bytes_runes wb its : Forall (good_item wb) its -> line_bytes its = encode_runes (line_runes its).
Proof.
  induction 1 as [|[[k st] rs] its [Hrs _] Hg IH]; [reflexivity|].
  unfold line_bytes, line_runes in *. cbn [flat_map it_bytes it_runes]. rewrite IH, !encode_runes_app, encode_blanks, (requote_runes wb st rs Hrs), <- app_assoc. reflexivity.
Qed.

Lemma line_runes_scalar wb its : Forall (good_item wb) its -> Forall scalar (line_runes its).
Proof.
  induction 1 as [|[[k st] rs] its [Hrs _] Hg IH]; [constructor|].
  unfold line_runes in *. cbn [flat_map it_runes]. apply Forall_app. split; [|exact IH]. apply Forall_app. split.
  - apply Forall_forall. intros x Hx. apply repeat_spec in Hx. subst x. apply scalar_small. lia.
  - apply item_runes_scalar. apply (wordish_scalar wb). exact Hrs.
Qed.

Lemma line_runes_length wb its : Forall (good_item wb) its -> length its <= length (line_runes its).
Proof.
  induction 1 as [|[[k st] rs] its [_ Hne] Hg IH]; [cbn; lia|].
  unfold line_runes in *. cbn [flat_map it_runes length]. rewrite !app_length.
  destruct (item_runes st rs); [contradiction|cbn [length]; lia].
Qed.

(* C17, re-reading: a line of quoted values, read by shlex.Split, is those values, token by token *)
Theorem relex_line wb its n : Forall (good_item wb) its -> Forall separated (tl its) -> (its <> [] -> n = 0 \/ 1 <= n) ->
  shlex_split wb (line_bytes its ++ repeat (byte 32) n) = toks 0 its ++ trail_toks (length (line_runes its)) n.
Proof.
  intros Hg Hs Hn. unfold shlex_split. cbv zeta.
  assert (Hr : runes (line_bytes its ++ repeat (byte 32) n) = line_runes its ++ repeat 32%N n).
  { rewrite (line_bytes_runes wb its Hg), <- encode_blanks, <- encode_runes_app. apply runes_encode.
    apply Forall_app. split; [apply (line_runes_scalar wb); exact Hg|].
    apply Forall_forall. intros x Hx. apply repeat_spec in Hx. subst x. apply scalar_small. lia. }
  rewrite Hr. rewrite (lex_items wb its Hg Hs); [reflexivity| |discriminate|exact Hn].
  rewrite app_length. pose proof (line_runes_length wb its Hg). lia.
Qed.

Lemma toks_values i its : map t_value (toks i its) = map (fun it : item => encode_runes (snd it)) its.
Proof.
  revert i. induction its as [|[[k st] rs] its IH]; intro i; [reflexivity|].
  cbn [toks map with_state word_tok t_value snd]. rewrite IH. reflexivity.
Qed.

(* ---------- Words(): no merging on ASCII lines ---------- *)
Fixpoint noadj (ts : list token) : Prop :=
  match ts with
  | a :: (b :: _) as tl => adjoins a b = false /\ noadj tl
  | _ => True
  end.

Lemma words_acc_noadj ts : forall prev acc,
  match prev with Some p => noadj (p :: ts) | None => noadj ts end -> words_acc prev ts acc = rev acc ++ ts.
Proof.
  induction ts as [|t ts IH]; intros prev acc H.
  - cbn. rewrite app_nil_r. reflexivity.
  - assert (Ht : noadj (t :: ts)) by (destruct prev; [destruct H as [_ H]; exact H|exact H]).
    assert (Hnext : words_acc (Some t) ts (t :: acc) = rev acc ++ t :: ts).
    { rewrite IH by exact Ht. cbn [rev]. rewrite <- app_assoc. reflexivity. }
    cbn [words_acc]. destruct prev as [p|]; [|exact Hnext]. destruct acc as [|w acc']; [exact Hnext|].
    destruct H as [Hadj _]. rewrite Hadj. exact Hnext.
Qed.
Lemma words_noadj ts : noadj ts -> words ts = ts.
Proof. intro H. unfold words. rewrite words_acc_noadj by exact H. reflexivity. Qed.

Lemma adjoins_apart a b : t_index a + length (t_raw a) < t_index b -> adjoins a b = false.
Proof.
  intro H. unfold adjoins. apply Bool.orb_false_iff. split; apply Nat.eqb_neq; lia.
Qed.

Definition ascii_runes (rs : list N) : Prop := Forall (fun r => (r < 128)%N) rs.
Lemma encode_ascii_length rs : ascii_runes rs -> length (encode_runes rs) = length rs.
Proof.
  induction 1 as [|r rs Hr Hrs IH]; [reflexivity|]. rewrite encode_runes_cons, app_length, IH.
  unfold encode_rune. apply N.ltb_lt in Hr. rewrite Hr. reflexivity.
Qed.
Lemma item_runes_ascii st rs : ascii_runes rs -> ascii_runes (item_runes st rs).
Proof.
  intro H. assert (Hq : forall q, (q < 128)%N -> ascii_runes (q :: rs ++ [q])).
  { intros q Hq. constructor; [exact Hq|]. apply Forall_app. split; [exact H|]. apply Forall_cons; [exact Hq|apply Forall_nil]. }
  assert (He : ascii_runes (esc_runes rs)).
  { clear Hq. induction H as [|r rs Hr Hrs IH]; [constructor|]. unfold esc_runes. cbn [flat_map]. apply Forall_app. split; [|exact IH].
    unfold esc1. destruct (r =? 32)%N.
    - apply Forall_cons; [lia|]. apply Forall_cons; [lia|apply Forall_nil].
    - apply Forall_cons; [exact Hr|apply Forall_nil]. }
  destruct st; cbn [item_runes]; try exact He; apply Hq; lia.
Qed.

Definition ascii_item (it : item) : Prop := ascii_runes (snd it).

(* the tokens of an ASCII line, possibly followed by one more token that starts after a blank *)
Lemma toks_noadj_then wb its : Forall (good_item wb) its -> Forall ascii_item its -> Forall separated (tl its) ->
  forall i (final : list token),
  match final with
  | [] => True
  | f :: more => (its <> [] -> i + length (line_runes its) < t_index f) /\ more = []
  end ->
  noadj (toks i its ++ final).
Proof.
  induction its as [|[[k st] rs] its IH]; intros Hg Ha Hs i final Hfin.
  - cbn [toks app]. destruct final as [|f more]; [exact I|]. destruct Hfin as (_ & ->). exact I.
  - inversion Hg as [|x l Hgi Hg']; subst x l. inversion Ha as [|x l Hai Ha']; subst x l. cbn [tl] in Hs.
    assert (Hs' : Forall separated (tl its)) by (destruct its; [constructor|inversion Hs; assumption]).
    assert (Hlen : length (encode_runes (item_runes st rs)) = length (item_runes st rs)) by (apply encode_ascii_length, item_runes_ascii; exact Hai).
    assert (Hlt' : forall f, (i + length (line_runes ((k, st, rs) :: its)) < t_index f) -> i + k + length (item_runes st rs) + length (line_runes its) < t_index f).
    { intros f Hlt. unfold line_runes in Hlt. cbn [flat_map it_runes] in Hlt. rewrite !app_length, repeat_length in Hlt. fold (line_runes its) in Hlt. lia. }
    cbn [toks app].
    assert (Hrest : noadj (toks (i + k + length (item_runes st rs)) its ++ final)).
    { apply IH; try assumption. destruct final as [|f more]; [exact I|]. destruct Hfin as (Hlt & Hm). split; [|exact Hm].
      intros _. apply Hlt'. apply Hlt. discriminate. }
    destruct its as [|[[k2 st2] rs2] its2].
    + cbn [toks app] in *. destruct final as [|f more]; [exact I|]. destruct Hfin as (Hlt & ->). split; [|exact I].
      apply adjoins_apart. cbn [with_state word_tok t_index t_raw]. rewrite Hlen.
      specialize (Hlt' f (Hlt ltac:(discriminate))). cbn [line_runes flat_map length] in Hlt'. lia.
    + cbn [toks app] in *. split; [|exact Hrest].
      apply adjoins_apart. cbn [with_state word_tok t_index t_raw]. rewrite Hlen.
      inversion Hs as [|x l Hs2 _]; subst x l. cbn [separated] in Hs2. lia.
Qed.

Lemma toks_app i a b : toks i (a ++ b) = toks i a ++ toks (i + length (line_runes a)) b.
Proof.
  revert i. induction a as [|[[k st] rs] a IH]; intro i.
  - cbn [app toks line_runes flat_map length]. rewrite Nat.add_0_r. reflexivity.
  - cbn [app toks]. rewrite IH. unfold line_runes. cbn [flat_map it_runes]. rewrite !app_length, repeat_length. cbn [app].
    f_equal. f_equal. f_equal. lia.
Qed.
Lemma line_runes_app a b : line_runes (a ++ b) = line_runes a ++ line_runes b.
Proof. unfold line_runes. apply flat_map_app. Qed.
Lemma line_bytes_app a b : line_bytes (a ++ b) = line_bytes a ++ line_bytes b.
Proof. unfold line_bytes. apply flat_map_app. Qed.

(* ---------- Action.split on such a line ---------- *)
Definition values (its : list item) : list str := map (fun it : item => encode_runes (snd it)) its.

(* the word under the cursor: an open double or single quote and what was typed after it, an
   unquoted word, or nothing yet *)
Definition cur_runes (st : lstate) (u : list N) : list N :=
  match st with SQE => 34%N :: u | SQ => 39%N :: u | _ => esc_runes u end.
Definition cur_ok (st : lstate) (u : list N) : Prop :=
  match st with SQE | SQ => True | SInWord => u <> [] | SStart => u = [] | _ => False end.
Definition cur_tok (st : lstate) (u : list N) (i : nat) : token :=
  mkTok TWord (encode_runes u) (encode_runes (cur_runes st u)) i st 0.

Lemma esc_runes_nonempty u : u <> [] -> esc_runes u <> [].
Proof. destruct u as [|r u]; [contradiction|]. intros _. unfold esc_runes. cbn [flat_map]. unfold esc1. destruct (r =? 32)%N; discriminate. Qed.

Lemma lex_current wb its k st u : Forall (good_item wb) its -> Forall separated (tl its) -> (its <> [] -> 1 <= k) ->
  cur_ok st u -> Forall (wordish wb) u ->
  lex_all wb (S (S (length (line_runes its ++ repeat 32%N k ++ cur_runes st u)))) SStart (line_runes its ++ repeat 32%N k ++ cur_runes st u) 0 =
  toks 0 its ++ [cur_tok st u (length (line_runes its) + k)].
Proof.
  intros Hg Hs Hk Hok Hu.
  assert (Hfuel : length its + 2 <= S (S (length (line_runes its ++ repeat 32%N k ++ cur_runes st u)))).
  { rewrite app_length. pose proof (line_runes_length wb its Hg). lia. }
  destruct st; cbn [cur_ok] in Hok; try contradiction.
  - (* nothing typed yet *) subst u. cbn [cur_runes esc_runes flat_map] in *. rewrite app_nil_r in *.
    rewrite (lex_items wb its Hg Hs); [|exact Hfuel|discriminate|].
    + f_equal. cbn [Nat.add]. unfold trail_toks, cur_tok. destruct k as [|k'].
      * destruct its as [|it its']; [reflexivity|]. exfalso. specialize (Hk ltac:(discriminate)). lia.
      * reflexivity.
    + intro Hne. specialize (Hk Hne). right. exact Hk.
  - (* an unquoted word *)
    cbn [cur_runes] in *.
    assert (Hg2 : Forall (good_item wb) (its ++ [(k, SInWord, u)])).
    { apply Forall_app. split; [exact Hg|]. apply Forall_cons; [|apply Forall_nil]. split; [exact Hu|]. cbn [item_runes]. apply esc_runes_nonempty. exact Hok. }
    assert (Hs2 : Forall separated (tl (its ++ [(k, SInWord, u)]))).
    { destruct its as [|it its']; [constructor|]. cbn [app tl] in *. apply Forall_app. split; [exact Hs|].
      apply Forall_cons; [|apply Forall_nil]. cbn [separated]. apply Hk. discriminate. }
    pose proof (lex_items wb _ Hg2 Hs2 (S (S (length (line_runes its ++ repeat 32%N k ++ esc_runes u)))) SStart 0 0) as H.
    rewrite line_runes_app in H. cbn [line_runes flat_map it_runes item_runes repeat] in H. fold (line_runes its) in H. rewrite !app_nil_r in H.
    rewrite H; [| |discriminate|intros _; left; reflexivity].
    + rewrite toks_app. cbn [toks Nat.add]. unfold trail_toks.
      assert (E0 : Nat.eqb (length (line_runes its ++ repeat 32%N k ++ esc_runes u)) 0 = false).
      { apply Nat.eqb_neq. rewrite !app_length. pose proof (esc_runes_nonempty u Hok). destruct (esc_runes u); [contradiction|cbn [length]; lia]. }
      rewrite E0, app_nil_r. reflexivity.
    + pose proof (line_runes_length wb its Hg) as Hl. pose proof (esc_runes_nonempty u Hok) as Hn.
      rewrite !app_length. cbn [length]. destruct (esc_runes u); [contradiction|cbn [length]; lia].
  - (* an open double quote *) apply (lex_open wb its k SQE u); auto.
  - (* an open single quote *) apply (lex_open wb its k SQ u); auto.
Qed.

Lemma split_context_tokens wb text ts cur : shlex_split wb text = ts ++ [cur] -> noadj (ts ++ [cur]) ->
  split_context true false wb text =
  mkSplit (map t_value ts) (t_value cur) (prefix_of true text (t_index cur)) (t_state cur) false.
Proof.
  intros Hlex Hna. unfold split_context. rewrite Hlex. cbv zeta. cbn [andb].
  rewrite (words_noadj _ Hna). unfold current_token. rewrite !last_last.
  rewrite map_app. cbn [map].
  assert (Hl : match map t_value ts ++ [t_value cur] with [] => [[]] | l => l end = map t_value ts ++ [t_value cur])
    by (destruct (map t_value ts); reflexivity).
  rewrite Hl, last_last, removelast_last. reflexivity.
Qed.

Section SplitLine.
Variable wb : str.
Variables (its : list item) (k : nat) (st : lstate) (u : list N).
Hypothesis Hg : Forall (good_item wb) its.
Hypothesis Ha : Forall ascii_item its.
Hypothesis Hs : Forall separated (tl its).
Hypothesis Hk : its <> [] -> 1 <= k.
Hypothesis Hok : cur_ok st u.
Hypothesis Hu : Forall (wordish wb) u.

(* the typed text: a line of quoted words, blanks, and the word under the cursor *)
Definition typed : str := line_bytes its ++ repeat (byte 32) k ++ encode_runes (cur_runes st u).

Lemma cur_runes_scalar : Forall scalar (cur_runes st u).
Proof.
  pose proof (wordish_scalar wb u Hu) as Hsc.
  destruct st; cbn [cur_runes]; try (apply esc_runes_scalar; exact Hsc); constructor; try exact Hsc; apply scalar_small; lia.
Qed.

Lemma typed_runes : runes typed = line_runes its ++ repeat 32%N k ++ cur_runes st u.
Proof.
  unfold typed. rewrite (line_bytes_runes wb its Hg), <- encode_blanks, <- !encode_runes_app. apply runes_encode.
  apply Forall_app. split; [apply (line_runes_scalar wb); exact Hg|]. apply Forall_app. split; [|apply cur_runes_scalar].
  apply Forall_forall. intros x Hx. apply repeat_spec in Hx. subst x. apply scalar_small. lia.
Qed.

(* what Split hands to the wrapped action, and the prefix it keeps *)
Theorem split_context_line :
  split_context true false wb typed =
  mkSplit (values its) (encode_runes u) (line_bytes its ++ repeat (byte 32) k) st false.
Proof.
  assert (Hlex : shlex_split wb typed = toks 0 its ++ [cur_tok st u (length (line_runes its) + k)]).
  { unfold shlex_split. cbv zeta. rewrite typed_runes. apply lex_current; assumption. }
  rewrite (split_context_tokens wb typed _ _ Hlex).
  - rewrite toks_values. cbn [cur_tok t_value t_index t_state]. fold (values its). f_equal.
    unfold prefix_of. rewrite typed_runes.
    assert (Hf : firstn (length (line_runes its) + k) (line_runes its ++ repeat 32%N k ++ cur_runes st u) = line_runes its ++ repeat 32%N k).
    { rewrite app_assoc. rewrite <- (repeat_length 32%N k) at 1. rewrite <- app_length. rewrite firstn_app, Nat.sub_diag, firstn_all. cbn [firstn]. apply app_nil_r. }
    rewrite Hf, encode_runes_app, encode_blanks, <- (line_bytes_runes wb its Hg). reflexivity.
  - apply (toks_noadj_then wb); try assumption. split; [|reflexivity]. intro Hne. specialize (Hk Hne). cbn [cur_tok t_index]. lia.
Qed.

(* the tokens of a candidate: the line, the quoted value, and the empty word for the cursor when a blank was appended *)
Lemma candidate_tokens v (blank : bool) : Forall (wordish wb) v -> item_runes st v <> [] ->
  shlex_split wb ((line_bytes its ++ repeat (byte 32) k) ++ requote st (encode_runes v) ++ (if blank then B [32] else [])) =
  toks 0 (its ++ [(k, st, v)]) ++ trail_toks (length (line_runes (its ++ [(k, st, v)]))) (if blank then 1 else 0).
Proof.
  clear Ha. intros Hv Hne.
  set (its2 := its ++ [(k, st, v)]).
  assert (Hg2 : Forall (good_item wb) its2).
  { apply Forall_app. split; [exact Hg|]. apply Forall_cons; [|apply Forall_nil]. split; assumption. }
  assert (Hs2 : Forall separated (tl its2)).
  { unfold its2. destruct its as [|it its']; [constructor|]. cbn [app tl] in Hs |- *. apply Forall_app. split; [exact Hs|].
    apply Forall_cons; [|apply Forall_nil]. cbn [separated]. apply Hk. discriminate. }
  assert (Htext : (line_bytes its ++ repeat (byte 32) k) ++ requote st (encode_runes v) ++ (if blank then B [32] else [])
                  = line_bytes its2 ++ repeat (byte 32) (if blank then 1 else 0)).
  { unfold its2. rewrite line_bytes_app. change (line_bytes [(k, st, v)]) with ((repeat (byte 32) k ++ requote st (encode_runes v)) ++ []).
    rewrite app_nil_r, <- !app_assoc. destruct blank; reflexivity. }
  rewrite Htext. apply (relex_line wb its2 _ Hg2 Hs2). intros _; destruct blank; [right; lia|left; reflexivity].
Qed.

(* every candidate re-reads as the earlier words followed by its value (and the empty word for the cursor
   when a blank was appended) *)
Theorem candidate_relex v (blank : bool) : Forall (wordish wb) v -> ascii_runes v -> item_runes st v <> [] ->
  map t_value (words (shlex_split wb
     ((line_bytes its ++ repeat (byte 32) k) ++ requote st (encode_runes v) ++ (if blank then B [32] else [])))) =
  values its ++ [encode_runes v] ++ (if blank then [[]] else []).
Proof.
  intros Hv Hav Hne. rewrite (candidate_tokens v blank Hv Hne).
  set (its2 := its ++ [(k, st, v)]).
  assert (Hg2 : Forall (good_item wb) its2).
  { apply Forall_app. split; [exact Hg|]. apply Forall_cons; [|apply Forall_nil]. split; assumption. }
  assert (Ha2 : Forall ascii_item its2).
  { apply Forall_app. split; [exact Ha|]. apply Forall_cons; [exact Hav|apply Forall_nil]. }
  assert (Hs2 : Forall separated (tl its2)).
  { unfold its2. destruct its as [|it its']; [constructor|]. cbn [app tl] in *. apply Forall_app. split; [exact Hs|].
    apply Forall_cons; [|apply Forall_nil]. cbn [separated]. apply Hk. discriminate. }
  assert (Hlen : 0 < length (line_runes its2)).
  { unfold its2. rewrite line_runes_app, app_length. cbn [line_runes flat_map it_runes]. rewrite app_nil_r, app_length.
    destruct (item_runes st v); [contradiction|cbn [length]; lia]. }
  rewrite words_noadj.
  - rewrite map_app, toks_values. unfold its2, values. rewrite map_app. cbn [map snd]. rewrite <- app_assoc. f_equal. f_equal.
    unfold trail_toks. destruct blank; [reflexivity|].
    destruct (Nat.eqb (length (line_runes (its ++ [(k, st, v)]))) 0) eqn:E; [apply Nat.eqb_eq in E; fold its2 in E; lia|reflexivity].
  - apply (toks_noadj_then wb); try assumption. unfold trail_toks. destruct blank.
    + split; [|reflexivity]. intros _. cbn [t_index]. lia.
    + destruct (Nat.eqb (length (line_runes its2)) 0) eqn:E; [apply Nat.eqb_eq in E; lia|exact I].
Qed.
End SplitLine.

(* ---------- the premises are satisfiable; the ASCII premise is needed ---------- *)
Definition rs_of (l : list nat) : list N := map N.of_nat l.
(* cmd, "a b" in double quotes, x\ y, then an open double quote and `my` under the cursor *)
Definition ex_its : list item := [(0, SInWord, rs_of [99;109;100]); (1, SQE, rs_of [97;32;98]); (2, SInWord, rs_of [120;32;121])].
Definition ex_u : list N := rs_of [109;121].

Lemma wordish_bash_letter r : (97 <= r <= 122)%N -> wordish bash_wordbreaks r.
Proof.
  intro H. split; [apply scalar_small; lia|]. left.
  assert (Hall : forallb (fun n => match classify bash_wordbreaks (N.of_nat n) with CUnknown => true | _ => false end) (seq 97 26) = true) by (vm_compute; reflexivity).
  rewrite forallb_forall in Hall. specialize (Hall (N.to_nat r)). rewrite N2Nat.id in Hall.
  destruct (classify bash_wordbreaks r); try reflexivity; (exfalso; assert (Hin : In (N.to_nat r) (seq 97 26)) by (apply in_seq; lia); specialize (Hall Hin); discriminate).
Qed.
Lemma wordish_bash_blank : wordish bash_wordbreaks 32.
Proof. split; [apply scalar_small; lia|right; reflexivity]. Qed.

Ltac wordish_list :=
  repeat (apply Forall_cons; [first [apply wordish_bash_blank | apply wordish_bash_letter; cbn; lia]|]); apply Forall_nil.
Ltac ascii_list := repeat (apply Forall_cons; [cbn; lia|]); apply Forall_nil.

Example ex_line_premises :
  Forall (good_item bash_wordbreaks) ex_its /\ Forall ascii_item ex_its /\ Forall separated (tl ex_its) /\
  (ex_its <> [] -> 1 <= 1) /\ cur_ok SQE ex_u /\ Forall (wordish bash_wordbreaks) ex_u.
Proof.
  repeat split; try discriminate; try lia.
  - repeat (apply Forall_cons; [split; [unfold rs_of; cbn [map]; wordish_list|discriminate]|]). apply Forall_nil.
  - repeat (apply Forall_cons; [unfold ascii_item, ascii_runes, rs_of; cbn [snd map]; ascii_list|]). apply Forall_nil.
  - cbn [tl ex_its]. repeat (apply Forall_cons; [cbn; lia|]). apply Forall_nil.
  - unfold ex_u, rs_of. cbn [map]. wordish_list.
Qed.
Example ex_line_text : typed ex_its 1 SQE ex_u = B [99;109;100;32;34;97;32;98;34;32;32;120;92;32;121;32;34;109;121].
Proof. vm_compute. reflexivity. Qed.
Example ex_line_split :
  split_context true false bash_wordbreaks (typed ex_its 1 SQE ex_u) =
  mkSplit [B [99;109;100]; B [97;32;98]; B [120;32;121]] (B [109;121]) (B [99;109;100;32;34;97;32;98;34;32;32;120;92;32;121;32]) SQE false.
Proof. vm_compute. reflexivity. Qed.

(* without the ASCII premise Words() merges two words separated by a blank: the dependency's adjoins
   adds a byte length to a rune index (known finding C17-shlex-adjoins-nonascii) *)
Theorem adjoins_nonascii_refuted :
  map t_value (shlex_split bash_wordbreaks (B [195;169;32;98])) = [B [195;169]; B [98]] /\
  map t_value (words (shlex_split bash_wordbreaks (B [195;169;32;98]))) = [B [195;169;98]].
Proof. split; vm_compute; reflexivity. Qed.

(* ---------- end to end: the candidates Split returns on such a line ---------- *)
From CV Require Import Model.Common Model.Action Proofs.Split.

Lemma replace_byte_absent c by_ s : ~ In c s -> replace_byte c by_ s = s.
Proof.
  induction s as [|x s IH]; intro H; [reflexivity|]. cbn [replace_byte].
  assert (Hx : beq x c = false) by (apply beq_false; intro E; apply H; left; exact E). rewrite Hx, IH; [reflexivity|].
  intro Hin. apply H. right. exact Hin.
Qed.
Lemma no_blank_plain v : contains v (B [32]) = false -> requote SInWord v = v.
Proof.
  intro H. cbn [requote]. apply replace_byte_absent. intro Hin. apply in_split in Hin as (a & b & ->).
  assert (Hc : contains (a ++ byte 32 :: b) (B [32]) = true) by (apply contains_spec; exists a, b; reflexivity).
  rewrite Hc in H. discriminate.
Qed.

Theorem split_line_relex wb its k st u (i : invoked) r :
  Forall (good_item wb) its -> Forall ascii_item its -> Forall separated (tl its) -> (its <> [] -> 1 <= k) ->
  cur_ok st u -> Forall (wordish wb) u ->
  (forall y, In y (snd i) -> exists rs, value y = encode_runes rs /\ Forall (wordish wb) rs /\ ascii_runes rs /\ rs <> []) ->
  In r (split_values (split_context true false wb (typed its k st u)) i) ->
  exists y, In y (snd i) /\
    has_prefix (value r) (line_bytes its ++ repeat (byte 32) k) = true /\
    map t_value (words (shlex_split wb (value r))) =
    values its ++ [value y] ++ (if sm_matches (nospace (fst i)) (value y) then [] else [[]]).
Proof.
  intros Hg Ha Hs Hk Hok Hu Hvals Hin.
  apply split_candidate_shape in Hin as (y & Hy & Hval & _). exists y. split; [exact Hy|].
  cbv zeta in Hval. rewrite (split_context_line wb its k st u Hg Ha Hs Hk Hok Hu) in Hval. cbn [sp_prefix sp_state] in Hval.
  destruct (Hvals y Hy) as (rs & Ev & Hrs & Hars & Hne).
  split; [rewrite Hval; apply has_prefix_app|].
  assert (Hne' : forall s, item_runes s rs <> []).
  { intro s. destruct s; cbn [item_runes]; try (apply esc_runes_nonempty; exact Hne); discriminate. }
  rewrite Hval, Ev.
  destruct (sm_matches (nospace (fst i)) (encode_runes rs)) eqn:En; cbn [negb orb].
  - destruct (contains (encode_runes rs) (B [32])) eqn:Ec.
    + exact (candidate_relex wb its k st Hg Ha Hs Hk rs false Hrs Hars (Hne' st)).
    + rewrite <- (no_blank_plain _ Ec) at 1.
      exact (candidate_relex wb its k SInWord Hg Ha Hs Hk rs false Hrs Hars (Hne' SInWord)).
  - exact (candidate_relex wb its k st Hg Ha Hs Hk rs true Hrs Hars (Hne' st)).
Qed.
