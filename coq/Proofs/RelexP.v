(* Proofs/RelexP.v — C17, SplitP on a line of quoted words: when the operator characters < > & are
   word breaks for the lexer (they are in every configuration carapace uses), such a line has no
   pipeline delimiter and no redirection, CurrentPipeline and FilterRedirects leave it unchanged,
   and SplitP behaves as Split (Proofs/Relex.v). *)
From Coq Require Import ZArith Lia ZifyN ZifyBool ZifyNat.
From CV Require Import Base.Str Base.Utf8 Model.Shlex Model.Split Proofs.Utf8 Proofs.Relex.
From CV Require Import Model.Common Model.Action Proofs.Split.
Local Open Scope nat_scope.

Definition ops_break (wb : str) : Prop :=
  classify wb 60 <> CUnknown /\ classify wb 62 <> CUnknown /\ classify wb 38 <> CUnknown.

(* a word token whose raw text does not start with an operator character *)
Definition opfree (t : token) : Prop :=
  t_type t = TWord /\
  match t_raw t with [] => True | c :: _ => c <> byte 60 /\ c <> byte 62 /\ c <> byte 38 end.

Lemma opfree_not_redirect t : opfree t -> is_redirect t = false.
Proof.
  intros [_ H]. unfold is_redirect, wbtype. destruct (t_raw t) as [|c tl]; [reflexivity|]. destruct H as (H1 & H2 & H3).
  assert (E1 : beq c (byte 60) = false) by (apply beq_false; exact H1).
  assert (E2 : beq c (byte 62) = false) by (apply beq_false; exact H2).
  assert (E3 : beq c (byte 38) = false) by (apply beq_false; exact H3).
  cbn [existsb str_eqb B map]. change (ascii_of_nat 60) with (byte 60). change (ascii_of_nat 62) with (byte 62). change (ascii_of_nat 38) with (byte 38).
  rewrite E1, E2, E3. cbn [andb orb].
  match goal with |- context [if ?b then WPipeline else WNone] => destruct b end; reflexivity.
Qed.
Lemma opfree_not_delim t : opfree t -> is_pipeline_delim t = false.
Proof. intros [H _]. unfold is_pipeline_delim. rewrite H. reflexivity. Qed.

Lemma current_pipeline_acc_id ts : Forall opfree ts -> forall cur, current_pipeline_acc ts cur = rev cur ++ ts.
Proof.
  induction 1 as [|t ts Ht Hts IH]; intro cur; cbn [current_pipeline_acc]; [rewrite app_nil_r; reflexivity|].
  rewrite (opfree_not_delim t Ht), IH. cbn [rev]. rewrite <- app_assoc. reflexivity.
Qed.
Lemma current_pipeline_id ts : Forall opfree ts -> current_pipeline ts = ts.
Proof. intro H. unfold current_pipeline. rewrite current_pipeline_acc_id by exact H. reflexivity. Qed.

Lemma filter_redirects_acc_id ts : Forall opfree ts -> forall prev,
  match prev with Some p => is_redirect p = false | None => True end -> filter_redirects_acc prev ts = ts.
Proof.
  induction 1 as [|t ts Ht Hts IH]; intros prev Hp; [reflexivity|]. cbn [filter_redirects_acc].
  destruct Ht as [Hty Hraw]. rewrite Hty.
  assert (Hprev : match prev with Some p => is_redirect p | None => false end = false) by (destruct prev; [exact Hp|reflexivity]).
  rewrite Hprev. cbn [orb].
  assert (Hnext : match ts with n :: _ => adjoins t n && is_number (t_raw t) && is_redirect n | [] => false end = false).
  { destruct ts as [|n ts']; [reflexivity|]. inversion Hts as [|x l Hn _]; subst x l. rewrite (opfree_not_redirect n Hn). apply Bool.andb_false_r. }
  rewrite Hnext. f_equal. apply IH. apply opfree_not_redirect. split; assumption.
Qed.
Lemma filter_redirects_id ts : Forall opfree ts -> filter_redirects ts = ts.
Proof. intro H. unfold filter_redirects. apply filter_redirects_acc_id; [exact H|exact I]. Qed.

(* the first byte of an encoded scalar *)
Lemma encode_rune_head q : exists c tl, encode_rune q = c :: tl /\ (((q < 128)%N /\ c = vb q) \/ (128 <= bv c)%N).
Proof.
  unfold encode_rune.
  destruct (q <? 128)%N eqn:E1; [eexists _, _; split; [reflexivity|left; split; [lia|reflexivity]]|].
  repeat match goal with |- context [if ?b then _ else _] => destruct b eqn:? end;
    eexists _, _; (split; [reflexivity|right; rewrite bv_vb by lia; lia]).
Qed.
Lemma head_not_op q tl' c tl : encode_rune q ++ tl' = c :: tl -> q <> 60%N -> q <> 62%N -> q <> 38%N ->
  c <> byte 60 /\ c <> byte 62 /\ c <> byte 38.
Proof.
  intros E H1 H2 H3. destruct (encode_rune_head q) as (c0 & tl0 & Eq & Hc). rewrite Eq in E. cbn [app] in E. inversion E; subst c0.
  destruct Hc as [[Hlt ->]|Hhi].
  - repeat split; intro Hx; apply (f_equal bv) in Hx; rewrite bv_vb in Hx by lia; vm_compute in Hx; lia.
  - repeat split; intro Hx; subst c; vm_compute in Hhi; lia.
Qed.

Section Line.
Variable wb : str.
Hypothesis Hops : ops_break wb.

Lemma wordish_not_op r : wordish wb r -> r <> 60%N /\ r <> 62%N /\ r <> 38%N.
Proof.
  destruct Hops as (H1 & H2 & H3). intros [_ [H|H]]; repeat split; intro E; subst r; try contradiction; discriminate.
Qed.

Lemma raw_opfree (qs : list N) : (match qs with [] => True | q :: _ => q <> 60%N /\ q <> 62%N /\ q <> 38%N end) ->
  match encode_runes qs with [] => True | c :: _ => c <> byte 60 /\ c <> byte 62 /\ c <> byte 38 end.
Proof.
  destruct qs as [|q qs]; [intros _; exact I|]. intros (H1 & H2 & H3). rewrite encode_runes_cons.
  destruct (encode_rune q ++ encode_runes qs) as [|c tl] eqn:E; [exact I|]. apply (head_not_op q _ c tl E H1 H2 H3).
Qed.

Lemma esc_runes_head rs : Forall (wordish wb) rs ->
  match esc_runes rs with [] => True | q :: _ => q <> 60%N /\ q <> 62%N /\ q <> 38%N end.
Proof.
  destruct rs as [|r rs]; [intros _; exact I|]. intro H. inversion H as [|x l Hr _]; subst x l.
  unfold esc_runes. cbn [flat_map]. unfold esc1. destruct (r =? 32)%N eqn:E; cbn [app].
  - repeat split; lia.
  - apply wordish_not_op. exact Hr.
Qed.

Lemma item_runes_head st rs : Forall (wordish wb) rs ->
  match item_runes st rs with [] => True | q :: _ => q <> 60%N /\ q <> 62%N /\ q <> 38%N end.
Proof.
  intro H. destruct st; cbn [item_runes]; try (apply esc_runes_head; exact H); repeat split; lia.
Qed.
Lemma cur_runes_head st u : Forall (wordish wb) u ->
  match cur_runes st u with [] => True | q :: _ => q <> 60%N /\ q <> 62%N /\ q <> 38%N end.
Proof.
  intro H. destruct st; cbn [cur_runes]; try (apply esc_runes_head; exact H); repeat split; lia.
Qed.

Lemma toks_opfree its : Forall (good_item wb) its -> forall i, Forall opfree (toks i its).
Proof.
  induction 1 as [|[[k st] rs] its [Hrs _] Hg IH]; intro i; [constructor|]. cbn [toks]. constructor; [|apply IH].
  split; [reflexivity|]. cbn [with_state word_tok t_raw]. apply raw_opfree, item_runes_head. exact Hrs.
Qed.
Lemma trail_opfree j n : Forall opfree (trail_toks j n).
Proof. unfold trail_toks. destruct n; [destruct (Nat.eqb j 0)|]; repeat constructor. Qed.
Lemma cur_opfree st u i : Forall (wordish wb) u -> opfree (cur_tok st u i).
Proof. intro H. split; [reflexivity|]. cbn [cur_tok t_raw]. apply raw_opfree, cur_runes_head. exact H. Qed.

(* SplitP's view of a token list without operators is Split's *)
Lemma split_context_p_tokens text ts cur : shlex_split wb text = ts ++ [cur] -> Forall opfree (ts ++ [cur]) ->
  split_context true true wb text = split_context true false wb text.
Proof.
  intros Hlex Hop. unfold split_context. rewrite Hlex. cbv zeta.
  rewrite (current_pipeline_id _ Hop), (filter_redirects_id _ Hop).
  assert (Hred : (true && (1 <? length (ts ++ [cur])) &&
                  match nth_error (ts ++ [cur]) (length (ts ++ [cur]) - 2) with Some t => is_redirect t | None => false end) = false).
  { destruct (nth_error (ts ++ [cur]) (length (ts ++ [cur]) - 2)) as [t|] eqn:E; [|apply Bool.andb_false_r].
    apply nth_error_In in E. rewrite Forall_forall in Hop. rewrite (opfree_not_redirect t (Hop t E)). apply Bool.andb_false_r. }
  rewrite Hred. reflexivity.
Qed.

Variables (its : list item) (k : nat) (st : lstate) (u : list N).
Hypothesis Hg : Forall (good_item wb) its.
Hypothesis Ha : Forall ascii_item its.
Hypothesis Hs : Forall separated (tl its).
Hypothesis Hk : its <> [] -> 1 <= k.
Hypothesis Hok : cur_ok st u.
Hypothesis Hu : Forall (wordish wb) u.

Theorem split_context_line_p :
  split_context true true wb (typed its k st u) =
  mkSplit (values its) (encode_runes u) (line_bytes its ++ repeat (byte 32) k) st false.
Proof.
  assert (Hlex : shlex_split wb (typed its k st u) = toks 0 its ++ [cur_tok st u (length (line_runes its) + k)]).
  { unfold shlex_split. cbv zeta. rewrite (typed_runes wb its k st u); try assumption. apply lex_current; assumption. }
  rewrite (split_context_p_tokens _ _ _ Hlex).
  - apply split_context_line; assumption.
  - apply Forall_app. split; [apply toks_opfree; exact Hg|]. constructor; [apply cur_opfree; exact Hu|constructor].
Qed.

(* re-reading a candidate the way SplitP does (last pipeline, redirections filtered) *)
Theorem candidate_relex_p v (blank : bool) : Forall (wordish wb) v -> ascii_runes v -> item_runes st v <> [] ->
  map t_value (words (filter_redirects (current_pipeline (shlex_split wb
     ((line_bytes its ++ repeat (byte 32) k) ++ requote st (encode_runes v) ++ (if blank then B [32] else [])))))) =
  values its ++ [encode_runes v] ++ (if blank then [[]] else []).
Proof.
  intros Hv Hav Hne.
  assert (Hop : Forall opfree (shlex_split wb ((line_bytes its ++ repeat (byte 32) k) ++ requote st (encode_runes v) ++ (if blank then B [32] else [])))).
  { rewrite (candidate_tokens wb its k st Hg Hs Hk v blank Hv Hne). apply Forall_app. split; [|apply trail_opfree].
    apply toks_opfree. apply Forall_app. split; [exact Hg|]. constructor; [split; assumption|constructor]. }
  rewrite (current_pipeline_id _ Hop), (filter_redirects_id _ Hop).
  apply candidate_relex; assumption.
Qed.
End Line.

Theorem split_line_relex_p wb its k st u (i : invoked) r : ops_break wb ->
  Forall (good_item wb) its -> Forall ascii_item its -> Forall separated (tl its) -> (its <> [] -> 1 <= k) ->
  cur_ok st u -> Forall (wordish wb) u ->
  (forall y, In y (snd i) -> exists rs, value y = encode_runes rs /\ Forall (wordish wb) rs /\ ascii_runes rs /\ rs <> []) ->
  In r (split_values (split_context true true wb (typed its k st u)) i) ->
  exists y, In y (snd i) /\
    has_prefix (value r) (line_bytes its ++ repeat (byte 32) k) = true /\
    map t_value (words (filter_redirects (current_pipeline (shlex_split wb (value r))))) =
    values its ++ [value y] ++ (if sm_matches (nospace (fst i)) (value y) then [] else [[]]).
Proof.
  intros Hops Hg Ha Hs Hk Hok Hu Hvals Hin.
  apply split_candidate_shape in Hin as (y & Hy & Hval & _). exists y. split; [exact Hy|].
  cbv zeta in Hval. rewrite (split_context_line_p wb Hops its k st u Hg Ha Hs Hk Hok Hu) in Hval. cbn [sp_prefix sp_state] in Hval.
  destruct (Hvals y Hy) as (rs & Ev & Hrs & Hars & Hne).
  split; [rewrite Hval; apply has_prefix_app|].
  assert (Hne' : forall s, item_runes s rs <> []).
  { intro s. destruct s; cbn [item_runes]; try (apply esc_runes_nonempty; exact Hne); discriminate. }
  rewrite Hval, Ev.
  destruct (sm_matches (nospace (fst i)) (encode_runes rs)) eqn:En; cbn [negb orb].
  - destruct (contains (encode_runes rs) (B [32])) eqn:Ec.
    + exact (candidate_relex_p wb Hops its k st Hg Ha Hs Hk rs false Hrs Hars (Hne' st)).
    + rewrite <- (no_blank_plain _ Ec) at 1.
      exact (candidate_relex_p wb Hops its k SInWord Hg Ha Hs Hk rs false Hrs Hars (Hne' SInWord)).
  - exact (candidate_relex_p wb Hops its k st Hg Ha Hs Hk rs true Hrs Hars (Hne' st)).
Qed.

Example bash_ops_break : ops_break bash_wordbreaks.
Proof. repeat split; vm_compute; discriminate. Qed.
