(* Proofs/Split.v — C17 *)
From Coq Require Import Lia.
From CV Require Import Base.Str Base.Utf8 Model.Common Model.MultiParts Model.Action Model.Shlex Model.Split Proofs.Algebra.
Local Open Scope nat_scope.

(* what the wrapped action sees and what becomes of its candidates *)
Theorem split_invoke rp pl wb files a c :
  let sc := split_context rp pl wb (cvalue c) in
  let c' := mkCtx (sp_value sc) (sp_args sc) [] (cenv c) in
  let i := invoke (if sp_redirect sc then files else a) c' in
  invoke (Split rp pl wb files a) c = (set_nospace (fst i) (B [42]), split_values sc i).
Proof.
  cbv zeta. unfold Split. rewrite invoke_callback. rewrite invoke_NoSpace_static. cbn [fst snd].
  rewrite sm_add_star'. reflexivity.
Qed.

(* every candidate = prefix ++ (re-quoted) value ++ (blank unless no-space applies), other fields untouched *)
Theorem split_candidate_shape sc (i : invoked) r : In r (split_values sc i) ->
  exists y, In y (snd i) /\
    let v := value y in
    let nosp := sm_matches (nospace (fst i)) v in
    value r = sp_prefix sc ++ (if negb nosp || contains v (B [32]) then requote (sp_state sc) v else v)
                           ++ (if nosp then [] else B [32]) /\
    display r = display y /\ description r = description y /\ style r = style y /\ tag r = tag y.
Proof.
  unfold split_values. intro H. apply in_map_iff in H as (y & <- & Hy). exists y. split; [exact Hy|].
  cbv zeta. cbn [value display description style tag set_value].
  destruct (sm_matches (nospace (fst i)) (value y)); cbn [negb orb];
    repeat split; try reflexivity; rewrite ?app_nil_r, ?app_assoc; reflexivity.
Qed.

(* the prefix is the typed text up to the start of the last word, byte for byte *)
Lemma encode_firstn_prefix (l : list N) k : has_prefix (encode_runes l) (encode_runes (firstn k l)) = true.
Proof.
  unfold encode_runes. rewrite <- (firstn_skipn k l) at 1. rewrite flat_map_app. apply has_prefix_app.
Qed.

Definition valid_utf8 (s : str) : Prop := encode_runes (runes s) = s.

Theorem rune_prefix_is_byte_prefix text idx : valid_utf8 text ->
  has_prefix text (prefix_of true text idx) = true.
Proof. intro H. unfold valid_utf8 in H. unfold prefix_of. rewrite <- H at 1. apply encode_firstn_prefix. Qed.

Theorem split_prefix_exact pl wb text : valid_utf8 text ->
  has_prefix text (sp_prefix (split_context true pl wb text)) = true.
Proof.
  intro H. unfold split_context. destruct (_ && _ && _); cbn [sp_prefix]; apply rune_prefix_is_byte_prefix; exact H.
Qed.

(* the pinned tree sliced bytes with the rune index: "éé b" is cut inside the second é *)
Definition text_ee_b : str := B [195;169;195;169;32;98].
Theorem byte_prefix_refuted :
  sp_prefix (split_context false false bash_wordbreaks text_ee_b) = B [195;169;195] /\
  sp_prefix (split_context true false bash_wordbreaks text_ee_b) = B [195;169;195;169;32].
Proof. split; vm_compute; reflexivity. Qed.

(* SplitP: only the last pipeline segment counts; a word after a redirection is completed as a file *)
Example splitp_example :
  let sc := split_context true true bash_wordbreaks (B [97;32;120;32;124;32;99;109;100;32;62;32;111]) in   (* a x | cmd > o *)
  (sp_args sc, sp_value sc, sp_redirect sc, sp_prefix sc) = ([], B [111], true, B [97;32;120;32;124;32;99;109;100;32;62;32]).
Proof. vm_compute. reflexivity. Qed.

Example split_quote_example :
  let sc := split_context true false bash_wordbreaks (B [99;109;100;32;34;109;121]) in      (* cmd, blank, an open double quote, my *)
  map value (split_values sc (mkMeta [] (B [47]) [], [raw_of (B [109;121;32;100;105;114;47]); raw_of (B [118])]))
  = [B [99;109;100;32;34;109;121;32;100;105;114;47;34]; B [99;109;100;32;34;118;34;32]].        (* the first closes the quote with no blank (dir/ matches the no-space set), the second adds one *)
Proof. vm_compute. reflexivity. Qed.
