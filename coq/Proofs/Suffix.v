(* Proofs/Suffix.v — SuffixMatcher.Matches and the per-format rendering of the decision (C05) *)
From CV Require Import Base.Str Base.Utf8 Gen.Tables Model.Common Model.Shells Model.ShellValue Spec.Readers.
Local Open Scope nat_scope.

(* Matches = "some rune of the set is `*` or is the last rune of the value" *)
Lemma sm_matches_spec sm v :
  sm_matches sm v = true <->
  exists r, In r (runes sm) /\ (r = star \/ has_suffix v (encode_rune r) = true).
Proof.
  unfold sm_matches. rewrite existsb_exists. split; intros [r [Hin H]]; exists r; split; auto.
  - apply orb_true_iff in H as [H|H]; [left; apply N.eqb_eq; exact H|right; exact H].
  - apply orb_true_iff. destruct H as [->|H]; [left; apply N.eqb_refl|right; exact H].
Qed.

Lemma sm_matches_empty v : sm_matches [] v = false.
Proof. reflexivity. Qed.

Lemma sm_matches_star v : sm_matches (B [42]) v = true.
Proof. reflexivity. Qed.

(* Add('*') yields exactly "*": error entries force no-space for every value *)
Lemma sm_add_star sm : sm_add sm [star] = B [42].
Proof.
  unfold sm_add. replace (contains (encode_runes [star]) (B [42])) with true by reflexivity.
  rewrite orb_true_r. reflexivity.
Qed.

Lemma stage_nospace_messages e shell m :
  str_eqb shell s_export = false -> messages m <> [] ->
  forall v, sm_matches (stage_nospace e shell m) v = true.
Proof.
  intros Hs Hm v. unfold stage_nospace. rewrite Hs.
  destruct (messages m) as [|x xs]; [congruence|]. rewrite sm_add_star. apply sm_matches_star.
Qed.

Lemma stage_nospace_export e m : stage_nospace e s_export m = nospace m.
Proof. reflexivity. Qed.

(* ---------- formats that carry the blank inside the value ---------- *)
(* quoting never leaves a bare value that ends in a blank, because the blank triggers quoting
   and a quoted text ends in the closing quote: obligations on the regenerated trigger sets *)
Lemma blank_triggers_nushell : mem (byte 32) nushell_ActionRawValues_any1 = true.
Proof. vm_compute. reflexivity. Qed.
Lemma blank_triggers_powershell : mem (byte 32) powershell_ActionRawValues_any1 = true.
Proof. vm_compute. reflexivity. Qed.
Lemma blank_triggers_xonsh : mem (byte 32) xonsh_ActionRawValues_any1 = true.
Proof. vm_compute. reflexivity. Qed.

Lemma contains_any_mem s chars c : In c s -> mem c chars = true -> contains_any s chars = true.
Proof.
  intros H1 H2. apply contains_any_true. exists c. split; [exact H1|apply mem_In; exact H2].
Qed.

Lemma last_byte_In s c : last_byte s = Some c -> In c s.
Proof.
  unfold last_byte. destruct (rev s) as [|d t] eqn:E; [discriminate|]. intro H. inversion H; subst.
  apply in_rev. rewrite E. left. reflexivity.
Qed.

Lemma nushell_quote_last val : last_byte (nushell_quote val) <> Some (byte 32).
Proof.
  unfold nushell_quote. destruct (contains_any val nushell_ActionRawValues_any1) eqn:E.
  - destruct val as [|c rest]; [vm_compute; congruence|].
    destruct (beq c (byte 126)).
    + change (B [126;34] ++ replace1 nushell_escaper rest ++ B [34]) with
        (B [126;34] ++ replace1 nushell_escaper rest ++ [byte 34]).
      rewrite last_byte_cons_app. intro H. inversion H.
    + change (B [34] ++ replace1 nushell_escaper (c :: rest) ++ B [34]) with
        (B [34] ++ replace1 nushell_escaper (c :: rest) ++ [byte 34]).
      rewrite last_byte_cons_app. intro H. inversion H.
  - intro H. apply last_byte_In in H.
    rewrite (contains_any_mem _ _ _ H blank_triggers_nushell) in E. discriminate.
Qed.

Lemma powershell_quote_last val : last_byte (powershell_quote val) <> Some (byte 32).
Proof.
  unfold powershell_quote. destruct (contains_any val powershell_ActionRawValues_any1) eqn:E; cbn [orb].
  - change (B [39] ++ replace1 powershell_quoter val ++ B [39]) with (B [39] ++ replace1 powershell_quoter val ++ [byte 39]).
    rewrite last_byte_cons_app. intro H. inversion H.
  - destruct (match val with c :: _ => beq c (byte 64) | [] => false end).
    + change (B [39] ++ replace1 powershell_quoter val ++ B [39]) with (B [39] ++ replace1 powershell_quoter val ++ [byte 39]).
      rewrite last_byte_cons_app. intro H. inversion H.
    + intro H. apply last_byte_In in H.
      rewrite (contains_any_mem _ _ _ H blank_triggers_powershell) in E. discriminate.
Qed.

(* the emitted nushell text ends in a blank iff the (sanitised) value does not match *)
Definition nushell_emit (ns v : str) : str :=
  let val := replace1 nushell_sanitizer v in
  if sm_matches ns val then nushell_quote val else nushell_quote val ++ B [32].
Lemma nushell_space_iff ns v :
  last_byte (nushell_emit ns v) = Some (byte 32) <-> sm_matches ns (replace1 nushell_sanitizer v) = false.
Proof.
  unfold nushell_emit. destruct (sm_matches ns (replace1 nushell_sanitizer v)); split; intro H; try discriminate.
  - exfalso. exact (nushell_quote_last _ H).
  - reflexivity.
  - change (B [32]) with [byte 32]. apply last_byte_app.
Qed.

Definition powershell_emit (ns v : str) : str :=
  let val := replace1 powershell_sanitizer v in
  if sm_matches ns val then powershell_quote val else powershell_quote val ++ B [32].
Lemma powershell_space_iff ns v :
  last_byte (powershell_emit ns v) = Some (byte 32) <-> sm_matches ns (replace1 powershell_sanitizer v) = false.
Proof.
  unfold powershell_emit. destruct (sm_matches ns (replace1 powershell_sanitizer v)); split; intro H; try discriminate.
  - exfalso. exact (powershell_quote_last _ H).
  - reflexivity.
  - change (B [32]) with [byte 32]. apply last_byte_app.
Qed.

(* xonsh: the decision is taken on the sanitised value, before quoting (since the repair) *)
Lemma xonsh_quote_last v : last_byte (xonsh_quote v) <> Some (byte 32).
Proof.
  unfold xonsh_quote. cbv zeta. destruct (contains_any (replace1 xonsh_sanitizer v) xonsh_ActionRawValues_any1) eqn:E.
  - change (B [39] ++ replace1 xonsh_quoter (replace1 xonsh_sanitizer v) ++ B [39])
      with (B [39] ++ replace1 xonsh_quoter (replace1 xonsh_sanitizer v) ++ [byte 39]).
    rewrite last_byte_cons_app. intro H. inversion H.
  - intro H. apply last_byte_In in H.
    rewrite (contains_any_mem _ _ _ H blank_triggers_xonsh) in E. discriminate.
Qed.
Definition xonsh_emit (ns v : str) : str :=
  let q := xonsh_quote v in if sm_matches ns (replace1 xonsh_sanitizer v) then q else q ++ B [32].
Lemma xonsh_space_iff ns v :
  last_byte (xonsh_emit ns v) = Some (byte 32) <-> sm_matches ns (replace1 xonsh_sanitizer v) = false.
Proof.
  unfold xonsh_emit. cbv zeta. destruct (sm_matches ns (replace1 xonsh_sanitizer v)); split; intro H; try discriminate.
  - exfalso. exact (xonsh_quote_last _ H).
  - reflexivity.
  - change (B [32]) with [byte 32]. apply last_byte_app.
Qed.

(* bash-ble, cmd-clink, oil, elvish, ion: the decision is taken on the value before any quoting *)
Lemma bash_ble_field ns v d de :
  exists pre post, bash_ble_format (mkMeta [] ns []) [mkRaw v d de [] [] [] []] =
                   pre ++ B [28] ++ (if sm_matches ns v then [] else B [32]) ++ B [28] ++ post.
Proof.
  exists (v ++ tab ++ d ++ B [28]), (trimmed_description de).
  unfold bash_ble_format. cbn [map join value display description nospace].
  rewrite <- !app_assoc. reflexivity.
Qed.
