(* Proofs/SuffixAlgebra.v — SuffixMatcher (internal/common/suffix.go) as a set of runes: Add adds
   exactly the given runes, Merge is union; `*` absorbs.  The implementation works on BYTES
   (strings.Contains(sm.string, string(r))); that this is rune membership is the self-synchronisation
   of UTF-8, proved here for all Unicode scalar values. *)
From Coq Require Import ZArith Lia ZifyN ZifyBool ZifyNat.
From CV Require Import Base.Str Base.Utf8 Model.Common Proofs.Utf8 Proofs.JsonString Proofs.Relex.
Local Open Scope nat_scope.
Ltac Zify.zify_post_hook ::= Z.div_mod_to_equations.

(* ---------- the shape of an encoded scalar: a lead byte that is no continuation byte, then continuation bytes ---------- *)
Lemma encode_rune_shape r : exists c0 conts, encode_rune r = c0 :: conts /\ is_cont c0 = false /\ Forall (fun c => is_cont c = true) conts.
Proof.
  unfold encode_rune.
  assert (Hc : forall x, (128 <= x <= 191)%N -> is_cont (vb x) = true) by (intros x Hx; apply is_cont_spec; rewrite bv_vb by lia; lia).
  assert (Hn : forall x, (x < 128 \/ 192 <= x < 256)%N -> is_cont (vb x) = false).
  { intros x Hx. destruct (is_cont (vb x)) eqn:E; [|reflexivity]. apply is_cont_spec in E. rewrite bv_vb in E by lia. lia. }
  repeat match goal with |- context [if ?b then _ else _] => destruct b eqn:? end;
    eexists _, _; (split; [reflexivity|split; [apply Hn; lia|repeat (apply Forall_cons; [apply Hc; lia|]); apply Forall_nil]]).
Qed.

(* an encoded scalar occurs in an encoded rune list only at a rune boundary: as one of the runes *)
Lemma prefix_rune_eq r x s t : scalar r -> scalar x -> encode_rune r ++ s = encode_rune x ++ t -> r = x.
Proof.
  intros Hr Hx E. pose proof (encode_decode r s Hr) as D1. pose proof (encode_decode x t Hx) as D2.
  rewrite E in D1. rewrite D1 in D2. inversion D2. reflexivity.
Qed.

Lemma app_eq_split (x rest a tail : str) : x ++ rest = a ++ tail ->
  (exists a', a = x ++ a' /\ rest = a' ++ tail) \/ (exists x2, x = a ++ x2 /\ x2 <> [] /\ tail = x2 ++ rest).
Proof.
  revert a. induction x as [|c x IH]; intros a E.
  - left. exists a. split; [reflexivity|exact E].
  - destruct a as [|d a].
    + right. exists (c :: x). split; [reflexivity|split; [discriminate|symmetry; exact E]].
    + cbn [app] in E. inversion E as [[Ec E']]. subst d. destruct (IH a E') as [(a' & -> & Hr)|(x2 & -> & Hne & Ht)].
      * left. exists a'. split; [reflexivity|exact Hr].
      * right. exists x2. split; [reflexivity|split; assumption].
Qed.

Lemma contains_rune rs r : Forall scalar rs -> scalar r -> (contains (encode_runes rs) (encode_rune r) = true <-> In r rs).
Proof.
  intros Hrs Hr. split.
  - intro H. apply contains_spec in H as (a & b & E). revert a E. induction Hrs as [|x rs Hx Hrs IH]; intros a E.
    + cbn in E. destruct (encode_rune_shape r) as (c0 & cs & Er & _). rewrite Er in E. destruct a; discriminate.
    + rewrite encode_runes_cons in E. destruct (encode_rune_shape x) as (x0 & xs & Ex & Hx0 & Hxs).
      destruct (encode_rune_shape r) as (r0 & rcs & Er & Hr0 & _).
      destruct (app_eq_split _ _ _ _ E) as [(a' & -> & Hrest)|(x2 & Hx2 & Hne & Htail)].
      * right. apply (IH a'). exact Hrest.
      * destruct a as [|a0 a'].
        -- left. cbn [app] in Hx2. subst x2. symmetry. apply (prefix_rune_eq r x b (encode_runes rs) Hr Hx). exact Htail.
        -- exfalso. (* the lead byte of enc r sits on a continuation byte of enc x *)
           rewrite Ex in Hx2. cbn [app] in Hx2. injection Hx2 as E0 E1.
           destruct x2 as [|y x2']; [contradiction|]. rewrite Er in Htail. cbn [app] in Htail. injection Htail as Ey _. subst y.
           assert (Hin : In r0 xs) by (rewrite E1; apply in_or_app; right; left; reflexivity).
           rewrite Forall_forall in Hxs. rewrite (Hxs r0 Hin) in Hr0. discriminate.
  - intro H. apply in_split in H as (l1 & l2 & ->). apply contains_spec. exists (encode_runes l1), (encode_runes l2).
    rewrite encode_runes_app, encode_runes_cons. reflexivity.
Qed.

(* ---------- Add / Merge ---------- *)
Definition hits (v : str) (r : N) : bool := N.eqb r star || has_suffix v (encode_rune r).
Lemma sm_matches_runes rs v : Forall scalar rs -> sm_matches (encode_runes rs) v = existsb (hits v) rs.
Proof. intro H. unfold sm_matches. rewrite runes_encode by exact H. reflexivity. Qed.

Lemma existsb_iff {A} (f : A -> bool) l1 l2 : (forall x, In x l1 <-> In x l2) -> existsb f l1 = existsb f l2.
Proof.
  intro H. destruct (existsb f l1) eqn:E1; destruct (existsb f l2) eqn:E2; try reflexivity.
  - apply existsb_exists in E1 as (x & Hx & Hf). assert (E : existsb f l2 = true) by (apply existsb_exists; exists x; split; [apply H; exact Hx|exact Hf]). congruence.
  - apply existsb_exists in E2 as (x & Hx & Hf). assert (E : existsb f l1 = true) by (apply existsb_exists; exists x; split; [apply H; exact Hx|exact Hf]). congruence.
Qed.

Lemma insert_rune_In r l x : In x (insert_rune r l) <-> x = r \/ In x l.
Proof.
  induction l as [|y l IH]; cbn [insert_rune].
  - cbn. intuition.
  - destruct (r <=? y)%N; cbn [In]; [intuition|]. rewrite IH. intuition.
Qed.
Lemma sort_runes_In l x : In x (sort_runes l) <-> In x l.
Proof.
  induction l as [|y l IH]; [reflexivity|]. unfold sort_runes in *. cbn [fold_right]. rewrite insert_rune_In, IH. cbn [In]. intuition.
Qed.

Lemma unique_In sm cs : forall acc x,
  In x (fold_left (fun acc r => if contains sm (encode_rune r) then acc else acc ++ [r]) cs acc) <->
  In x acc \/ (In x cs /\ contains sm (encode_rune x) = false).
Proof.
  induction cs as [|c cs IH]; intros acc x; cbn [fold_left].
  - cbn. intuition.
  - rewrite IH. destruct (contains sm (encode_rune c)) eqn:E.
    + cbn [In]. split; [intuition|]. intros [H|[[H|H] Hc]]; [left; exact H|subst c; congruence|right; split; assumption].
    + rewrite in_app_iff. cbn [In]. split.
      * intros [[H|[H|[]]]|[H Hc]]; [left; exact H|subst c; right; split; [left; reflexivity|exact E]|right; split; [right; exact H|exact Hc]].
      * intros [H|[[H|H] Hc]]; [left; left; exact H|subst c; left; right; left; reflexivity|right; split; assumption].
Qed.

Lemma star_enc : encode_rune star = B [42].
Proof. reflexivity. Qed.
Lemma scalar_star : scalar star.
Proof. apply (scalar_small). cbv. reflexivity. Qed.

(* Add: the result is again an encoded list of scalars, and it matches exactly what the old set or one of the new runes matches *)
Theorem sm_add_spec rs cs : Forall scalar rs -> Forall scalar cs ->
  exists rs', Forall scalar rs' /\ sm_add (encode_runes rs) cs = encode_runes rs' /\
    forall v, sm_matches (sm_add (encode_runes rs) cs) v = sm_matches (encode_runes rs) v || existsb (hits v) cs.
Proof.
  intros Hrs Hcs. unfold sm_add.
  destruct (contains (encode_runes rs) (B [42]) || contains (encode_runes cs) (B [42])) eqn:Estar.
  - exists [star]. split; [repeat constructor; apply scalar_star|]. split; [reflexivity|]. intro v.
    change (sm_matches (B [42]) v) with true. symmetry.
    apply Bool.orb_true_iff in Estar. rewrite <- star_enc in Estar.
    destruct Estar as [H|H].
    + apply (contains_rune rs star Hrs scalar_star) in H. rewrite sm_matches_runes by exact Hrs.
      apply Bool.orb_true_iff. left. apply existsb_exists. exists star. split; [exact H|reflexivity].
    + apply (contains_rune cs star Hcs scalar_star) in H.
      apply Bool.orb_true_iff. right. apply existsb_exists. exists star. split; [exact H|reflexivity].
  - apply Bool.orb_false_iff in Estar as [Es1 Es2].
    rewrite runes_encode by exact Hrs.
    set (U := fold_left (fun acc r => if contains (encode_runes rs) (encode_rune r) then acc else acc ++ [r]) cs rs).
    assert (HU : forall x, In x U <-> In x rs \/ In x cs).
    { intro x. unfold U. rewrite unique_In. split; [intuition|]. intros [H|H]; [left; exact H|].
      destruct (contains (encode_runes rs) (encode_rune x)) eqn:E; [|right; split; [exact H|reflexivity]].
      left. apply (contains_rune rs x Hrs); [|exact E]. rewrite Forall_forall in Hcs. apply Hcs. exact H. }
    assert (HsU : Forall scalar (sort_runes U)).
    { apply Forall_forall. intros x Hx. apply sort_runes_In, HU in Hx. rewrite Forall_forall in Hrs, Hcs. destruct Hx; auto. }
    exists (sort_runes U). split; [exact HsU|]. split; [reflexivity|]. intro v.
    rewrite !sm_matches_runes by assumption. rewrite <- existsb_app. apply existsb_iff.
    intro x. rewrite sort_runes_In, HU, in_app_iff. reflexivity.
Qed.

Corollary sm_add_matches rs cs v : Forall scalar rs -> Forall scalar cs ->
  sm_matches (sm_add (encode_runes rs) cs) v = sm_matches (encode_runes rs) v || existsb (hits v) cs.
Proof. intros H1 H2. destruct (sm_add_spec rs cs H1 H2) as (_ & _ & _ & H). apply H. Qed.

(* Merge = union *)
Theorem sm_merge_matches rs1 rs2 v : Forall scalar rs1 -> Forall scalar rs2 ->
  sm_matches (sm_merge (encode_runes rs1) (encode_runes rs2)) v = sm_matches (encode_runes rs1) v || sm_matches (encode_runes rs2) v.
Proof.
  intros H1 H2. unfold sm_merge. rewrite (runes_encode rs2 H2). rewrite (sm_matches_runes rs2 v H2).
  revert rs1 H1. induction H2 as [|r rs2 Hr Hrs2 IH]; intros rs1 H1; cbn [fold_left existsb].
  - rewrite Bool.orb_false_r. reflexivity.
  - destruct (sm_add_spec rs1 [r] H1 (Forall_cons r Hr (Forall_nil _))) as (rs' & Hs' & E & Hm).
    rewrite E, (IH rs' Hs'), <- E, Hm. cbn [existsb]. rewrite Bool.orb_false_r, Bool.orb_assoc. reflexivity.
Qed.

(* what `hits` means: the set is `*`, or the value ends in the rune *)
Lemma hits_spec v r : hits v r = true <-> r = star \/ has_suffix v (encode_rune r) = true.
Proof. unfold hits. rewrite Bool.orb_true_iff, N.eqb_eq. reflexivity. Qed.

Example sm_add_example :
  sm_add (B [47]) [61%N; 233%N] = B [47;61;195;169] /\          (* "/" + '=' + 'é' -> "/=é" *)
  sm_matches (sm_add (B [47]) [61%N; 233%N]) (B [107;195;169]) = true /\ sm_matches (B [47]) (B [107;195;169]) = false.
Proof. repeat split; vm_compute; reflexivity. Qed.

(* ---------- the NoSpace modifier (C12) in terms of what is matched ---------- *)
From CV Require Import Model.Action Spec.Algebra.
Theorem add_nospace_matches m rs0 cs v : nospace m = encode_runes rs0 -> Forall scalar rs0 -> Forall scalar cs ->
  sm_matches (nospace (add_nospace m cs)) v = sm_matches (nospace m) v || existsb (hits v) cs /\
  messages (add_nospace m cs) = messages m /\ usage (add_nospace m cs) = usage m.
Proof.
  intros E0 H0 Hcs. unfold add_nospace, set_nospace. cbn [nospace messages usage]. split; [|split; reflexivity].
  destruct (sm_add_spec [] cs (Forall_nil _) Hcs) as (rs' & Hs' & E & Hm). cbn [encode_runes flat_map] in E, Hm.
  rewrite E0, E, sm_merge_matches by assumption. rewrite <- E, Hm. reflexivity.
Qed.
