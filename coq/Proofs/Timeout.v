(* Proofs/Timeout.v — C19 *)
From Coq Require Import ZArith Lia.
From CV Require Import Base.Str Model.Timeout.
Local Open Scope Z_scope.

Section P.
  Variable R : Type.

  Theorem timely d (alt : R) ta r o t : ta < d -> answers R d alt (Some (ta, r)) o t -> o = Inner r /\ t = ta.
  Proof. intros H A. inversion A; subst; [auto|lia]. Qed.

  Theorem late d (alt : R) ta r o t : d < ta -> answers R d alt (Some (ta, r)) o t -> o = Alt alt /\ t = d.
  Proof. intros H A. inversion A; subst; [lia|auto]. Qed.

  Theorem never d (alt : R) o t : answers R d alt None o t -> o = Alt alt /\ t = d.
  Proof. intro A. inversion A; auto. Qed.

  Theorem boundary (alt : R) ta r o t : answers R ta alt (Some (ta, r)) o t -> (o = Inner r \/ o = Alt alt) /\ t = ta.
  Proof. intro A. inversion A; subst; auto. Qed.

  (* an answer always exists, and it comes no later than d *)
  Theorem bounded d (alt : R) x : exists o t, answers R d alt x o t.
  Proof.
    destruct x as [[ta r]|]; [|exists (Alt alt), d; constructor].
    destruct (Z_le_gt_dec ta d); [exists (Inner r), ta; constructor; lia|exists (Alt alt), d; constructor; lia].
  Qed.
  Theorem answer_by_d d (alt : R) x o t : answers R d alt x o t -> t <= d.
  Proof. intro A. inversion A; subst; lia. Qed.

  (* nesting: the outer timeout sees the inner one as a computation that ends at its answer time *)
  Theorem nested d1 d2 (alt1 alt2 : R) x o2 t2 o1 t1 :
    answers R d2 alt2 x o2 t2 -> answers R d1 alt1 (Some (t2, result_of R o2)) o1 t1 ->
    t1 <= Z.min d1 d2 /\ (t2 < d1 -> o1 = Inner (result_of R o2)) /\ (d1 < t2 -> o1 = Alt alt1).
  Proof.
    intros A2 A1. pose proof (answer_by_d _ _ _ _ _ A2). pose proof (answer_by_d _ _ _ _ _ A1).
    split; [|split].
    - inversion A1; subst; lia.
    - intro H1. apply (timely _ _ _ _ _ _ H1 A1).
    - intro H1. apply (late _ _ _ _ _ _ H1 A1).
  Qed.
End P.

(* the goroutine protocol is race free on both paths, and the worker's single send fits the buffer *)
Theorem race_free : racy true = false /\ racy false = false.
Proof. split; vm_compute; reflexivity. Qed.

Theorem worker_never_blocks : (sends worker <= 1)%nat.
Proof. vm_compute. auto. Qed.

