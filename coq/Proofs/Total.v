(* Proofs/Total.v — C18: every slice of the modelled sites is within bounds. *)
From Coq Require Import ZArith Lia.
From CV Require Import Base.Str Base.Utf8 Model.Total.
Local Open Scope Z_scope.

Theorem compline_slice_in_bounds err point len :
  compline_reaches_slice err point len = true -> 0 <= point <= len.
Proof.
  unfold compline_reaches_slice. destruct err; cbn [orb negb]; [discriminate|].
  destruct (Z.ltb_spec point 0), (Z.ltb_spec len point); cbn; try discriminate. lia.
Qed.
Theorem compline_pinned_refuted : exists err point len,
  compline_reaches_slice_pinned err point len = true /\ ~ (0 <= point <= len).
Proof. exists false, (-1), 5. split; [reflexivity|lia]. Qed.

Theorem traverse_args_in_bounds n0 p : reaches_traverse n0 p = true ->
  (2 <= args_len n0 p)%nat.      (* args[2:], args[0] and args[len(args)-1] are all legal *)
Proof.
  unfold reaches_traverse. intro H. apply andb_true_iff in H as [H1 H2]. apply Nat.leb_le in H1.
  destruct p; try discriminate; cbn [args_len] in *; [exact H1|apply Nat.leb_le in H2; exact H2].
Qed.
Theorem traverse_args_pinned_refuted : exists n0 p, reaches_traverse_pinned n0 p = true /\ ~ (2 <= args_len n0 p)%nat.
Proof. exists 3%nat, (Words 0). split; [reflexivity|cbn; lia]. Qed.
(* the redirect path uses args[0] and args[len-1] of a two element slice *)
Theorem redirect_args_in_bounds n0 : (1 <= args_len n0 Redirect)%nat.
Proof. cbn. lia. Qed.

Lemma decode1_split s r bs rest : decode1 s = Some (r, bs, rest) -> s = bs ++ rest /\ bs <> [].
Proof.
  unfold decode1. destruct s as [|c0 r0]; [discriminate|].
  repeat match goal with
         | |- context [if ?b then _ else _] => destruct b
         | |- context [match ?l with [] => _ | _ :: _ => _ end] => destruct l
         end; intro H; injection H as <- <- <-; split; try reflexivity; discriminate.
Qed.

(* the text that remains is a suffix of the text: the cut never leaves the string and never
   falls inside a character *)
Theorem drop_runes_suffix n : forall s, exists p, s = p ++ drop_runes n s.
Proof.
  induction n as [|n IH]; intro s; cbn [drop_runes]; [exists []; reflexivity|].
  destruct (decode1 s) as [[[r bs] rest]|] eqn:E; [|exists []; reflexivity].
  destruct (decode1_split _ _ _ _ E) as [-> _]. destruct (IH rest) as [p Hp].
  exists (bs ++ p). rewrite <- app_assoc, <- Hp. reflexivity.
Qed.
Theorem drop_runes_length n s : (length (drop_runes n s) <= length s)%nat.
Proof. destruct (drop_runes_suffix n s) as [p Hp]. rewrite Hp at 2. rewrite app_length. lia. Qed.

Theorem last_index_in_bounds len : (0 < len)%nat -> 0 <= last_index len < Z.of_nat len.
Proof. unfold last_index. lia. Qed.
Theorem last_index_empty_refuted : ~ (0 <= last_index 0).
Proof. unfold last_index. cbn. lia. Qed.

Theorem shorthand_index_in_bounds len index :
  1 <= index < len -> shorthand_reads_next len index = true ->
  index + 1 < len /\ index + 2 <= len.
Proof. unfold shorthand_reads_next. intros H E. apply Bool.negb_true_iff, Z.eqb_neq in E. lia. Qed.
