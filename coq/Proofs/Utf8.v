(* Proofs/Utf8.v — utf8.DecodeRune followed by string(rune) gives back the bytes of a well
   formed multi-byte sequence; decoding is local to those bytes. *)
From Coq Require Import ZArith Lia ZifyN ZifyBool.
From CV Require Import Base.Str Base.Utf8.
Local Open Scope N_scope.
Ltac Zify.zify_post_hook ::= Z.div_mod_to_equations.

Lemma in_range_spec lo hi x : in_range lo hi x = true <-> lo <= x <= hi.
Proof. unfold in_range. rewrite andb_true_iff, !N.leb_le. tauto. Qed.
Lemma vb_bv c : vb (bv c) = c.
Proof. apply ascii_N_embedding. Qed.
Lemma bv_lt c : bv c < 256.
Proof. apply N_ascii_bounded. Qed.
Lemma is_cont_spec c : is_cont c = true <-> 128 <= bv c <= 191.
Proof. apply in_range_spec. Qed.

(* the shape of a decoding step *)
Inductive dshape : str -> N -> str -> str -> Prop :=
| DAscii c rest : bv c < 128 -> dshape (c :: rest) (bv c) [c] rest
| DBad c rest : 128 <= bv c -> dshape (c :: rest) RuneError [c] rest
| D2 c0 c1 rest : 194 <= bv c0 <= 223 -> 128 <= bv c1 <= 191 ->
    dshape (c0 :: c1 :: rest) ((bv c0 - 192) * 64 + (bv c1 - 128)) [c0; c1] rest
| D3 c0 c1 c2 rest : 224 <= bv c0 <= 239 ->
    (if bv c0 =? 224 then 160 else 128) <= bv c1 <= (if bv c0 =? 237 then 159 else 191) -> 128 <= bv c2 <= 191 ->
    dshape (c0 :: c1 :: c2 :: rest) ((bv c0 - 224) * 4096 + (bv c1 - 128) * 64 + (bv c2 - 128)) [c0; c1; c2] rest
| D4 c0 c1 c2 c3 rest : 240 <= bv c0 <= 244 ->
    (if bv c0 =? 240 then 144 else 128) <= bv c1 <= (if bv c0 =? 244 then 143 else 191) ->
    128 <= bv c2 <= 191 -> 128 <= bv c3 <= 191 ->
    dshape (c0 :: c1 :: c2 :: c3 :: rest)
           ((bv c0 - 240) * 262144 + (bv c1 - 128) * 4096 + (bv c2 - 128) * 64 + (bv c3 - 128)) [c0; c1; c2; c3] rest.

Lemma decode1_shape s r bs rest : decode1 s = Some (r, bs, rest) -> dshape s r bs rest.
Proof.
  unfold decode1. destruct s as [|c0 r0]; [discriminate|]. cbv zeta.
  destruct (bv c0 <? 128) eqn:E0.
  { intro H. injection H as <- <- <-. apply DAscii. lia. }
  assert (Hb : 128 <= bv c0) by lia.
  destruct (in_range 194 223 (bv c0)) eqn:E2.
  { apply in_range_spec in E2. destruct r0 as [|c1 r1]; [intro H; injection H as <- <- <-; apply DBad; exact Hb|].
    destruct (is_cont c1) eqn:Ec; intro H; injection H as <- <- <-; [|apply DBad; exact Hb].
    apply D2; [exact E2|apply is_cont_spec; exact Ec]. }
  destruct (in_range 224 239 (bv c0)) eqn:E3.
  { apply in_range_spec in E3. destruct r0 as [|c1 [|c2 r2]]; try (intro H; injection H as <- <- <-; apply DBad; exact Hb).
    destruct (in_range _ _ (bv c1) && is_cont c2) eqn:Ec; intro H; injection H as <- <- <-; [|apply DBad; exact Hb].
    apply andb_true_iff in Ec as [Ec1 Ec2]. apply in_range_spec in Ec1. apply is_cont_spec in Ec2.
    apply D3; assumption. }
  destruct (in_range 240 244 (bv c0)) eqn:E4.
  { apply in_range_spec in E4. destruct r0 as [|c1 [|c2 [|c3 r3]]]; try (intro H; injection H as <- <- <-; apply DBad; exact Hb).
    destruct (in_range _ _ (bv c1) && is_cont c2 && is_cont c3) eqn:Ec; intro H; injection H as <- <- <-; [|apply DBad; exact Hb].
    apply andb_true_iff in Ec as [Ec Ec3]. apply andb_true_iff in Ec as [Ec1 Ec2].
    apply in_range_spec in Ec1. apply is_cont_spec in Ec2. apply is_cont_spec in Ec3.
    apply D4; assumption. }
  intro H. injection H as <- <- <-. apply DBad. exact Hb.
Qed.

Lemma decode1_split s r bs rest : decode1 s = Some (r, bs, rest) -> s = bs ++ rest.
Proof. intro H. apply decode1_shape in H. destruct H; reflexivity. Qed.

Lemma vb_sub c k : k <= bv c -> vb (k + (bv c - k)) = c.
Proof. intro H. replace (k + (bv c - k)) with (bv c) by lia. apply vb_bv. Qed.

(* string(rune) of a decoded multi-byte sequence is that sequence *)
Theorem decode_encode s r bs rest : decode1 s = Some (r, bs, rest) -> (2 <= length bs)%nat -> encode_rune r = bs.
Proof.
  intros H Hl. apply decode1_shape in H.
  destruct H as [c rest Hc|c rest Hc|c0 c1 rest H0 H1|c0 c1 c2 rest H0 H1 H2|c0 c1 c2 c3 rest H0 H1 H2 H3]; cbn [length] in Hl; try lia.
  - (* two bytes *)
    set (r := (bv c0 - 192) * 64 + (bv c1 - 128)). unfold encode_rune.
    assert (E1 : r <? 128 = false) by (subst r; lia). assert (E2 : r <? 2048 = true) by (subst r; lia).
    rewrite E1, E2. assert (Hq : r / 64 = bv c0 - 192) by (subst r; lia). assert (Hm : r mod 64 = bv c1 - 128) by (subst r; lia).
    rewrite Hq, Hm, !vb_sub by lia. reflexivity.
  - (* three bytes *)
    set (r := (bv c0 - 224) * 4096 + (bv c1 - 128) * 64 + (bv c2 - 128)). unfold encode_rune.
    assert (Hlo : 2048 <= r) by (subst r; destruct (bv c0 =? 224) eqn:E; lia).
    assert (Hns : in_range 55296 57343 r = false).
    { unfold in_range. subst r. destruct (bv c0 =? 237) eqn:E; destruct (bv c0 =? 224) eqn:E'; lia. }
    assert (E1 : r <? 128 = false) by lia. assert (E2 : r <? 2048 = false) by lia.
    assert (E3 : r <? 65536 = true) by (subst r; destruct (bv c0 =? 237); lia).
    rewrite E1, E2, Hns, E3.
    assert (Hq : r / 4096 = bv c0 - 224) by (subst r; destruct (bv c0 =? 237); destruct (bv c0 =? 224); lia).
    assert (Hm1 : (r / 64) mod 64 = bv c1 - 128) by (subst r; destruct (bv c0 =? 237); destruct (bv c0 =? 224); lia).
    assert (Hm2 : r mod 64 = bv c2 - 128) by (subst r; lia).
    rewrite Hq, Hm1, Hm2, !vb_sub; try reflexivity; try lia.
    destruct (bv c0 =? 224); lia.
  - (* four bytes *)
    set (r := (bv c0 - 240) * 262144 + (bv c1 - 128) * 4096 + (bv c2 - 128) * 64 + (bv c3 - 128)). unfold encode_rune.
    assert (Hlo : 65536 <= r) by (subst r; destruct (bv c0 =? 240) eqn:E; lia).
    assert (Hhi : r <= 1114111) by (subst r; destruct (bv c0 =? 244) eqn:E; lia).
    assert (Hns : in_range 55296 57343 r = false) by (unfold in_range; lia).
    assert (E1 : r <? 128 = false) by lia. assert (E2 : r <? 2048 = false) by lia. assert (E3 : r <? 65536 = false) by lia.
    assert (E4 : r <=? 1114111 = true) by lia.
    rewrite E1, E2, Hns, E3, E4.
    assert (Hq : r / 262144 = bv c0 - 240) by (subst r; destruct (bv c0 =? 244); destruct (bv c0 =? 240); lia).
    assert (Hm0 : (r / 4096) mod 64 = bv c1 - 128) by (subst r; destruct (bv c0 =? 244); destruct (bv c0 =? 240); lia).
    assert (Hm1 : (r / 64) mod 64 = bv c2 - 128) by (subst r; lia).
    assert (Hm2 : r mod 64 = bv c3 - 128) by (subst r; lia).
    rewrite Hq, Hm0, Hm1, Hm2, !vb_sub; try reflexivity; try lia.
    destruct (bv c0 =? 240); lia.
Qed.

(* decoding a well formed multi-byte sequence does not depend on what follows *)
Theorem decode1_local s r bs rest : decode1 s = Some (r, bs, rest) -> (2 <= length bs)%nat ->
  forall x, decode1 (bs ++ x) = Some (r, bs, x).
Proof.
  intros H Hl x. apply decode1_shape in H.
  destruct H as [c rest Hc|c rest Hc|c0 c1 rest H0 H1|c0 c1 c2 rest H0 H1 H2|c0 c1 c2 c3 rest H0 H1 H2 H3]; cbn [length] in Hl; try lia;
    cbn [app]; unfold decode1; cbv zeta.
  - assert (E0 : bv c0 <? 128 = false) by lia. assert (E2 : in_range 194 223 (bv c0) = true) by (apply in_range_spec; lia).
    assert (Ec : is_cont c1 = true) by (apply is_cont_spec; lia). rewrite E0, E2, Ec. reflexivity.
  - assert (E0 : bv c0 <? 128 = false) by lia. assert (E2 : in_range 194 223 (bv c0) = false) by (unfold in_range; lia).
    assert (E3 : in_range 224 239 (bv c0) = true) by (apply in_range_spec; lia).
    assert (Ec2 : is_cont c2 = true) by (apply is_cont_spec; lia).
    rewrite E0, E2, E3, Ec2.
    assert (Ec1 : in_range (if bv c0 =? 224 then 160 else 128) (if bv c0 =? 237 then 159 else 191) (bv c1) = true) by (apply in_range_spec; exact H1).
    rewrite Ec1. reflexivity.
  - assert (E0 : bv c0 <? 128 = false) by lia. assert (E2 : in_range 194 223 (bv c0) = false) by (unfold in_range; lia).
    assert (E3 : in_range 224 239 (bv c0) = false) by (unfold in_range; lia).
    assert (E4 : in_range 240 244 (bv c0) = true) by (apply in_range_spec; lia).
    assert (Ec2 : is_cont c2 = true) by (apply is_cont_spec; lia). assert (Ec3 : is_cont c3 = true) by (apply is_cont_spec; lia).
    rewrite E0, E2, E3, E4, Ec2, Ec3.
    assert (Ec1 : in_range (if bv c0 =? 240 then 144 else 128) (if bv c0 =? 244 then 143 else 191) (bv c1) = true) by (apply in_range_spec; exact H1).
    rewrite Ec1. reflexivity.
Qed.

(* the other direction: utf8.DecodeRune of string(rune) for a Unicode scalar value *)
Definition scalar (r : N) : Prop := r <= 1114111 /\ ~ (55296 <= r <= 57343).
Lemma bv_vb x : x < 256 -> bv (vb x) = x.
Proof. intro H. apply N_ascii_embedding. exact H. Qed.

Theorem encode_decode r s : scalar r -> decode1 (encode_rune r ++ s) = Some (r, encode_rune r, s).
Proof.
  intros [Hmax Hns]. unfold encode_rune.
  destruct (r <? 128) eqn:E1.
  { cbn [app]. unfold decode1. cbv zeta. rewrite bv_vb by lia. rewrite E1. reflexivity. }
  destruct (r <? 2048) eqn:E2.
  { cbn [app]. unfold decode1. cbv zeta. rewrite !bv_vb by lia.
    assert (A0 : 192 + r / 64 <? 128 = false) by lia. assert (A1 : in_range 194 223 (192 + r / 64) = true) by (apply in_range_spec; lia).
    rewrite A0, A1. unfold is_cont. rewrite bv_vb by lia.
    assert (A2 : in_range 128 191 (128 + r mod 64) = true) by (apply in_range_spec; lia). rewrite A2.
    f_equal. f_equal. f_equal. lia. }
  assert (Hsur : in_range 55296 57343 r = false) by (unfold in_range; lia). rewrite Hsur.
  destruct (r <? 65536) eqn:E3.
  { cbn [app]. unfold decode1. cbv zeta. rewrite !bv_vb by lia.
    assert (A0 : 224 + r / 4096 <? 128 = false) by lia.
    assert (A1 : in_range 194 223 (224 + r / 4096) = false) by (unfold in_range; lia).
    assert (A2 : in_range 224 239 (224 + r / 4096) = true) by (apply in_range_spec; lia).
    rewrite A0, A1, A2. unfold is_cont. rewrite !bv_vb by lia.
    assert (A3 : in_range (if 224 + r / 4096 =? 224 then 160 else 128) (if 224 + r / 4096 =? 237 then 159 else 191) (128 + (r / 64) mod 64) = true).
    { apply in_range_spec. destruct (224 + r / 4096 =? 224) eqn:Ea; destruct (224 + r / 4096 =? 237) eqn:Eb; lia. }
    assert (A4 : in_range 128 191 (128 + r mod 64) = true) by (apply in_range_spec; lia).
    rewrite A3, A4. cbn [andb]. f_equal. f_equal. f_equal. lia. }
  assert (E4 : r <=? 1114111 = true) by lia. rewrite E4.
  cbn [app]. unfold decode1. cbv zeta. rewrite !bv_vb by lia.
  assert (A0 : 240 + r / 262144 <? 128 = false) by lia.
  assert (A1 : in_range 194 223 (240 + r / 262144) = false) by (unfold in_range; lia).
  assert (A2 : in_range 224 239 (240 + r / 262144) = false) by (unfold in_range; lia).
  assert (A3 : in_range 240 244 (240 + r / 262144) = true) by (apply in_range_spec; lia).
  rewrite A0, A1, A2, A3. unfold is_cont. rewrite !bv_vb by lia.
  assert (A4 : in_range (if 240 + r / 262144 =? 240 then 144 else 128) (if 240 + r / 262144 =? 244 then 143 else 191) (128 + (r / 4096) mod 64) = true).
  { apply in_range_spec. destruct (240 + r / 262144 =? 240) eqn:Ea; destruct (240 + r / 262144 =? 244) eqn:Eb; lia. }
  assert (A5 : in_range 128 191 (128 + (r / 64) mod 64) = true) by (apply in_range_spec; lia).
  assert (A6 : in_range 128 191 (128 + r mod 64) = true) by (apply in_range_spec; lia).
  rewrite A4, A5, A6. cbn [andb]. f_equal. f_equal. f_equal. lia.
Qed.
