(* Proofs/Xonsh.v — the xonsh quoting after the repair: a value that needs quoting becomes an
   ordinary Python literal '...' with every backslash and single quote escaped; it reads back
   (Spec/Readers.v read_xonsh_sp) as exactly the value. *)
From CV Require Import Base.Str Gen.Tables Model.Common Model.Shells Spec.Readers.
Local Open Scope nat_scope.

Definition py_escape (v : str) : str :=
  flat_map (fun c => if beq c c_bs then [c_bs; c_bs] else if beq c c_sq then [c_bs; c_sq] else [c]) v.
Definition xonsh_quote_fixed (chars : str) (v : str) : str :=
  if contains_any v chars then c_sq :: py_escape v ++ [c_sq] else v.

Lemma py_sq_escaped v rest : ~ In c_lf v -> py_sq (py_escape v ++ c_sq :: rest) = Some (v, rest).
Proof.
  induction v as [|c v IH]; intro Hlf.
  - cbn [py_escape flat_map app py_sq]. rewrite beq_refl. reflexivity.
  - assert (Hv : ~ In c_lf v) by (intro; apply Hlf; right; assumption).
    cbn [py_escape flat_map]. fold (py_escape v). destruct (beq c c_bs) eqn:Eb.
    + apply beq_true in Eb. subst c. cbn [app py_sq]. change (beq c_bs c_sq) with false. rewrite beq_refl.
      cbn [orb]. rewrite (IH Hv). reflexivity.
    + destruct (beq c c_sq) eqn:Eq.
      * apply beq_true in Eq. subst c. cbn [app py_sq]. change (beq c_bs c_sq) with false. rewrite !beq_refl.
        cbn [orb]. rewrite (IH Hv). reflexivity.
      * cbn [app py_sq]. rewrite Eq, Eb.
        assert (El : beq c c_lf = false) by (apply beq_false; intro E; apply Hlf; left; exact E).
        rewrite El, (IH Hv). reflexivity.
Qed.

Theorem xonsh_fixed_roundtrip chars v (blank : bool) : ~ In c_lf v ->
  read_xonsh_sp (xonsh_quote_fixed chars v ++ (if blank then [c_sp] else [])) =
    if contains_any v chars then Reads (Some (v, blank))
    else read_xonsh_sp (v ++ (if blank then [c_sp] else [])).
Proof.
  intro Hlf. unfold xonsh_quote_fixed. destruct (contains_any v chars); [|reflexivity].
  cbn [app read_xonsh_sp]. rewrite beq_refl. rewrite <- app_assoc. cbn [app].
  rewrite (py_sq_escaped v _ Hlf). destruct blank; reflexivity.
Qed.

(* the replacer table of the source (regenerated) escapes exactly backslash and single quote *)
Definition py_table_ok (t : table) : bool :=
  forallb (fun c => str_eqb (rep1 t c) (if beq c c_bs then [c_bs; c_bs] else if beq c c_sq then [c_bs; c_sq] else [c])) all_bytes.
Lemma replace1_py_escape t v : py_table_ok t = true -> replace1 t v = py_escape v.
Proof.
  intro H. unfold replace1, py_escape. apply flat_map_ext. intro c.
  pose proof (forall_bytes _ H c) as E. cbv beta in E. apply str_eqb_true in E. exact E.
Qed.

Lemma xonsh_tables_ok : py_table_ok xonsh_quoter = true /\ mem c_lf (keys xonsh_sanitizer) = true /\ drops xonsh_sanitizer = true.
Proof. repeat split; vm_compute; reflexivity. Qed.

(* the model's quoting (sanitise, then quote) read back: a quoted value reads back as the sanitised
   value; an unquoted one is a bare subprocess word, for which there is no reader *)
Theorem xonsh_roundtrip v (blank : bool) :
  let val := replace1 xonsh_sanitizer v in
  read_xonsh_sp (xonsh_quote v ++ (if blank then [c_sp] else [])) =
    if contains_any val xonsh_ActionRawValues_any1 then Reads (Some (val, blank))
    else read_xonsh_sp (val ++ (if blank then [c_sp] else [])).
Proof.
  cbv zeta. destruct xonsh_tables_ok as (Hq & Hk & Hd).
  assert (Hlf : ~ In c_lf (replace1 xonsh_sanitizer v)) by (apply replace1_drops_notin; [exact Hd|apply mem_In; exact Hk]).
  pose proof (xonsh_fixed_roundtrip xonsh_ActionRawValues_any1 (replace1 xonsh_sanitizer v) blank Hlf) as H.
  unfold xonsh_quote_fixed in H. unfold xonsh_quote. rewrite (replace1_py_escape _ _ Hq).
  change (B [39]) with [c_sq]. destruct (contains_any _ _); exact H.
Qed.
