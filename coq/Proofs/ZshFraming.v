(* Proofs/ZshFraming.v — C04 for zsh: the four-part frame (zstyle \001 message \001 blocks \001), the
   blocks (\002-separated: tag \003 display lines \003 value lines) and the line arrays decode into ONE
   record per candidate, tag by tag, when no field holds a byte \001-\003 (outside the claim) and no
   rendered line is empty (the refuted case, C04_zsh_empty_line_refuted).  Line breaks, CRs and TABs
   in any field cannot split a record: the sanitizer deletes them (obligations on the regenerated tables). *)
From Coq Require Import Lia.
From CV Require Import Base.Str Base.Utf8 Gen.Tables Model.Common Model.Shells Spec.FmtDecode Proofs.Framing Proofs.FilesDenote.
Local Open Scope nat_scope.

Definition b1 := byte 1. Definition b2 := byte 2. Definition b3 := byte 3.
Definition ctl_free (s : str) : Prop := ~ In b1 s /\ ~ In b2 s /\ ~ In b3 s.
Definition line_ok (s : str) : Prop := ctl_free s /\ ~ In LF s /\ s <> [].

(* ---------- layer 1: the frame ---------- *)
Definition zblock (g : str * list (str * str)) : str :=
  join [b3] [fst g; join [LF] (map fst (snd g)); join [LF] (map snd (snd g))].
Definition zframe (Z M : str) (groups : list (str * list (str * str))) : str :=
  Z ++ [b1] ++ M ++ [b1] ++ join [b2] (map zblock groups) ++ [b2] ++ [b1].
Definition zrec (tag : str) (dv : str * str) : drec :=
  let '(dis, desc) := describe_split (fst dv) in
  mkD (snd dv) dis (match desc with Some x => x | None => [] end) None [] tag.
Definition group_ok (g : str * list (str * str)) : Prop :=
  ctl_free (fst g) /\ Forall (fun dv => line_ok (fst dv) /\ line_ok (snd dv)) (snd g).

Lemma filter_nonempty_all l : Forall (fun s : str => s <> []) l -> filter nonempty l = l.
Proof. induction 1 as [|s l Hs Hl IH]; [reflexivity|]. cbn [filter]. destruct s; [contradiction|]. cbn [nonempty]. rewrite IH. reflexivity. Qed.

Lemma lines_back (ls : list str) : Forall (fun s => ~ In LF s /\ s <> []) ls -> filter nonempty (split1 LF (join [LF] ls)) = ls.
Proof.
  intro H. destruct ls as [|x ls']; [reflexivity|]. rewrite split1_join.
  - apply filter_nonempty_all. eapply Forall_impl; [|exact H]. intros s [_ Hs]. exact Hs.
  - discriminate.
  - intros f Hf. rewrite Forall_forall in H. apply (H f Hf).
Qed.

Lemma zip_recs_pairs tag (ls : list (str * str)) : zip_recs tag (map fst ls) (map snd ls) = Some (map (zrec tag) ls).
Proof.
  induction ls as [|[d v] ls IH]; [reflexivity|]. cbn [map fst snd zip_recs]. rewrite IH. unfold zrec at 2. cbn [fst snd].
  destruct (describe_split d) as [dis desc]. reflexivity.
Qed.

Lemma join_free sep l c : ~ In c sep -> Forall (fun f : str => ~ In c f) l -> ~ In c (join sep l).
Proof. intros Hs Hl. apply join_no_sep; [exact Hs|]. rewrite Forall_forall in Hl. exact Hl. Qed.

Lemma neq_bytes : b1 <> b2 /\ b1 <> b3 /\ b2 <> b3 /\ b1 <> LF /\ b2 <> LF /\ b3 <> LF.
Proof. repeat split; discriminate. Qed.

Lemma single_not_in (a b : ascii) : a <> b -> ~ In a [b].
Proof. intros H [E|[]]. apply H. symmetry. exact E. Qed.

Lemma zblock_decode g : group_ok g -> decode_zsh_block (zblock g) = Some (map (zrec (fst g)) (snd g)).
Proof.
  destruct g as [t ls]. intros [Ht Hls]. cbn [fst snd] in *. unfold decode_zsh_block, zblock. cbn [fst snd].
  destruct neq_bytes as (N12 & N13 & N23 & N1L & N2L & N3L).
  assert (HD : ~ In b3 (join [LF] (map fst ls))).
  { apply join_free; [apply single_not_in; exact N3L|]. apply Forall_forall. intros f Hf. apply in_map_iff in Hf as (dv & <- & Hdv).
    rewrite Forall_forall in Hls. destruct (Hls dv Hdv) as [[(_ & _ & H) _] _]. exact H. }
  assert (HV : ~ In b3 (join [LF] (map snd ls))).
  { apply join_free; [apply single_not_in; exact N3L|]. apply Forall_forall. intros f Hf. apply in_map_iff in Hf as (dv & <- & Hdv).
    rewrite Forall_forall in Hls. destruct (Hls dv Hdv) as [_ [(_ & _ & H) _]]. exact H. }
  change (byte 3) with b3. rewrite split1_join.
  - rewrite !lines_back.
    + apply zip_recs_pairs.
    + apply Forall_forall. intros f Hf. apply in_map_iff in Hf as (dv & <- & Hdv). rewrite Forall_forall in Hls.
      destruct (Hls dv Hdv) as [_ (_ & H1 & H2)]. split; assumption.
    + apply Forall_forall. intros f Hf. apply in_map_iff in Hf as (dv & <- & Hdv). rewrite Forall_forall in Hls.
      destruct (Hls dv Hdv) as [(_ & H1 & H2) _]. split; assumption.
  - discriminate.
  - intros f [<-|[<-|[<-|[]]]]; [destruct Ht as (_ & _ & H); exact H|exact HD|exact HV].
Qed.

Lemma zblock_free g c : group_ok g -> (c = b1 \/ c = b2) -> ~ In c (zblock g).
Proof.
  destruct g as [t ls]. intros [Ht Hls] Hc. cbn [fst snd] in *. unfold zblock. cbn [fst snd].
  destruct neq_bytes as (N12 & N13 & N23 & N1L & N2L & N3L).
  assert (Hc3 : c <> b3) by (destruct Hc as [-> | ->]; assumption).
  assert (HcL : c <> LF) by (destruct Hc as [-> | ->]; assumption).
  assert (Hline : forall s, ctl_free s -> ~ In c s) by (intros s (H1 & H2 & _); destruct Hc as [-> | ->]; assumption).
  apply join_free; [apply single_not_in; exact Hc3|].
  repeat (apply Forall_cons; [|]); try apply Forall_nil.
  - apply Hline. exact Ht.
  - apply join_free; [apply single_not_in; exact HcL|]. apply Forall_forall. intros f Hf. apply in_map_iff in Hf as (dv & <- & Hdv).
    rewrite Forall_forall in Hls. destruct (Hls dv Hdv) as [[H _] _]. apply Hline. exact H.
  - apply join_free; [apply single_not_in; exact HcL|]. apply Forall_forall. intros f Hf. apply in_map_iff in Hf as (dv & <- & Hdv).
    rewrite Forall_forall in Hls. destruct (Hls dv Hdv) as [_ [H _]]. apply Hline. exact H.
Qed.
Lemma zblock_nonempty g : zblock g <> [].
Proof. destruct g as [t ls]. unfold zblock. cbn [fst snd join]. destruct t; discriminate. Qed.

Lemma all_some_map {A B} (f : A -> option B) (g : A -> B) l : (forall x, In x l -> f x = Some (g x)) -> all_some (map f l) = Some (map g l).
Proof.
  induction l as [|x l IH]; intro H; [reflexivity|]. cbn [map all_some]. rewrite (H x (or_introl eq_refl)), IH; [reflexivity|].
  intros y Hy. apply H. right. exact Hy.
Qed.

Theorem zframe_decode Z M groups : ~ In b1 Z -> ~ In b1 M -> Forall group_ok groups ->
  decode_zsh (zframe Z M groups) = Some (Z, M, concat (map (fun g => map (zrec (fst g)) (snd g)) groups)).
Proof.
  intros HZ HM Hg. unfold decode_zsh, zframe. change (byte 1) with b1. change (byte 2) with b2.
  set (data := join [b2] (map zblock groups) ++ [b2]).
  assert (Hdata1 : ~ In b1 data).
  { unfold data. intro H. apply in_app_or in H as [H|[H|[]]]; [|discriminate].
    revert H. apply join_free; [apply single_not_in; discriminate|]. apply Forall_forall. intros f Hf. apply in_map_iff in Hf as (g & <- & Hin).
    rewrite Forall_forall in Hg. apply zblock_free; [apply Hg; exact Hin|left; reflexivity]. }
  assert (E : Z ++ [b1] ++ M ++ [b1] ++ join [b2] (map zblock groups) ++ [b2] ++ [b1] = Z ++ b1 :: M ++ b1 :: data ++ b1 :: []).
  { unfold data. cbn [app]. rewrite <- app_assoc. reflexivity. }
  rewrite E.
  rewrite split1_app_sep, (split1_single _ _ HZ). rewrite split1_app_sep, (split1_single _ _ HM).
  rewrite split1_app_sep, (split1_single _ _ Hdata1). cbn [split1 app].
  assert (Hblocks : filter nonempty (removelast (split1 b2 data)) = map zblock groups).
  { unfold data. destruct groups as [|g gs]; [reflexivity|].
    change (join [b2] (map zblock (g :: gs)) ++ [b2]) with (join [b2] (map zblock (g :: gs)) ++ b2 :: []).
    rewrite split1_app_sep. cbn [split1]. rewrite removelast_last. rewrite split1_join.
    - apply filter_nonempty_all. apply Forall_forall. intros f Hf. apply in_map_iff in Hf as (g' & <- & _). apply zblock_nonempty.
    - discriminate.
    - intros f Hf. apply in_map_iff in Hf as (g' & <- & Hin). rewrite Forall_forall in Hg. apply zblock_free; [apply Hg; exact Hin|right; reflexivity]. }
  rewrite Hblocks, map_map.
  rewrite (all_some_map _ (fun g => map (zrec (fst g)) (snd g))); [reflexivity|].
  intros g Hin. rewrite Forall_forall in Hg. apply zblock_decode. apply Hg. exact Hin.
Qed.

(* ---------- layer 2: zsh_format is such a frame ---------- *)
Definition zsh_groups (e : fenv) (m : meta) (vs : list raw) : list (str * list (str * str)) :=
  map (fun tg => (fst tg, map (fun v => (zsh_display v, zsh_value e (zsh_state (zsh_raw e)) m v)) (snd tg)))
      (each_tag (map zsh_retag vs)).
Lemma zsh_format_frame e m vs :
  zsh_format e m vs = zframe (zstyles_format e (map zsh_retag vs)) (zsh_message_format e m) (zsh_groups e m vs).
Proof.
  unfold zsh_format, zframe, zsh_groups. cbv zeta. f_equal. f_equal. f_equal. f_equal. f_equal. f_equal.
  rewrite map_map. apply map_ext. intros [t gvs]. unfold zblock. cbn [fst snd]. rewrite !map_map. reflexivity.
Qed.

(* ---------- layer 3: what the renderers can and cannot emit ---------- *)
Definition frees (b : ascii) : Prop :=
  (forall kv, In kv zsh_describeReplacer -> ~ In b (snd kv)) /\
  (forall kv, In kv zsh_quotingEscapingReplacer -> ~ In b (snd kv)) /\
  (forall kv, In kv zsh_quotingReplacer -> ~ In b (snd kv)) /\
  (forall kv, In kv zsh_defaultReplacer -> ~ In b (snd kv)) /\
  (forall kv, In kv zsh_sanitizer -> ~ In b (snd kv)) /\
  (forall kv, In kv zsh_zstyles_Format_replacer -> ~ In b (snd kv)) /\
  (forall kv, In kv zsh_message_formatMessage_replacer1 -> ~ In b (snd kv)).
(* obligations on the regenerated tables *)
Lemma tables_free b : (b = b1 \/ b = b2 \/ b = b3 \/ b = LF) -> frees b.
Proof.
  intro H. unfold frees. repeat split; apply sep_free_spec; destruct H as [->|[->|[->| ->]]]; vm_compute; reflexivity.
Qed.
Lemma sanitizer_deletes_lf : deletes zsh_sanitizer LF = true.
Proof. vm_compute. reflexivity. Qed.

Lemma drop_In (b : ascii) n s : In b (drop n s) -> In b s.
Proof. revert s. induction n as [|n IH]; intros s H; [exact H|]. destruct s as [|c s]; [exact H|]. right. apply IH. exact H. Qed.
Lemma trim_prefix_free b s p : ~ In b s -> ~ In b (trim_prefix s p).
Proof. intros H Hin. apply H. unfold trim_prefix in Hin. destruct (has_prefix s p); [apply (drop_In _ _ _ Hin)|exact Hin]. Qed.
Lemma app_free (b : ascii) x y : ~ In b x -> ~ In b y -> ~ In b (x ++ y).
Proof. intros Hx Hy H. apply in_app_or in H as [H|H]; auto. Qed.
Ltac const_free := let H := fresh in intro H; cbn in H; repeat (destruct H as [H|H]; [discriminate H|]); exact H.

Section Lines.
Variable b : ascii.
Hypothesis Hb : b = b1 \/ b = b2 \/ b = b3 \/ b = LF.
(* b is none of the constant bytes the renderers add *)
Lemma b_small : ~ In b (B [58]) /\ ~ In b (B [34]) /\ ~ In b (B [39]) /\ ~ In b (B [32]) /\ ~ In b (B [126]).
Proof. repeat split; destruct Hb as [->|[->|[->| ->]]]; const_free. Qed.

(* [inp s]: the field s cannot contribute b — because it does not hold it, or (LF) because the sanitizer deletes it *)
Definition inp (s : str) : Prop := b = LF \/ ~ In b s.
Lemma sanitized_free s : inp s -> ~ In b (replace1 zsh_sanitizer s).
Proof.
  intros [->|H]; [apply deletes_spec, sanitizer_deletes_lf|].
  destruct (tables_free b Hb) as (_ & _ & _ & _ & Hs & _). apply replace1_notin; assumption.
Qed.

Lemma zsh_display_free v : inp (display v) -> inp (description v) -> ~ In b (zsh_display v).
Proof.
  intros Hd Hde. unfold zsh_display. destruct (tables_free b Hb) as (HDR & _).
  assert (H1 : ~ In b (replace1 zsh_describeReplacer (replace1 zsh_sanitizer (display v)))) by (apply replace1_notin; [exact HDR|apply sanitized_free; exact Hd]).
  destruct (trim_space _); [exact H1|]. apply app_free; [exact H1|]. apply app_free; [apply b_small|apply sanitized_free; exact Hde].
Qed.

Lemma zsh_value_free e st m v : inp (value v) -> ~ In b (zsh_value e st m v).
Proof.
  intros Hv. unfold zsh_value. destruct (tables_free b Hb) as (HDR & HQE & HQ & HDEF & _).
  destruct b_small as (_ & H34 & H39 & H32 & H126).
  pose proof (sanitized_free _ Hv) as Hs.
  assert (Hq : ~ In b (zsh_quote_value (zsh_hashdirs e) (replace1 zsh_sanitizer (value v)))).
  { unfold zsh_quote_value. destruct (_ || _); [apply app_free; [exact H126|]|]; apply replace1_notin; try exact HDEF; [apply trim_prefix_free|]; exact Hs. }
  destruct (sm_matches (nospace m) (value v)); destruct st;
    repeat first [apply app_free | exact H34 | exact H39 | exact H32 | exact Hq | exact Hs
                 | apply replace1_notin; [first [exact HDR | exact HQE | exact HQ]|]].
Qed.
End Lines.

(* tags *)
Lemma insert_str_In s l x : In x (insert_str s l) <-> x = s \/ In x l.
Proof.
  induction l as [|y l IH]; cbn [insert_str]; [cbn; intuition|].
  destruct (str_eqb s y) eqn:E; [apply str_eqb_true in E; subst y; cbn [In]; intuition|].
  destruct (str_ltb s y); cbn [In]; [intuition|]. rewrite IH. intuition.
Qed.
Lemma tags_of_In vs t : In t (tags_of vs) <-> exists v, In v vs /\ tag v = t.
Proof.
  unfold tags_of. assert (G : forall acc, In t (fold_left (fun acc v => insert_str (tag v) acc) vs acc) <-> In t acc \/ exists v, In v vs /\ tag v = t).
  { induction vs as [|v vs IH]; intro acc; cbn [fold_left].
    - split; [auto|intros [H|(v & [] & _)]; exact H].
    - rewrite IH, insert_str_In. split.
      + intros [[->|H]|(w & Hw & Ew)]; [right; exists v; split; [left; reflexivity|reflexivity]|left; exact H|right; exists w; split; [right; exact Hw|exact Ew]].
      + intros [H|(w & [->|Hw] & Ew)]; [left; right; exact H|left; left; symmetry; exact Ew|right; exists w; split; assumption]. }
  rewrite G. cbn [In]. intuition.
Qed.

Definition raw_ok (v : raw) : Prop :=
  ctl_free (value v) /\ ctl_free (display v) /\ ctl_free (description v) /\ ctl_free (tag v) /\ ~ In b1 (rstyle v).
Definition env_ok (e : fenv) : Prop := ~ In b1 (g1 e) /\ ~ In b1 (g2 e) /\ ~ In b1 (g3 e) /\ ~ In b1 (g4 e).
Definition meta_ok (m : meta) : Prop := Forall (fun s => ~ In b1 s) (messages m) /\ ~ In b1 (usage m).

Lemma retag_ok v : raw_ok v -> raw_ok (zsh_retag v).
Proof.
  intros ((A1 & A2 & A3) & (B1 & B2 & B3) & (C1 & C2 & C3) & (D1 & D2 & D3) & H5). unfold zsh_retag. destruct (_ || _); [|repeat split; assumption].
  unfold raw_ok, ctl_free, set_tag. cbn [value display description tag rstyle]. repeat split; try assumption; const_free.
Qed.

Lemma zstyles_free e vs : env_ok e -> Forall raw_ok vs -> ~ In b1 (zstyles_format e vs).
Proof.
  intros (Hg1 & _) Hvs. unfold zstyles_format. cbv zeta.
  destruct (tables_free b1 (or_introl eq_refl)) as (_ & _ & _ & _ & _ & HZ & _).
  apply join_free; [const_free|]. apply Forall_app. split.
  - destruct (length vs <? 500); [|apply Forall_nil]. apply Forall_forall. intros f Hf. apply in_flat_map in Hf as (v & Hv & Hf).
    rewrite Forall_forall in Hvs. destruct (Hvs v Hv) as (_ & (Hd & _) & _ & _ & Hst).
    assert (Hdd : ~ In b1 (replace1 zsh_zstyles_Format_replacer (display v))) by (apply replace1_notin; assumption).
    destruct Hf as [<-|[<-|[]]]; repeat first [apply app_free | exact Hdd | exact Hst | exact Hg1 | const_free].
  - apply Forall_cons; [|apply Forall_nil]. apply app_free; [const_free|exact Hg1].
Qed.
Lemma zsh_msg_free e sgr msg : env_ok e -> ~ In b1 sgr -> ~ In b1 msg -> ~ In b1 (zsh_msg e sgr msg).
Proof.
  intros (_ & _ & _ & Hg4) Hs Hm. unfold zsh_msg. destruct (tables_free b1 (or_introl eq_refl)) as (_ & _ & _ & _ & _ & _ & HM).
  repeat first [apply app_free | exact Hs | exact Hg4 | apply replace1_notin; [exact HM|exact Hm] | const_free].
Qed.
Lemma message_free e m : env_ok e -> meta_ok m -> ~ In b1 (zsh_message_format e m).
Proof.
  intros He (Hms & Hu). pose proof He as (_ & Hg2 & Hg3 & _). unfold zsh_message_format. apply join_free; [const_free|]. apply Forall_app. split.
  - apply Forall_forall. intros f Hf. apply in_map_iff in Hf as (s & <- & Hs). rewrite Forall_forall in Hms. apply zsh_msg_free; [exact He|exact Hg2|apply Hms; exact Hs].
  - destruct (usage m) eqn:E; [apply Forall_nil|]. apply Forall_cons; [|apply Forall_nil]. apply zsh_msg_free; [exact He|exact Hg3|exact Hu].
Qed.

Lemma display_line_ok v : raw_ok v -> zsh_display v <> [] -> line_ok (zsh_display v).
Proof.
  intros (_ & (D1 & D2 & D3) & (E1 & E2 & E3) & _) Hne. split; [repeat split|split; [|exact Hne]].
  - apply (zsh_display_free b1); [auto|right; exact D1|right; exact E1].
  - apply (zsh_display_free b2); [auto|right; exact D2|right; exact E2].
  - apply (zsh_display_free b3); [auto|right; exact D3|right; exact E3].
  - apply (zsh_display_free LF); [auto|left; reflexivity|left; reflexivity].
Qed.
Lemma value_line_ok e st m v : raw_ok v -> zsh_value e st m v <> [] -> line_ok (zsh_value e st m v).
Proof.
  intros ((V1 & V2 & V3) & _) Hne. split; [repeat split|split; [|exact Hne]].
  - apply (zsh_value_free b1); [auto|right; exact V1].
  - apply (zsh_value_free b2); [auto|right; exact V2].
  - apply (zsh_value_free b3); [auto|right; exact V3].
  - apply (zsh_value_free LF); [auto|left; reflexivity].
Qed.

(* C04 for zsh *)
Theorem zsh_decode e m vs : env_ok e -> meta_ok m -> Forall raw_ok vs ->
  Forall (fun v => zsh_display v <> [] /\ zsh_value e (zsh_state (zsh_raw e)) m v <> []) (map zsh_retag vs) ->
  decode_zsh (zsh_format e m vs) =
  Some (zstyles_format e (map zsh_retag vs), zsh_message_format e m,
        concat (map (fun g => map (zrec (fst g)) (snd g)) (zsh_groups e m vs))).
Proof.
  intros He Hm Hvs Hne. rewrite zsh_format_frame.
  assert (Hvs' : Forall raw_ok (map zsh_retag vs)).
  { apply Forall_forall. intros v Hv. apply in_map_iff in Hv as (w & <- & Hw). rewrite Forall_forall in Hvs. apply retag_ok, Hvs, Hw. }
  apply zframe_decode; [apply zstyles_free; assumption|apply message_free; assumption|].
  unfold zsh_groups. apply Forall_forall. intros g Hg. apply in_map_iff in Hg as ([t gvs] & <- & Hin). cbn [fst snd].
  unfold each_tag in Hin. apply in_map_iff in Hin as (t' & E & Ht). injection E as -> <-.
  apply tags_of_In in Ht as (v0 & Hv0 & <-). rewrite Forall_forall in Hvs', Hne.
  split; cbn [fst snd].
  - destruct (Hvs' v0 Hv0) as (_ & _ & _ & H & _). exact H.
  - apply Forall_forall. intros dv Hdv. apply in_map_iff in Hdv as (v & <- & Hv). apply filter_In in Hv as [Hv _]. cbn [fst snd].
    destruct (Hne v Hv) as [N1 N2]. split; [apply display_line_ok|apply value_line_ok]; auto.
Qed.

(* every candidate has its record, under its (re)tag *)
Theorem zsh_record_of_candidate e m vs v : In v (map zsh_retag vs) ->
  In (zrec (tag v) (zsh_display v, zsh_value e (zsh_state (zsh_raw e)) m v))
     (concat (map (fun g => map (zrec (fst g)) (snd g)) (zsh_groups e m vs))).
Proof.
  intro Hv. apply in_concat. exists (map (zrec (tag v)) (map (fun v => (zsh_display v, zsh_value e (zsh_state (zsh_raw e)) m v))
                                               (filter (fun w => str_eqb (tag w) (tag v)) (map zsh_retag vs)))).
  split.
  - apply in_map_iff. exists (tag v, map (fun v => (zsh_display v, zsh_value e (zsh_state (zsh_raw e)) m v)) (filter (fun w => str_eqb (tag w) (tag v)) (map zsh_retag vs))).
    split; [reflexivity|]. unfold zsh_groups. apply in_map_iff. exists (tag v, filter (fun w => str_eqb (tag w) (tag v)) (map zsh_retag vs)).
    split; [reflexivity|]. unfold each_tag. apply in_map_iff. exists (tag v). split; [reflexivity|]. apply tags_of_In. exists v. split; [exact Hv|reflexivity].
  - apply in_map. apply in_map_iff. exists v. split; [reflexivity|]. apply filter_In. split; [exact Hv|apply str_eqb_refl].
Qed.

(* the premises are satisfiable: two candidates under two tags, a description with a line break *)
Definition ex_env : fenv := mkFenv [] false None None [] false (B [51;55]) (B [51;49]) (B [51;50]) (B [48]) (B [118]).
Definition ex_meta : meta := mkMeta [B [109;115;103]] [] (B [117]).
Definition ex_vals : list raw :=
  [mkRaw (B [97;32;98]) (B [97;32;98]) (B [100;101;10;115;99]) [] (B [116;49]) [] [];
   mkRaw (B [99;58]) (B [99;58]) [] [] (B [116;50]) [] (B [51;52])].
Example zsh_decode_example :
  env_ok ex_env /\ meta_ok ex_meta /\ Forall raw_ok ex_vals /\
  Forall (fun v => zsh_display v <> [] /\ zsh_value ex_env (zsh_state (zsh_raw ex_env)) ex_meta v <> []) (map zsh_retag ex_vals) /\
  match decode_zsh (zsh_format ex_env ex_meta ex_vals) with
  | Some (_, _, rs) => map (fun r => (d_insert r, d_display r, d_desc r, d_tag r)) rs
  | None => []
  end = [(B [97;92;92;32;98;32], B [97;32;98], B [100;101;115;99], B [116;49]); (B [99;92;58;32], B [99;58], [], B [116;50])].
Proof.
  split; [repeat split; const_free|]. split; [split; [repeat (apply Forall_cons; [const_free|]); apply Forall_nil|const_free]|].
  split; [repeat (apply Forall_cons; [repeat split; const_free|]); apply Forall_nil|].
  split; [repeat (apply Forall_cons; [split; vm_compute; discriminate|]); apply Forall_nil|].
  vm_compute. reflexivity.
Qed.

(* whatever the fields hold, a rendered line holds no line break *)
Theorem zsh_lines_no_break v e st m : ~ In LF (zsh_display v) /\ ~ In LF (zsh_value e st m v).
Proof.
  split.
  - apply (zsh_display_free LF); [auto|left; reflexivity|left; reflexivity].
  - apply (zsh_value_free LF); [auto|left; reflexivity].
Qed.

(* ---------- exactly one record per candidate: the tag groups partition the candidates ---------- *)
From CV Require Import Proofs.Determinism.
Fixpoint ssorted (l : list str) : Prop :=
  match l with [] => True | x :: l' => (forall y, In y l' -> str_ltb x y = true) /\ ssorted l' end.
Lemma insert_str_sorted s l : ssorted l -> ssorted (insert_str s l).
Proof.
  induction l as [|x l IH]; intro H; cbn [insert_str].
  - split; [intros y []|exact I].
  - destruct H as [Hx Hl]. destruct (str_eqb s x) eqn:E; [split; assumption|].
    destruct (str_ltb s x) eqn:L.
    + split; [|split; assumption]. intros y [<-|Hy]; [exact L|]. apply (str_ltb_trans s x y L). apply Hx. exact Hy.
    + split; [|apply IH; exact Hl]. intros y Hy. apply insert_str_In in Hy as [->|Hy]; [|apply Hx; exact Hy].
      destruct (str_trichotomy s x) as [H|[H|H]]; [congruence| |exact H]. subst s. rewrite str_eqb_refl in E. discriminate.
Qed.
Lemma ssorted_NoDup l : ssorted l -> NoDup l.
Proof.
  induction l as [|x l IH]; intro H; [constructor|]. destruct H as [Hx Hl]. constructor; [|apply IH; exact Hl].
  intro Hin. specialize (Hx x Hin). rewrite str_ltb_irrefl in Hx. discriminate.
Qed.
Lemma tags_of_sorted vs : ssorted (tags_of vs).
Proof.
  unfold tags_of. assert (G : forall acc, ssorted acc -> ssorted (fold_left (fun acc v => insert_str (tag v) acc) vs acc)).
  { induction vs as [|v vs IH]; intros acc H; [exact H|]. cbn [fold_left]. apply IH. apply insert_str_sorted. exact H. }
  apply G. exact I.
Qed.

Lemma partition_count (ts : list str) (vs : list raw) : NoDup ts -> (forall v, In v vs -> In (tag v) ts) ->
  length (concat (map (fun t => filter (fun v => str_eqb (tag v) t) vs) ts)) = length vs.
Proof.
  intros Hnd. induction vs as [|v vs IH]; intro Hin.
  - clear. induction ts as [|t ts IH]; [reflexivity|]. cbn [map concat filter app]. exact IH.
  - assert (Hstep : forall ts', NoDup ts' ->
        length (concat (map (fun t => filter (fun w => str_eqb (tag w) t) (v :: vs)) ts')) =
        length (concat (map (fun t => filter (fun w => str_eqb (tag w) t) vs) ts')) + (if existsb (str_eqb (tag v)) ts' then 1 else 0)).
    { clear. induction ts' as [|t ts' IH]; intro Hnd; [reflexivity|]. inversion Hnd as [|? ? Hnt Hnd']; subst.
      cbn [map concat existsb]. rewrite !app_length, (IH Hnd'). cbn [filter].
      destruct (str_eqb (tag v) t) eqn:E.
      - apply str_eqb_true in E. assert (Hex : existsb (str_eqb (tag v)) ts' = false).
        { destruct (existsb (str_eqb (tag v)) ts') eqn:X; [|reflexivity]. apply existsb_exists in X as (y & Hy & Ey). apply str_eqb_true in Ey. subst. contradiction. }
        rewrite Hex. cbn [orb length]. lia.
      - cbn [orb]. lia. }
    rewrite (Hstep ts Hnd), IH by (intros w Hw; apply Hin; right; exact Hw).
    assert (Hex : existsb (str_eqb (tag v)) ts = true).
    { apply existsb_exists. exists (tag v). split; [apply Hin; left; reflexivity|apply str_eqb_refl]. }
    rewrite Hex. cbn [length]. lia.
Qed.

Theorem zsh_one_record_per_candidate e m vs :
  length (concat (map (fun g => map (zrec (fst g)) (snd g)) (zsh_groups e m vs))) = length vs.
Proof.
  unfold zsh_groups, each_tag. rewrite !map_map. cbn [fst snd].
  transitivity (length (concat (map (fun t => filter (fun v => str_eqb (tag v) t) (map zsh_retag vs)) (tags_of (map zsh_retag vs))))).
  - generalize (tags_of (map zsh_retag vs)). intro ts. induction ts as [|t ts IH]; [reflexivity|].
    cbn [map concat]. rewrite !app_length, IH, !map_length. reflexivity.
  - rewrite partition_count; [apply map_length|apply ssorted_NoDup, tags_of_sorted|].
    intros v Hv. apply tags_of_In. exists v. split; [exact Hv|reflexivity].
Qed.
