(* Props/C01.v — the word under the cursor is completed by the action registered for the slot
   that the program's own parser would put that word in.

   Model/Pflag.v transcribes, for ONE command: pflag's FlagSet.Parse (carapace-pflag v1.0.0,
   posix: long flags, `--name=value`, shorthand words with chains, attached and `=` values, the
   lone dash, `--`, both interspersed modes) and carapace's traverse loop with its final choice
   of action.  Proofs/Pflag.v proves, for every flag set (no flag with the shorthand `=`), every
   typed line — no restriction on the words — and every current word:
     C01_slot_sound      whatever slot traverse picks — the argument of a flag left waiting by
                         `--name`, `-s` or a chain `-bs`, the attached value of `--flag=`,
                         positional i, positional i after `--` — the program, given the line
                         with the word completed, puts that word exactly there (and if the
                         program rejects the typed words, traverse promises nothing)
     C01_parser_is_pflag the explicit look-ahead parser used in the proof is the transcribed one
     C01_chain_pending   the flag a shorthand word leaves waiting is the same for traverse's
                         LookupArg and for the parser
   For a current word that is itself a shorthand word the model makes no claim (flag names / the
   attached value of `-s` are decided by the harness).  Not in the model (decided by the harness,
   real traverse against real cobra on generated command trees): sub-command descent, persistent
   flags, aliases, non-posix mode — see DESIGN.md. *)
From CV Require Import Base.Str Model.Pflag Proofs.Pflag.

Theorem C01_slot_sound : forall fs il ws cur,
  find_short fs (byte 61) = None -> slot_sound fs il ws (traverse fs il ws cur).
Proof. exact traverse_slot_sound. Qed.
Print Assumptions C01_slot_sound.

Theorem C01_parser_is_pflag : forall fs il ws st,
  pf_parse fs il ws st = to_presult (pfp fs il None ws st).
Proof. exact pfp_is_pf_parse. Qed.
Print Assumptions C01_parser_is_pflag.

Theorem C01_chain_pending : forall fs ls, find_short fs (byte 61) = None -> forall sets pend,
  chain fs ls = Some (sets, pend) ->
  match lookup_short_letters fs ls with
  | Some (f, false) => if takes_next f then Some f else None
  | _ => None
  end = pend.
Proof. exact chain_pending. Qed.
Print Assumptions C01_chain_pending.
