(* Props/C01.v — the word under the cursor is completed by the action registered for the slot
   that the program's own parser would put that word in.

   Model/Pflag.v transcribes, for ONE command: pflag's FlagSet.Parse (carapace-pflag v1.0.0,
   posix: long flags, `--name=value`, shorthand words with chains, attached and `=` values, the
   lone dash, `--`, both interspersed modes) and carapace's traverse loop with its final choice
   of action.  Proofs/Pflag.v proves, for every flag set (no flag with the shorthand `=`), every
   typed line — no restriction on the words — and every current word:
     C01_slot_sound      whatever slot traverse picks — the argument of a flag left waiting by
                         `--name`, `-s` or a chain `-bs`, the attached value of `--flag=`,
                         positional i, positional i after `--` — the program, given the line
                         with the word completed, puts that word exactly there (and if the
                         program rejects the typed words, traverse promises nothing)
     C01_parser_is_pflag the explicit look-ahead parser used in the proof is the transcribed one
     C01_chain_pending   the flag a shorthand word leaves waiting is the same for traverse's
                         LookupArg and for the parser
     C01_descent_agrees  (Model/Descent.v: cobra's Find with stripFlags / argsMinusFirstX, and
                         traverse's descent) on lines where only skipped words (empty, lone dash)
                         stand in front of each sub-command name, traverse reaches the command
                         cobra reaches, with the same words left
     C01_tree_slot_sound ... and the slot theorem holds there: C01 on command trees, in that fragment
     C01_parent_flag_refuted  outside it the statement is false of the code: witness with a flag word in
                         front of the name of a non-interspersed sub-command (known finding)
   For a current word that is itself a shorthand word the model makes no claim (flag names / the
   attached value of `-s` are decided by the harness).  Not in the model (decided by the harness,
   real traverse against real cobra on generated command trees): flag words in front of a sub-command
   name (the known findings live there), non-posix mode — see DESIGN.md. *)
From CV Require Import Base.Str Model.Pflag Model.Descent Proofs.Pflag Proofs.Descent.

Theorem C01_slot_sound : forall fs il ws cur,
  find_short fs (byte 61) = None -> slot_sound fs il ws (traverse fs il ws cur).
Proof. exact traverse_slot_sound. Qed.
Print Assumptions C01_slot_sound.

Theorem C01_parser_is_pflag : forall fs il ws st,
  pf_parse fs il ws st = to_presult (pfp fs il None ws st).
Proof. exact pfp_is_pf_parse. Qed.
Print Assumptions C01_parser_is_pflag.

Theorem C01_chain_pending : forall fs ls, find_short fs (byte 61) = None -> forall sets pend,
  chain fs ls = Some (sets, pend) ->
  match lookup_short_letters fs ls with
  | Some (f, false) => if takes_next f then Some f else None
  | _ => None
  end = pend.
Proof. exact chain_pending. Qed.
Print Assumptions C01_chain_pending.

Theorem C01_descent_agrees : forall c ws, path_clean c ws -> forall fuel cur, length ws < fuel ->
  fst (t_traverse fuel c ws cur) = fst (innerfind fuel c ws) /\
  snd (t_traverse fuel c ws cur) =
    traverse (cflags (fst (innerfind fuel c ws))) (cil (fst (innerfind fuel c ws))) (snd (innerfind fuel c ws)) cur.
Proof. exact descent_agrees. Qed.
Print Assumptions C01_descent_agrees.

Theorem C01_tree_slot_sound : forall c ws cur, path_clean c ws ->
  let c' := fst (cobra_find c ws) in
  find_short (cflags c') (byte 61) = None ->
  fst (tree_traverse c ws cur) = c' /\
  slot_sound (cflags c') (cil c') (snd (cobra_find c ws)) (snd (tree_traverse c ws cur)).
Proof. exact tree_slot_sound. Qed.
Print Assumptions C01_tree_slot_sound.

Theorem C01_parent_flag_refuted :
  let ws := [B [45]; B [45;118]; B [103;97;109;109;97]; w_x] in
  let c' := fst (cobra_find ex_root2 ws) in
  fst (tree_traverse ex_root2 ws []) = c' /\
  snd (cobra_find ex_root2 ws) = [B [45]; B [45;118]; w_x] /\
  snd (tree_traverse ex_root2 ws []) = SPositional 2 /\
  ~ slot_sound (cflags c') (cil c') (snd (cobra_find ex_root2 ws)) (snd (tree_traverse ex_root2 ws [])).
Proof. exact parent_flag_refuted. Qed.
Print Assumptions C01_parent_flag_refuted.
