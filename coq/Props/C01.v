(* Props/C01.v — the word under the cursor is completed by the action registered for the slot
   that the program's own parser would put that word in.

   Model/Pflag.v transcribes, for ONE command and long-form words (`--name`, `--name=value`,
   `--`, words not starting with a dash): pflag's FlagSet.Parse (carapace-pflag v1.0.0, posix)
   and carapace's traverse loop with its final choice of action.  Proofs/Pflag.v proves that
   the two agree for every flag set, both interspersed modes, every typed line of the fragment
   and every current word:
     C01_slot_sound      whatever slot traverse picks — the argument of a pending flag, the
                         attached value of `--flag=`, positional i, positional i after `--` —
                         the program, given the line with the word completed, puts that word
                         exactly there (and if the program rejects the typed words, traverse
                         promises nothing)
     C01_parser_is_pflag the explicit look-ahead parser used in the proof is the transcribed one
     C01_lone_dash_refuted  outside the fragment the statement is false of the code: a lone `-`
                         before a flag in a non-interspersed command (known finding)
   Not in the model (decided by the harness, real traverse against real cobra on generated
   command trees): shorthands and shorthand chains, sub-command descent, persistent flags,
   aliases — see DESIGN.md. *)
From CV Require Import Base.Str Model.Pflag Proofs.Pflag.

Theorem C01_slot_sound : forall fs il ws cur,
  Forall (fun w => wf_word w = true) ws -> slot_sound fs il ws (traverse fs il ws cur).
Proof. exact traverse_slot_sound. Qed.
Print Assumptions C01_slot_sound.

Theorem C01_parser_is_pflag : forall fs il ws st,
  pf_parse fs il ws st = to_presult (pfp fs il None ws st).
Proof. exact pfp_is_pf_parse. Qed.
Print Assumptions C01_parser_is_pflag.

Theorem C01_lone_dash_refuted :
  ~ slot_sound ex_flags false [B [45]; w_str] (traverse ex_flags false [B [45]; w_str] []).
Proof. exact lone_dash_refuted. Qed.
Print Assumptions C01_lone_dash_refuted.
