(* Props/C02.v — what the user typed is preserved; filtering is exact prefix filtering.

   Statement over the model of internal/shell.Value (Model/ShellValue.v, byte-identical to the
   implementation on every correspondence run):
     sound      every candidate that survives the filter extends the typed word (mode relative);
     complete   every candidate of the invoked completion that extends it survives, with all fields;
     nothing    nothing else is emitted except the synthetic entries of Integrate;
     synthetic  the ERR entries extend the typed word;
     passthrough CARAPACE_UNFILTERED passes the set through; channel formats are not integrated.
     filler     the `_` placeholder extends the typed word as well (since the repair recorded as C02-filler).
   Stretch, not proved here (oracle + correspondence only): the bash/tcsh common-prefix collapse
   (and its refutation under case-insensitive matching), bash list mode. *)
From Coq Require Import Permutation.
From CV Require Import Base.Str Model.Common Model.Shells Model.ShellValue Proofs.Integrate.

Theorem C02_sound : forall e w vs r,
  unfiltered e = false -> In r (stage_filter e w vs) -> match_has_prefix (ci e) (value r) w = true.
Proof. exact filter_sound. Qed.
Print Assumptions C02_sound.

Theorem C02_complete : forall e w vs r,
  nocolor e = false -> In r vs -> match_has_prefix (ci e) (value r) w = true -> In r (stage_filter e w vs).
Proof. exact filter_complete. Qed.
Print Assumptions C02_complete.

Theorem C02_complete_nocolor : forall e w vs r,
  nocolor e = true -> In r vs -> match_has_prefix (ci e) (value r) w = true ->
  In (mkRaw (value r) (display r) (description r) [] (tag r) (uid r) (rstyle r)) (stage_filter e w vs).
Proof. exact filter_complete_nocolor. Qed.
Print Assumptions C02_complete_nocolor.

Theorem C02_nothing_else_filter : forall e w vs r,
  In r (stage_filter e w vs) ->
  exists r0, In r0 vs /\ value r = value r0 /\ display r = display r0 /\ description r = description r0 /\ tag r = tag r0.
Proof. exact filter_nothing_added. Qed.
Print Assumptions C02_nothing_else_filter.

(* after Integrate: the emitted list is a permutation of the filtered candidates, the error
   entries (one per message) and possibly the filler *)
Theorem C02_nothing_else_integrate : forall msgs vs w es ers ds drs vs1,
  msgs <> [] ->
  integrate_loop msgs vs (strip_err w) 0 es ers = Some vs1 ->
  exists added,
    map description added = msgs /\
    (forall a, In a added -> is_err_entry (strip_err w) es ers msgs a) /\
    (forall a, In a added -> contains_value vs (value a) = false) /\
    NoDup (map value added) /\
    Permutation (integrate msgs vs w es ers ds drs)
                (vs ++ added ++ match vs ++ added with [_] => [filler w ds drs] | _ => [] end).
Proof. exact integrate_spec. Qed.
Print Assumptions C02_nothing_else_integrate.

Theorem C02_synthetic_extend : forall w es ers msgs a,
  is_err_entry (strip_err w) es ers msgs a -> has_prefix (value a) w = true.
Proof. exact err_entry_extends. Qed.
Print Assumptions C02_synthetic_extend.

Theorem C02_filler_extends : forall w ds drs, has_prefix (value (filler w ds drs)) w = true.
Proof. exact filler_extends. Qed.
Print Assumptions C02_filler_extends.

Theorem C02_passthrough : forall e w vs,
  unfiltered e = true -> nocolor e = false -> stage_filter e w vs = vs.
Proof. exact passthrough. Qed.
Print Assumptions C02_passthrough.

Theorem C02_channel_formats_not_integrated : forall e shell w m vs,
  has_channel shell = true -> stage_integrate e shell w m vs = vs.
Proof. exact channel_no_integrate. Qed.
Print Assumptions C02_channel_formats_not_integrated.

(* non-vacuity: a word ending in E with one message, on a concrete candidate set *)
Example C02_example :
  map value (integrate [B [98;111;111;109]] [mkRaw (B [120;69;97]) (B [120;69;97]) [] [] [] [] []] (B [120;69]) [] [] [] [])
  = [B [120;69;82;82]; B [120;69;97]].
Proof. vm_compute. reflexivity. Qed.
