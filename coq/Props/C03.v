(* Props/C03.v — inserted text reads back as exactly the candidate value.

   Readers = Spec/Readers.v (documented word grammars; trusted specifications for the shells that
   are not installed).  Tables and trigger sets = Gen/Tables.v, regenerated from the source on
   every run; every "…_table" obligation below is re-checked by vm_compute against them.
   Proved for all byte strings (after the format's sanitizer, which only drops TAB/CR/LF):
     bash   "…" branch, backslash branch for values starting with ~, unquoted branch (`?` forces
            quoting since fix d-series commit recorded as C03-bash-glob-q);
     zsh    default (unquoted) state through both layers (_describe un-escaping, then the lexer),
            with or without the separating blank, for values not starting with `=` (REFUTED for `=`);
     nushell quoted and bare forms, ~"…" form, with or without blank.
     powershell '...' with doubled quotes (every value with an active character, a quote or a leading @),
            bare otherwise, with or without blank (since the repair recorded as C03-powershell-quote).
     xonsh  '...' python literals with backslash and quote escaped (every value that needs quoting; bare words
            have no reader), since the repair recorded as C03-xonsh-quote.
   REFUTED with witnesses: tcsh (braces), oil (no quoting).
   Stretch (correspondence + oracle only): zsh's four quoted states and the ~/named-directory
   branch, xonsh '…' literals, tcsh for values without braces, verbatim formats. *)
From CV Require Import Base.Str Gen.Tables Model.Common Model.Shells Spec.Readers Proofs.Quoting Proofs.PowerShell Proofs.Xonsh.

Theorem C03_bash_quoted : forall s,
  read_bash (B [34] ++ replace1 bash_escapingQuotedReplacer s ++ B [34]) = Some s.
Proof. exact (fun s => bash_quoted_roundtrip _ s bash_dq_table). Qed.
Print Assumptions C03_bash_quoted.

Theorem C03_bash_tilde : forall s,
  no3 s -> has_prefix s (B [126]) = true -> read_bash (replace1 bash_escapingReplacer s) = Some s.
Proof. exact (fun s => bash_tilde_roundtrip _ s bash_escaping_table). Qed.
Print Assumptions C03_bash_tilde.

Theorem C03_bash_unquoted : forall wb s,
  contains_any s (bash_requiresQuoting_chars ++ wb) = false -> s <> [] ->
  (forall c r, s = c :: r -> beq c c_hash = false) ->
  read_bash s = Some s.
Proof. exact (fun wb s H => bash_unquoted_roundtrip _ wb s bash_unq_chars H (no_question wb s H)). Qed.
Print Assumptions C03_bash_unquoted.

Theorem C03_zsh_default : forall s blank,
  no3 s -> s <> [] -> (forall c r, s = c :: r -> beq c c_eq = false) ->
  read_zsh_sp [] [] (zsh_default_emit s blank) = Some (s, blank).
Proof. exact zsh_default_roundtrip. Qed.
Print Assumptions C03_zsh_default.

Theorem C03_zsh_describe_layer : forall s tail,
  describe_unescape (replace1 zsh_describeReplacer s ++ tail) = s ++ describe_unescape tail.
Proof. exact (fun s tail => describe_roundtrip _ s tail zsh_describe_table). Qed.
Print Assumptions C03_zsh_describe_layer.

Theorem C03_zsh_equals_refuted : exists s, read_zsh_sp [] [] (zsh_default_emit s true) = None.
Proof. exact zsh_equals_refuted. Qed.
Print Assumptions C03_zsh_equals_refuted.

Theorem C03_nushell : forall (val : str) (blank : bool),
  val <> [] ->
  (forall c r, val = c :: r -> contains_any val nushell_ActionRawValues_any1 = false ->
               (beq c c_dollar || beq c c_hash) = false) ->
  read_nushell_sp (nushell_quote val ++ (if blank then [c_sp] else [])) = Some (val, blank).
Proof. exact nushell_roundtrip. Qed.
Print Assumptions C03_nushell.

Theorem C03_powershell : forall v (blank : bool), v <> [] ->
  read_powershell_sp (powershell_quote v ++ (if blank then [c_sp] else [])) = Some (v, blank).
Proof. exact powershell_roundtrip. Qed.
Print Assumptions C03_powershell.

Theorem C03_xonsh : forall v (blank : bool),
  let val := replace1 xonsh_sanitizer v in
  read_xonsh_sp (xonsh_quote v ++ (if blank then [c_sp] else [])) =
    if contains_any val xonsh_ActionRawValues_any1 then Reads (Some (val, blank))
    else read_xonsh_sp (val ++ (if blank then [c_sp] else [])).
Proof. exact xonsh_roundtrip. Qed.
Print Assumptions C03_xonsh.

Theorem C03_tcsh_refuted : exists v, read_tcsh (replace1 tcsh_quoter (replace1 tcsh_sanitizer v)) <> Some v.
Proof. exact tcsh_refuted. Qed.
Print Assumptions C03_tcsh_refuted.

Theorem C03_oil_refuted : exists v, read_bash v <> Some v.
Proof. exact oil_refuted. Qed.
Print Assumptions C03_oil_refuted.

Theorem C03_sanitize_only_drops :
  forallb sanitizer_ok [bash_sanitizer; cmd_clink_sanitizer; elvish_sanitizer; fish_sanitizer; ion_sanitizer;
                        nushell_sanitizer; oil_sanitizer; powershell_sanitizer; tcsh_sanitizer; zsh_sanitizer] = true.
Proof. exact sanitizers_only_drop. Qed.
Print Assumptions C03_sanitize_only_drops.

(* the recorded 47-character value of example/cmd/special.go reads back in bash's quoted form *)
Example C03_special_example :
  let special := B [112;49;32;38;60;62;39;34;123;125;36;35;124;63;40;41;59;91;93;42;92;36;40;41;32;96] in
  read_bash (bash_quote None special) = Some special.
Proof. vm_compute. reflexivity. Qed.
