(* Props/C04.v — wire format integrity: one intact record per candidate.

   Decoders = Spec/FmtDecode.v (what the generated snippets do with the bytes; transcriptions of
   the shells that are not installed are trusted specifications).  The JSON formats are decoded by
   a stock JSON parser in the correspondence; their encoder (Base/Json.v) is tied byte-for-byte.
   Proved for every candidate list and every field content:
     fish   decode (encode vs) = one record per candidate, each with its own sanitised value and
            its own trimmed + sanitised description (tables regenerated);
     bash   the flag\001lines frame decodes to exactly the lines; a quoted value contains neither a
            line break nor \001;
     TrimmedDescription works on the first line only; its truncated form is the first 77 runes + "...".
   REFUTED with witnesses: cmd-clink (empty field shifts), bash-ble (TAB cuts the insert text),
   zsh (an empty value line makes the arrays differ).
   Added later (end of this file): the JSON formats at byte level (xonsh, ion, powershell, nushell, elvish) and
   the whole zsh frame for non-empty lines.  Correspondence + oracle only: tcsh, oil, bash list mode. *)
From CV Require Import Base.Str Base.Utf8 Gen.Tables Model.Common Model.Shells Spec.FmtDecode Proofs.Framing.

Theorem C04_fish_roundtrip : forall vs,
  vs <> [] -> decode_fish (fish_format vs) = Some (map fish_project vs).
Proof. exact fish_roundtrip. Qed.
Print Assumptions C04_fish_roundtrip.

Theorem C04_bash_framing : forall flagstr lines c,
  ~ In (byte 1) flagstr ->
  lines <> [] -> (forall l, In l lines -> ~ In LF l) ->
  last_byte (flagstr ++ byte 1 :: join [LF] lines) = Some c -> c <> LF ->
  join [LF] lines <> [] ->
  existsb nonempty lines = true ->
  decode_bash (flagstr ++ byte 1 :: join [LF] lines) = Some (str_eqb flagstr (B [116;114;117;101]), lines).
Proof. exact bash_framing. Qed.
Print Assumptions C04_bash_framing.

Theorem C04_bash_no_separator_in_value : forall wb v,
  ~ In (byte 1) v -> ~ In LF (bash_quote wb v) /\ ~ In (byte 1) (bash_quote wb v).
Proof. exact bash_quote_no_separator. Qed.
Print Assumptions C04_bash_no_separator_in_value.

Theorem C04_description_first_line : forall d, ~ In LF (first_line d).
Proof. exact first_line_no_lf. Qed.
Print Assumptions C04_description_first_line.

Theorem C04_description_truncated : forall d,
  Nat.ltb common_TrimmedDescription_maxLength (length (chunks (trim_space (first_line d)))) = true ->
  exists body, trimmed_description d = body ++ B [46;46;46] /\
               body = encode_runes (firstn_runes (common_TrimmedDescription_maxLength - 3) (chunks (trim_space (first_line d)))).
Proof. exact trimmed_description_truncated. Qed.
Print Assumptions C04_description_truncated.

Theorem C04_cmd_clink_refuted :
  exists m vs, decode_cmd_clink (cmd_clink_format m vs) = Some [(Some (B [97]), Some (B [97]), Some (B [32]), None)].
Proof. exact cmd_clink_refuted. Qed.
Print Assumptions C04_cmd_clink_refuted.

Theorem C04_bash_ble_refuted :
  exists m v, option_map (map d_insert) (decode_bash_ble (bash_ble_format m [v])) <> Some [value v].
Proof. exact bash_ble_refuted. Qed.
Print Assumptions C04_bash_ble_refuted.

Theorem C04_zsh_empty_line_refuted : exists e m vs, decode_zsh (zsh_format e m vs) = None.
Proof. exact zsh_empty_line_refuted. Qed.
Print Assumptions C04_zsh_empty_line_refuted.

(* non-vacuity: two candidates, a TAB and a line break planted in value and description *)
Example C04_fish_example :
  decode_fish (fish_format [mkRaw (B [97;9;98]) (B [97]) (B [100;10;101]) [] [] [] [];
                            mkRaw (B [99]) (B [99]) [] [] [] [] []])
  = Some [mkD (B [97;98]) (B [97;98]) (B [100]) None [] []; mkD (B [99]) (B [99]) [] None [] []].
Proof. vm_compute. reflexivity. Qed.

(* ---------- the JSON formats, byte level (Proofs/JsonShells.v on Proofs/JsonRoundtrip.v) ----------
   A JSON reader applied to the emitted bytes yields ONE record per candidate, in order, each with the
   fields that were put in ([jsan]: strings only changed by the encoder's own UTF-8 sanitising).
   powershell: per candidate with a non-empty value (the formatter skips the others: C06 finding);
   nushell: for candidates without a style (the style member is spliced in as pre-rendered JSON). *)
From CV Require Import Model.JsonParse Proofs.JsonRoundtrip Proofs.JsonShells.

Theorem C04_xonsh_records : forall m vs,
  jparse (xonsh_format m vs) = Some (JArr (map (fun v => jsan (xonsh_record m v)) vs)).
Proof. exact xonsh_records. Qed.
Print Assumptions C04_xonsh_records.

Theorem C04_ion_records : forall m vs,
  jparse (ion_format m vs) = Some (JArr (map (fun v => jsan (ion_record m v)) vs)).
Proof. exact ion_records. Qed.
Print Assumptions C04_ion_records.

Theorem C04_powershell_records : forall e m vs,
  jparse (powershell_format e m vs) = Some (JArr (map (fun v => jsan (powershell_record e m v)) (ps_kept vs))).
Proof. exact powershell_records. Qed.
Print Assumptions C04_powershell_records.

Theorem C04_nushell_records : forall m vs, Forall (fun v => rstyle v = []) vs ->
  jparse (nushell_format m vs) = Some (JArr (map (fun v => jsan (nushell_record m v)) vs)).
Proof. exact nushell_records. Qed.
Print Assumptions C04_nushell_records.

Theorem C04_elvish_records : forall e m vs, exists usage msgs style,
  jparse (elvish_format e m vs) =
  Some (JObj [(B [85;115;97;103;101], usage); (B [77;101;115;115;97;103;101;115], msgs);
              (B [68;101;115;99;114;105;112;116;105;111;110;83;116;121;108;101], style);
              (B [67;97;110;100;105;100;97;116;101;115], JArr (map (fun v => jsan (elvish_record m v)) vs))]).
Proof. exact elvish_records. Qed.
Print Assumptions C04_elvish_records.

(* ---------- zsh, the whole frame (Proofs/ZshFraming.v) ----------
   zstyle \001 message \001 blocks \001; blocks \002-separated: tag \003 display lines \003 value lines.
   When no field holds a byte \001-\003 (outside the claim) and no rendered line is empty (the refuted
   case above), the snippet's decoding yields the zstyle text, the message text and ONE record per
   candidate, tag by tag; TAB / CR / LF in any field cannot split a record (the sanitizer deletes them:
   obligations on the regenerated tables, closed by vm_compute inside tables_free). *)
From CV Require Import Proofs.ZshFraming.

Theorem C04_zsh_decode : forall e m vs, env_ok e -> meta_ok m -> Forall raw_ok vs ->
  Forall (fun v => zsh_display v <> [] /\ zsh_value e (zsh_state (zsh_raw e)) m v <> []) (map zsh_retag vs) ->
  decode_zsh (zsh_format e m vs) =
  Some (zstyles_format e (map zsh_retag vs), zsh_message_format e m,
        concat (map (fun g => map (zrec (fst g)) (snd g)) (zsh_groups e m vs))).
Proof. exact zsh_decode. Qed.
Print Assumptions C04_zsh_decode.

Theorem C04_zsh_record_of_candidate : forall e m vs v, In v (map zsh_retag vs) ->
  In (zrec (tag v) (zsh_display v, zsh_value e (zsh_state (zsh_raw e)) m v))
     (concat (map (fun g => map (zrec (fst g)) (snd g)) (zsh_groups e m vs))).
Proof. exact zsh_record_of_candidate. Qed.
Print Assumptions C04_zsh_record_of_candidate.

Theorem C04_zsh_lines_hold_no_break : forall v e st m, ~ In LF (zsh_display v) /\ ~ In LF (zsh_value e st m v).
Proof. exact zsh_lines_no_break. Qed.
Print Assumptions C04_zsh_lines_hold_no_break.

Theorem C04_zsh_one_record_per_candidate : forall e m vs,
  length (concat (map (fun g => map (zrec (fst g)) (snd g)) (zsh_groups e m vs))) = length vs.
Proof. exact zsh_one_record_per_candidate. Qed.
Print Assumptions C04_zsh_one_record_per_candidate.
