(* Props/C05.v — a space follows an accepted candidate iff its value has no no-space suffix.
   Only statements, each closed by [exact <lemma>], with Print Assumptions beneath.

   Full statement (for every format f that can express the decision per candidate):
     the decoded indication of every record = Matches (no-space set after forcing) (value before quoting).
   Proved below: the matcher's specification; forcing by messages; the export format carries the
   set unchanged; for nushell and powershell (blank carried inside the quoted value) the blank is
   present iff the value does not match — for every value and set, on the trigger sets regenerated
   from the source; bash-ble's suffix field.  xonsh likewise since the repair recorded as C05-xonsh-quoted.
   Stretch (not yet proved, checked by correspondence + oracle only): zsh's five states, elvish,
   ion, cmd-clink, oil, bash's global flag; non-ASCII suffix runes through Add/Merge. *)
From CV Require Import Base.Str Base.Utf8 Gen.Tables Model.Common Model.Shells Model.ShellValue Proofs.Suffix.

Theorem C05_matcher : forall sm v,
  sm_matches sm v = true <->
  exists r, In r (runes sm) /\ (r = star \/ has_suffix v (encode_rune r) = true).
Proof. exact sm_matches_spec. Qed.
Print Assumptions C05_matcher.

Theorem C05_messages_force_nospace : forall e shell m,
  str_eqb shell s_export = false -> messages m <> [] ->
  forall v, sm_matches (stage_nospace e shell m) v = true.
Proof. exact stage_nospace_messages. Qed.
Print Assumptions C05_messages_force_nospace.

Theorem C05_export_carries_set : forall e m, stage_nospace e s_export m = nospace m.
Proof. exact stage_nospace_export. Qed.
Print Assumptions C05_export_carries_set.

Theorem C05_nushell : forall ns v,
  last_byte (nushell_emit ns v) = Some (byte 32) <-> sm_matches ns (replace1 nushell_sanitizer v) = false.
Proof. exact nushell_space_iff. Qed.
Print Assumptions C05_nushell.

Theorem C05_powershell : forall ns v,
  last_byte (powershell_emit ns v) = Some (byte 32) <-> sm_matches ns (replace1 powershell_sanitizer v) = false.
Proof. exact powershell_space_iff. Qed.
Print Assumptions C05_powershell.

Theorem C05_bash_ble : forall ns v d de,
  exists pre post, bash_ble_format (mkMeta [] ns []) [mkRaw v d de [] [] [] []] =
                   pre ++ B [28] ++ (if sm_matches ns v then [] else B [32]) ++ B [28] ++ post.
Proof. exact bash_ble_field. Qed.
Print Assumptions C05_bash_ble.

Theorem C05_xonsh : forall ns v,
  last_byte (xonsh_emit ns v) = Some (byte 32) <-> sm_matches ns (replace1 xonsh_sanitizer v) = false.
Proof. exact xonsh_space_iff. Qed.
Print Assumptions C05_xonsh.

(* non-vacuity: a value that needs quoting and ends in a no-space character *)
Example C05_nushell_example :
  nushell_emit (B [47]) (B [109;121;32;100;105;114;47]) = B [34;109;121;32;100;105;114;47;34] /\
  nushell_emit (B [61]) (B [109;121;32;100;105;114;47]) = B [34;109;121;32;100;105;114;47;34;32].
Proof. split; vm_compute; reflexivity. Qed.
