(* Props/C05.v — a space follows an accepted candidate iff its value has no no-space suffix.
   Only statements, each closed by [exact <lemma>], with Print Assumptions beneath.

   Full statement (for every format f that can express the decision per candidate):
     the decoded indication of every record = Matches (no-space set after forcing) (value before quoting).
   Proved below: the matcher's specification; forcing by messages; the export format carries the
   set unchanged; for nushell and powershell (blank carried inside the quoted value) the blank is
   present iff the value does not match — for every value and set, on the trigger sets regenerated
   from the source; bash-ble's suffix field.  xonsh likewise since the repair recorded as C05-xonsh-quoted.
   Stretch (not yet proved, checked by correspondence + oracle only): zsh's five states, elvish,
   ion, cmd-clink, oil, bash's global flag; non-ASCII suffix runes through Add/Merge. *)
From CV Require Import Base.Str Base.Utf8 Gen.Tables Model.Common Model.Shells Model.ShellValue Proofs.Suffix.

Theorem C05_matcher : forall sm v,
  sm_matches sm v = true <->
  exists r, In r (runes sm) /\ (r = star \/ has_suffix v (encode_rune r) = true).
Proof. exact sm_matches_spec. Qed.
Print Assumptions C05_matcher.

Theorem C05_messages_force_nospace : forall e shell m,
  str_eqb shell s_export = false -> messages m <> [] ->
  forall v, sm_matches (stage_nospace e shell m) v = true.
Proof. exact stage_nospace_messages. Qed.
Print Assumptions C05_messages_force_nospace.

Theorem C05_export_carries_set : forall e m, stage_nospace e s_export m = nospace m.
Proof. exact stage_nospace_export. Qed.
Print Assumptions C05_export_carries_set.

Theorem C05_nushell : forall ns v,
  last_byte (nushell_emit ns v) = Some (byte 32) <-> sm_matches ns (replace1 nushell_sanitizer v) = false.
Proof. exact nushell_space_iff. Qed.
Print Assumptions C05_nushell.

Theorem C05_powershell : forall ns v,
  last_byte (powershell_emit ns v) = Some (byte 32) <-> sm_matches ns (replace1 powershell_sanitizer v) = false.
Proof. exact powershell_space_iff. Qed.
Print Assumptions C05_powershell.

Theorem C05_bash_ble : forall ns v d de,
  exists pre post, bash_ble_format (mkMeta [] ns []) [mkRaw v d de [] [] [] []] =
                   pre ++ B [28] ++ (if sm_matches ns v then [] else B [32]) ++ B [28] ++ post.
Proof. exact bash_ble_field. Qed.
Print Assumptions C05_bash_ble.

Theorem C05_xonsh : forall ns v,
  last_byte (xonsh_emit ns v) = Some (byte 32) <-> sm_matches ns (replace1 xonsh_sanitizer v) = false.
Proof. exact xonsh_space_iff. Qed.
Print Assumptions C05_xonsh.

(* non-vacuity: a value that needs quoting and ends in a no-space character *)
Example C05_nushell_example :
  nushell_emit (B [47]) (B [109;121;32;100;105;114;47]) = B [34;109;121;32;100;105;114;47;34] /\
  nushell_emit (B [61]) (B [109;121;32;100;105;114;47]) = B [34;109;121;32;100;105;114;47;34;32].
Proof. split; vm_compute; reflexivity. Qed.

(* ---------- the no-space set as a set of runes (Proofs/SuffixAlgebra.v) ----------
   SuffixMatcher works on bytes (strings.Contains(sm.string, string(r))); that this is rune membership is the
   self-synchronisation of UTF-8 (C05_contains_is_membership).  Add adds exactly the given runes, Merge is
   union, `*` absorbs: a value is followed by no blank iff the set holds `*` or the value's last rune. *)
From CV Require Import Base.Utf8 Proofs.Utf8 Proofs.SuffixAlgebra.

Theorem C05_contains_is_membership : forall rs r, Forall scalar rs -> scalar r ->
  (contains (encode_runes rs) (encode_rune r) = true <-> In r rs).
Proof. exact contains_rune. Qed.
Print Assumptions C05_contains_is_membership.

Theorem C05_add_adds_exactly : forall rs cs, Forall scalar rs -> Forall scalar cs ->
  exists rs', Forall scalar rs' /\ sm_add (encode_runes rs) cs = encode_runes rs' /\
    forall v, sm_matches (sm_add (encode_runes rs) cs) v = sm_matches (encode_runes rs) v || existsb (hits v) cs.
Proof. exact sm_add_spec. Qed.
Print Assumptions C05_add_adds_exactly.

Theorem C05_merge_is_union : forall rs1 rs2 v, Forall scalar rs1 -> Forall scalar rs2 ->
  sm_matches (sm_merge (encode_runes rs1) (encode_runes rs2)) v = sm_matches (encode_runes rs1) v || sm_matches (encode_runes rs2) v.
Proof. exact sm_merge_matches. Qed.
Print Assumptions C05_merge_is_union.

Theorem C05_hits : forall v r, hits v r = true <-> r = star \/ has_suffix v (encode_rune r) = true.
Proof. exact hits_spec. Qed.
Print Assumptions C05_hits.
