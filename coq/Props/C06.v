(* Props/C06.v — error messages always reach the user and can never be inserted by accident.

   Over the model of Messages.Integrate / Value (byte-identical to the implementation on every
   correspondence run), for all messages (sorted, duplicate free, as Messages.Get returns them),
   candidates and typed words, under "the numbering loop terminates within its fuel"
   (integrate_loop ... = Some _; the loop needs at most |values|+1 rounds):
     one entry per message, descriptions = the messages in order, display ERR / ERRn;
     their values are pairwise distinct and distinct from every real candidate;
     each extends the typed word; at least two entries; no-space forced to `*`;
     formats with a message channel (zsh, elvish, export) are not integrated, and the elvish
     document carries the message array.
   Suppress (regexp match relation abstract) and merge-upward belong to the Action algebra (C12).
   Stretch: zsh message block, export JSON messages member (checked by oracle only). *)
From Coq Require Import Permutation.
From CV Require Import Base.Str Base.Json Model.Common Model.Shells Model.ShellValue Proofs.Integrate Proofs.Suffix.

Theorem C06_entries : forall msgs vs w es ers ds drs vs1,
  msgs <> [] ->
  integrate_loop msgs vs (strip_err w) 0 es ers = Some vs1 ->
  exists added,
    map description added = msgs /\
    (forall a, In a added -> is_err_entry (strip_err w) es ers msgs a) /\
    (forall a, In a added -> contains_value vs (value a) = false) /\
    NoDup (map value added) /\
    Permutation (integrate msgs vs w es ers ds drs)
                (vs ++ added ++ match vs ++ added with [_] => [filler w ds drs] | _ => [] end).
Proof. exact integrate_spec. Qed.
Print Assumptions C06_entries.

Theorem C06_extend : forall w es ers msgs a,
  is_err_entry (strip_err w) es ers msgs a -> has_prefix (value a) w = true.
Proof. exact err_entry_extends. Qed.
Print Assumptions C06_extend.

Theorem C06_at_least_two : forall msgs vs w es ers ds drs vs1,
  msgs <> [] ->
  integrate_loop msgs vs (strip_err w) 0 es ers = Some vs1 ->
  2 <= length (integrate msgs vs w es ers ds drs).
Proof. exact integrate_at_least_two. Qed.
Print Assumptions C06_at_least_two.

Theorem C06_nospace_forced : forall e shell m,
  str_eqb shell s_export = false -> messages m <> [] ->
  forall v, sm_matches (stage_nospace e shell m) v = true.
Proof. exact stage_nospace_messages. Qed.
Print Assumptions C06_nospace_forced.

Theorem C06_no_messages_no_entries : forall vs w es ers ds drs, integrate [] vs w es ers ds drs = vs.
Proof. exact integrate_no_messages. Qed.
Print Assumptions C06_no_messages_no_entries.

Theorem C06_channel_formats : has_channel s_export = true /\ has_channel s_elvish = true /\ has_channel s_zsh = true /\
  forallb (fun s => negb (has_channel s))
          [s_bash; s_bash_ble; s_cmd_clink; s_fish; s_ion; s_nushell; s_oil; s_powershell; s_tcsh; s_xonsh] = true.
Proof. exact (conj has_channel_export (conj has_channel_elvish (conj has_channel_zsh no_channel_others))). Qed.
Print Assumptions C06_channel_formats.

Theorem C06_channel_elvish : forall e m vs,
  exists pre post, elvish_format e m vs = pre ++ json_array (map json_string (messages m)) ++ post.
Proof. exact elvish_channel. Qed.
Print Assumptions C06_channel_elvish.

(* non-vacuity: candidates literally named ERR and ERR1 *)
Example C06_example :
  map value (integrate [B [97]; B [98]]
                       [mkRaw (B [69;82;82]) (B [120]) [] [] [] [] []; mkRaw (B [69;82;82;49]) (B [121]) [] [] [] [] []]
                       [] [] [] [] [])
  = [B [69;82;82;50]; B [69;82;82;51]; B [69;82;82]; B [69;82;82;49]].
Proof. vm_compute. reflexivity. Qed.
