(* Props/C07.v — offered flag and sub-command names are exactly those still acceptable.

   Model/Flags.v states the rule of actionFlags / ActionCommands over the flag set cobra
   presents for the resolved command (own flags, inherited persistent ones, the automatic help
   flag) and the set of flags already given.
     C07_long_names_exact   cursor on `-` / `--pre`: a name is offered iff it is `--name` (or
                            `-s`, shorthand present and not deprecated) of an acceptable flag
     C07_long_names_offered  ... of those, the ones that extend the word under the cursor
     C07_acceptable         acceptable = visible (hidden only with CARAPACE_HIDDEN), not
                            deprecated, not yet given unless repeatable, and no OTHER given
                            flag shares a mutually exclusive group with it
     C07_chain_names_exact  inside a shorthand chain: only shorthands, appended to the chain,
                            the letters typed so far counting as given
     C07_chain_only_noarg   and only when every letter typed so far takes no argument
     C07_subcommands_exact  names and aliases of exactly the visible, non-deprecated sub-commands
     C07_offered_short_accepted  an offered `-s`, appended likewise, is accepted and sets the flag with that shorthand
     C07_offered_accepted   an offered long name, appended to a line the parser model of C01
                            accepts (with a value if the flag needs one), is accepted and sets
                            that very flag, leaving the positional arguments alone
   Decided by the harness on generated command trees (the rule above is the oracle; the flag
   set, the given flags and the verdict on each offered name come from executing the same tree
   with cobra): completeness and soundness of the real offer, acceptance of shorthands and
   chains, dispatch of offered sub-command names. *)
From CV Require Import Base.Str Model.Pflag Model.Flags Proofs.Pflag Proofs.Flags.

Theorem C07_long_names_exact : forall envh fs ch n,
  In n (names_long envh fs ch) <->
  exists f, In f fs /\ acceptable envh fs ch f = true /\
            (n = dash2 ++ fd_name f \/ (short_ok f = true /\ n = dash1 ++ fd_short f)).
Proof. exact names_long_spec. Qed.
Print Assumptions C07_long_names_exact.

Theorem C07_long_names_offered : forall envh fs ch cur n, has_prefix cur dash2 || str_eqb cur dash1 = true ->
  exists l, names_offered envh fs ch cur = NNames l /\
     (In n l <-> has_prefix n cur = true /\ In n (names_long envh fs ch)).
Proof. exact names_offered_long. Qed.
Print Assumptions C07_long_names_offered.

Theorem C07_acceptable : forall envh fs ch f,
  acceptable envh fs ch f = true <->
  (fd_hidden f = true -> envh = true) /\ fd_dep f = false /\
  (is_changed ch f = true -> repeatable f = true) /\
  (forall o, In o fs -> fd_name o <> fd_name f -> is_changed ch o = true -> shares_group f o = false).
Proof. exact acceptable_spec. Qed.
Print Assumptions C07_acceptable.

Theorem C07_chain_names_exact : forall envh fs ch cur letters n,
  In n (names_chain envh fs ch cur letters) <->
  exists f, In f fs /\ acceptable envh fs (ch ++ map fd_name letters) f = true /\ short_ok f = true /\ n = cur ++ fd_short f.
Proof. exact names_chain_spec. Qed.
Print Assumptions C07_chain_names_exact.

Theorem C07_chain_only_noarg : forall fs cs l, chain_letters fs cs = ChLetters l ->
  length l = length cs /\ Forall (fun f => noarg f = true /\ In f fs) l.
Proof. exact chain_letters_noarg. Qed.
Print Assumptions C07_chain_only_noarg.

Theorem C07_subcommands_exact : forall envh subs n,
  In n (subcommand_names envh subs) <->
  exists c, In c subs /\ (cd_hidden c = true -> envh = true) /\ cd_dep c = false /\ (n = cd_name c \/ In n (cd_aliases c)).
Proof. exact subcommand_names_spec. Qed.
Print Assumptions C07_subcommands_exact.

Theorem C07_offered_accepted : forall fs il ws st n f v,
  parse fs il ws = POk st -> p_stopped st = false -> wf_name n -> find_flag fs n = Some f ->
  exists st', parse fs il (ws ++ (dash2 ++ n) :: (if takes_next f then [v] else [])) = POk st' /\
              last (p_sets st') no_set = (n, if takes_next f then v else noopt f) /\
              p_args st' = p_args st.
Proof. exact offered_long_accepted. Qed.
Print Assumptions C07_offered_accepted.

Theorem C07_offered_short_accepted : forall fs il ws st c f v,
  parse fs il ws = POk st -> p_stopped st = false -> beq c (byte 45) = false -> Pflag.find_short fs c = Some f ->
  exists st', parse fs il (ws ++ [byte 45; c] :: (if takes_next f then [v] else [])) = POk st' /\
              last (p_sets st') no_set = (fname f, if takes_next f then v else noopt f) /\
              p_args st' = p_args st.
Proof. exact offered_short_accepted. Qed.
Print Assumptions C07_offered_short_accepted.
