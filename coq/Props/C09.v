(* Props/C09.v — parallel invocation (Batch) equals sequential invocation and is race free.

   Model/Batch.v: members are threads — lists of atomic steps, each reading some locations and
   writing one — over a shared store; the scheduler is an adversary.
   C09_every_interleaving_is_sequential: if the members are pairwise conflict free (no location
   written by one is read or written by another) every interleaving of any number of members
   yields the store that running them left to right yields; C09_two_members: the same for two
   members under an explicit schedule with the WaitGroup barrier; C09_race_free: conflict-free
   members have no data race (two unordered steps on one location, one of them a write).
   Why members of a Batch of library Actions are conflict free: each goroutine writes only its
   own slot of the pre-sized result slice (inventory: C09_goroutine_sites), and — by
   C08_refines_pure — an invocation writes only to locations it allocated itself and reads the
   pre-existing heap, which nobody writes (C08_captured_writes: no closure writes to a captured
   variable any more; Setenv copies).  The merged result is the sequential one (C12_batch) with
   the documented shape: C09_merge_values (union by inserted value, one candidate per value,
   the later member wins), C09_merge_messages (united), C09_merge_usage (last non-empty).
   Runtime: results under GOMAXPROCS 1/2/16 with jitter and a -race build of the harness on every
   run.  Granularity: steps are atomic; below that the criterion "no conflicting unordered
   accesses" is the Go memory model's own definition of a data race.
   Not proved: the registry lockset (storage.go mutexes) — exercised by the race build only. *)
From CV Require Import Base.Str Gen.Sites Model.Common Model.Action Model.Batch Proofs.Batch Proofs.RegistrySites Proofs.GoSites.
From CV Require Model.Registry Proofs.Registry.

Theorem C09_two_members : forall val sched (a b : list (step val)) m,
  Forall (respects val) a -> Forall (respects val) b -> conflict_free val a b ->
  eqs val (run2 val sched a b m) (exec val (exec val m a) b).
Proof. exact schedule_independent. Qed.
Print Assumptions C09_two_members.

Theorem C09_every_interleaving_is_sequential : forall val ts l, interleaving val ts l ->
  Forall (Forall (respects val)) ts -> pairwise val ts ->
  forall m, eqs val (exec val m l) (exec val m (concat ts)).
Proof. exact every_interleaving_is_sequential. Qed.
Print Assumptions C09_every_interleaving_is_sequential.

Theorem C09_race_free : forall val (a b : list (step val)), conflict_free val a b -> ~ race val a b.
Proof. exact conflict_free_no_race. Qed.
Print Assumptions C09_race_free.

Theorem C09_merge_values : forall rs,
  NoDup (map value (rv_unique rs)) /\
  (forall r, In r (rv_unique rs) -> In r rs) /\
  (forall x, In x rs -> exists r, In r (rv_unique rs) /\ value r = value x).
Proof. exact unique_spec. Qed.
Print Assumptions C09_merge_values.

Theorem C09_merge_later_wins : forall rs x, In x (rv_unique (rs ++ [x])).
Proof. exact unique_last_wins. Qed.
Print Assumptions C09_merge_later_wins.

Theorem C09_merge_is_union : forall (a b : invoked) rest,
  snd (merge_invoked (a :: b :: rest)) = rv_unique (snd a ++ flat_map snd (a :: b :: rest)).
Proof. exact merge_values_union. Qed.
Print Assumptions C09_merge_is_union.

Theorem C09_merge_messages : forall x (a b : invoked) rest,
  In x (messages (fst (merge_invoked (a :: b :: rest)))) <-> exists i, In i (a :: b :: rest) /\ In x (messages (fst i)).
Proof. exact merge_messages_united. Qed.
Print Assumptions C09_merge_messages.

Theorem C09_merge_usage : forall (a b : invoked) rest,
  usage (fst (merge_invoked (a :: b :: rest))) =
  fold_left (fun u (o : invoked) => if is_empty (usage (fst o)) then u else usage (fst o)) (a :: b :: rest) (usage (fst a)).
Proof. exact merge_usage_last_nonempty. Qed.
Print Assumptions C09_merge_usage.

(* the goroutine structure of the source today: one `go` statement in parallelize (batch.go) and
   the one in Timeout (C19); each Batch goroutine writes invokedActions[localIndex] only *)
Theorem C09_goroutine_sites :
  forallb (fun s => Model.Action.in_strs s audited_go_stmt_sites) go_stmt_sites = true.
Proof. vm_compute. reflexivity. Qed.
Print Assumptions C09_goroutine_sites.

(* the completion registry's lookup-or-create (storage.get), reached by the members of a Batch that
   touch a command for the first time: any number of goroutines, any schedule — one entry *)
Theorem C09_registry_single_entry : forall n sched i j e1 e2,
  nth_error (Registry.pcs (Registry.run true sched (Registry.init n))) i = Some (Registry.Got e1) ->
  nth_error (Registry.pcs (Registry.run true sched (Registry.init n))) j = Some (Registry.Got e2) ->
  e1 = e2 /\ Registry.slot (Registry.run true sched (Registry.init n)) = Some e1.
Proof. exact Proofs.Registry.registry_single_entry. Qed.
Print Assumptions C09_registry_single_entry.

Theorem C09_registry_unchecked_refuted : exists sched e1 e2,
  nth_error (Registry.pcs (Registry.run false sched (Registry.init 2))) 0 = Some (Registry.Got e1) /\
  nth_error (Registry.pcs (Registry.run false sched (Registry.init 2))) 1 = Some (Registry.Got e2) /\ e1 <> e2.
Proof. exact Proofs.Registry.registry_unchecked_refuted. Qed.
Print Assumptions C09_registry_unchecked_refuted.

(* the statements of storage.get, regenerated from the source, are the ones the model was read off:
   read under RLock; if missing: Lock, look again, create and store only if still missing *)
Theorem C09_registry_sites : registry_sites = audited_registry_sites.
Proof. vm_compute. reflexivity. Qed.
Print Assumptions C09_registry_sites.

(* non-vacuity: two members with disjoint footprints, every one of the 2^4 schedules *)
Definition sA : list (step nat) := [mkStep [0] 1 (fun m => m 0 + 1); mkStep [1] 1 (fun m => m 1 * 2)].
Definition sB : list (step nat) := [mkStep [0] 2 (fun m => m 0 + 5); mkStep [2] 3 (fun m => m 2 + 1)].
Example C09_example :
  forallb (fun sched => let m := run2 nat sched sA sB (fun _ => 7) in
                        Nat.eqb (m 1) 16 && Nat.eqb (m 2) 12 && Nat.eqb (m 3) 13)
          [[true;true;false;false]; [false;false;true;true]; [true;false;true;false]; [false;true;false;true];
           [true;false;false;true]; [false;true;true;false]; []; [false]] = true.
Proof. vm_compute. reflexivity. Qed.
