(* Props/C11.v — MultiParts completes a set of values segment by segment, soundly and
   completely.  Model: Model/MultiParts.v (tokenize, ToMultiPartsA of invokedAction.go);
   lemmas: Proofs/MultiParts.v.  `to_multiparts ci ds vals w = Some (out, ns)` reads
   "MultiParts(ds...) over the values `vals`, typed text `w`, offers `out` with no-space set
   `ns`" and `None` is the index-out-of-range panic.

   Full statement of the property and how much of it is proved here:
     sound       every candidate is a prefix of a matching value cut at a segment boundary
                 — proved for every list of non-empty dividers and both match modes;
     extends     every candidate extends the typed text — proved for one non-empty divider
                 of any length, case sensitive (C11_extends_single); for several dividers
                 it is false when dividers overlap (see known_findings.json: "//" with "/");
     complete    every value that starts with the typed text continues exactly one candidate
       /unique   — proved for every divider list (candidates have pairwise distinct values
                 and the value's own cut is among them);
     final step  the final step carries the value's own description/style/tag, intermediate
                 steps end in the divider and carry none — proved (one non-empty divider);
     total       no panic for non-empty dividers; the empty divider is refuted with a witness. *)
From CV Require Import Base.Str Model.Common Model.MultiParts Proofs.MultiParts.
Local Open Scope nat_scope.

Theorem C11_tokenize_concat : forall ds s, nonempty_all ds -> concat (tokenize ds s) = s.
Proof. exact tokenize_concat. Qed.
Print Assumptions C11_tokenize_concat.

Theorem C11_sound : forall ci ds vals w out ns,
  nonempty_all ds ->
  to_multiparts ci ds vals w = Some (out, ns) ->
  forall r, In r out ->
  exists val, In val vals /\ match_has_prefix ci (value val) w = true /\
              has_prefix (value val) (value r) = true /\
              exists k, 1 <= k <= length (tokenize ds (value val)) /\
                        value r = concat (firstn k (tokenize ds (value val))).
Proof. exact mp_sound. Qed.
Print Assumptions C11_sound.

Theorem C11_extends_single : forall d vals w out ns, d <> [] ->
  to_multiparts false [d] vals w = Some (out, ns) ->
  forall r, In r out -> has_prefix (value r) w = true.
Proof. exact mp_extends_single. Qed.
Print Assumptions C11_extends_single.

Theorem C11_complete_unique : forall ci ds vals w out ns,
  to_multiparts ci ds vals w = Some (out, ns) ->
  NoDup (map value out) /\
  forall val, In val vals -> match_has_prefix ci (value val) w = true ->
    length (tokenize ds w) <= length (tokenize ds (value val)) ->
    exists r, In r out /\ value r = concat (firstn (length (tokenize ds w)) (tokenize ds (value val))).
Proof. exact mp_complete_unique. Qed.
Print Assumptions C11_complete_unique.

Theorem C11_final_step_single : forall d ci vals w out ns, d <> [] ->
  to_multiparts ci [d] vals w = Some (out, ns) ->
  forall r, In r out ->
  exists val, In val vals /\
    ((value r = value val /\ description r = description val /\ style r = style val /\ tag r = tag val) \/
     (has_suffix (value r) d = true /\ description r = [] /\ style r = [] /\ tag r = tag val)).
Proof. exact mp_intermediate_single. Qed.
Print Assumptions C11_final_step_single.

Theorem C11_total : forall ci ds vals w, nonempty_all ds -> to_multiparts ci ds vals w <> None.
Proof. exact mp_total. Qed.
Print Assumptions C11_total.

(* the empty divider: panic on an empty typed text, no progress on a non-empty one *)
Definition rv (s : list nat) : raw := mkRaw (B s) (B s) [] [] [] [] [].
Theorem C11_empty_divider_refuted :
  to_multiparts false [[]] [rv [97;98]] [] = None /\
  option_map (fun p => map value (fst p)) (to_multiparts false [[]] [rv [97;98]] (B [97])) = Some [B [97]].
Proof. split; vm_compute; reflexivity. Qed.
Print Assumptions C11_empty_divider_refuted.

(* non-vacuity: a concrete run with a two-character divider *)
Example C11_example :
  option_map (fun p => map value (fst p))
    (to_multiparts false [B [58;58]] [rv [97;58;58;98;58;58;99]; rv [97;58;58;100]; rv [120]] (B [97;58]))
  = Some [B [97;58;58]].
Proof. vm_compute. reflexivity. Qed.
