(* Props/C12.v — modifiers change exactly the aspect they document, and rebuild the full word.
   Model: Model/Action.v (HOAS transcription of action.go / defaultActions.go / invokedAction.go /
   batch.go; `invoke` = Action.Invoke).  Specification: Spec/Algebra.v (`eval`, one clause per
   modifier).  The per-modifier theorems hold for EVERY action `a` — including arbitrary user
   callbacks — and every Context; C12_refinement covers every expression of the 24-node grammar.

   Proved: Filter/Retain/FilterArgs/FilterParts, Prefix (three-way + rebuild), Suffix, Style, Tag,
   Usage (outer wins), NoSpace (frame for every action; exact accumulation for library-built
   actions), Suppress (exactly the matched messages; match relation abstract), Unless, Shift,
   MultiParts (C11's completion + meta kept), ActionMultiPartsN (parts / current part / rebuild),
   List, UniqueList (no repeat), Batch (= merge of the members' completions).
   Not in the statement: Chdir (C16), Cache (C14), Timeout (C19), Split (C17), StyleF/TagF/UidF with
   arbitrary functions beyond what invoke_Style/Tag show, MultiPartsP. *)
From Coq Require Import ZArith.
From CV Require Import Base.Str Base.Utf8 Model.Common Model.MultiParts Model.Action Spec.Algebra Proofs.Algebra.
Local Open Scope nat_scope.

Theorem C12_refinement : forall ci rm e c, invoke (denote ci rm e) c = eval ci rm e c.
Proof. exact refines. Qed.
Print Assumptions C12_refinement.

Theorem C12_filter : forall vs a c, invoke (Filter vs a) c = (fst (invoke a c), rv_filter vs (snd (invoke a c))).
Proof. exact invoke_Filter. Qed.
Print Assumptions C12_filter.

Theorem C12_filter_exact : forall vs rs r, In r (rv_filter vs rs) <-> In r rs /\ in_strs (value r) vs = false.
Proof. exact rv_filter_In. Qed.
Print Assumptions C12_filter_exact.

Theorem C12_retain : forall vs a c, invoke (Retain vs a) c = (fst (invoke a c), rv_retain vs (snd (invoke a c))).
Proof. exact invoke_Retain. Qed.
Print Assumptions C12_retain.

Theorem C12_retain_exact : forall vs rs r, In r (rv_retain vs rs) <-> In r rs /\ in_strs (value r) vs = true.
Proof. exact rv_retain_In. Qed.
Print Assumptions C12_retain_exact.

Theorem C12_prefix : forall ci p a c,
  invoke (Prefix ci p a) c =
    if match_has_prefix ci (cvalue c) p
    then let i := invoke a (set_cvalue c (drop (length p) (cvalue c))) in (fst i, rv_prefix p (snd i))
    else if match_has_prefix ci p (cvalue c)
    then let i := invoke a (set_cvalue c []) in (fst i, rv_prefix p (snd i))
    else (meta0, []).
Proof. exact invoke_Prefix. Qed.
Print Assumptions C12_prefix.

Theorem C12_prefix_rebuild : forall p x a c, cvalue c = p ++ x ->
  invoke (Prefix false p a) c =
    (fst (invoke a (set_cvalue c x)), rv_prefix p (snd (invoke a (set_cvalue c x)))).
Proof. exact prefix_rebuild. Qed.
Print Assumptions C12_prefix_rebuild.

Theorem C12_prefix_incompatible : forall p a c,
  has_prefix (cvalue c) p = false -> has_prefix p (cvalue c) = false -> invoke (Prefix false p a) c = (meta0, []).
Proof. exact prefix_incompatible. Qed.
Print Assumptions C12_prefix_incompatible.

Theorem C12_prefix_only_value : forall p rs r, In r (rv_prefix p rs) ->
  exists y, In y rs /\ value r = p ++ value y /\ display r = display y /\ description r = description y
            /\ style r = style y /\ tag r = tag y.
Proof. exact rv_prefix_In. Qed.
Print Assumptions C12_prefix_only_value.

Theorem C12_suffix : forall s a c, invoke (Suffix s a) c = (fst (invoke a c), rv_suffix s (snd (invoke a c))).
Proof. exact invoke_Suffix. Qed.
Print Assumptions C12_suffix.

Theorem C12_style : forall s a c,
  invoke (Style s a) c = (fst (invoke a c), map (fun r => set_style r s) (snd (invoke a c))).
Proof. exact invoke_Style. Qed.
Print Assumptions C12_style.

Theorem C12_tag : forall t a c,
  invoke (Tag t a) c = (fst (invoke a c), map (fun r => set_tag r t) (snd (invoke a c))).
Proof. exact invoke_Tag. Qed.
Print Assumptions C12_tag.

Theorem C12_usage_outer_wins : forall u a c,
  invoke (Usage u a) c = ((if is_empty u then fst (invoke a c) else set_usage (fst (invoke a c)) u), snd (invoke a c)).
Proof. exact invoke_Usage. Qed.
Print Assumptions C12_usage_outer_wins.

Theorem C12_nospace_frame : forall rs a c,
  snd (invoke (NoSpace rs a) c) = snd (invoke a c) /\
  messages (fst (invoke (NoSpace rs a) c)) = messages (fst (invoke a c)) /\
  usage (fst (invoke (NoSpace rs a) c)) = usage (fst (invoke a c)).
Proof. exact invoke_NoSpace_frame. Qed.
Print Assumptions C12_nospace_frame.

Theorem C12_nospace_accumulates : forall rs f c,
  invoke (NoSpace rs (callback f)) c =
    (add_nospace (fst (invoke (callback f) c)) (nospace_arg rs), snd (invoke (callback f) c)).
Proof. exact invoke_NoSpace_cb. Qed.
Print Assumptions C12_nospace_accumulates.

Theorem C12_suppress : forall rm pats a c,
  invoke (Suppress rm pats a) c =
    (set_messages (fst (invoke a c)) (msgs_suppress rm pats (messages (fst (invoke a c)))), snd (invoke a c)).
Proof. exact invoke_Suppress. Qed.
Print Assumptions C12_suppress.

Theorem C12_unless : forall b a c, invoke (Unless b a) c = if b then (meta0, []) else invoke a c.
Proof. exact invoke_Unless. Qed.
Print Assumptions C12_unless.

Theorem C12_shift : forall n a c,
  invoke (Shift n a) c =
    if (n <? 0)%Z then (mkMeta [msg_shift n] [] [], [])
    else invoke a (set_cargs c (skipn (Z.to_nat n) (cargs c))).
Proof. exact invoke_Shift. Qed.
Print Assumptions C12_shift.

Theorem C12_multiparts_rebuild : forall sep n cb c r, (n =? 0)%Z = false -> (n =? 1)%Z = false ->
  In r (snd (invoke (ActionMultiPartsN sep n cb) c)) ->
  let '(done, parts, cur) := mpn_split sep n (cvalue c) in
  exists y, In y (snd (invoke (cb (with_vp c cur parts)) (with_vp c cur parts))) /\
            value r = done ++ value y /\ display r = display y /\ description r = description y.
Proof. exact multiparts_rebuild. Qed.
Print Assumptions C12_multiparts_rebuild.

Theorem C12_uniquelist_no_repeat : forall ci rm d e c r,
  In r (snd (invoke (denote ci rm (EUniqueList d e)) c)) ->
  let '(done, parts, cur) := mpn_split d (-1) (cvalue c) in
  exists y, value r = done ++ value y /\ in_strs (value y) parts = false.
Proof. exact uniquelist_no_repeat. Qed.
Print Assumptions C12_uniquelist_no_repeat.

Theorem C12_batch : forall l c, invoke (Batch l) c = merge_invoked (map (fun a => invoke a c) l).
Proof. exact invoke_Batch. Qed.
Print Assumptions C12_batch.

(* non-vacuity: Prefix inside MultiPartsN inside Batch with Usage at two levels *)
Example C12_example :
  let e := EUsage (B [111]) (EBatch [EMultiPartsN (B [44]) (-1) (EValues [B [97]; B [98]]) (EPrefix (B [120]) (EUsage (B [105]) (EValues [B [99]])));
                                     EMessage (B [109])]) in
  let r := invoke (denote false (fun _ _ => false) e) (mkCtx (B [97;44;120]) [] [] []) in
  (map value (snd r), usage (fst r), messages (fst r), nospace (fst r)) = ([B [97;44;120;99]], B [111], [B [109]], B [44]).
Proof. vm_compute. reflexivity. Qed.

(* ---------- NoSpace in terms of what is matched (Proofs/SuffixAlgebra.v) ---------- *)
From CV Require Import Base.Utf8 Proofs.Utf8 Proofs.SuffixAlgebra.
Theorem C12_nospace_matches : forall m rs0 cs v,
  nospace m = encode_runes rs0 -> Forall scalar rs0 -> Forall scalar cs ->
  sm_matches (nospace (add_nospace m cs)) v = sm_matches (nospace m) v || existsb (hits v) cs /\
  messages (add_nospace m cs) = messages m /\ usage (add_nospace m cs) = usage m.
Proof. exact add_nospace_matches. Qed.
Print Assumptions C12_nospace_matches.
