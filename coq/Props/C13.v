(* Props/C13.v — Export / Import carries a completion across processes without loss.

   Models: Model/Shells.v export_format (the bytes Export.MarshalJSON prints; byte-exact tie in
   C02-C06 and here), Model/JsonParse.v (encoding/json's reader: scanner grammar, unquoting),
   Model/Export.v (json.Unmarshal into export.Export: exact / case-insensitive field names,
   embedded Meta, Messages / SuffixMatcher unmarshalers, null and type rules; ActionImport).

   Proved: (tree level) decoding the document tree that MarshalJSON prints yields the same
   completion up to [norm] — values sorted by value, messages as a sorted set — and [norm]
   keeps every candidate with all exported fields, the message set, the no-space string and
   the usage; ActionImport is all-or-message: for EVERY byte string it yields either the
   complete decoded completion or exactly one message and no values; input that is not one
   valid JSON text yields the message.
   Not yet proved (checked by correspondence on every run, byte-exact): print -> parse at
   byte level (string escaping / unescaping of arbitrary valid Unicode text).
   ActionExecute / child-process transport: the same bytes travel; exercised by the harness. *)
From CV Require Import Base.Str Model.Common Model.JsonParse Model.Action Model.Export Proofs.Export.

Theorem C13_roundtrip_tree : forall ver m vs,
  of_json (to_json ver m vs) = Some (mkExport ver (norm_meta m) (Some (norm_values vs))).
Proof. exact roundtrip_tree. Qed.
Print Assumptions C13_roundtrip_tree.

Theorem C13_norm_preserves_values : forall vs, Permutation.Permutation (norm_values vs) (map strip vs).
Proof. exact norm_values_perm. Qed.
Print Assumptions C13_norm_preserves_values.

Theorem C13_norm_preserves_meta : forall m,
  nospace (norm_meta m) = nospace m /\ usage (norm_meta m) = usage m /\
  forall x, In x (messages (norm_meta m)) <-> In x (messages m).
Proof. intro m. split; [reflexivity|]. split; [reflexivity|]. exact (norm_meta_messages m). Qed.
Print Assumptions C13_norm_preserves_meta.

Theorem C13_import_all_or_message : forall err b c,
  (import b = IMsg /\ invoke (ActionImport err b) c = (mkMeta [err] [] [], [])) \/
  (exists j e, jparse b = Some j /\ of_json j = Some e /\ import b = IOk e /\
               invoke (ActionImport err b) c = (e_meta e, match e_values e with Some vs => vs | None => [] end)).
Proof. exact import_all_or_message. Qed.
Print Assumptions C13_import_all_or_message.

Theorem C13_invalid_json_is_message : forall err b c,
  jparse b = None -> invoke (ActionImport err b) c = (mkMeta [err] [] [], []).
Proof. exact invalid_json_is_message. Qed.
Print Assumptions C13_invalid_json_is_message.

(* non-vacuity: a printed document with escapes parses and imports; a truncated one does not *)
Definition doc1 : str :=
  B [123;34;118;97;108;117;101;115;34;58;91;123;34;118;97;108;117;101;34;58;34;97;92;110;92;117;48;48;101;57;34;44;34;100;105;115;112;108;97;121;34;58;34;100;34;125;93;125].
  (* {"values":[{"value":"a\né","display":"d"}]} *)
Example C13_example :
  import doc1 = IOk (mkExport [] meta0 (Some [mkRaw (B [97;10;195;169]) (B [100]) [] [] [] [] []])) /\
  import (take 30 doc1) = IMsg.
Proof. split; vm_compute; reflexivity. Qed.
