(* Props/C13.v — Export / Import carries a completion across processes without loss.

   Models: Model/Shells.v export_format (the bytes Export.MarshalJSON prints; byte-exact tie in
   C02-C06 and here), Model/JsonParse.v (encoding/json's reader: scanner grammar, unquoting),
   Model/Export.v (json.Unmarshal into export.Export: exact / case-insensitive field names,
   embedded Meta, Messages / SuffixMatcher unmarshalers, null and type rules; ActionImport).

   Proved: (tree level) decoding the document tree that MarshalJSON prints yields the same
   completion up to [norm] — values sorted by value, messages as a sorted set — and [norm]
   keeps every candidate with all exported fields, the message set, the no-space string and
   the usage; ActionImport is all-or-message: for EVERY byte string it yields either the
   complete decoded completion or exactly one message and no values; input that is not one
   valid JSON text yields the message.
   Proved at byte level (Proofs/Utf8.v, JsonString.v, JsonRoundtrip.v, ExportBytes.v):
     C13_decode_encode        utf8.DecodeRune then string(rune) gives back a well formed sequence
     C13_encode_decode        and utf8.DecodeRune of string(rune) gives back every Unicode scalar value
     C13_string_roundtrip     the string reader applied to what the encoder prints for ANY byte
                              string yields that string with invalid UTF-8 replaced by U+FFFD
     C13_valid_text_unchanged ... i.e. the string itself when it is valid UTF-8
     C13_parse_print          parse (print j) = j (strings sanitised) for every tree of strings,
                              arrays and objects
     C13_export_bytes         importing the BYTES `export` prints for (meta, values) yields the
                              normalised completion with every text as the encoder leaves it
   ActionExecute / child-process transport: the same bytes travel; exercised by the harness. *)
From CV Require Import Base.Str Base.Utf8 Base.Json Base.SortPerm Model.Common Model.Shells Model.JsonParse Model.Action Model.Export Proofs.Export
  Proofs.Utf8 Proofs.JsonString Proofs.JsonRoundtrip Proofs.ExportBytes.

Theorem C13_roundtrip_tree : forall ver m vs,
  of_json (to_json ver m vs) = Some (mkExport ver (norm_meta m) (Some (norm_values vs))).
Proof. exact roundtrip_tree. Qed.
Print Assumptions C13_roundtrip_tree.

Theorem C13_norm_preserves_values : forall vs, Permutation.Permutation (norm_values vs) (map strip vs).
Proof. exact norm_values_perm. Qed.
Print Assumptions C13_norm_preserves_values.

Theorem C13_norm_preserves_meta : forall m,
  nospace (norm_meta m) = nospace m /\ usage (norm_meta m) = usage m /\
  forall x, In x (messages (norm_meta m)) <-> In x (messages m).
Proof. intro m. split; [reflexivity|]. split; [reflexivity|]. exact (norm_meta_messages m). Qed.
Print Assumptions C13_norm_preserves_meta.

Theorem C13_import_all_or_message : forall err b c,
  (import b = IMsg /\ invoke (ActionImport err b) c = (mkMeta [err] [] [], [])) \/
  (exists j e, jparse b = Some j /\ of_json j = Some e /\ import b = IOk e /\
               invoke (ActionImport err b) c = (e_meta e, match e_values e with Some vs => vs | None => [] end)).
Proof. exact import_all_or_message. Qed.
Print Assumptions C13_import_all_or_message.

Theorem C13_invalid_json_is_message : forall err b c,
  jparse b = None -> invoke (ActionImport err b) c = (mkMeta [err] [] [], []).
Proof. exact invalid_json_is_message. Qed.
Print Assumptions C13_invalid_json_is_message.

(* non-vacuity: a printed document with escapes parses and imports; a truncated one does not *)
Definition doc1 : str :=
  B [123;34;118;97;108;117;101;115;34;58;91;123;34;118;97;108;117;101;34;58;34;97;92;110;92;117;48;48;101;57;34;44;34;100;105;115;112;108;97;121;34;58;34;100;34;125;93;125].
  (* {"values":[{"value":"a\né","display":"d"}]} *)
Example C13_example :
  import doc1 = IOk (mkExport [] meta0 (Some [mkRaw (B [97;10;195;169]) (B [100]) [] [] [] [] []])) /\
  import (take 30 doc1) = IMsg.
Proof. split; vm_compute; reflexivity. Qed.

Theorem C13_decode_encode : forall s r bs rest, decode1 s = Some (r, bs, rest) -> 2 <= length bs -> encode_rune r = bs.
Proof. exact decode_encode. Qed.
Print Assumptions C13_decode_encode.

Theorem C13_string_roundtrip : forall s fuel tail, length (chunks s) < fuel ->
  pstring fuel (flat_map json_chunk (chunks s) ++ dq :: tail) [] = Some (sanitize s, tail).
Proof. exact pstring_json_string. Qed.
Print Assumptions C13_string_roundtrip.

Theorem C13_valid_text_unchanged : forall s, all_valid s -> sanitize s = s.
Proof. exact sanitize_valid. Qed.
Print Assumptions C13_valid_text_unchanged.

Theorem C13_parse_print : forall j, strs_only j -> jparse (jprint j) = Some (jsan j).
Proof. exact jparse_jprint. Qed.
Print Assumptions C13_parse_print.

Theorem C13_export_bytes : forall e m vs,
  import (export_format e m vs) =
    IOk (mkExport (sanitize (version e))
                  (mkMeta (msgs_merge [] (map sanitize (messages m))) (sanitize (nospace m)) (sanitize (usage m)))
                  (Some (map (fun r => strip (san_raw r)) (isort_by value_ltb' vs)))).
Proof. exact import_export_bytes. Qed.
Print Assumptions C13_export_bytes.

Theorem C13_encode_decode : forall r s, scalar r -> decode1 (encode_rune r ++ s) = Some (r, encode_rune r, s).
Proof. exact encode_decode. Qed.
Print Assumptions C13_encode_decode.
