(* Props/C14.v — a cached Action equals a fresh one within its lifetime, call site and keys.

   Model: Model/Cache.v — Action.Cache / cache.File / Load / LoadE / WriteE as a step function
   over an explicit file system and clock; callback results and key values are supplied by
   the history (adversary).  Statements are about EVERY history (C14_reachable_invariant) and
   every step from a reachable state.

   No premise: that the bytes WriteE prints for a completion import to read_back r (the
   normalised completion; every text as Go's encoder leaves it, i.e. unchanged when it is valid
   UTF-8 — C14_read_back_valid) is the byte-level round trip proved in Proofs/ExportBytes.v.
   Names stand for paths: SHA-1 is taken to be injective on (call site, joined keys).
   The exact `<=` boundary at age = timeout is decided here in the model only (DESIGN 6.14). *)
From Coq Require Import ZArith.
From CV Require Import Base.Str Model.Common Model.JsonParse Model.Action Model.Export Model.Cache Proofs.Export Proofs.JsonString Proofs.ExportBytes Proofs.Cache.

Theorem C14_bytes_read_back : forall version r,
  exists e, import (print version r) = IOk e /\ completion_of e = read_back r.
Proof. exact print_imports. Qed.
Print Assumptions C14_bytes_read_back.

Theorem C14_read_back_valid : forall r, valid_invoked r -> read_back r = norm_inv r.
Proof. exact read_back_valid. Qed.
Print Assumptions C14_read_back_valid.

Theorem C14_reachable_invariant : forall version w, reachable version w -> Inv version w.
Proof. exact reachable_inv. Qed.
Print Assumptions C14_reachable_invariant.

Theorem C14_transparent : forall version,
  forall w site ids k2 t r w' res, Inv version w ->
  step version w (OInvoke site (Some ids) k2 t r) = (w', Served false res) ->
  w' = w /\
  exists e, lookup (fs w) (file_name site ids) = Some e /\ fresh w e t /\
            (forall r0, origin e = Some r0 -> res = read_back r0 /\ messages (fst r0) = []).
Proof. exact transparent. Qed.
Print Assumptions C14_transparent.

Theorem C14_real_iff_miss : forall version w site k1 k2 t r,
  (exists w', step version w (OInvoke site k1 k2 t r) = (w', Served true r)) <->
  (k1 = None \/ exists ids, k1 = Some ids /\ loadE w (file_name site ids) t = None).
Proof. exact real_iff_miss. Qed.
Print Assumptions C14_real_iff_miss.

Theorem C14_real_is_exact : forall version w o w' res,
  step version w o = (w', Served true res) -> exists site k1 k2 t, o = OInvoke site k1 k2 t res.
Proof. exact real_is_exact. Qed.
Print Assumptions C14_real_is_exact.

Theorem C14_messages_never_stored : forall version w site k1 k2 t r,
  messages (fst r) <> [] -> fst (step version w (OInvoke site k1 k2 t r)) = w.
Proof. exact messages_never_stored. Qed.
Print Assumptions C14_messages_never_stored.

Theorem C14_corrupt_is_absent : forall version w site ids k2 t r e,
  lookup (fs w) (file_name site ids) = Some e -> import (content e) = IMsg ->
  snd (step version w (OInvoke site (Some ids) k2 t r)) = Served true r.
Proof. exact corrupt_is_absent. Qed.
Print Assumptions C14_corrupt_is_absent.

Theorem C14_isolation_sites : forall version w site k1 k2 t r m,
  fst m <> site -> lookup (fs (fst (step version w (OInvoke site k1 k2 t r)))) m = lookup (fs w) m.
Proof. exact isolation. Qed.
Print Assumptions C14_isolation_sites.

Theorem C14_name_shared : forall site ids site' ids',
  file_name site ids = file_name site' ids' <-> site = site' /\ join_ids ids = join_ids ids'.
Proof. exact name_shared. Qed.
Print Assumptions C14_name_shared.

Theorem C14_isolation_keys_partial : forall ids ids', ids <> [] -> ids' <> [] ->
  (forall x, In x ids -> ~ In (byte 1) x) -> (forall x, In x ids' -> ~ In (byte 1) x) ->
  join_ids ids = join_ids ids' -> ids = ids'.
Proof. exact join_injective. Qed.
Print Assumptions C14_isolation_keys_partial.

(* full isolation over arbitrary key values is false: the joins collide *)
Theorem C14_isolation_refuted :
  join_ids [B [97;1;98]] = join_ids [B [97]; B [98]] /\ key_string [B [97;10;98]] = key_string [B [97]; B [98]].
Proof. exact join_collision_refuted. Qed.
Print Assumptions C14_isolation_refuted.

(* non-vacuity: store, hit, 2 h later miss with a 1 h timeout; and the premise on a concrete result *)
Definition r1 : invoked := (meta0, [mkRaw (B [98]) (B [98]) [] [] [] [] []; mkRaw (B [97;34]) (B [97]) (B [100]) [] [] [] []]).
Definition r2 : invoked := (meta0, [mkRaw (B [99]) (B [99]) [] [] [] [] []]).
Example C14_example :
  let ops := [OInvoke (B [48]) (Some [B [107]]) (Some [B [107]]) 3600 r1;
              OInvoke (B [48]) (Some [B [107]]) (Some [B [107]]) 3600 r2;
              OAdvance 7200;
              OInvoke (B [48]) (Some [B [107]]) (Some [B [107]]) 3600 r2] in
  snd (run (B [118]) world0 ops) = [Served true r1; Served false (read_back r1); Quiet; Served true r2].
Proof. vm_compute. reflexivity. Qed.
Example C14_read_back_example : read_back r1 = norm_inv r1.
Proof. vm_compute. reflexivity. Qed.
