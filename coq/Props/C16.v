(* Props/C16.v — file and directory completion mirrors the file system seen from the Context.

   Model/Files.v: path/filepath (Clean, Dir, Base, Abs — tied exhaustively to the real functions on
   all paths of length <= 6 over {a . / ~ b}), Context.Abs, a file system with symbolic links
   (realpath, stat, readdir), actionPath, ActionFiles/ActionDirectories = actionPath . MultiParts "/".
     C16_candidate_shape     every candidate is the typed directory part, unchanged, followed by the
                             name of an entry of the directory that Context.Abs of the typed path
                             denotes (seen from Context.Dir; the process working directory does not
                             occur for absolute Context.Dir), plus "/" for directories / links to them
     C16_typed_part_unchanged  ... hence accepting a candidate never rewrites the typed part
     C16_hidden_rule         dot entries only when the typed last segment starts with a dot
     C16_entry_rule          completeness of the listing: every shown entry that is a directory (or
                             a link to one) is offered with "/", every shown regular file with an
                             allowed suffix is offered by ActionFiles, none by ActionDirectories
   The MultiParts "/" stage (segment-wise completion, "/" no-space) is C11; the final prefix filter
   is C02.  Chdir: C12 covers the Context plumbing; its os.Stat validation is exercised only.
   Kernel semantics (what ReadDir / Stat return) are modelled by [fsys]; the oracle of the harness
   lists the real directory independently.  Known finding: lexical `seg/../`. *)
From CV Require Import Base.Str Model.Common Model.Action Model.Files Proofs.Files.

Theorem C16_candidate_shape : forall fs cwd home sfx dir_only cdir value v,
  In v (pr_values (action_path fs cwd home sfx dir_only cdir value)) ->
  exists files name k, readdir fs (fdir (ctx_abs cwd home cdir value)) = Some files /\ In (name, k) files /\
    (v = dir_part value ++ name ++ sl \/ (v = dir_part value ++ name /\ dir_only = false)).
Proof. exact action_path_shape. Qed.
Print Assumptions C16_candidate_shape.

Theorem C16_typed_part_unchanged : forall fs cwd home sfx dir_only cdir value v,
  In v (pr_values (action_path fs cwd home sfx dir_only cdir value)) -> has_prefix v (dir_part value) = true.
Proof. exact typed_part_unchanged. Qed.
Print Assumptions C16_typed_part_unchanged.

Theorem C16_hidden_rule : forall fs cwd home sfx dir_only cdir value v,
  In v (pr_values (action_path fs cwd home sfx dir_only cdir value)) ->
  (negb (has_suffix (ctx_abs cwd home cdir value) sl) && has_prefix (fbase (ctx_abs cwd home cdir value)) dot) = false ->
  exists name, has_prefix name dot = false /\ (v = dir_part value ++ name ++ sl \/ v = dir_part value ++ name).
Proof. exact hidden_rule. Qed.
Print Assumptions C16_hidden_rule.

Theorem C16_entry_rule : forall fs cwd home sfx dir_only cdir value files name k,
  readdir fs (fdir (ctx_abs cwd home cdir value)) = Some files -> In (name, k) files ->
  let abs := ctx_abs cwd home cdir value in
  let shown := (negb (has_suffix abs sl) && has_prefix (fbase abs) dot) || negb (has_prefix name dot) in
  let isdir := (match k with KDir => true | _ => false end) || stat_is_dir fs (fdir abs ++ sl ++ name) in
  let sfx' := match sfx with [] => [[]] | _ => sfx end in
  (shown && isdir = true -> In (dir_part value ++ name ++ sl) (pr_values (action_path fs cwd home sfx dir_only cdir value))) /\
  (shown && negb isdir && negb dir_only && existsb (fun s => has_suffix name s) sfx' = true ->
     In (dir_part value ++ name) (pr_values (action_path fs cwd home sfx dir_only cdir value))).
Proof. exact entry_rule. Qed.
Print Assumptions C16_entry_rule.

(* non-vacuity: a tree with a directory, a link to it, a dot file and two files; Context.Dir = /r *)
Definition fs_ex : fsys :=
  [(B [47;114], KDir); (B [47;114;47;100], KDir); (B [47;114;47;108], KLink (B [100])); (B [47;114;47;46;104], KFile);
   (B [47;114;47;97;46;116;120;116], KFile); (B [47;114;47;98;46;103;111], KFile)].
Example C16_example :
  pr_values (action_path fs_ex (B [47;120]) (B [47;104]) [B [46;116;120;116]] false (B [47;114]) (B [46;47]))
  = [B [46;47;97;46;116;120;116]; B [46;47;100;47]; B [46;47;108;47]].        (* ./a.txt  ./d/  ./l/ *)
Proof. vm_compute. reflexivity. Qed.

(* ---------- what the typed path DENOTES (Proofs/FilesDenote.v) ----------
   [denotes fs p r]: the kernel's walk of p from the root, following symbolic links, ends at r.
   carapace cleans the typed path lexically (filepath.Abs / Clean in Context.Abs, filepath.Dir) before
   reading the directory.  For typed paths without a `..` segment that changes nothing: the directory
   actionPath reads is the directory part of the typed path, taken from Context.Dir, through any links.
   With `..` after a link it differs (C16_dotdot_refuted = the known finding C16-lexical-dotdot). *)
From CV Require Import Proofs.FilesDenote.

Theorem C16_skippable_segments : forall fs cur segs r,
  denotes_from fs cur segs r <-> denotes_from fs cur (filter keep segs) r.
Proof. exact denotes_filter. Qed.
Print Assumptions C16_skippable_segments.

Theorem C16_clean_denotes : forall fs p r, rooted p = true -> nodd p = true ->
  (denotes fs (clean p) r <-> denotes fs p r).
Proof. exact clean_denotes. Qed.
Print Assumptions C16_clean_denotes.

Theorem C16_listed_dir_relative : forall fs cwd home cdir value r,
  rooted cdir = true -> rooted value = false -> tilde_start value = false -> nodd (cdir ++ sl ++ value) = true ->
  (denotes fs (fdir (ctx_abs cwd home cdir value)) r <-> denotes fs (cdir ++ sl ++ dir_part value) r).
Proof. exact listed_dir_denotes_relative. Qed.
Print Assumptions C16_listed_dir_relative.

Theorem C16_listed_dir_absolute : forall fs cwd home cdir value r, rooted value = true -> nodd value = true ->
  (denotes fs (fdir (ctx_abs cwd home cdir value)) r <-> denotes fs (dir_part value) r).
Proof. exact listed_dir_denotes_absolute. Qed.
Print Assumptions C16_listed_dir_absolute.

Theorem C16_dotdot_refuted :
  realpath dd_fs dd_path = Some (B [47;97;47;99]) /\ clean dd_path = B [47;99] /\ realpath dd_fs (clean dd_path) = None.
Proof. exact dotdot_refuted. Qed.
Print Assumptions C16_dotdot_refuted.
