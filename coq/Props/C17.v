(* Props/C17.v — Split completes the last word of an embedded line and keeps the rest intact.

   Model/Shlex.v: the dependency's lexer (carapace-shlex v1.0.1), transcribed state by state and
   tied byte-exact to the real Split on every run (every field of every token) — it is the
   definition of "word" for this property, not judged.  Model/Split.v: Action.split.
     C17_context             the wrapped action is invoked with Args = the earlier words and
                             Value = the last word of the (last pipeline of the) lexed text, and
                             the result is its completion with every value rebuilt, no-space `*`
     C17_candidate_shape     every candidate = prefix ++ value (re-quoted in the style of the
                             current token when it contains a blank or no-space does not apply)
                             ++ a blank unless no-space applies; display etc. untouched
     C17_prefix_exact        the prefix is a byte prefix of the typed text (valid UTF-8), i.e. the
                             text up to the start of the last word is kept byte for byte
     C17_byte_prefix_refuted the pinned tree sliced bytes with the lexer's rune index:
                             witness "éé b" (repaired; see known_findings.json)
   Not proved (decided by the harness with the real lexer on every candidate): re-reading a
   candidate yields the earlier words followed by the value (C17_relex); known finding: the
   lexer's `adjoins` mixes rune index and byte length, so after a non-ASCII character two
   words separated by blanks can be merged (dependency). *)
From CV Require Import Base.Str Base.Utf8 Model.Common Model.Action Model.Shlex Model.Split Proofs.Split.

Theorem C17_context : forall rp pl wb files a c,
  let sc := split_context rp pl wb (cvalue c) in
  let c' := mkCtx (sp_value sc) (sp_args sc) [] (cenv c) in
  let i := invoke (if sp_redirect sc then files else a) c' in
  invoke (Split rp pl wb files a) c = (set_nospace (fst i) (B [42]), split_values sc i).
Proof. exact split_invoke. Qed.
Print Assumptions C17_context.

Theorem C17_candidate_shape : forall sc (i : invoked) r, In r (split_values sc i) ->
  exists y, In y (snd i) /\
    let v := value y in
    let nosp := sm_matches (nospace (fst i)) v in
    value r = sp_prefix sc ++ (if negb nosp || contains v (B [32]) then requote (sp_state sc) v else v)
                           ++ (if nosp then [] else B [32]) /\
    display r = display y /\ description r = description y /\ style r = style y /\ tag r = tag y.
Proof. exact split_candidate_shape. Qed.
Print Assumptions C17_candidate_shape.

Theorem C17_prefix_exact : forall pl wb text, valid_utf8 text ->
  has_prefix text (sp_prefix (split_context true pl wb text)) = true.
Proof. exact split_prefix_exact. Qed.
Print Assumptions C17_prefix_exact.

Theorem C17_byte_prefix_refuted :
  sp_prefix (split_context false false bash_wordbreaks text_ee_b) = B [195;169;195] /\
  sp_prefix (split_context true false bash_wordbreaks text_ee_b) = B [195;169;195;169;32].
Proof. exact byte_prefix_refuted. Qed.
Print Assumptions C17_byte_prefix_refuted.

(* non-vacuity of the valid_utf8 premise *)
Example C17_valid_example : valid_utf8 text_ee_b.
Proof. vm_compute. reflexivity. Qed.
