(* Props/C17.v — Split completes the last word of an embedded line and keeps the rest intact.

   Model/Shlex.v: the dependency's lexer (carapace-shlex v1.0.1), transcribed state by state and
   tied byte-exact to the real Split on every run (every field of every token) — it is the
   definition of "word" for this property, not judged.  Model/Split.v: Action.split.
     C17_context             the wrapped action is invoked with Args = the earlier words and
                             Value = the last word of the (last pipeline of the) lexed text, and
                             the result is its completion with every value rebuilt, no-space `*`
     C17_candidate_shape     every candidate = prefix ++ value (re-quoted in the style of the
                             current token when it contains a blank or no-space does not apply)
                             ++ a blank unless no-space applies; display etc. untouched
     C17_prefix_exact        the prefix is a byte prefix of the typed text (valid UTF-8), i.e. the
                             text up to the start of the last word is kept byte for byte
     C17_byte_prefix_refuted the pinned tree sliced bytes with the lexer's rune index:
                             witness "éé b" (repaired; see known_findings.json)
   Re-reading a candidate (C17_word_roundtrip ... C17_splitp_line_relex, below): proved for lines of words
   quoted in one style each; outside that fragment it is decided by the harness with the real lexer on
   every candidate.  Known finding: the lexer's `adjoins` mixes rune index and byte length, so after a
   non-ASCII character two words separated by blanks can be merged (dependency; C17_adjoins_nonascii_refuted). *)
From CV Require Import Base.Str Base.Utf8 Model.Common Model.Action Model.Shlex Model.Split Proofs.Split.

Theorem C17_context : forall rp pl wb files a c,
  let sc := split_context rp pl wb (cvalue c) in
  let c' := mkCtx (sp_value sc) (sp_args sc) [] (cenv c) in
  let i := invoke (if sp_redirect sc then files else a) c' in
  invoke (Split rp pl wb files a) c = (set_nospace (fst i) (B [42]), split_values sc i).
Proof. exact split_invoke. Qed.
Print Assumptions C17_context.

Theorem C17_candidate_shape : forall sc (i : invoked) r, In r (split_values sc i) ->
  exists y, In y (snd i) /\
    let v := value y in
    let nosp := sm_matches (nospace (fst i)) v in
    value r = sp_prefix sc ++ (if negb nosp || contains v (B [32]) then requote (sp_state sc) v else v)
                           ++ (if nosp then [] else B [32]) /\
    display r = display y /\ description r = description y /\ style r = style y /\ tag r = tag y.
Proof. exact split_candidate_shape. Qed.
Print Assumptions C17_candidate_shape.

Theorem C17_prefix_exact : forall pl wb text, valid_utf8 text ->
  has_prefix text (sp_prefix (split_context true pl wb text)) = true.
Proof. exact split_prefix_exact. Qed.
Print Assumptions C17_prefix_exact.

Theorem C17_byte_prefix_refuted :
  sp_prefix (split_context false false bash_wordbreaks text_ee_b) = B [195;169;195] /\
  sp_prefix (split_context true false bash_wordbreaks text_ee_b) = B [195;169;195;169;32].
Proof. exact byte_prefix_refuted. Qed.
Print Assumptions C17_byte_prefix_refuted.

(* non-vacuity of the valid_utf8 premise *)
Example C17_valid_example : valid_utf8 text_ee_b.
Proof. vm_compute. reflexivity. Qed.

(* ---------- re-reading (Proofs/Relex.v, Proofs/RelexP.v) ----------
   The fragment: lines of blank-separated words, each quoted in ONE of the three styles (double
   quotes, single quotes, unquoted with blanks escaped), values made of word characters and blanks
   (the property's value alphabet), the word under the cursor an open double quote, an open single
   quote, an unquoted word or nothing.  For such lines, of any length, Split hands the wrapped action
   exactly the earlier values and the value under the cursor, keeps the text in front of it, and EVERY
   candidate re-reads as the earlier values followed by the candidate's value (and the empty word for
   the cursor when a blank was appended).  Earlier words must be ASCII: without that premise the
   dependency's Words() merges words (C17_adjoins_nonascii_refuted = the known finding).
   Outside the fragment (operators, comments, mixed quoting inside one word) the decision stays with the
   harness and the real lexer. *)
From CV Require Import Base.Utf8 Model.Common Proofs.Relex Proofs.RelexP.

Theorem C17_word_roundtrip : forall wb prev st rs k c i tail,
  Forall (wordish wb) rs -> item_runes st rs <> [] -> word_end tail ->
  scan_loop wb prev (repeat 32%N k ++ item_runes st rs ++ tail) (mkScan tok0 SStart c i) =
  RTok (word_tok st rs (i + k)) SInWord tail (i + k + length (item_runes st rs)).
Proof. exact word_scan. Qed.
Print Assumptions C17_word_roundtrip.

Theorem C17_requote_is_item : forall wb st rs, Forall (wordish wb) rs ->
  requote st (encode_runes rs) = encode_runes (item_runes st rs).
Proof. exact requote_runes. Qed.
Print Assumptions C17_requote_is_item.

Theorem C17_relex_line : forall wb its n,
  Forall (good_item wb) its -> Forall separated (tl its) -> (its <> [] -> n = 0 \/ 1 <= n) ->
  shlex_split wb (line_bytes its ++ repeat (byte 32) n) = toks 0 its ++ trail_toks (length (line_runes its)) n.
Proof. exact relex_line. Qed.
Print Assumptions C17_relex_line.

Theorem C17_split_context_line : forall wb its k st u,
  Forall (good_item wb) its -> Forall ascii_item its -> Forall separated (tl its) -> (its <> [] -> 1 <= k) ->
  cur_ok st u -> Forall (wordish wb) u ->
  split_context true false wb (typed its k st u) =
  mkSplit (values its) (encode_runes u) (line_bytes its ++ repeat (byte 32) k) st false.
Proof. exact split_context_line. Qed.
Print Assumptions C17_split_context_line.

Theorem C17_split_line_relex : forall wb its k st u (i : invoked) r,
  Forall (good_item wb) its -> Forall ascii_item its -> Forall separated (tl its) -> (its <> [] -> 1 <= k) ->
  cur_ok st u -> Forall (wordish wb) u ->
  (forall y, In y (snd i) -> exists rs, value y = encode_runes rs /\ Forall (wordish wb) rs /\ ascii_runes rs /\ rs <> []) ->
  In r (split_values (split_context true false wb (typed its k st u)) i) ->
  exists y, In y (snd i) /\
    has_prefix (value r) (line_bytes its ++ repeat (byte 32) k) = true /\
    map t_value (words (shlex_split wb (value r))) =
    values its ++ [value y] ++ (if sm_matches (nospace (fst i)) (value y) then [] else [[]]).
Proof. exact split_line_relex. Qed.
Print Assumptions C17_split_line_relex.

Theorem C17_splitp_line_relex : forall wb its k st u (i : invoked) r, ops_break wb ->
  Forall (good_item wb) its -> Forall ascii_item its -> Forall separated (tl its) -> (its <> [] -> 1 <= k) ->
  cur_ok st u -> Forall (wordish wb) u ->
  (forall y, In y (snd i) -> exists rs, value y = encode_runes rs /\ Forall (wordish wb) rs /\ ascii_runes rs /\ rs <> []) ->
  In r (split_values (split_context true true wb (typed its k st u)) i) ->
  exists y, In y (snd i) /\
    has_prefix (value r) (line_bytes its ++ repeat (byte 32) k) = true /\
    map t_value (words (filter_redirects (current_pipeline (shlex_split wb (value r))))) =
    values its ++ [value y] ++ (if sm_matches (nospace (fst i)) (value y) then [] else [[]]).
Proof. exact split_line_relex_p. Qed.
Print Assumptions C17_splitp_line_relex.

Theorem C17_bash_operators_break : ops_break bash_wordbreaks.
Proof. exact bash_ops_break. Qed.
Print Assumptions C17_bash_operators_break.

Theorem C17_line_premises_satisfiable :
  Forall (good_item bash_wordbreaks) ex_its /\ Forall ascii_item ex_its /\ Forall separated (tl ex_its) /\
  (ex_its <> [] -> 1 <= 1) /\ cur_ok SQE ex_u /\ Forall (wordish bash_wordbreaks) ex_u.
Proof. exact ex_line_premises. Qed.
Print Assumptions C17_line_premises_satisfiable.

Theorem C17_adjoins_nonascii_refuted :
  map t_value (shlex_split bash_wordbreaks (B [195;169;32;98])) = [B [195;169]; B [98]] /\
  map t_value (words (shlex_split bash_wordbreaks (B [195;169;32;98]))) = [B [195;169;98]].
Proof. exact adjoins_nonascii_refuted. Qed.
Print Assumptions C17_adjoins_nonascii_refuted.
