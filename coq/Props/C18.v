(* Props/C18.v — the completion entry point is total.

   What a theorem can carry here is the index arithmetic on user-controlled text; that the
   process neither panics in a dependency, nor hangs, nor prints something a shell cannot read
   is runtime behaviour, decided by the harness (one process per case, see DESIGN.md).
     C18_compline_slice        COMP_LINE[:COMP_POINT] is only reached with 0 <= point <= len
     C18_compline_pinned_refuted   the pinned guard let COMP_POINT=-1 through (repaired)
     C18_traverse_args         args[2:], args[0], args[len-1] in complete() are legal on every
                               path to traverse, whatever the shell patch left of the line
     C18_traverse_args_pinned_refuted  an empty last pipeline left one argument (repaired)
     C18_trim_prefix           case-insensitive TrimPrefix returns a suffix of its argument
                               (never cuts past the end or inside a character)
     C18_last_index            t[len(t)-1] is legal for a non-empty pipeline, and
     C18_last_index_empty_refuted   not for an empty one (the call is now guarded)
     C18_shorthand_index       arg[index+1] and the slices at index+1 / index+2 in lookupPosixShorthandArg are legal
                               whenever the loop gets past its `len(arg) == index+1` case (multi-byte letters included)
     C18_sites_audited         the slice / index expressions and the branch conditions in front
                               of them, regenerated from the source on every run, are the ones
                               reviewed for these theorems (Proofs/TotalSites.v)           *)
From Coq Require Import ZArith.
From CV Require Import Base.Str Base.Utf8 Gen.Sites Model.Total Proofs.Total Proofs.TotalSites.
Local Open Scope Z_scope.

Theorem C18_compline_slice : forall err point len,
  compline_reaches_slice err point len = true -> 0 <= point <= len.
Proof. exact compline_slice_in_bounds. Qed.
Print Assumptions C18_compline_slice.

Theorem C18_compline_pinned_refuted : exists err point len,
  compline_reaches_slice_pinned err point len = true /\ ~ (0 <= point <= len).
Proof. exact compline_pinned_refuted. Qed.
Print Assumptions C18_compline_pinned_refuted.

Theorem C18_traverse_args : forall n0 p, reaches_traverse n0 p = true -> (2 <= args_len n0 p)%nat.
Proof. exact traverse_args_in_bounds. Qed.
Print Assumptions C18_traverse_args.

Theorem C18_traverse_args_pinned_refuted : exists n0 p,
  reaches_traverse_pinned n0 p = true /\ ~ (2 <= args_len n0 p)%nat.
Proof. exact traverse_args_pinned_refuted. Qed.
Print Assumptions C18_traverse_args_pinned_refuted.

Theorem C18_trim_prefix : forall n s, exists p, s = p ++ drop_runes n s.
Proof. exact drop_runes_suffix. Qed.
Print Assumptions C18_trim_prefix.

Theorem C18_last_index : forall len, (0 < len)%nat -> 0 <= last_index len < Z.of_nat len.
Proof. exact last_index_in_bounds. Qed.
Print Assumptions C18_last_index.

Theorem C18_last_index_empty_refuted : ~ (0 <= last_index 0).
Proof. exact last_index_empty_refuted. Qed.
Print Assumptions C18_last_index_empty_refuted.

Theorem C18_shorthand_index : forall len index,
  1 <= index < len -> shorthand_reads_next len index = true -> index + 1 < len /\ index + 2 <= len.
Proof. exact shorthand_index_in_bounds. Qed.
Print Assumptions C18_shorthand_index.

Theorem C18_sites_audited : slice_sites = audited_slice_sites /\ guard_sites = audited_guard_sites.
Proof. split; vm_compute; reflexivity. Qed.
Print Assumptions C18_sites_audited.
