(* Props/C20.v — the cobra bridge serves the same completions in both directions.

   Model/Bridge.v: cobraValuesFor / cobraDirectiveFor, the choice of the registered completion in
   the generated ValidArgsFunction, and compDirective.ToA.
     C20_value_description_roundtrip  `value TAB description` read back by ActionCobra is the
                                      same pair (values without a tab)
     C20_tab_in_value_refuted         a value that contains a tab does not survive (cobra's wire
                                      format has no escape; known limit of the protocol)
     C20_directive                    file completion always off; NoSpace iff a served value has
                                      a no-space suffix; no other bit
     C20_roundtrip                    carapace -> cobra -> carapace: same values and
                                      descriptions, no-space all-or-nothing
     C20_directive_priority           Error, FilterDirs (optionally within a directory),
                                      FilterFileExt, default file completion without values
                                      unless NoFileComp, values otherwise; NoSpace honoured
     C20_slot                         the generated ValidArgsFunction serves the dash completions
                                      exactly after an explicit `--` followed by an argument,
                                      indexed from it (cobra's own parse appends a `--`)
   The harness decides, on generated registrations and lines, that `__complete` prints what the
   model makes of the values carapace's export serves at the same position, and that a cobra
   function's answer is served as the model's reading of its directive (against carapace's own
   ActionDirectories / ActionFiles in the same directory). *)
From CV Require Import Base.Str Base.Utf8 Model.Common Model.Bridge Proofs.Bridge.

Theorem C20_value_description_roundtrip : forall r, ~ In tab (value r) ->
  split_tab (cobra_value r) = (value r, description r).
Proof. exact value_description_roundtrip. Qed.
Print Assumptions C20_value_description_roundtrip.

Theorem C20_tab_in_value_refuted : exists r, split_tab (cobra_value r) <> (value r, description r).
Proof. exact tab_in_value_refuted. Qed.
Print Assumptions C20_tab_in_value_refuted.

Theorem C20_directive : forall m vs,
  bit (cobra_directive m vs) d_nofilecomp = true /\
  (bit (cobra_directive m vs) d_nospace = true <-> exists r, In r vs /\ sm_matches (nospace m) (value r) = true) /\
  bit (cobra_directive m vs) d_error = false /\ bit (cobra_directive m vs) d_filterdirs = false /\
  bit (cobra_directive m vs) d_filterext = false.
Proof. exact directive_spec. Qed.
Print Assumptions C20_directive.

Theorem C20_roundtrip : forall m vs, vs <> [] -> (forall r, In r vs -> ~ In tab (value r)) ->
  directive_to_action (cobra_directive m vs) (cobra_values vs) =
    SvValues (map (fun r => (value r, description r)) vs) (any_nospace m vs).
Proof. exact bridge_roundtrip. Qed.
Print Assumptions C20_roundtrip.

Theorem C20_directive_priority : forall d values,
  (bit d d_error = true -> directive_to_action d values = SvMessage) /\
  (bit d d_error = false -> bit d d_filterdirs = true ->
     directive_to_action d values = SvDirs (match values with [] => None | v :: _ => Some v end) (bit d d_nospace)) /\
  (bit d d_error = false -> bit d d_filterdirs = false -> bit d d_filterext = true ->
     directive_to_action d values = SvFiles (map (fun v => byte 46 :: v) values) (bit d d_nospace)) /\
  (bit d d_error = false -> bit d d_filterdirs = false -> bit d d_filterext = false ->
     directive_to_action d values =
       match values with
       | [] => if bit d d_nofilecomp then SvValues [] (bit d d_nospace) else SvFiles [] (bit d d_nospace)
       | _ => SvValues (map split_tab values) (bit d d_nospace)
       end).
Proof. exact directive_priority. Qed.
Print Assumptions C20_directive_priority.

Theorem C20_slot : forall dash n,
  match bridge_slot dash n with
  | DashIndex i => exists d, dash = Some d /\ d < n /\ i = n - d
  | PosIndex i => i = n /\ (forall d, dash = Some d -> n <= d)
  end.
Proof. exact bridge_slot_spec. Qed.
Print Assumptions C20_slot.
