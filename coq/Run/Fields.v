(* Run/Fields.v — (de)serialisation of cases and results for the line protocol of the
   runner: every field is a byte string, numbers are decimal, a list is its length
   followed by its items. *)
From CV Require Import Base.Str Model.Common.
Local Open Scope nat_scope.

Definition fbad : list str := [B [66;65;68;67;65;83;69]].          (* BADCASE *)
Definition f_ok : str := B [111;107].                               (* ok *)
Definition f_panic : str := B [112;97;110;105;99].                  (* panic *)
Definition f_OK : str := B [79;75].                                 (* OK *)
Definition f_bar : str := B [124].                                  (* | *)
Definition f_true (s : str) : bool := str_eqb s (B [49]).
Definition f_bool (b : bool) : str := if b then B [49] else B [48].

Fixpoint f_take (n : nat) (l : list str) : option (list str * list str) :=
  match n with
  | O => Some ([], l)
  | S n' => match l with
            | x :: l' => match f_take n' l' with
                         | Some (xs, rest) => Some (x :: xs, rest)
                         | None => None
                         end
            | [] => None
            end
  end.

(* <n> item*n *)
Definition f_list (l : list str) : option (list str * list str) :=
  match l with
  | n :: rest => match undec n with Some k => f_take k rest | None => None end
  | [] => None
  end.

(* raw values as 5 fields: value display description style tag *)
Fixpoint f_raws (n : nat) (l : list str) : option (list raw * list str) :=
  match n with
  | O => Some ([], l)
  | S n' => match l with
            | v :: d :: de :: st :: t :: l' =>
                match f_raws n' l' with
                | Some (rs, rest) => Some (mkRaw v d de st t [] [] :: rs, rest)
                | None => None
                end
            | _ => None
            end
  end.
Definition f_rawlist (l : list str) : option (list raw * list str) :=
  match l with
  | n :: rest => match undec n with Some k => f_raws k rest | None => None end
  | [] => None
  end.

Definition p_raw (r : raw) : list str := [value r; display r; description r; style r; tag r].
Definition p_raws (rs : list raw) : list str := dec (length rs) :: flat_map p_raw rs.
Definition p_list (l : list str) : list str := dec (length l) :: l.

Definition value_ltb (a b : raw) : bool := str_ltb (value a) (value b).
Definition sort_by_value (vs : list raw) : list raw := isort_by value_ltb vs.

(* split a field list at the first "|" field *)
Fixpoint f_split_bar (l : list str) : list str * list str :=
  match l with
  | [] => ([], [])
  | x :: l' => if str_eqb x f_bar then ([], l')
               else let '(a, b) := f_split_bar l' in (x :: a, b)
  end.
