(* Run/RunAlgebra.v — runner entry points for C12 (and the expression parser shared with
   C08/C10): model = invoke (denote e), oracle = the reference algebra Spec/Algebra.v. *)
From Coq Require Import ZArith.
From CV Require Import Base.Str Base.Utf8 Model.Common Model.MultiParts Model.Action Spec.Algebra Run.Fields.
Local Open Scope nat_scope.

Definition tk (l : list nat) (s : str) : bool := str_eqb s (B l).

Definition undecZ (s : str) : option Z :=
  match s with
  | c :: s' => if beq c (byte 45) then option_map (fun n => (- Z.of_nat n)%Z) (undec s')
               else option_map Z.of_nat (undec s)
  | [] => None
  end.
Fixpoint undecNs (l : list str) : option (list N) :=
  match l with
  | [] => Some []
  | x :: l' => match undec x, undecNs l' with
               | Some n, Some r => Some (N.of_nat n :: r)
               | _, _ => None
               end
  end.

Definition f_meta (l : list str) : option (meta * list str) :=
  match l with
  | ns :: us :: rest =>
    match f_list rest with
    | Some (ms, rest') => Some (mkMeta ms ns us, rest')
    | None => None
    end
  | _ => None
  end.

Fixpoint parse_expr_in (pool : list expr) (fuel : nat) (l : list str) : option (expr * list str) :=
  match fuel with
  | 0 => None
  | S f =>
    let sub := parse_expr_in pool f in
    let fix subs (n : nat) (l : list str) : option (list expr * list str) :=
        match n with
        | 0 => Some ([], l)
        | S n' => match sub l with
                  | Some (e, r) => match subs n' r with Some (es, r') => Some (e :: es, r') | None => None end
                  | None => None
                  end
        end in
    let un (k : expr -> expr) (r : list str) := match sub r with Some (e, r') => Some (k e, r') | None => None end in
    let lst (k : list str -> expr -> expr) (r : list str) :=
        match f_list r with Some (vs, r1) => un (k vs) r1 | None => None end in
    match l with
    | t :: r =>
      if tk [86] t then match f_list r with Some (vs, r1) => Some (EValues vs, r1) | None => None end
      else if tk [68] t then match f_list r with Some (vs, r1) => Some (EValuesDescribed vs, r1) | None => None end
      else if tk [84] t then match f_list r with Some (vs, r1) => Some (EStyledValuesDescribed vs, r1) | None => None end
      else if tk [83] t || tk [83;72] t || tk [83;72;83] t then
        match f_meta r with
        | Some (m, r1) => match f_rawlist r1 with Some (vs, r2) => Some (EStatic m vs, r2) | None => None end
        | None => None
        end
      else if tk [77] t then match r with m :: r1 => Some (EMessage m, r1) | [] => None end
      else if tk [77;70] t then match r with pre :: suf :: arg :: r1 => Some (EMessage (pre ++ arg ++ suf), r1) | _ => None end   (* ActionMessage(pre%vsuf, arg) *)
      else if tk [82;69;70] t then match r with i :: r1 => match undec i with Some k => match nth_error pool k with Some e => Some (e, r1) | None => None end | None => None end | [] => None end   (* REF i: the i-th action of the pool *)
      else if tk [67] t then Some (ECtx, r)
      else if tk [70] t then lst EFilter r
      else if tk [82] t then lst ERetain r
      else if tk [70;65] t then un EFilterArgs r
      else if tk [70;80] t then un EFilterParts r
      else if tk [80] t then match r with p :: r1 => un (EPrefix p) r1 | [] => None end
      else if tk [88] t then match r with p :: r1 => un (ESuffix p) r1 | [] => None end
      else if tk [89] t then match r with p :: r1 => un (EStyle p) r1 | [] => None end
      else if tk [71] t then match r with p :: r1 => un (ETag p) r1 | [] => None end
      else if tk [85] t then match r with p :: r1 => un (EUsage p) r1 | [] => None end
      else if tk [78] t then
        match f_list r with
        | Some (ns, r1) => match undecNs ns with Some rs => un (ENoSpace rs) r1 | None => None end
        | None => None
        end
      else if tk [81] t then lst ESuppress r
      else if tk [76] t then match r with b :: r1 => un (EUnless (f_true b)) r1 | [] => None end
      else if tk [72] t then match r with n :: r1 => match undecZ n with Some z => un (EShift z) r1 | None => None end | [] => None end
      else if tk [77;80] t then lst EMultiParts r
      else if tk [77;78] t then
        match r with
        | sep :: n :: r1 =>
          match undecZ n, sub r1 with
          | Some z, Some (e0, r2) => match sub r2 with Some (e1, r3) => Some (EMultiPartsN sep z e0 e1, r3) | None => None end
          | _, _ => None
          end
        | _ => None
        end
      else if tk [76;73] t then match r with d :: r1 => un (EList d) r1 | [] => None end
      else if tk [85;76] t then match r with d :: r1 => un (EUniqueList d) r1 | [] => None end
      else if tk [80;84] t then lst EPartition r
      else if tk [83;69] t then match r with k :: v :: r1 => un (ESetenv k v) r1 | _ => None end
      else if tk [71;69] t then match r with k :: r1 => Some (EGetenv k, r1) | [] => None end
      else if tk [76;69;84] t then                                             (* LET e body: body may REF the bound action *)
        match sub r with
        | Some (e1, r1) => parse_expr_in (pool ++ [e1]) f r1
        | None => None
        end
      else if tk [74] t then sub r                                             (* J e: jitter wrapper = e *)
      else if tk [66;83] t then                                                (* BS n e: Batch of n times e *)
        match r with
        | n :: r1 => match undec n, sub r1 with
                     | Some k, Some (e, r2) => Some (EBatch (repeat e k), r2)
                     | _, _ => None
                     end
        | [] => None
        end
      else if tk [66] t then
        match r with
        | n :: r1 => match undec n with
                     | Some k => match subs k r1 with Some (es, r2) => Some (EBatch es, r2) | None => None end
                     | None => None
                     end
        | [] => None
        end
      else None
    | [] => None
    end
  end.

Definition parse_expr := parse_expr_in [].

(* flags field: contains '1' = case-insensitive matching, contains 'E' = the standard test environment *)
Definition std_env : list str :=
  [B [77;79;68;69;61;100;101;102;97;117;108;116]; B [88;61;48]; B [72;79;77;69;61;47;116;109;112]].   (* MODE=default X=0 HOME=/tmp *)

Record algcase := mkAlg { al_ci : bool; al_ctx : ctx; al_e : expr }.
Definition parse_alg (c : list str) : option algcase :=
  match c with
  | ci :: v :: rest =>
    match f_list rest with
    | Some (args, r1) =>
      match f_list r1 with
      | Some (parts, r2) =>
        match parse_expr (S (length r2)) r2 with
        | Some (e, []) => Some (mkAlg (mem (byte 49) ci) (mkCtx v args parts (if mem (byte 69) ci then std_env else [])) e)
        | _ => None
        end
      | None => None
      end
    | None => None
    end
  | _ => None
  end.

(* Suppress: the match relation the runner instantiates.  The harness hands Suppress one of two expression shapes:
   regexp.QuoteMeta(p) — literal substring match — and, for a pattern tagged with the bytes 01 'I',
   "(?i)" ++ regexp.QuoteMeta(p') — substring match ignoring ASCII case (the harness keeps such cases ASCII).
   Each expression is matched on its own: an inline flag of one expression says nothing about the next. *)
Definition rmatch_literal (p m : str) : bool :=
  match p with
  | t0 :: t1 :: p' => if beq t0 (byte 1) && beq t1 (byte 73) then contains (lower m) (lower p') else contains m p
  | _ => contains m p
  end.

Definition p_invoked (i : invoked) : list str :=
  nospace (fst i) :: usage (fst i) :: p_list (messages (fst i)) ++ p_raws (sort_by_value (snd i)).

Definition run_algebra (c : list str) : list str :=
  match parse_alg c with
  | None => fbad
  | Some a => f_ok :: p_invoked (invoke (denote (al_ci a) rmatch_literal (al_e a)) (al_ctx a))
  end.

(* ---- oracle: compare the implementation's completion with the reference algebra ---- *)
Definition same_raw (a b : raw) : bool :=
  str_eqb (value a) (value b) && str_eqb (display a) (display b) && str_eqb (description a) (description b)
  && str_eqb (style a) (style b) && str_eqb (tag a) (tag b).
Fixpoint same_raws (a b : list raw) : bool :=
  match a, b with
  | [], [] => true
  | x :: a', y :: b' => same_raw x y && same_raws a' b'
  | _, _ => false
  end.
Fixpoint same_strs (a b : list str) : bool :=
  match a, b with
  | [], [] => true
  | x :: a', y :: b' => str_eqb x y && same_strs a' b'
  | _, _ => false
  end.
Definition ns_same (a b : str) : bool :=
  same_strs (map encode_rune (sort_runes (runes a))) (map encode_rune (sort_runes (runes b))).

Definition otag (k : list nat) (d : str) : str := B k ++ B [58] ++ d.

Definition run_algebra_oracle (c : list str) : list str :=
  let '(cf, impl) := f_split_bar c in
  match parse_alg cf with
  | None => fbad
  | Some a =>
    let exp := eval (al_ci a) rmatch_literal (al_e a) (al_ctx a) in
    match impl with
    | st :: ns :: us :: rest =>
      if str_eqb st f_ok then
        match f_list rest with
        | Some (ms, r1) =>
          match f_rawlist r1 with
          | Some (vs, []) =>
            f_OK ::
              (if same_raws (sort_by_value (snd exp)) vs then [] else [otag [118;97;108;117;101;115] (cvalue (al_ctx a))])          (* values *)
              ++ (if ns_same (nospace (fst exp)) ns then [] else [otag [110;111;115;112;97;99;101] ns])                           (* nospace *)
              ++ (if str_eqb (usage (fst exp)) us then [] else [otag [117;115;97;103;101] us])                                    (* usage *)
              ++ (if same_strs (messages (fst exp)) ms then [] else [otag [109;101;115;115;97;103;101;115] (join (B [124]) ms)])  (* messages *)
          | _ => fbad
          end
        | None => fbad
        end
      else [f_OK; otag [112;97;110;105;99] (cvalue (al_ctx a))]
    | _ => [f_OK; otag [112;97;110;105;99] (cvalue (al_ctx a))]
    end
  end.
