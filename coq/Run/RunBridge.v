(* Run/RunBridge.v — oracle entry point for C20.
   A:  <case> | ok A directive <lines> ns <msgs> n (value description)*
       the lines / directive cobra's __complete printed against what Model/Bridge.v makes of the
       values carapace's own export serves at the same position
   B:  A-less case fields: B where directive <values> <words> cur
       | ok B real refDirs refDirsChdir refFilesExt refFiles refDirsNs refDirsChdirNs refFilesExtNs refFilesNs ns <msgs> n (value description)*   *)
From CV Require Import Base.Str Base.Utf8 Model.Common Model.Bridge Run.Fields Run.RunNames.
Local Open Scope nat_scope.

Fixpoint f_pairs (n : nat) (l : list str) : option (list (str * str)) :=
  match n with
  | 0 => Some []
  | S n' => match l with
            | v :: d :: rest => match f_pairs n' rest with Some ps => Some ((v, d) :: ps) | None => None end
            | _ => None
            end
  end.
Definition raw_of_pair (p : str * str) : raw := mkRaw (fst p) (fst p) (snd p) [] [] [] [].
Definition tg (s : list nat) (d : str) : str := B s ++ d.
Definition t_lines := [98;114;105;100;103;101;45;118;97;108;117;101;115;45;100;105;102;102;101;114;58].          (* bridge-values-differ: *)
Definition t_dir := [98;114;105;100;103;101;45;100;105;114;101;99;116;105;118;101;58].                            (* bridge-directive: *)
Definition t_served := [99;111;98;114;97;45;102;117;110;99;116;105;111;110;45;115;101;114;118;101;100;45;97;115;58].   (* cobra-function-served-as: *)

Definition same_set (a b : list str) : bool := forallb (fun x => mem_str x b) a && forallb (fun x => mem_str x a) b.
Definition pair_eqb (p q : str * str) : bool := str_eqb (fst p) (fst q) && str_eqb (snd p) (snd q).
Definition same_pairs (a b : list (str * str)) : bool :=
  forallb (fun x => existsb (pair_eqb x) b) a && forallb (fun x => existsb (pair_eqb x) a) b.

(* export part: ns <msgs> n pairs *)
Definition f_export (l : list str) : option (str * list str * list (str * str)) :=
  match l with
  | ns :: rest =>
    match f_list rest with
    | Some (msgs, n :: rest2) =>
      match undec n with
      | Some k => match f_pairs k rest2 with Some ps => Some (ns, msgs, ps) | None => None end
      | None => None
      end
    | _ => None
    end
  | [] => None
  end.

Definition s_A : str := B [65].
Definition s_B : str := B [66].
Definition msg_error : str := B [97;110;32;101;114;114;111;114;32;111;99;99;117;114;114;101;100].   (* an error occurred *)

Definition run_bridge_oracle (c : list str) : list str :=
  let '(case, impl) := f_split_bar c in
  match impl with
  | ok :: what :: rest =>
    if str_eqb what s_A then
      match rest with
      | directive :: rest1 =>
        match f_list rest1 with
        | Some (lines, rest2) =>
          match f_export rest2 with
          | Some (ns, msgs, ps) =>
            match msgs with
            | _ :: _ => [f_OK]                      (* carapace reports an error for the typed line: no claim *)
            | [] =>
              let vs := map raw_of_pair ps in
              let m := mkMeta [] ns [] in
              f_OK :: (if same_set (cobra_values vs) lines then [] else [tg t_lines (dec (length lines))])
                   ++ (if str_eqb directive (dec (cobra_directive m vs)) then [] else [tg t_dir directive])
            end
          | None => fbad
          end
        | None => fbad
        end
      | _ => fbad
      end
    else if str_eqb what s_B then
      match case, rest with
      | _ :: _ :: d :: crest, real :: rdirs :: rdirsc :: rfext :: rfiles :: rdirsn :: rdirscn :: rfextn :: rfilesn :: erest =>
        match undec d, f_list crest, f_export erest with
        | Some dn, Some (values, _), Some (ns, msgs, ps) =>
          let bad (k : list nat) := [tg t_served (B k)] in
          f_OK :: match directive_to_action dn values with
                  | SvMessage => if same_set msgs [msg_error] && match ps with [] => true | _ => false end then [] else bad [109;101;115;115;97;103;101]
                  | SvDirs None nosp => if str_eqb real (if nosp then rdirsn else rdirs) then [] else bad [100;105;114;115]
                  | SvDirs (Some _) nosp => if str_eqb real (if nosp then rdirscn else rdirsc) then [] else bad [100;105;114;115;45;105;110]
                  | SvFiles [] nosp => if str_eqb real (if nosp then rfilesn else rfiles) then [] else bad [102;105;108;101;115]
                  | SvFiles _ nosp => if str_eqb real (if nosp then rfextn else rfext) then [] else bad [102;105;108;101;115;45;101;120;116]
                  | SvValues vals nosp =>
                    if same_pairs vals ps && str_eqb ns (if nosp then B [42] else []) && match msgs with [] => true | _ => false end
                    then [] else bad [118;97;108;117;101;115]
                  end
        | _, _, _ => fbad
        end
      | _, _ => fbad
      end
    else [f_OK]
  | _ => [f_OK]
  end.
