(* Run/RunCache.v — runner entry points for C14: histories of cached invocations. *)
From Coq Require Import ZArith.
From CV Require Import Base.Str Base.Utf8 Model.Common Model.JsonParse Model.Action Model.Export Model.Cache
     Run.Fields Run.RunAlgebra.
Local Open Scope nat_scope.

Definition f_semi : str := B [59].

Definition f_optlist (l : list str) : option (option (list str) * list str) :=
  match l with
  | fl :: rest => match f_list rest with
                  | Some (ids, r) => Some ((if f_true fl then Some ids else None), r)
                  | None => None
                  end
  | [] => None
  end.

Fixpoint parse_ops (fuel : nat) (l : list str) : option (list op) :=
  match fuel with
  | 0 => None
  | S f =>
    match l with
    | [] => Some []
    | t :: r =>
      if tk [73] t then                                       (* I site k1 k2 timeout meta raws *)
        match r with
        | site :: r1 =>
          match f_optlist r1 with
          | Some (k1, r2) =>
            match f_optlist r2 with
            | Some (k2, r3) =>
              match r3 with
              | tm :: r4 =>
                match undecZ tm, f_meta r4 with
                | Some z, Some (m, r5) =>
                  match f_rawlist r5 with
                  | Some (vs, r6) => option_map (cons (OInvoke site k1 k2 z (m, vs))) (parse_ops f r6)
                  | None => None
                  end
                | _, _ => None
                end
              | [] => None
              end
            | None => None
            end
          | None => None
          end
        | [] => None
        end
      else if tk [65] t then                                  (* A d *)
        match r with
        | d :: r1 => match undecZ d with Some z => option_map (cons (OAdvance z)) (parse_ops f r1) | None => None end
        | [] => None
        end
      else if tk [67] t then                                  (* C site ids bytes *)
        match r with
        | site :: r1 =>
          match f_list r1 with
          | Some (ids, b :: r2) => option_map (cons (OCorrupt (file_name site ids) b)) (parse_ops f r2)
          | _ => None
          end
        | [] => None
        end
      else if tk [82] t then                                  (* R site ids *)
        match r with
        | site :: r1 =>
          match f_list r1 with
          | Some (ids, r2) => option_map (cons (ORemove (file_name site ids))) (parse_ops f r2)
          | None => None
          end
        | [] => None
        end
      else None
    end
  end.

Definition p_out (o : out) : list str :=
  match o with
  | Served real r => [f_bool real] ++ p_invoked r ++ [f_semi]
  | Quiet => []
  end.

Definition run_cache (c : list str) : list str :=
  match c with
  | ver :: rest =>
    match parse_ops (S (length rest)) rest with
    | Some ops => f_ok :: flat_map p_out (snd (run ver world0 ops))
    | None => fbad
    end
  | [] => fbad
  end.
