(* Run/RunCrash.v — runner entry point for C15: what a fresh reader is handed after a writer
   was cut at byte k, under the protocol the source uses today (Gen/Sites.v). *)
From CV Require Import Base.Str Gen.Sites Model.JsonParse Model.Export Model.FsCrash Run.Fields.
Local Open Scope nat_scope.

Definition s_action : str := B [97;99;116;105;111;110].
Definition s_recomputed : str := B [114;101;99;111;109;112;117;116;101;100].
Definition s_new : str := B [110;101;119].
Definition s_partial : str := B [112;97;114;116;105;97;108].

Definition current_protocol : protocol := protocol_of file_write_sites.

(* fl n prev mode k L old new *)
Definition run_crash (c : list str) : list str :=
  match c with
  | [fl; _; prev; _; k; l; old; new] =>
    match undec k, undec l with
    | Some k, Some L =>
      let steps := match current_protocol with
                   | PAtomic => if k <? L then 1 + k else L + 2
                   | _ => 1 + Nat.min k L
                   end in
      match reader_sees current_protocol (if f_true prev then Some old else None) new steps with
      | None => [s_recomputed]
      | Some x =>
        if str_eqb x new then [s_new]
        else if f_true prev && str_eqb x old then [s_recomputed]          (* the old entry is expired *)
        else if str_eqb fl s_action then
          match import x with IMsg => [s_recomputed] | IOk _ => [s_partial; x] end
        else [s_partial; x]
      end
    | _, _ => fbad
    end
  | _ => fbad
  end.
