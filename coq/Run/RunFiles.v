(* Run/RunFiles.v — runner entry points for C16: filepath functions and ActionFiles/ActionDirectories
   on an abstract tree. *)
From CV Require Import Base.Str Base.Utf8 Model.Common Model.MultiParts Model.Action Model.Files Run.Fields.
Local Open Scope nat_scope.

(* path: p cwd  ->  Clean Dir Base Abs *)
Definition run_path (c : list str) : list str :=
  match c with
  | [p; cwd] => [f_ok; clean p; fdir p; fbase p; fabs cwd p]
  | _ => fbad
  end.

Fixpoint f_entries (n : nat) (l : list str) : option (fsys * list str) :=
  match n with
  | 0 => Some ([], l)
  | S n' => match l with
            | p :: k :: t :: l' =>
              match f_entries n' l' with
              | Some (fs, rest) =>
                let kind := if str_eqb k (B [68]) then KDir else if str_eqb k (B [76]) then KLink t else KFile in
                Some ((p, kind) :: fs, rest)
              | None => None
              end
            | _ => None
            end
  end.

(* files: flags cdir value <suffixes> cwd home n (path kind target)* *)
Definition run_files (c : list str) : list str :=
  match c with
  | flags :: cdir :: typed :: rest =>
    match f_list rest with
    | Some (sfx, cwd :: home :: n :: rest2) =>
      match undec n with
      | Some k =>
        match f_entries k rest2 with
        | Some (fs, []) =>
          match action_files fs cwd home sfx (mem (byte 68) flags) cdir typed with
          | (_, true) => [B [101;114;114]]                                               (* err *)
          | (None, _) => [f_panic]
          | (Some (vs, ns), false) =>
            f_ok :: ns :: dec (length vs) :: flat_map (fun r => [value r; display r]) (sort_by_value vs)
          end
        | _ => fbad
        end
      | None => fbad
      end
    | _ => fbad
    end
  | _ => fbad
  end.
