(* Run/RunHistory.v — runner entry point for C08: a pool of Actions built once (shared static
   actions, expressions that reuse earlier ones) and a history of invocations; the pure
   semantics predicts every step's result independently of the history. *)
From Coq Require Import ZArith.
From CV Require Import Base.Str Base.Utf8 Model.Common Model.Action Spec.Algebra Run.Fields Run.RunAlgebra.
Local Open Scope nat_scope.

(* pool: n expressions, each may use REF to an earlier one *)
Fixpoint parse_pool (n : nat) (pool : list expr) (l : list str) : option (list expr * list str) :=
  match n with
  | 0 => Some (pool, l)
  | S n' => match parse_expr_in pool (S (length l)) l with
            | Some (e, r) => parse_pool n' (pool ++ [e]) r
            | None => None
            end
  end.

(* steps: idx value <args> <parts> <env> *)
Fixpoint run_steps (ci : bool) (pool : list expr) (fuel : nat) (l : list str) : option (list str) :=
  match fuel with
  | 0 => None
  | S f =>
    match l with
    | [] => Some []
    | i :: v :: r =>
      match undec i, f_list r with
      | Some k, Some (args, r1) =>
        match f_list r1 with
        | Some (parts, r2) =>
          match f_list r2 with
          | Some (env, r3) =>
            match nth_error pool k, run_steps ci pool f r3 with
            | Some e, Some rest =>
              Some (p_invoked (invoke (denote ci rmatch_literal e) (mkCtx v args parts env)) ++ [B [59]] ++ rest)
            | _, _ => None
            end
          | None => None
          end
        | None => None
        end
      | _, _ => None
      end
    | _ => None
    end
  end.

(* ci npool <pool exprs> steps... *)
Definition run_history (c : list str) : list str :=
  match c with
  | ci :: n :: rest =>
    match undec n with
    | Some k =>
      match parse_pool k [] rest with
      | Some (pool, r) => match run_steps (f_true ci) pool (S (length r)) r with
                          | Some out => f_ok :: out
                          | None => fbad
                          end
      | None => fbad
      end
    | None => fbad
    end
  | _ => fbad
  end.
