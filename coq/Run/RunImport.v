(* Run/RunImport.v — runner entry points for C13: export -> JSON -> ActionImport. *)
From CV Require Import Base.Str Base.Utf8 Model.Common Model.Shells Model.JsonParse Model.Action Model.Export Run.Fields Run.RunAlgebra.
Local Open Scope nat_scope.

Definition k_rt : str := B [114;116].
Definition f_msg : str := B [109;115;103].

Definition p_import (valid : bool) (doc : str) (i : imported) : list str :=
  match i with
  | IMsg => [f_msg; f_bool valid; doc]
  | IOk e => f_ok :: f_bool valid :: doc :: nospace (e_meta e) :: usage (e_meta e)
             :: p_list (messages (e_meta e)) ++ p_raws (match e_values e with Some vs => vs | None => [] end)
  end.

Definition mk_fenv_version (v : str) : fenv := mkFenv [] false None None [] false [] [] [] [] v.

(* rt: version nospace usage <msgs> <raws> ;  raw: bytes *)
Definition run_import (c : list str) : list str :=
  match c with
  | kind :: rest =>
    if str_eqb kind k_rt then
      match rest with
      | ver :: rest1 =>
        match f_meta rest1 with
        | Some (m, rest2) =>
          match f_rawlist rest2 with
          | Some (vs, []) =>
            let m := set_messages m (msgs_merge [] (messages m)) in      (* Messages is a set, printed sorted *)
            let doc := export_format (mk_fenv_version ver) m vs in
            p_import (match jparse doc with Some _ => true | None => false end) doc (import doc)
          | _ => fbad
          end
        | None => fbad
        end
      | [] => fbad
      end
    else
      match rest with
      | [bytes] => p_import (match jparse bytes with Some _ => true | None => false end) [] (import bytes)
      | _ => fbad
      end
  | [] => fbad
  end.

(* oracle: round trip loses nothing; input that is not valid JSON (Go's own json.Valid) gives a message *)
Definition run_import_oracle (c : list str) : list str :=
  let '(cf, impl) := f_split_bar c in
  match cf, impl with
  | kind :: rest, st :: valid :: doc :: irest =>
    if str_eqb st f_panic then [f_OK; otag [112;97;110;105;99] []]
    else if str_eqb st (B [112;97;114;116;105;97;108]) then [f_OK; otag [112;97;114;116;105;97;108;45;111;110;45;101;114;114;111;114] []]   (* partial-on-error *)
    else if str_eqb kind k_rt then
      match rest with
      | ver :: rest1 =>
        match f_meta rest1 with
        | Some (m, rest2) =>
          match f_rawlist rest2 with
          | Some (vs, []) =>
            if str_eqb st f_ok then
              match irest with
              | ns :: us :: r1 =>
                match f_list r1 with
                | Some (ms, r2) =>
                  match f_rawlist r2 with
                  | Some (got, []) =>
                    f_OK ::
                      (if same_raws (sort_by_value vs) (sort_by_value got) then [] else [otag [118;97;108;117;101;115] doc])
                      ++ (if str_eqb ns (nospace m) then [] else [otag [110;111;115;112;97;99;101] ns])
                      ++ (if str_eqb us (usage m) then [] else [otag [117;115;97;103;101] us])
                      ++ (if same_strs ms (msgs_merge [] (messages m)) then [] else [otag [109;101;115;115;97;103;101;115] doc])
                  | _ => fbad
                  end
                | None => fbad
                end
              | _ => fbad
              end
            else [f_OK; otag [114;101;106;101;99;116;101;100] doc]          (* rejected: a valid export was not imported *)
          | _ => fbad
          end
        | None => fbad
        end
      | [] => fbad
      end
    else
      if negb (f_true valid) && str_eqb st f_ok then [f_OK; otag [105;110;118;97;108;105;100;45;97;99;99;101;112;116;101;100] []]
      else [f_OK]
  | _, _ => fbad
  end.
