(* Run/RunMultiParts.v — runner entry points for C11 (model and oracle). *)
From CV Require Import Base.Str Model.Common Model.MultiParts Spec.MultiPartsSpec Run.Fields.
Local Open Scope nat_scope.

Record mpcase := mkMp { mp_ci : bool; mp_w : str; mp_ds : list str; mp_vals : list raw }.

Definition parse_mp (c : list str) : option mpcase :=
  match c with
  | ci :: w :: rest =>
    match f_list rest with
    | Some (ds, rest2) =>
      match f_rawlist rest2 with
      | Some (vals, []) => Some (mkMp (f_true ci) w ds vals)
      | _ => None
      end
    | None => None
    end
  | _ => None
  end.

Definition run_multiparts (c : list str) : list str :=
  match parse_mp c with
  | None => fbad
  | Some m =>
    match to_multiparts (mp_ci m) (mp_ds m) (mp_vals m) (mp_w m) with
    | None => [f_panic]
    | Some (vs, ns) => f_ok :: ns :: p_raws (sort_by_value vs)
    end
  end.

(* case fields | impl fields  ->  OK tag* *)
Definition run_multiparts_oracle (c : list str) : list str :=
  let '(cf, impl) := f_split_bar c in
  match parse_mp cf with
  | None => fbad
  | Some m =>
    match impl with
    | st :: ns :: rest =>
      if str_eqb st f_ok then
        match f_rawlist rest with
        | Some (out, []) => f_OK :: mp_oracle (mp_ci m) (mp_ds m) (mp_w m) (mp_vals m) out ns
        | _ => fbad
        end
      else [f_OK; tag_ f_panic (mp_w m)]
    | st :: _ => [f_OK; tag_ f_panic (mp_w m)]
    | [] => fbad
    end
  end.
