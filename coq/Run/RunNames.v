(* Run/RunNames.v — oracle entry point for C07: the names the real program offered against the
   rule of Model/Flags.v, on the flag set / sub-commands the harness reports for the resolved command.
     <case> | ok names envh cur n (name short kind attrs group)* <changed> <offered> ...
     <case> | ok subs  envh n (name aliases(comma separated) attrs)* <offered> ...            *)
From CV Require Import Base.Str Model.Pflag Model.Flags Run.Fields Run.RunSlot.
Local Open Scope nat_scope.

Definition has_byte (n : nat) (s : str) : bool := mem (byte n) s.
Fixpoint f_fdefs (n : nat) (l : list str) : option (list fdef * list str) :=
  match n with
  | 0 => Some ([], l)
  | S n' =>
    match l with
    | name :: short :: k :: attrs :: g :: rest =>
      match f_fdefs n' rest with
      | Some (fs, rest') =>
        Some (mkFdef name short (kind_of k) (has_byte 72 attrs) (has_byte 68 attrs) (has_byte 83 attrs)
                     (match g with [] => [] | _ => [split1 (byte 44) g] end) :: fs, rest')
      | None => None
      end
    | _ => None
    end
  end.
Fixpoint f_cdefs (n : nat) (l : list str) : option (list cdef * list str) :=
  match n with
  | 0 => Some ([], l)
  | S n' =>
    match l with
    | name :: aliases :: attrs :: rest =>
      match f_cdefs n' rest with
      | Some (cs, rest') =>
        Some (mkCdef name (match aliases with [] => [] | _ => split1 (byte 44) aliases end) (has_byte 72 attrs) (has_byte 68 attrs) :: cs, rest')
      | None => None
      end
    | _ => None
    end
  end.

Definition t_missing : str := B [110;97;109;101;115;45;109;105;115;115;105;110;103;58].   (* names-missing: *)
Definition t_extra : str := B [110;97;109;101;115;45;101;120;116;114;97;58].               (* names-extra: *)
Definition mem_str (x : str) (l : list str) : bool := existsb (str_eqb x) l.
Definition diff_tags (expected offered : list str) : list str :=
  match filter (fun x => negb (mem_str x offered)) expected with
  | x :: _ => [t_missing ++ x]
  | [] => match filter (fun x => negb (mem_str x expected)) offered with
          | x :: _ => [t_extra ++ x]
          | [] => []
          end
  end.

Definition t_rejected : str := B [111;102;102;101;114;101;100;45;110;111;116;45;97;99;99;101;112;116;101;100;58].   (* offered-not-accepted: *)
Definition bad_tags (rest : list str) : list str :=
  match f_list rest with Some (bad, _) => map (fun b => t_rejected ++ b) bad | None => [] end.
Definition s_names : str := B [110;97;109;101;115].
Definition s_subs : str := B [115;117;98;115].

Definition run_names_oracle (c : list str) : list str :=
  let '(_, impl) := f_split_bar c in
  match impl with
  | ok :: what :: envh :: rest =>
    if str_eqb what s_names then
      match rest with
      | cur :: n :: rest1 =>
        match undec n with
        | Some k =>
          match f_fdefs k rest1 with
          | Some (fs, rest2) =>
            match f_list rest2 with
            | Some (ch, rest3) =>
              match f_list rest3 with
              | Some (offered, rest4) =>
                f_OK :: match names_offered (f_true envh) fs ch cur with
                        | NNames l => diff_tags l offered
                        | NOther => diff_tags [] offered
                        end ++ bad_tags rest4
              | None => fbad
              end
            | None => fbad
            end
          | None => fbad
          end
        | None => fbad
        end
      | _ => fbad
      end
    else if str_eqb what s_subs then
      match rest with
      | n :: rest1 =>
        match undec n with
        | Some k =>
          match f_cdefs k rest1 with
          | Some (cs, rest2) =>
            match f_list rest2 with
            | Some (offered, rest3) => f_OK :: diff_tags (subcommand_names (f_true envh) cs) offered ++ bad_tags rest3
            | None => fbad
            end
          | None => fbad
          end
        | None => fbad
        end
      | _ => fbad
      end
    else [f_OK]
  | _ => [f_OK]                                   (* skip records: nothing to judge *)
  end.
