(* Run/RunSlot.v — runner entry point for C01 (one command):
   il <flag names> <flag kinds b c s l o> <shorthands> <words> cur  ->  the slot *)
From CV Require Import Base.Str Model.Pflag Run.Fields.
Local Open Scope nat_scope.

Definition kind_of (k : str) : kind :=
  match k with
  | c :: _ => if beq c (byte 98) then KBool else if beq c (byte 99) then KCount
              else if beq c (byte 115) then KStr else if beq c (byte 108) then KList else KOpt
  | [] => KOpt
  end.
Fixpoint zip_flags (ns ks ss : list str) : list flag :=
  match ns, ks, ss with
  | n :: ns', k :: ks', s :: ss' => mkFlag n (kind_of k) s :: zip_flags ns' ks' ss'
  | _, _, _ => []
  end.
Definition p_slot (s : slot) : list str :=
  match s with
  | SFlagValue n prefix => [B [70]; n; prefix]
  | SBoolValue prefix => [B [66]; prefix]
  | SPositional i => [B [80]; dec i]
  | SDash i => [B [68]; dec i]
  | SFlagNames => [B [78]]
  | SMessage => [B [77]]
  end.
Definition run_slot (c : list str) : list str :=
  match c with
  | il :: rest =>
    match f_list rest with
    | Some (ns, rest1) =>
      match f_list rest1 with
      | Some (ks, rest2) =>
        match f_list rest2 with
        | Some (ss, rest3) =>
          match f_list rest3 with
          | Some (ws, [cur]) => f_ok :: p_slot (traverse (zip_flags ns ks ss) (f_true il) ws cur)
          | _ => fbad
          end
        | None => fbad
        end
      | _ => fbad
      end
    | _ => fbad
    end
  | _ => fbad
  end.
