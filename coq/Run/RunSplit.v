(* Run/RunSplit.v — runner entry points for C17: the lexer (tokens with all fields) and
   Action.split around a marker action. *)
From CV Require Import Base.Str Base.Utf8 Model.Common Model.Action Model.Shlex Model.Split Run.Fields Run.RunAlgebra.
Local Open Scope nat_scope.

Definition st_code (s : lstate) : str :=
  match s with
  | SStart => B [48] | SInWord => B [49] | SEsc => B [50] | SEscQ => B [51]
  | SQE => B [52] | SQ => B [53] | SComment => B [54] | SWB => B [55]
  end.
Definition ty_code (t : ttype) : str :=
  match t with TUnknown => B [48] | TWord => B [49] | TComment => B [51] | TWordbreak => B [52] end.
Definition p_token (t : token) : list str :=
  [ty_code (t_type t); t_value t; t_raw t; dec (t_index t); st_code (t_state t); dec (t_wbindex t)].

(* lex: wordbreaks text -> tokens *)
Definition run_lex (c : list str) : list str :=
  match c with
  | [wb; text] => f_ok :: flat_map p_token (shlex_split (match wb with [] => bash_wordbreaks | _ => wb end) text)
  | _ => fbad
  end.

(* split: flags(P = pipelines, R = rune prefix) wordbreaks text nospace <values>  ->  args value candidates *)
Definition run_split (c : list str) : list str :=
  match c with
  | flags :: wb :: text :: ns :: rest =>
    match f_list rest with
    | Some (vals, []) =>
      let wb := match wb with [] => bash_wordbreaks | _ => wb end in
      let sc := split_context (mem (byte 82) flags) (mem (byte 80) flags) wb text in
      let i : invoked := (mkMeta [] ns [], map raw_of vals) in
      if sp_redirect sc then [f_ok; B [114;101;100;105;114;101;99;116]; sp_value sc; sp_prefix sc]           (* redirect *)
      else f_ok :: p_list (sp_args sc) ++ [sp_value sc] ++ p_list (map value (split_values sc i))
    | _ => fbad
    end
  | _ => fbad
  end.
