(* Run/RunTimeout.v — runner entry point for C19: which outcomes the timed model allows for an
   invocation, given the durations the harness arranged (with a scheduling margin around the
   boundary, inside which both outcomes are allowed — C19_boundary). *)
From Coq Require Import ZArith.
From CV Require Import Base.Str Model.Timeout Run.Fields Run.RunAlgebra.
Local Open Scope Z_scope.

Definition margin : Z := 40.
Definition s_inner : str := B [105;110;110;101;114]%nat.
Definition s_alt : str := B [97;108;116]%nat.
Definition s_alt2 : str := B [97;108;116;50]%nat.

(* allowed results and the answer time of `Timeout d alt` around a computation that ends at ta
   (None = never) with one of the results rs *)
Definition stage (d : Z) (alt : str) (ta : option Z) (rs : list str) : list str * Z :=
  match ta with
  | None => ([alt], d)
  | Some t => if (d + margin <? t) then ([alt], d)
              else if (t <? d - margin) then (rs, t)
              else (rs ++ [alt], Z.min t d)
  end.

(* per invocation: d d2 ta   (d2 = "-" : not nested; ta = "-1": never) *)
Fixpoint run_timeout_steps (fuel : nat) (l : list str) : option (list str) :=
  match fuel with
  | O => None
  | S f =>
    match l with
    | [] => Some []
    | d :: d2 :: ta :: rest =>
      match undecZ d, undecZ ta, run_timeout_steps f rest with
      | Some dz, Some tz, Some out =>
        let ta' := if (tz <? 0) then None else Some tz in
        let allowed :=
          match undecZ d2 with
          | Some d2z => let '(rs, t2) := stage d2z s_alt2 ta' [s_inner] in fst (stage dz s_alt (Some t2) rs)
          | None => fst (stage dz s_alt ta' [s_inner])
          end in
        Some (join (B [124]%nat) allowed :: out)
      | _, _, _ => None
      end
    | _ => None
    end
  end.

Definition run_timeout (c : list str) : list str :=
  match c with
  | _ :: rest => match run_timeout_steps (S (length rest)) rest with Some o => f_ok :: o | None => fbad end
  | [] => fbad
  end.
