(* Run/RunTree.v — runner entry point for C01 on command trees:
     CMD name <aliases> nflags (name short kind attrs)* attrs nsubs sub... <words> cur
   ->  ok  <path cobra's Find reaches>  <path carapace's traverse reaches>  slot...
   Flag attrs: P = persistent (inherited by sub-commands; a nearer definition of the name wins).
   Command attrs: I = flags may be interspersed. *)
From CV Require Import Base.Str Model.Pflag Model.Descent Run.Fields Run.RunSlot.
Local Open Scope nat_scope.

Definition has_attr (n : nat) (s : str) : bool := mem (byte n) s.

Fixpoint f_flagdefs (n : nat) (l : list str) : option (list (flag * bool) * list str) :=
  match n with
  | 0 => Some ([], l)
  | S n' =>
    match l with
    | name :: short :: k :: attrs :: rest =>
      match f_flagdefs n' rest with
      | Some (fs, rest') => Some ((mkFlag name (kind_of k) short, has_attr 80 attrs) :: fs, rest')
      | None => None
      end
    | _ => None
    end
  end.

Definition s_CMD : str := B [67;77;68].
(* own flags first (they shadow), then the inherited persistent ones not redefined here *)
Definition effective (own : list (flag * bool)) (inherited : list flag) : list flag :=
  map fst own ++ filter (fun f => negb (existsb (fun o => str_eqb (fname (fst o)) (fname f)) own)) inherited.

Definition slash : str := B [47].
Fixpoint f_cmd (fuel : nat) (prefix : str) (inherited : list flag) (l : list str) : option (cmd * list str) :=
  match fuel with
  | 0 => None
  | S f =>
    match l with
    | tag :: name :: rest =>
      if str_eqb tag s_CMD then
        match f_list rest with
        | Some (aliases, nf :: rest1) =>
          match undec nf with
          | Some k =>
            match f_flagdefs k rest1 with
            | Some (own, attrs :: ns :: rest2) =>
              match undec ns with
              | Some nsubs =>
                let eff := effective own inherited in
                let down := map fst (filter snd own) ++ filter (fun g => negb (existsb (fun o => snd o && str_eqb (fname (fst o)) (fname g)) own)) inherited in
                let subs := (fix go (n : nat) (l : list str) : option (list cmd * list str) :=
                               match n with
                               | 0 => Some ([], l)
                               | S n' => match f_cmd f (prefix ++ name ++ slash) down l with
                                         | Some (c, l') => match go n' l' with Some (cs, l'') => Some (c :: cs, l'') | None => None end
                                         | None => None
                                         end
                               end) nsubs rest2 in
                match subs with
                | Some (cs, rest3) => Some (Cmd (prefix ++ name) name aliases eff (has_attr 73 attrs) cs, rest3)
                | None => None
                end
              | None => None
              end
            | _ => None
            end
          | None => None
          end
        | _ => None
        end
      else None
    | _ => None
    end
  end.

Definition run_tree (c : list str) : list str :=
  match f_cmd 8 [] [] c with
  | Some (root, rest) =>
    match f_list rest with
    | Some (ws, [cur]) =>
      let '(cc, _) := cobra_find root ws in
      let '(tc, sl) := tree_traverse root ws cur in
      f_ok :: cid cc :: cid tc :: p_slot sl
    | _ => fbad
    end
  | None => fbad
  end.

(* oracle form: <case> | ok <cobra path or rejected> <carapace path or ?> slot...   ->  OK tag* *)
Definition s_rejected : str := B [114;101;106;101;99;116;101;100].
Definition t_find : str := B [102;105;110;100;45;100;105;102;102;101;114;115;58].                 (* find-differs: *)
Definition t_descent : str := B [100;101;115;99;101;110;116;45;100;105;102;102;101;114;115;58].   (* descent-differs: *)
Fixpoint strs_eqb (a b : list str) : bool :=
  match a, b with
  | [], [] => true
  | x :: a', y :: b' => str_eqb x y && strs_eqb a' b'
  | _, _ => false
  end.
Definition run_tree_oracle (c : list str) : list str :=
  let '(case, impl) := f_split_bar c in
  match run_tree case, impl with
  | ok :: mcobra :: mcara :: mslot, iok :: icobra :: icara :: islot =>
    if negb (str_eqb iok f_ok) then [f_OK]
    else
      f_OK ::
      (if str_eqb icobra s_rejected || str_eqb icobra mcobra then [] else [t_find ++ mcobra])
      ++ match islot with
         | k :: _ =>
           if str_eqb k (B [80]) || str_eqb k (B [68]) then
             if str_eqb icara mcara && strs_eqb islot mslot then [] else [t_descent ++ mcara]
           else if str_eqb k (B [70]) then
             if strs_eqb islot mslot then [] else [t_descent ++ mcara]
           else []
         | [] => []
         end
  | _, _ => fbad
  end.
