(* Spec/Algebra.v — first-order syntax of Action expressions ([expr]), its denotation into
   the implementation-shaped model ([denote], Model/Action.v) and the reference
   interpreter [eval] of the documented algebra (property C12): one short clause per
   modifier over completions (meta, values), written from the doc comments of action.go and
   docs/src/carapace/action/*.md.  [eval] never builds an Action: it only says what each
   modifier does to the completion of its argument. *)
From Coq Require Import ZArith.
From CV Require Import Base.Str Base.Utf8 Model.Common Model.MultiParts Model.Action.
Local Open Scope nat_scope.

Inductive expr :=
| EValues (vs : list str)
| EValuesDescribed (vs : list str)
| EStyledValuesDescribed (vs : list str)
| EStatic (m : meta) (vs : list raw)
| EMessage (msg : str)
| ECtx
| EFilter (vs : list str) (e : expr)
| ERetain (vs : list str) (e : expr)
| EFilterArgs (e : expr)
| EFilterParts (e : expr)
| EPrefix (p : str) (e : expr)
| ESuffix (s : str) (e : expr)
| EStyle (s : str) (e : expr)
| ETag (t : str) (e : expr)
| EUsage (u : str) (e : expr)
| ENoSpace (rs : list N) (e : expr)
| ESuppress (pats : list str) (e : expr)
| EUnless (b : bool) (e : expr)
| EShift (n : Z) (e : expr)
| EMultiParts (ds : list str) (e : expr)
| EMultiPartsN (sep : str) (n : Z) (e0 e1 : expr)   (* callback: no completed part yet -> e0, else e1 *)
| EList (d : str) (e : expr)
| EUniqueList (d : str) (e : expr)
| EPartition (vs : list str) (e : expr)   (* i := a.Invoke(c); Batch(i.Filter(vs).ToA(), i.Retain(vs).ToA()) *)
| ESetenv (k v : str) (e : expr)          (* callback: c.Setenv(k, v); invoke e beneath *)
| EGetenv (k : str)                      (* callback: ActionValues("E" + c.Getenv(k)) *)
| EBatch (es : list expr).

Definition us : str := B [31].
Definition ctx_values (c : ctx) : list str :=
  [B [86] ++ cvalue c; B [65] ++ join us (cargs c); B [80] ++ join us (cparts c)].

Section Sem.
  Variable ci : bool.                         (* CARAPACE_MATCH: case-insensitive *)
  Variable rmatch : str -> str -> bool.       (* regexp match relation of Suppress *)

  Fixpoint denote (e : expr) : action :=
    match e with
    | EValues vs => ActionValues vs
    | EValuesDescribed vs => ActionValuesDescribed vs
    | EStyledValuesDescribed vs => ActionStyledValuesDescribed vs
    | EStatic m vs => callback (fun _ => AStatic m vs)      (* ActionImport of an export document *)
    | EMessage msg => ActionMessage msg
    | ECtx => callback (fun c => ActionValues (ctx_values c))
    | EFilter vs e => Filter vs (denote e)
    | ERetain vs e => Retain vs (denote e)
    | EFilterArgs e => FilterArgs (denote e)
    | EFilterParts e => FilterParts (denote e)
    | EPrefix p e => Prefix ci p (denote e)
    | ESuffix s e => Suffix s (denote e)
    | EStyle s e => Style s (denote e)
    | ETag t e => Tag t (denote e)
    | EUsage u e => Usage u (denote e)
    | ENoSpace rs e => NoSpace rs (denote e)
    | ESuppress pats e => Suppress rmatch pats (denote e)
    | EUnless b e => Unless b (denote e)
    | EShift n e => Shift n (denote e)
    | EMultiParts ds e => MultiParts ci ds (denote e)
    | EMultiPartsN sep n e0 e1 =>
        let a0 := denote e0 in let a1 := denote e1 in
        ActionMultiPartsN sep n (fun c => match cparts c with [] => a0 | _ => a1 end)
    (* List / UniqueList: items separated by d, no space after any candidate (`*`) *)
    | EList d e => List d (denote e)
    | EUniqueList d e => UniqueList d (denote e)
    | EPartition vs e =>
        let a := denote e in
        callback (fun c => let i := invoke a c in Batch [Filter vs (to_a i); Retain vs (to_a i)])
    | ESetenv k v e => Setenv k v (denote e)
    | EGetenv k => Getenv k
    | EBatch es => Batch (map denote es)
    end.

  (* ---------------------------------------------------------------- reference algebra *)
  Definition add_nospace (m : meta) (rs : list N) : meta :=
    set_nospace m (sm_merge (nospace m) (sm_add [] rs)).
  Definition described (name : str) (k : nat) (mk : list str -> list raw) (vs : list str) : invoked :=
    if Nat.eqb (length vs mod k) 0 then (meta0, mk vs)
    else (mkMeta [msg_invalid name (length vs)] [] [], []).

  (* how ActionMultiPartsN splits the typed value: (untouched completed text, parts, current part) *)
  Definition mpn_split (sep : str) (n : Z) (v : str) : str * list str * str :=
    match sep with
    | [] =>
      if (n <? 0)%Z then (v, map snd (chunks v), [])
      else let k := Z.to_nat (n - 1) in
           if k <? length v then (take k v, map snd (chunks (take k v)), drop k v)
           else (v, map snd (chunks v), [])
    | _ =>
      let sp := split_n v sep n in
      if 1 <? length sp then (join sep (removelast sp) ++ sep, removelast sp, last sp [])
      else ([], [], v)
    end.
  Definition sep_nospace (sep : str) : N := match last_rune sep with Some r => r | None => star end.

  Fixpoint eval (e : expr) (c : ctx) : invoked :=
    match e with
    | EValues vs => (meta0, map raw_of (filter (fun v => negb (is_empty v)) vs))
    | EValuesDescribed vs => described n_AVD 2 pairs vs
    | EStyledValuesDescribed vs => described n_ASVD 3 triples vs
    | EStatic m vs => (m, vs)
    | EMessage msg => (mkMeta [msg] [] [], [])
    | ECtx => (meta0, map raw_of (filter (fun v => negb (is_empty v)) (ctx_values c)))
    (* Filter / Retain: remove / keep precisely the listed values *)
    | EFilter vs e => let '(m, rs) := eval e c in (m, rv_filter vs rs)
    | ERetain vs e => let '(m, rs) := eval e c in (m, rv_retain vs rs)
    | EFilterArgs e => let '(m, rs) := eval e c in (m, rv_filter (cargs c) rs)
    | EFilterParts e => let '(m, rs) := eval e c in (m, rv_filter (cparts c) rs)
    (* Prefix: complete p+x as p + completion of x; nothing if the typed word is incompatible *)
    | EPrefix p e =>
        if match_has_prefix ci (cvalue c) p
        then let '(m, rs) := eval e (set_cvalue c (drop (length p) (cvalue c))) in (m, rv_prefix p rs)
        else if match_has_prefix ci p (cvalue c)
        then let '(m, rs) := eval e (set_cvalue c []) in (m, rv_prefix p rs)
        else (meta0, [])
    | ESuffix s e => let '(m, rs) := eval e c in (m, rv_suffix s rs)
    (* Style / Tag: only the style / tag of every value *)
    | EStyle s e => let '(m, rs) := eval e c in (m, map (fun r => set_style r s) rs)
    | ETag t e => let '(m, rs) := eval e c in (m, map (fun r => set_tag r t) rs)
    (* Usage: the outer non-empty usage wins; NoSpace: characters accumulate; messages accumulate *)
    | EUsage u e => let '(m, rs) := eval e c in (if is_empty u then m else set_usage m u, rs)
    | ENoSpace rs e => let '(m, vs) := eval e c in
                       (add_nospace m (match rs with [] => [star] | _ => rs end), vs)
    | ESuppress pats e => let '(m, rs) := eval e c in (set_messages m (msgs_suppress rmatch pats (messages m)), rs)
    | EUnless b e => if b then (meta0, []) else eval e c
    | EShift n e =>
        if (n <? 0)%Z then (mkMeta [msg_shift n] [] [], [])
        else eval e (set_cargs c (skipn (Z.to_nat n) (cargs c)))
    (* MultiParts: the segment completion of C11 over the values; the no-space characters of the
       dividers are added, messages / usage / no-space of the wrapped action are kept. *)
    | EMultiParts ds e =>
        let '(m, rs) := eval e c in
        match to_multiparts ci ds rs (cvalue c) with
        | Some (vs, _) => (mp_meta ds m, vs)
        | None => (meta0, [])
        end
    (* ActionMultiPartsN: hand (parts, current part) to the callback, re-attach the untouched
       completed text, add the separator's last character to the no-space set *)
    | EMultiPartsN sep n e0 e1 =>
        if (n =? 0)%Z then (mkMeta [msg_n0] [] [], [])
        else if (n =? 1)%Z then (match cparts c with [] => eval e0 c | _ => eval e1 c end)
        else
          let '(done, parts, cur) := mpn_split sep n (cvalue c) in
          let c' := with_vp c cur parts in
          let '(m, rs) := match parts with [] => eval e0 c' | _ => eval e1 c' end in
          (set_nospace m (sm_add (nospace m) [sep_nospace sep]), rv_prefix done rs)
    (* List / UniqueList: items separated by d, no space after any candidate (`*`) *)
    | EList d e =>
        let '(done, parts, cur) := mpn_split d (-1) (cvalue c) in
        let '(m, rs) := eval e (with_vp c cur parts) in
        (set_nospace m (B [42]), rv_prefix done rs)
    | EUniqueList d e =>
        let '(done, parts, cur) := mpn_split d (-1) (cvalue c) in
        let '(m, rs) := eval e (with_vp c cur parts) in
        (set_nospace m (B [42]), rv_prefix done (rv_filter parts rs))
    | EPartition vs e =>
        let '(m, rs) := eval e c in merge_invoked [(m, rv_filter vs rs); (m, rv_retain vs rs)]
    (* changes to the Context are visible beneath the callback only *)
    | ESetenv k v e => eval e (set_env c k v)
    | EGetenv k => (meta0, map raw_of (filter (fun v => negb (is_empty v)) [B [69] ++ lookup_env (cenv c) k]))
    (* Batch: union by inserted value (later member wins), meta united, last non-empty usage *)
    | EBatch es =>
        merge_invoked ((fix go (l : list expr) : list invoked :=
                          match l with [] => [] | x :: l' => eval x c :: go l' end) es)
    end.
End Sem.
