(* Spec/FmtDecode.v — what the generated shell snippets do with the bytes carapace prints
   (internal/shell/*/snippet.go), for the delimiter-framed formats.  The JSON formats are
   decoded by a stock JSON parser outside Coq (python's json) and enter the oracle already
   as records.  Transcriptions of shell code that cannot run here (zsh, fish, tcsh, clink's
   Lua) are part of the trusted base; bash's is additionally executed by real bash in the
   thorough tier. *)
From CV Require Import Base.Str.
Local Open Scope nat_scope.

Record drec := mkD {
  d_insert : str; d_display : str; d_desc : str;
  d_ind : option bool;      (* per-record "no space" indication where the format has one *)
  d_style : str; d_tag : str
}.

Definition LF := byte 10.
Definition TABc := byte 9.

Fixpoint strip_trailing_lf_rev (r : str) : str :=
  match r with c :: r' => if beq c LF then strip_trailing_lf_rev r' else r | [] => [] end.
Definition strip_trailing_lf (s : str) : str := rev (strip_trailing_lf_rev (rev s)).   (* $(...) *)

(* split at the first occurrence of a byte *)
Fixpoint cut1 (sep : ascii) (s : str) : str * option str :=
  match s with
  | [] => ([], None)
  | c :: s' => if beq c sep then ([], Some s')
               else let '(a, b) := cut1 sep s' in (c :: a, b)
  end.
(* text after the last occurrence of a byte (whole text if absent): ${x##*SEP} *)
Definition after_last (sep : ascii) (s : str) : str :=
  fold_left (fun acc c => if beq c sep then [] else acc ++ [c]) s [].
Definition nonempty (s : str) : bool := match s with [] => false | _ => true end.

(* ---------- bash: `IFS=$'\001' read -r -d '' nospace data`, mapfile -t, unset last ---------- *)
Definition decode_bash (out : str) : option (bool * list str) :=
  let o := strip_trailing_lf out in
  match cut1 (byte 1) o with
  | (flag, Some data) =>
      let lines := match data with [] => [] | _ => split1 LF data end in
      let lines := if forallb (fun l => negb (nonempty l)) lines then [] else lines in
      Some (str_eqb flag (B [116;114;117;101]), lines)
  | (_, None) => None
  end.

(* ---------- bash-ble: per non-empty line ${cand%%\t*} and ${cand##*\t}; \x1c fields ---------- *)
Definition decode_ble_line (l : str) : option drec :=
  let ins := fst (cut1 TABc l) in
  match split1 (byte 28) (after_last TABc l) with
  | [dis; _; suffix; desc] =>
      Some (mkD ins dis desc (Some (negb (nonempty suffix))) [] [])
  | _ => None
  end.
Fixpoint all_some {A} (l : list (option A)) : option (list A) :=
  match l with
  | [] => Some []
  | Some x :: l' => option_map (cons x) (all_some l')
  | None :: _ => None
  end.
Definition decode_bash_ble (out : str) : option (list drec) :=
  all_some (map decode_ble_line (filter nonempty (split1 LF out))).

(* ---------- fish: one candidate per line, description after the first TAB ---------- *)
Definition decode_fish (out : str) : option (list drec) :=
  match out with
  | [] => Some []
  | _ => Some (map (fun l => let '(v, d) := cut1 TABc l in
                             mkD v v (match d with Some x => x | None => [] end) None [] [])
                   (split1 LF out))
  end.

(* ---------- cmd-clink (Lua): lines = [^\r\n]+ , fields = [^\t]+ ---------- *)
Fixpoint runs (is_sep : ascii -> bool) (s : str) (cur : str) : list str :=
  match s with
  | [] => match cur with [] => [] | _ => [cur] end
  | c :: s' => if is_sep c then match cur with [] => runs is_sep s' [] | _ => cur :: runs is_sep s' [] end
               else runs is_sep s' (cur ++ [c])
  end.
Definition nth_str (n : nat) (l : list str) : option str := nth_error l n.
Definition decode_cmd_clink (out : str) : option (list (option str * option str * option str * option str)) :=
  Some (map (fun line => let m := runs (fun c => beq c TABc) line [] in
                         (nth_str 0 m, nth_str 1 m, nth_str 2 m, nth_str 3 m))
            (runs (fun c => beq c LF || beq c (byte 13)) out [])).

(* ---------- oil: mapfile lines; \001 marker (stripped when there is one reply) ---------- *)
Definition decode_oil (out : str) : option (list str) :=
  match out with
  | [] => Some []
  | _ => Some (split1 LF out)
  end.

(* ---------- tcsh: `...` substitution splits on blanks / newlines; backslash quotes ---------- *)
Fixpoint tcsh_words (s : str) (cur : option str) : list str :=
  match s with
  | [] => match cur with Some w => [w] | None => [] end
  | c :: s' =>
      if beq c (byte 92) then
        match s' with
        | d :: s'' => tcsh_words s'' (Some (match cur with Some w => w ++ [c; d] | None => [c; d] end))
        | [] => match cur with Some w => [w ++ [c]] | None => [[c]] end
        end
      else if beq c (byte 32) || beq c LF || beq c TABc then
        match cur with Some w => w :: tcsh_words s' None | None => tcsh_words s' None end
      else tcsh_words s' (Some (match cur with Some w => w ++ [c] | None => [c] end))
  end.
Definition decode_tcsh (out : str) : option (list str) := Some (tcsh_words out None).

(* ---------- zsh ---------- *)
(* display column of _describe: `display:description`, `\:` and `\\` escaped *)
Fixpoint describe_split (s : str) : str * option str :=
  match s with
  | [] => ([], None)
  | c :: s' =>
      if beq c (byte 92) then
        match s' with
        | d :: s'' => if beq d (byte 58) || beq d (byte 92)
                      then let '(a, b) := describe_split s'' in (d :: a, b)
                      else let '(a, b) := describe_split s' in (c :: a, b)
        | [] => ([c], None)
        end
      else if beq c (byte 58) then ([], Some s')
      else let '(a, b) := describe_split s' in (c :: a, b)
  end.
Fixpoint zip_recs (tag : str) (ds vs : list str) : option (list drec) :=
  match ds, vs with
  | [], [] => Some []
  | d :: ds', v :: vs' =>
      let '(dis, desc) := describe_split d in
      option_map (cons (mkD v dis (match desc with Some x => x | None => [] end) None [] tag)) (zip_recs tag ds' vs')
  | _, _ => None                      (* the two arrays have different lengths: records shift *)
  end.
Definition decode_zsh_block (b : str) : option (list drec) :=
  match split1 (byte 3) b with
  | [tag; displays; values] =>
      (* IFS=$'\n' read -A: newline is IFS white space, empty lines vanish *)
      zip_recs tag (filter nonempty (split1 LF displays)) (filter nonempty (split1 LF values))
  | _ => None
  end.
Definition decode_zsh (out : str) : option (str * str * list drec) :=
  match split1 (byte 1) out with
  | [zstyle; message; data; _] =>
      let blocks := removelast (split1 (byte 2) data) in   (* the text after the last \002 is not a block *)
      let blocks := filter nonempty blocks in
      option_map (fun rs => (zstyle, message, concat rs)) (all_some (map decode_zsh_block blocks))
  | _ => None
  end.
