(* Spec/FmtOracle.v — the specification side of C02–C06 as executable predicates over
   (inputs of Value, decoded output).  The same predicates are applied to the
   implementation's output by the harness and are the statements proved of the model in
   Proofs/ and Props/.  A failed predicate yields a tag "Cxx:<kind>:<shell>:<detail>". *)
From CV Require Import Base.Str Base.Utf8 Gen.Tables Model.Common Model.Shells Model.ShellValue
                       Spec.Readers Spec.FmtDecode.
Local Open Scope nat_scope.

(* ---------- "equal up to the bytes dropped by design" ---------- *)
Definition is3 (c : ascii) : bool := beq c (byte 9) || beq c (byte 10) || beq c (byte 13).
Definition strip3 (s : str) : str := filter (fun c => negb (is3 c)) s.
Definition eq3 (a b : str) : bool := str_eqb (strip3 a) (strip3 b).
Definition has_linebreak (s : str) : bool := mem (byte 10) s || mem (byte 13) s.
(* C0 control bytes other than TAB/CR/LF, and DEL: outside the claims of C03/C04 *)
Definition is_c0 (c : ascii) : bool :=
  let n := nat_of_ascii c in ((n <? 32) && negb (is3 c)) || (n =? 127).
Definition has_invalid_utf8 (s : str) : bool :=
  existsb (fun rb => N.eqb (fst rb) RuneError && match snd rb with [_] => true | _ => false end) (chunks s).
(* "outside the claim": C0 control bytes (other than TAB/CR/LF), DEL, or text that is not valid Unicode *)
Definition has_c0 (s : str) : bool := existsb is_c0 s || has_invalid_utf8 s.
Definition raw_has_c0 (r : raw) : bool :=
  has_c0 (value r) || has_c0 (display r) || has_c0 (description r) || has_c0 (tag r).

(* mode-relative "extends" (C02) *)
Definition extends (ci : bool) (v w : str) : bool := match_has_prefix ci v w.

(* ---------- tags ---------- *)
Definition colon := B [58].
Definition tag3 (p kind shell : str) (detail : str) : str := p ++ colon ++ kind ++ colon ++ shell ++ colon ++ detail.
Definition C02 := B [67;48;50]. Definition C03 := B [67;48;51]. Definition C04 := B [67;48;52].
Definition C05 := B [67;48;53]. Definition C06 := B [67;48;54].
Definition k_count := B [99;111;117;110;116].               (* count *)
Definition k_decode := B [100;101;99;111;100;101].          (* decode *)
Definition k_display := B [100;105;115;112;108;97;121].     (* display *)
Definition k_desc := B [100;101;115;99].                    (* desc *)
Definition k_style := B [115;116;121;108;101].              (* style *)
Definition k_tag := B [116;97;103].                         (* tag *)
Definition k_linebreak := B [108;105;110;101;98;114;101;97;107].
Definition k_read := B [114;101;97;100].                    (* read: the reader rejects / other word *)
Definition k_space := B [115;112;97;99;101].                (* space *)
Definition k_sound := B [115;111;117;110;100].              (* sound *)
Definition k_complete := B [99;111;109;112;108;101;116;101].
Definition k_extra := B [101;120;116;114;97].
Definition k_collapse := B [99;111;108;108;97;112;115;101].
Definition k_msg := B [109;115;103].
Definition k_two := B [116;119;111].
Definition k_distinct := B [100;105;115;116;105;110;99;116].
Definition k_channel := B [99;104;97;110;110;101;108].
Definition k_meta := B [109;101;116;97].

(* ---------- what each format is expected to emit, in emission order ---------- *)
Definition is_sh (a b : str) := str_eqb a b.

Inductive emission :=
| ERecords (rs : list raw)          (* one record per candidate, in this order *)
| ECollapsed (lcp : str)            (* bash / tcsh: the single common-prefix step *)
| EListOnly (rs : list raw).        (* bash list mode: display lines that are never inserted *)

Definition tcsh_last_segment (e : fenv) (word : str) (values : list raw) : str :=
  match values, comp_wordbreaks e with
  | _ :: _, Some wb =>
      let wb' := filter (fun c => negb (beq c (byte 32))) wb in
      match last_index_any word wb' 0 None with
      | Some i => drop (S i) word
      | None => word
      end
  | _, _ => word
  end.

Definition emission_of (vc : vcase) : emission :=
  let e := vc_env vc in let shell := vc_shell vc in let word := vc_word vc in
  let E := stage_values e shell word (vc_meta vc) (vc_values vc) in
  if is_sh shell s_bash then
    let vs := map (fun v => set_value v (match_trim (ci e) (value v) (wbp (fe e)))) E in    (* the part bash keeps is matched the way the word was *)
    let last_segment := trim_prefix word (wbp (fe e)) in
    let collapse := (1 <? length vs) && negb (str_eqb (common_prefix_of display vs) []) in
    if collapse && negb (str_eqb last_segment (common_prefix_of value vs)) then ECollapsed (common_prefix_of value vs)
    else if (1 <? length vs) && list_mode (fe e) then EListOnly vs
    else ERecords vs
  else if is_sh shell s_tcsh then
    let collapse := (1 <? length E) && negb (str_eqb (common_prefix_of display E) []) in
    if collapse && negb (str_eqb (tcsh_last_segment (fe e) word E) (common_prefix_of value E))
    then ECollapsed (common_prefix_of value E)
    else ERecords E
  else if is_sh shell s_powershell then ERecords (filter (fun r => negb (str_eqb (value r) [])) E)
  else if is_sh shell s_zsh then ERecords (concat (map snd (each_tag (map zsh_retag E))))
  else if is_sh shell s_export then ERecords (isort_by value_ltb E)
  else ERecords E.

(* ---------- reading an insert text back (C03) ---------- *)
Inductive readres := RNone (* no reader for this text *) | RFail | RWord (w : str) (blank : bool).
Definition of_opt_sp (o : option (str * bool)) : readres :=
  match o with Some (w, b) => RWord w b | None => RFail end.
Definition of_opt (o : option str) : readres :=
  match o with Some w => RWord w false | None => RFail end.
(* verbatim formats with the separating blank inside the value *)
Definition verbatim_sp (s : str) : readres :=
  match rev s with
  | c :: r => if beq c (byte 32) then RWord (rev r) true else RWord s false
  | [] => RWord [] false
  end.

Definition read_insert (vc : vcase) (ins : str) : readres :=
  let shell := vc_shell vc in
  if is_sh shell s_bash then of_opt (read_bash ins)
  else if is_sh shell s_oil then of_opt (read_bash ins)
  else if is_sh shell s_tcsh then of_opt (read_tcsh ins)
  else if is_sh shell s_nushell then of_opt_sp (read_nushell_sp ins)
  else if is_sh shell s_powershell then of_opt_sp (read_powershell_sp ins)
  else if is_sh shell s_xonsh then match read_xonsh_sp ins with NoReader => RNone | Reads o => of_opt_sp o end
  else if is_sh shell s_zsh then
    match zsh_state (zsh_raw (fe (vc_env vc))) with
    | ZDefault => of_opt_sp (read_zsh_sp [] [] ins)
    | ZQuotingEscaping => of_opt_sp (read_zsh_sp (B [34]) [] ins)
    | ZQuoting => of_opt_sp (read_zsh_sp (B [39]) [] ins)
    | ZFullQuotingEscaping => of_opt_sp (read_zsh_sp (B [34]) (B [34]) ins)
    | ZFullQuoting => of_opt_sp (read_zsh_sp (B [39]) (B [39]) ins)
    end
  else if is_sh shell s_ion then verbatim_sp ins
  else RWord ins false.     (* elvish, fish, bash-ble, cmd-clink, export: verbatim *)

(* ---------- per-record predicates ---------- *)
(* C03: the text reads back as exactly the candidate value (up to TAB/CR/LF) *)
Definition c03_ok (vc : vcase) (cand : raw) (ins : str) : bool :=
  if has_c0 (value cand) || str_eqb (strip3 (value cand)) []
     || (is_sh (vc_shell vc) s_ion && has_suffix (strip3 (value cand)) (B [32])) then true   (* outside the claim / no word to read *)
  else match read_insert vc ins with
       | RNone => true
       | RFail => false
       | RWord w _ => eq3 w (value cand)
       end.

(* C05: the decoded indication equals Matches on the value before quoting.  Values whose
   last byte is one that the format drops are outside the statement (DESIGN 6.5). *)
Definition ends_in_dropped (v : str) : bool :=
  match last_byte v with Some c => is3 c | None => false end.
Definition indication (vc : vcase) (d : drec) : option bool :=
  match d_ind d with
  | Some b => Some b
  | None =>
      let shell := vc_shell vc in
      if is_sh shell s_nushell || is_sh shell s_powershell || is_sh shell s_xonsh || is_sh shell s_zsh
         || is_sh shell s_ion then
        match read_insert vc (d_insert d) with
        | RWord _ blank => Some (negb blank)
        | _ => match last_byte (d_insert d) with
               | Some c => Some (negb (beq c (byte 32)))
               | None => Some true
               end
        end
      else None
  end.
Definition zsh_full (vc : vcase) : bool :=
  match zsh_state (zsh_raw (fe (vc_env vc))) with
  | ZFullQuotingEscaping | ZFullQuoting => true
  | _ => false
  end.
Definition c05_ok (vc : vcase) (ns' : str) (cand : raw) (d : drec) : bool :=
  if ends_in_dropped (value cand) || (is_sh (vc_shell vc) s_ion && has_suffix (strip3 (value cand)) (B [32])) then true
  else match indication vc d with
       | None => true
       | Some ind =>
           if is_sh (vc_shell vc) s_zsh && zsh_full vc then ind   (* never a blank inside the quotes *)
           else Bool.eqb ind (sm_matches ns' (value cand))
       end.

(* C04: display / description / style / tag of the record are the candidate's own *)
Definition expected_desc (shell : str) (cand : raw) : str :=
  if is_sh shell s_zsh then match trim_space (strip3 (description cand)) with [] => [] | _ => description cand end
  else if is_sh shell s_export then description cand
  else trimmed_description (description cand).
Definition c04_display_ok (shell : str) (cand : raw) (d : drec) : bool :=
  if is_sh shell s_bash || is_sh shell s_oil || is_sh shell s_tcsh then true        (* no display field *)
  else if is_sh shell s_fish then true                                              (* fish shows the value *)
  else if is_sh shell s_ion then has_prefix (strip3 (d_display d)) (strip3 (display cand))
  else if is_sh shell s_export then str_eqb (d_display d) (display cand)
  else if is_sh shell s_powershell then contains (strip3 (d_display d)) (strip3 (display cand))
  else eq3 (d_display d) (display cand).
Definition c04_desc_ok (shell : str) (cand : raw) (d : drec) : bool :=
  if is_sh shell s_bash || is_sh shell s_oil || is_sh shell s_tcsh then true
  else if is_sh shell s_ion then
    match replace1 ion_sanitizer (description cand) with
    | [] => eq3 (d_display d) (display cand)
    | sd => eq3 (d_display d) (display cand ++ B [32;40] ++ trimmed_description sd ++ B [41])
    end
  else if is_sh shell s_powershell then
    match description cand with
    | [] => true
    | _ => contains (strip3 (d_display d) ++ strip3 (d_desc d)) (strip3 (trimmed_description (description cand)))
    end
  else if is_sh shell s_nushell then eq3 (d_desc d) (trimmed_description (replace1 nushell_sanitizer (description cand)))
  else eq3 (d_desc d) (expected_desc shell cand).
Definition c04_style_ok (shell : str) (cand : raw) (d : drec) : bool :=
  if is_sh shell s_elvish || is_sh shell s_nushell || is_sh shell s_xonsh then str_eqb (d_style d) (rstyle cand)
  else if is_sh shell s_export then str_eqb (d_style d) (style cand)
  else if is_sh shell s_powershell then contains (d_display d) (ps_e (rstyle cand))
  else true.
Definition c04_tag_ok (shell : str) (cand : raw) (d : drec) : bool :=
  if is_sh shell s_zsh || is_sh shell s_export then str_eqb (d_tag d) (tag cand) else true.
Definition c04_linebreak_ok (shell : str) (d : drec) : bool :=
  if is_sh shell s_export then true else
  negb (has_linebreak (d_insert d)) &&
  (if is_sh shell s_bash || is_sh shell s_oil || is_sh shell s_tcsh || is_sh shell s_fish then true
   else negb (has_linebreak (d_display d))).

(* ---------- whole-case oracle ---------- *)
Definition idx (i : nat) : str := dec i.
Fixpoint per_record (vc : vcase) (ns' : str) (i : nat) (cands : list raw) (ds : list drec) : list str :=
  match cands, ds with
  | c :: cands', d :: ds' =>
      let sh := vc_shell vc in
      let inclaim := negb (raw_has_c0 c) in
      (if c03_ok vc c (d_insert d) then [] else [tag3 C03 k_read sh (value c)]) ++
      (if c05_ok vc ns' c d then [] else [tag3 C05 k_space sh (value c)]) ++
      (if negb inclaim || c04_display_ok sh c d then [] else [tag3 C04 k_display sh (value c)]) ++
      (if negb inclaim || c04_desc_ok sh c d then [] else [tag3 C04 k_desc sh (value c)]) ++
      (if negb inclaim || c04_style_ok sh c d then [] else [tag3 C04 k_style sh (value c)]) ++
      (if negb inclaim || c04_tag_ok sh c d then [] else [tag3 C04 k_tag sh (value c)]) ++
      (if negb inclaim || c04_linebreak_ok sh d then [] else [tag3 C04 k_linebreak sh (value c)]) ++
      per_record vc ns' (S i) cands' ds'
  | _, _ => []
  end.

(* C02 on the decoded output, model free: soundness of every decoded insert text that a
   reader can read, completeness of the candidates that extend the typed word *)
Definition recovered (vc : vcase) (ds : list drec) : list str :=
  flat_map (fun d => match read_insert vc (d_insert d) with RWord w _ => [w] | _ => [] end) ds.
Definition c02_checks (vc : vcase) (ds : list drec) : list str :=
  let e := vc_env vc in let sh := vc_shell vc in
  let pre := if is_sh sh s_bash then wbp (fe e) else [] in
  let unf := unfiltered e in
  let rec := recovered vc ds in
  let readable := length rec =? length ds in
  (* soundness *)
  (if unf then [] else
     flat_map (fun w => if extends (ci e) (strip3 (pre ++ w)) (strip3 (vc_word vc)) || has_c0 w || has_c0 (vc_word vc)
                           || (is_sh sh s_ion && extends (ci e) (strip3 (w ++ B [32])) (strip3 (vc_word vc)))
                        then [] else [tag3 C02 k_sound sh w]) rec) ++
  (* completeness: only when every record was readable (otherwise C03 reports) *)
  (if readable then
     flat_map (fun c =>
       if (unf || extends (ci e) (value c) (vc_word vc)) && negb (has_c0 (value c))
          && negb (is_sh sh s_powershell && str_eqb (value c) [])
          && negb (is_sh sh s_ion && has_suffix (strip3 (value c)) (B [32]))
       then if existsb (fun w => eq3 w (match_trim (ci e) (value c) pre)) rec then [] else [tag3 C02 k_complete sh (value c)]
       else []) (vc_values vc)
   else []).

(* C06, model free, for the formats without a message channel.  Where a format shows
   descriptions only in its listing mode (bash COMP_TYPE=63, tcsh / oil with several replies)
   the message text is looked for there; blanks are `_` in tcsh. *)
Definition is_err_display (s : str) : bool :=
  has_prefix s ERR && forallb (fun c => let n := nat_of_ascii c in (48 <=? n) && (n <=? 57)) (drop 3 s).
Definition squash (s : str) : str :=
  map (fun c => if beq c (byte 32) then byte 95 else c) (filter (fun c => negb (beq c (byte 92) || is3 c)) s).
Definition c06_entries (vc : vcase) (shows_desc : bool) (ds : list drec) : list str :=
  let sh := vc_shell vc in
  let msgs := messages (vc_meta vc) in
  match msgs with
  | [] => []
  | _ =>
    (if 2 <=? length ds then [] else [tag3 C06 k_two sh (idx (length ds))]) ++
    (if shows_desc then
       flat_map (fun m =>
         if has_c0 m then [] else
         let want := squash (trimmed_description m) in
         if existsb (fun d => let all := d_insert d ++ d_display d ++ d_desc d in
                              contains all ERR && contains (squash all) want) ds
         then [] else [tag3 C06 k_msg sh m]) msgs
     else [])
  end.
(* the inserted values of the error entries are distinct from every other inserted value *)
Definition is_err_cand (vc : vcase) (c : raw) : bool :=
  is_err_display (display c) && existsb (str_eqb (description c)) (messages (vc_meta vc)) && str_eqb (tag c) [].
Fixpoint c06_distinct (vc : vcase) (cands : list raw) (ds : list drec) (all : list drec) (i : nat) : list str :=
  match cands, ds with
  | c :: cands', d :: ds' =>
      (if is_err_cand vc c &&
          (1 <? length (filter (fun d' => str_eqb (d_insert d') (d_insert d)) all))
       then [tag3 C06 k_distinct (vc_shell vc) (d_insert d)] else []) ++
      c06_distinct vc cands' ds' all (S i)
  | _, _ => []
  end.

Fixpoint strip_trailing_empty (rcands : list raw) : list raw :=
  match rcands with
  | c :: r => if str_eqb (strip3 (value c)) [] then strip_trailing_empty r else rcands
  | [] => []
  end.
Definition nodup_str (l : list str) : bool :=
  (fix go (l : list str) : bool :=
     match l with [] => true | x :: l' => negb (existsb (str_eqb x) l') && go l' end) l.

Definition case_in_claim (vc : vcase) : bool :=
  negb (existsb raw_has_c0 (vc_values vc) || existsb has_c0 (messages (vc_meta vc)) || has_c0 (usage (vc_meta vc))
        || has_c0 (vc_word vc)).

Definition oracle (vc : vcase) (raw_out : str) (jrecs : list drec) (jmsgs : list str) (jmeta : list str) : list str :=
  if negb (case_in_claim vc) then [] else
  let e := vc_env vc in let sh := vc_shell vc in let m := vc_meta vc in
  let ns' := stage_nospace e sh m in
  let framed (ds : option (list drec)) (k : list drec -> list str) : list str :=
      match ds with None => [tag3 C04 k_decode sh []] | Some ds => k ds end in
  let records (ds : list drec) : list str :=
      match emission_of vc with
      | ERecords cands =>
          (if length ds =? length cands then per_record vc ns' 0 cands ds
           else [tag3 C04 k_count sh (idx (length ds) ++ B [47] ++ idx (length cands))]) ++
          c02_checks vc ds ++
          (if has_channel sh then [] else
             c06_entries vc (negb (is_sh sh s_bash || is_sh sh s_tcsh || is_sh sh s_oil)) ds ++
             (if (length ds =? length cands) && negb (is_sh sh s_bash && unfiltered e)
              then c06_distinct vc cands ds ds 0 else []))
      | ECollapsed lcp =>
          match ds with
          | [d] => (if c03_ok vc (raw_from lcp []) (d_insert d) then [] else [tag3 C03 k_read sh lcp]) ++
                   (match read_insert vc (d_insert d) with
                    | RWord w _ =>
                        let pre := if is_sh sh s_bash then wbp (fe e) else [] in
                        if extends (ci e) (strip3 (pre ++ w)) (strip3 (vc_word vc)) || has_c0 w || has_c0 (vc_word vc) || unfiltered e then []
                        else [tag3 C02 k_collapse sh w]
                    | _ => []
                    end)
          | [] => match lcp with [] => [] | _ => [tag3 C04 k_count sh (B [48;47;49])] end  (* an empty step is no reply *)
          | _ => [tag3 C04 k_count sh (idx (length ds) ++ B [47;49])]
          end
      | EListOnly cands =>
          (if length ds =? length cands then [] else [tag3 C04 k_count sh (idx (length ds) ++ B [47] ++ idx (length cands))]) ++
          c06_entries vc true ds
      end in
  let simple (lines : list str) : list drec := map (fun l => mkD l l [] None [] []) lines in
  let records_bash (ds : list drec) : list str :=
      (* $(...) removes trailing newlines: candidates at the end whose insert text is empty vanish *)
      match emission_of vc with
      | ERecords cands =>
          let keep := length cands - length (strip_trailing_empty (rev cands)) in
          if (length ds <? length cands) && (length cands - keep <=? length ds) &&
             forallb (fun c => str_eqb (strip3 (value c)) []) (skipn (length ds) cands)
          then per_record vc ns' 0 (firstn (length ds) cands) ds
          else records ds
      | _ => records ds
      end in
  if is_sh sh s_bash then
    match decode_bash raw_out with
    | None => [tag3 C04 k_decode sh []]
    | Some (flag, lines) =>
        records_bash (simple lines) ++
        (* C05, bash: global flag *)
        match emission_of vc with
        | ERecords [c] => if ends_in_dropped (value c) || Bool.eqb flag (sm_matches ns' (value c)) then []
                          else [tag3 C05 k_space sh (value c)]
        | ECollapsed _ => if flag then [] else [tag3 C05 k_space sh k_collapse]
        | _ => []
        end
    end
  else if is_sh sh s_bash_ble then framed (decode_bash_ble raw_out) records
  else if is_sh sh s_fish then framed (decode_fish raw_out) records
  else if is_sh sh s_cmd_clink then
    framed (option_map (map (fun '(a, b, c, d) =>
              let g o := match o with Some x => x | None => [] end in
              mkD (g a) (g b) (g c) (Some (match d with Some x => negb (str_eqb x (B [32])) | None => false end)) [] []))
             (decode_cmd_clink raw_out)) records
  else if is_sh sh s_oil then
    framed (option_map (fun lines =>
              match lines with
              | [l] => [mkD (trim_suffix l (B [1])) [] [] (Some (has_suffix l (B [1]))) [] []]
              | _ => map (fun l => mkD l l [] None [] []) lines   (* several: display-only lines *)
              end) (decode_oil raw_out))
           (fun ds => match ds, emission_of vc with
                      | [d], ERecords [c] => records ds
                      | [], ERecords [c] => if str_eqb (strip3 (value c)) [] then [] else [tag3 C04 k_count sh (B [48;47;49])]
                      | _, ERecords cands =>
                          if length ds =? length cands then c06_entries vc true ds
                          else [tag3 C04 k_count sh (idx (length ds) ++ B [47] ++ idx (length cands))]
                      | _, _ => []
                      end)
  else if is_sh sh s_tcsh then
    framed (option_map simple (decode_tcsh raw_out))
           (fun ds => match ds, emission_of vc with
                      | _, ECollapsed _ => records ds
                      | [d], ERecords [c] => records ds
                      | _, ERecords cands =>     (* several: `value_(description)` words, shown only *)
                          if length ds =? length (filter (fun c => nonempty (tcsh_item c) || nonempty (description c)) cands) then c06_entries vc true ds
                          else [tag3 C04 k_count sh (idx (length ds) ++ B [47] ++ idx (length cands))]
                      | _, _ => []
                      end)
  else if is_sh sh s_zsh then
    match decode_zsh raw_out with
    | None => [tag3 C04 k_decode sh []]
    | Some (_, message, ds) =>
        records ds ++
        flat_map (fun msg => if has_c0 msg || contains message (strip3 msg) then [] else [tag3 C06 k_channel sh msg])
                 (messages m)
    end
  else (* JSON formats: records and channels were decoded by the JSON parser *)
    records jrecs ++
    (if is_sh sh s_elvish || is_sh sh s_export then
       (if list_eq_dec str_eq_dec jmsgs (messages m) then [] else [tag3 C06 k_channel sh []])
     else []) ++
    (if is_sh sh s_export then
       match jmeta with
       | [ns; us] => (if str_eqb ns (nospace m) then [] else [tag3 C05 k_meta sh ns]) ++
                     (if str_eqb us (usage m) then [] else [tag3 C04 k_meta sh us])
       | _ => [tag3 C04 k_decode sh []]
       end
     else []).

(* ---------- runner ---------- *)
Fixpoint take_drecs (n : nat) (l : list str) : option (list drec * list str) :=
  match n with
  | O => Some ([], l)
  | S n' => match l with
            | i :: d :: de :: ind :: st :: t :: l' =>
                let ind' := if str_eqb ind (B [49]) then Some true else if str_eqb ind (B [48]) then Some false else None in
                match take_drecs n' l' with
                | Some (rs, rest) => Some (mkD i d de ind' st t :: rs, rest)
                | None => None
                end
            | _ => None
            end
  end.

Fixpoint split_at_bar (l : list str) (acc : list str) : option (list str * list str) :=
  match l with
  | [] => None
  | x :: l' => if str_eqb x (B [0;124;0]) then Some (rev acc, l') else split_at_bar l' (x :: acc)
  end.

(* fields: <value case> | raw_out | njrecs recs... | nmsgs msgs... | nmeta meta... *)
Definition run_fmt_oracle (c : list str) : list str :=
  match split_at_bar c [] with
  | Some (casef, raw_out :: nr :: rest) =>
      match parse_value_case casef, undec nr with
      | Some vc, Some n =>
          match take_drecs n rest with
          | Some (jrecs, nm :: rest2) =>
              match undec nm with
              | Some k =>
                  match take_strs k rest2 with
                  | Some (jmsgs, nmeta :: rest3) =>
                      match undec nmeta with
                      | Some k2 => match take_strs k2 rest3 with
                                   | Some (jmeta, []) => B [79;75] :: oracle vc raw_out jrecs jmsgs jmeta
                                   | _ => bad
                                   end
                      | None => bad
                      end
                  | _ => bad
                  end
              | None => bad
              end
          | _ => bad
          end
      | _, _ => bad
      end
  | _ => bad
  end.

(* decode only: ok/fail, extra (bash flag / zsh message), then the records *)
Definition flat_drec (d : drec) : list str :=
  [d_insert d; d_display d; d_desc d;
   match d_ind d with Some true => B [49] | Some false => B [48] | None => B [45] end; d_style d; d_tag d].
Definition okS := B [111;107]. Definition failS := B [102;97;105;108].
Definition run_fdecode (c : list str) : list str :=
  match c with
  | [sh; raw_out] =>
      let simple (lines : list str) : list drec := map (fun l => mkD l l [] None [] []) lines in
      let pack (extra : str) (o : option (list drec)) : list str :=
          match o with None => [failS] | Some ds => okS :: extra :: flat_map flat_drec ds end in
      if is_sh sh s_bash then
        match decode_bash raw_out with
        | Some (flag, lines) => pack (bool_str flag) (Some (simple lines))
        | None => [failS]
        end
      else if is_sh sh s_bash_ble then pack [] (decode_bash_ble raw_out)
      else if is_sh sh s_fish then pack [] (decode_fish raw_out)
      else if is_sh sh s_cmd_clink then
        pack [] (option_map (map (fun '(a, b, c, d) =>
              let g o := match o with Some x => x | None => [] end in
              mkD (g a) (g b) (g c) (Some (match d with Some x => negb (str_eqb x (B [32])) | None => false end)) [] []))
             (decode_cmd_clink raw_out))
      else if is_sh sh s_oil then
        pack [] (option_map (fun lines =>
              match lines with
              | [l] => [mkD (trim_suffix l (B [1])) [] [] (Some (has_suffix l (B [1]))) [] []]
              | _ => simple lines
              end) (decode_oil raw_out))
      else if is_sh sh s_tcsh then pack [] (option_map simple (decode_tcsh raw_out))
      else if is_sh sh s_zsh then
        match decode_zsh raw_out with
        | Some (_, message, ds) => pack message (Some ds)
        | None => [failS]
        end
      else [failS]
  | _ => bad
  end.
