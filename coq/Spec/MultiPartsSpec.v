(* Spec/MultiPartsSpec.v — the set-theoretic specification of MultiParts (property C11)
   and the executable oracle that judges the implementation's output.

   Single non-empty divider d: [cuts d v] are the positions right after each occurrence
   of d in v (leftmost, non-overlapping scan).  For a typed text w the candidate of v is
   v cut at its first cut strictly beyond |w|, or v itself when there is none (then it is
   the final step and carries v's own description / style / tag).  No tokenizer involved. *)
From CV Require Import Base.Str Base.Utf8 Model.Common Model.MultiParts.
Local Open Scope nat_scope.

(* positions (counted from [pos]) right after each leftmost non-overlapping occurrence of d;
   [skip] = bytes of the current occurrence still to be passed *)
Fixpoint cuts (d : str) (skip pos : nat) (v : str) : list nat :=
  match v with
  | [] => []
  | _ :: v' =>
    match skip with
    | S k => cuts d k (S pos) v'
    | 0 => if has_prefix v d
           then (pos + length d) :: cuts d (length d - 1) (S pos) v'
           else cuts d 0 (S pos) v'
    end
  end.

Definition first_beyond (n : nat) (l : list nat) : option nat := find (fun c => n <? c) l.
Fixpoint last_upto (n : nat) (l : list nat) (acc : nat) : nat :=
  match l with
  | [] => acc
  | c :: l' => if c <=? n then last_upto n l' c else acc
  end.

Record cand := mkCand { c_value : str; c_display : str; c_final : bool }.

Definition spec_step (d w v : str) : cand :=
  let cs := cuts d 0 0 v in
  let from := last_upto (length w) cs 0 in
  match first_beyond (length w) cs with
  | Some c => mkCand (take c v) (drop from (take c v)) false
  | None => mkCand v (drop from v) true
  end.

Definition spec_candidates (d w : str) (vs : list str) : list cand :=
  map (spec_step d w) (filter (fun v => has_prefix v w) vs).

(* ------------------------------------------------------------------ oracle *)
Definition tag_ (k d : str) : str := k ++ B [58] ++ d.
Definition S_ (l : list nat) := B l.

(* boundaries of v: concat of the first k tokens, k = 1 .. *)
Fixpoint prefixes_acc (acc : str) (toks : list str) : list str :=
  match toks with
  | [] => []
  | t :: ts => (acc ++ t) :: prefixes_acc (acc ++ t) ts
  end.
Definition boundaries (ds : list str) (v : str) : list str := prefixes_acc [] (tokenize ds v).
Definition in_strs (x : str) (l : list str) : bool := existsb (str_eqb x) l.

Definition ends_with_divider (ds : list str) (c : str) : bool :=
  existsb (fun d => has_suffix c d) ds.

Definition count {A} (f : A -> bool) (l : list A) : nat := length (filter f l).

Section Oracle.
  Variable ci : bool.
  Variable ds : list str.
  Variable w : str.
  Variable vals : list raw.        (* the wrapped action's values *)
  Variable out : list raw.         (* what the implementation offered *)
  Variable out_nospace : str.

  Definition matching : list raw := filter (fun r => match_has_prefix ci (value r) w) vals.

  Definition chk_sound : list str :=
    flat_map (fun c =>
      if existsb (fun r => has_prefix (value r) (value c) &&
                           (str_eqb (value r) (value c) || ends_with_divider ds (value c))) matching
      then [] else [tag_ (S_ [117;110;115;111;117;110;100]) (value c)]) out.          (* unsound *)

  Definition chk_extends : list str :=
    flat_map (fun c => if match_has_prefix ci (value c) w then []
                       else [tag_ (S_ [110;111;116;45;101;120;116;101;110;100;105;110;103]) (value c)]) out.  (* not-extending *)

  (* every matching value continues exactly one candidate: among the boundaries of v that lie
     strictly beyond the typed text (or are v itself) exactly one is offered *)
  Definition chk_complete : list str :=
    flat_map (fun r =>
      let bs := filter (fun b => (length w <? length b) || str_eqb b (value r)) (boundaries ds (value r)) in
      let n := count (fun c => in_strs (value c) bs) out in
      match n with
      | 1 => []
      | 0 => [tag_ (S_ [105;110;99;111;109;112;108;101;116;101]) (value r)]           (* incomplete *)
      | _ => [tag_ (S_ [97;109;98;105;103;117;111;117;115]) (value r)]                (* ambiguous *)
      end) matching.

  (* a value different from the typed text must be approached by a candidate different from it *)
  Definition chk_progress : list str :=
    flat_map (fun r =>
      if str_eqb (value r) w then []
      else if existsb (fun c => has_prefix (value r) (value c) && negb (str_eqb (value c) w)) out then []
      else [tag_ (S_ [110;111;45;112;114;111;103;114;101;115;115]) (value r)]) matching.  (* no-progress *)

  (* metadata.  n = number of segments of the typed text.  A matching value r contributes to
     candidate c when c is r cut after its n-th segment; it is a final contributor when r has
     exactly n segments.  Only final contributors: c carries one such value's description,
     style and tag.  Only non-final ones: empty description and style, and the no-space set
     matches c.  Both kinds: either (the code keeps the last in slice order). *)
  Definition nseg : nat := length (tokenize ds w).
  Definition is_nil (s : str) : bool := match s with [] => true | _ => false end.
  Definition chk_meta : list str :=
    flat_map (fun c =>
      let contrib := filter (fun r => let t := tokenize ds (value r) in
                                      (nseg <=? length t) && str_eqb (concat (firstn nseg t)) (value c)) matching in
      let finals := filter (fun r => length (tokenize ds (value r)) =? nseg) contrib in
      let nonfinals := filter (fun r => negb (length (tokenize ds (value r)) =? nseg)) contrib in
      let as_final := existsb (fun r => str_eqb (description r) (description c) && str_eqb (style r) (style c)
                                        && str_eqb (tag r) (tag c)) finals in
      let as_inter := is_nil (description c) && is_nil (style c) && sm_matches out_nospace (value c) in
      match finals, nonfinals with
      | [], [] => []                                   (* reported by chk_sound *)
      | _ :: _, [] => if as_final then [] else [tag_ (S_ [109;101;116;97;100;97;116;97]) (value c)]     (* metadata *)
      | [], _ :: _ => if as_inter then [] else [tag_ (S_ [109;101;116;97;100;97;116;97]) (value c)]
      | _, _ => if as_final || as_inter then [] else [tag_ (S_ [109;101;116;97;100;97;116;97]) (value c)]
      end) out.

  (* exact agreement with the cut specification: one non-empty divider, case sensitive *)
  Definition cand_in (c : cand) (l : list raw) : bool :=
    existsb (fun r => str_eqb (value r) (c_value c) && str_eqb (display r) (c_display c)) l.
  Definition chk_spec : list str :=
    match ds, ci with
    | [d], false =>
      match d with
      | [] => []
      | _ =>
        let exp := spec_candidates d w (map value vals) in
        flat_map (fun c => if cand_in c out then [] else [tag_ (S_ [115;112;101;99;45;109;105;115;115;105;110;103]) (c_value c)]) exp  (* spec-missing *)
        ++ flat_map (fun r => if existsb (fun c => str_eqb (c_value c) (value r)) exp then []
                              else [tag_ (S_ [115;112;101;99;45;101;120;116;114;97]) (value r)]) out                                     (* spec-extra *)
      end
    | _, _ => []
    end.

  Definition mp_oracle : list str :=
    chk_sound ++ chk_extends ++ chk_complete ++ chk_progress ++ chk_meta ++ chk_spec.
End Oracle.
