(* Spec/Readers.v — the word grammars of the shells carapace quotes for (DESIGN appendix A).
   Each reader returns the single word (after quote removal) that the shell reads from the
   inserted text, [None] as soon as an unquoted character is active (terminates the word,
   starts an expansion, substitution, glob, comment or redirection) or the text is more or
   less than one word.  [read_*_sp] additionally accepts one trailing blank (the separating
   space that some formats carry inside the value) and reports it.
   Only documented rules are implemented; where the documentation leaves doubt the byte is
   treated as inert (permissive), so a reader can miss a defect but cannot invent one.
   History expansion is outside every reader. *)
From CV Require Import Base.Str.
Local Open Scope nat_scope.

Definition c_sp := byte 32. Definition c_tab := byte 9. Definition c_lf := byte 10. Definition c_cr := byte 13.
Definition c_sq := byte 39. Definition c_dq := byte 34. Definition c_bs := byte 92. Definition c_bt := byte 96.
Definition c_dollar := byte 36. Definition c_tilde := byte 126. Definition c_hash := byte 35.
Definition c_eq := byte 61. Definition c_lbrace := byte 123. Definition c_rbrace := byte 125.

Definition is (c : ascii) (set : list nat) : bool := existsb (fun n => beq c (byte n)) set.

(* ------------------------------------------------------------------ bash / osh *)
(* metacharacters, quotes' openers handled separately, expansions, globs *)
Definition bash_active_unquoted (c : ascii) : bool :=
  is c [32;9;10;124;38;59;40;41;60;62;   (* blank TAB LF | & ; ( ) < > *)
        36;96;                           (* $ ` *)
        42;63;91].                       (* * ? [ *)

(* inside "...": returns the content up to the closing quote and the rest *)
Fixpoint bash_dq (s : str) : option (str * str) :=
  match s with
  | [] => None
  | c :: s' =>
      if beq c c_dq then Some ([], s')
      else if beq c c_dollar || beq c c_bt then None
      else if beq c c_bs then
        match s' with
        | d :: s'' =>
            if is d [36;96;34;92] then option_map (fun '(w, r) => (d :: w, r)) (bash_dq s'')
            else if beq d c_lf then None
            else option_map (fun '(w, r) => (c :: w, r)) (bash_dq s')
        | [] => None
        end
      else option_map (fun '(w, r) => (c :: w, r)) (bash_dq s')
  end.
Fixpoint sq_body (s : str) : option (str * str) :=
  match s with
  | [] => None
  | c :: s' => if beq c c_sq then Some ([], s')
               else option_map (fun '(w, r) => (c :: w, r)) (sq_body s')
  end.

(* unquoted scanning; [fuel] bounds the mutual alternation with the quoted scanners *)
Fixpoint bash_word (fuel : nat) (s : str) : option str :=
  match fuel with
  | O => None
  | S f =>
    match s with
    | [] => Some []
    | c :: s' =>
        if beq c c_bs then
          match s' with
          | d :: s'' => if beq d c_lf then None else option_map (cons d) (bash_word f s'')
          | [] => None
          end
        else if beq c c_dq then
          match bash_dq s' with Some (w, r) => option_map (app w) (bash_word f r) | None => None end
        else if beq c c_sq then
          match sq_body s' with Some (w, r) => option_map (app w) (bash_word f r) | None => None end
        else if bash_active_unquoted c then None
        else if beq c c_lbrace && mem c_rbrace s' then None   (* may open a brace expansion *)
        else option_map (cons c) (bash_word f s')
    end
  end.
Definition read_bash (s : str) : option str :=
  match s with
  | [] => None                                   (* no word at all *)
  | c :: _ => if beq c c_hash then None          (* comment *)
              else bash_word (S (length s)) s    (* a leading ~ stays active by design *)
  end.

(* ------------------------------------------------------------------ zsh *)
(* what `_describe` does to the value column before insertion: \: -> :   \\ -> \ *)
Fixpoint describe_unescape (s : str) : str :=
  match s with
  | c :: ((d :: s'') as s') =>
      if beq c c_bs && (beq d (byte 58) || beq d c_bs) then d :: describe_unescape s''
      else c :: describe_unescape s'
  | _ => s
  end.
Definition zsh_active_unquoted (c : ascii) : bool :=
  bash_active_unquoted c || is c [123;125].      (* brace expansion characters *)
Fixpoint zsh_word (fuel : nat) (s : str) : option (str * str) :=   (* word, rest (at a blank) *)
  match fuel with
  | O => None
  | S f =>
    match s with
    | [] => Some ([], [])
    | c :: s' =>
        if beq c c_sp then Some ([], s)
        else if beq c c_bs then
          match s' with
          | d :: s'' => if beq d c_lf then None else option_map (fun '(w, r) => (d :: w, r)) (zsh_word f s'')
          | [] => None
          end
        else if beq c c_dq then
          match bash_dq s' with
          | Some (w, r) => option_map (fun '(w2, r2) => (w ++ w2, r2)) (zsh_word f r)
          | None => None
          end
        else if beq c c_sq then
          match sq_body s' with
          | Some (w, r) => option_map (fun '(w2, r2) => (w ++ w2, r2)) (zsh_word f r)
          | None => None
          end
        else if zsh_active_unquoted c then None
        else option_map (fun '(w, r) => (c :: w, r)) (zsh_word f s')
    end
  end.
(* [prefix]: the quote the user already typed ("" , "'" or dq); [closing]: the quote zsh keeps after
   the cursor in the fully quoted states.  Returns the word and whether a blank follows it. *)
Definition read_zsh_sp (prefix closing : str) (emitted : str) : option (str * bool) :=
  let text := prefix ++ describe_unescape emitted in
  match text with
  | [] => None
  | c :: _ =>
      if (beq c c_hash || beq c c_eq) then None
      else
        let go (t : str) :=
          match zsh_word (S (length t)) t with
          | Some (w, []) => Some (w, false)
          | Some (w, [sp]) => Some (w, true)
          | _ => None
          end in
        match closing with
        | [] => go text
        | _ => (* the blank, if any, would sit inside the quotes: compare the whole *)
               match zsh_word (S (length text + length closing)) (text ++ closing) with
               | Some (w, []) => Some (w, false)
               | _ => None
               end
        end
  end.

(* ------------------------------------------------------------------ nushell *)
Definition nu_active_bare (c : ascii) : bool :=
  is c [32;124;59;40;41;91;93;123;125;34;39;96].  (* blank | ; ( ) [ ] { } dq sq ` *)
Fixpoint nu_dq (s : str) : option (str * str) :=
  match s with
  | [] => None
  | c :: s' =>
      if beq c c_dq then Some ([], s')
      else if beq c c_bs then
        match s' with
        | d :: s'' => if beq d c_dq || beq d c_bs
                      then option_map (fun '(w, r) => (d :: w, r)) (nu_dq s'')
                      else None            (* any other escape would rewrite the text *)
        | [] => None
        end
      else option_map (fun '(w, r) => (c :: w, r)) (nu_dq s')
  end.
Fixpoint nu_bare (s : str) : option (str * str) :=
  match s with
  | [] => Some ([], [])
  | c :: s' => if beq c c_sp then Some ([], s)
               else if nu_active_bare c then None
               else option_map (fun '(w, r) => (c :: w, r)) (nu_bare s')
  end.
Definition tail_sp (r : str) : option bool :=
  match r with [] => Some false | [c] => if beq c c_sp then Some true else None | _ => None end.
Definition read_nushell_sp (s : str) : option (str * bool) :=
  match s with
  | [] => None
  | c :: s' =>
      if beq c c_dq then
        match nu_dq s' with
        | Some (w, r) => option_map (fun b => (w, b)) (tail_sp r)
        | None => None
        end
      else if beq c c_tilde && has_prefix s' [c_dq] then
        match nu_dq (drop 1 s') with
        | Some (w, r) => option_map (fun b => (c_tilde :: w, b)) (tail_sp r)
        | None => None
        end
      else if beq c c_dollar || beq c c_hash then None
      else match nu_bare s with
           | Some (w, r) => option_map (fun b => (w, b)) (tail_sp r)
           | None => None
           end
  end.

(* ------------------------------------------------------------------ PowerShell (argument mode) *)
Definition ps_active_bare (c : ascii) : bool :=
  is c [32;39;34;96;36;40;41;123;125;59;124;38;60;62;44].  (* blank ' dq ` $ ( ) { } ; | & < > , *)
Fixpoint ps_sq (s : str) : option (str * str) :=
  match s with
  | [] => None
  | c :: s' =>
      if beq c c_sq then
        match s' with
        | d :: s'' => if beq d c_sq then option_map (fun '(w, r) => (c_sq :: w, r)) (ps_sq s'')
                      else Some ([], s')
        | [] => Some ([], [])
        end
      else option_map (fun '(w, r) => (c :: w, r)) (ps_sq s')
  end.
Fixpoint ps_bare (s : str) : option (str * str) :=
  match s with
  | [] => Some ([], [])
  | c :: s' => if beq c c_sp then Some ([], s)
               else if ps_active_bare c then None
               else option_map (fun '(w, r) => (c :: w, r)) (ps_bare s')
  end.
Definition read_powershell_sp (s : str) : option (str * bool) :=
  match s with
  | [] => None
  | c :: s' =>
      if beq c c_sq then
        match ps_sq s' with
        | Some (w, r) => option_map (fun b => (w, b)) (tail_sp r)
        | None => None
        end
      else if beq c (byte 64) || beq c c_hash then None
      else match ps_bare s with
           | Some (w, r) => option_map (fun b => (w, b)) (tail_sp r)
           | None => None
           end
  end.

(* ------------------------------------------------------------------ xonsh (Python literals) *)
Fixpoint py_sq (s : str) : option (str * str) :=        (* '...' : only \' and \\ are value preserving *)
  match s with
  | [] => None
  | c :: s' =>
      if beq c c_sq then Some ([], s')
      else if beq c c_bs then
        match s' with
        | d :: s'' => if beq d c_sq || beq d c_bs
                      then option_map (fun '(w, r) => (d :: w, r)) (py_sq s'')
                      else None
        | [] => None
        end
      else if beq c c_lf then None
      else option_map (fun '(w, r) => (c :: w, r)) (py_sq s')
  end.
Fixpoint py_raw_sq (s : str) : option (str * str) :=    (* r'...' : a backslash keeps itself and the next byte *)
  match s with
  | [] => None
  | c :: s' =>
      if beq c c_sq then Some ([], s')
      else if beq c c_bs then
        match s' with
        | d :: s'' => option_map (fun '(w, r) => (c :: d :: w, r)) (py_raw_sq s'')
        | [] => None
        end
      else if beq c c_lf then None
      else option_map (fun '(w, r) => (c :: w, r)) (py_raw_sq s')
  end.
(* bare subprocess-mode words have no reader: [None] in the first component = "no verdict" *)
Inductive verdict := NoReader | Reads (w : option (str * bool)).
Definition read_xonsh_sp (s : str) : verdict :=
  match s with
  | c :: s' =>
      if beq c c_sq then
        Reads match py_sq s' with
              | Some (w, r) => option_map (fun b => (w, b)) (tail_sp r)
              | None => None
              end
      else if beq c (byte 114) && has_prefix s' [c_sq] then
        Reads match py_raw_sq (drop 1 s') with
              | Some (w, r) => option_map (fun b => (w, b)) (tail_sp r)
              | None => None
              end
      else NoReader
  | [] => NoReader
  end.

(* ------------------------------------------------------------------ tcsh *)
Definition tcsh_active (c : ascii) : bool :=
  is c [32;9;38;124;59;60;62;40;41;39;34;96;36;42;63;91;123].
Fixpoint tcsh_word (s : str) : option str :=
  match s with
  | [] => Some []
  | c :: s' =>
      if beq c c_bs then
        match s' with
        | d :: s'' => if beq d c_lf then None else option_map (cons d) (tcsh_word s'')
        | [] => None
        end
      else if tcsh_active c then None
      else option_map (cons c) (tcsh_word s')
  end.
Definition read_tcsh (s : str) : option str :=
  match s with
  | [] => None
  | _ => tcsh_word s
  end.
