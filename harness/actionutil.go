package main

import (
	"encoding/json"
	"fmt"
	"sort"
	"strconv"

	"github.com/carapace-sh/carapace"
	"github.com/carapace-sh/carapace/internal/common"
	"github.com/carapace-sh/carapace/internal/export"
)

// invokeSafe invokes an Action and returns meta and raw values (in the order the
// implementation produced them); a panic is reported instead of propagated.
func invokeSafe(a carapace.Action, c carapace.Context) (meta common.Meta, vals common.RawValues, panicked string) {
	defer func() {
		if r := recover(); r != nil {
			panicked = fmt.Sprint(r)
		}
	}()
	meta, vals = common.FromInvokedAction(a.Invoke(c))
	return
}

func rawFields(vals common.RawValues, sortByValue bool) []string {
	vs := make(common.RawValues, len(vals))
	copy(vs, vals)
	if sortByValue {
		sort.SliceStable(vs, func(i, j int) bool { return vs[i].Value < vs[j].Value })
	}
	out := []string{strconv.Itoa(len(vs))}
	for _, v := range vs {
		out = append(out, v.Value, v.Display, v.Description, v.Style, v.Tag)
	}
	return out
}

func strList(l []string) []string {
	return append([]string{strconv.Itoa(len(l))}, l...)
}

type rawSpec struct{ Value, Display, Description, Style, Tag string }

func rawSpecFields(l []rawSpec) []string {
	out := []string{strconv.Itoa(len(l))}
	for _, v := range l {
		out = append(out, v.Value, v.Display, v.Description, v.Style, v.Tag)
	}
	return out
}

// staticAction builds an Action with exactly the given raw values (value, display,
// description, style, tag) through the public API.
func staticAction(l []rawSpec) carapace.Action {
	// ActionStyledValuesDescribed sets display = value; to get arbitrary displays we go
	// through ActionImport of an export document instead (valid UTF-8 only).
	return importAction(l, nil, "", "")
}

func importAction(l []rawSpec, msgs []string, nospace string, usage string) carapace.Action {
	var e export.Export
	for _, m := range msgs {
		e.Meta.Messages.Add(m)
	}
	if nospace != "" {
		e.Meta.Nospace.Add([]rune(nospace)...)
	}
	e.Meta.Usage = usage
	e.Values = make(common.RawValues, 0, len(l))
	for _, v := range l {
		e.Values = append(e.Values, common.RawValue{Value: v.Value, Display: v.Display, Description: v.Description, Style: v.Style, Tag: v.Tag})
	}
	// not through Export.MarshalJSON (it sorts by value): keep the given order
	b, err := json.Marshal(struct {
		Version string `json:"version"`
		common.Meta
		Values common.RawValues `json:"values"`
	}{"v", e.Meta, e.Values})
	if err != nil {
		panic(err)
	}
	return carapace.ActionImport(b)
}

func nospaceString(sm common.SuffixMatcher) string {
	b, _ := sm.MarshalJSON()
	var s string
	_ = json.Unmarshal(b, &s)
	return s
}

func metaFields(m common.Meta) []string {
	msgs := m.Messages.Get()
	return append([]string{nospaceString(m.Nospace), m.Usage}, strList(msgs)...)
}

func atoi(s string) int { n, _ := strconv.Atoi(s); return n }
