package main

// `algebra` — C12: random Action expressions through the real library vs the model / the
// reference algebra.  An expression is a token list (prefix notation, see Run/RunAlgebra.v);
// buildExpr is the Go interpreter of that syntax, 1:1 with Spec/Algebra.v `denote`.

import (
	"os"
	"regexp"
	"sort"
	"strconv"
	"strings"

	"github.com/carapace-sh/carapace"
)

func init() {
	props["algebra"] = prop{
		configs: func(tier string) []map[string]string {
			return []map[string]string{{}, {}, {}, {"CARAPACE_MATCH": "1"}}
		},
		gen:   algGen,
		run:   algRun,
		shard: 3000,
		envOf: func(f []string) map[string]string {
			if f[0] == "1" {
				return map[string]string{"CARAPACE_MATCH": "1"}
			}
			return nil
		},
	}
}

var algWords = []string{"a", "b", "ab", "abc", "a/b", "a/b/c", "b/c", "x=1", "x=2", "y", "a,b", "", "é", "aé/x", "A", "Ab"}
var algSeps = []string{"/", ",", "=", "::", "", "é", "ab"}

type exprGen struct {
	r   *Rng
	out []string
}

func (g *exprGen) emit(s ...string) { g.out = append(g.out, s...) }
func (g *exprGen) word() string     { return g.r.Pick(algWords) }
func (g *exprGen) words(max int) []string {
	n := g.r.Intn(max + 1)
	l := make([]string, n)
	for i := range l {
		l[i] = g.word()
	}
	return l
}

func (g *exprGen) leaf() {
	switch g.r.Intn(9) {
	case 0, 1, 2:
		g.emit("V")
		g.emit(strList(g.words(5))...)
	case 3:
		l := g.words(6)
		if g.r.Chance(3, 4) && len(l)%2 == 1 {
			l = l[1:]
		}
		g.emit("D")
		g.emit(strList(l)...)
	case 4:
		l := g.words(6)
		if g.r.Chance(3, 4) {
			l = l[:len(l)-len(l)%3]
		}
		g.emit("T")
		g.emit(strList(l)...)
	case 5:
		g.emit("M", g.r.Pick([]string{"boom", "failed: x", "another error", "boom"}))
	case 6:
		g.emit("C")
	default: // static action with meta
		msgs := []string{}
		if g.r.Chance(1, 3) {
			msgs = append(msgs, "static msg")
		}
		ns := g.r.Pick([]string{"", "", "/", "*", ",=", "é"})
		g.emit("S", ns, g.r.Pick([]string{"", "", "static usage"}))
		g.emit(strList(msgs)...)
		n := g.r.Intn(4)
		vals := make([]rawSpec, n)
		for i := range vals {
			v := g.word()
			vals[i] = rawSpec{v, g.r.Pick([]string{v, "disp"}), g.r.Pick([]string{"", "desc"}), g.r.Pick([]string{"", "red"}), g.r.Pick([]string{"", "tag"})}
		}
		g.emit(rawSpecFields(vals)...)
	}
}

func (g *exprGen) expr(depth int) {
	if depth <= 0 || g.r.Chance(1, 5) {
		g.leaf()
		return
	}
	switch g.r.Intn(26) {
	case 0:
		g.emit("F")
		g.emit(strList(g.words(3))...)
		g.expr(depth - 1)
	case 1:
		g.emit("R")
		g.emit(strList(g.words(3))...)
		g.expr(depth - 1)
	case 2:
		g.emit("FA")
		g.expr(depth - 1)
	case 3:
		g.emit("FP")
		g.expr(depth - 1)
	case 4, 5:
		g.emit("P", g.r.Pick([]string{"", "a", "ab", "x=", "pre", "A", "é"}))
		g.expr(depth - 1)
	case 6:
		g.emit("X", g.r.Pick([]string{"", "/", "suf", "="}))
		g.expr(depth - 1)
	case 7:
		g.emit("Y", g.r.Pick([]string{"", "red", "blue bold"}))
		g.expr(depth - 1)
	case 8:
		g.emit("G", g.r.Pick([]string{"", "t1", "group"}))
		g.expr(depth - 1)
	case 9, 10:
		g.emit("U", g.r.Pick([]string{"", "outer usage", "usage two"}))
		g.expr(depth - 1)
	case 11, 12:
		rs := [][]string{{}, {"47"}, {"61", "44"}, {"42"}, {"233"}, {"47", "47"}, {"8364", "97"}}[g.r.Intn(7)]
		g.emit("N")
		g.emit(strList(rs)...)
		g.expr(depth - 1)
	case 13:
		g.emit("Q")
		g.emit(strList([][]string{{"boom"}, {"fail"}, {"nomatch"}, {"static", "another"}, {}}[g.r.Intn(5)])...)
		g.expr(depth - 1)
	case 14:
		g.emit("L", g.r.Pick([]string{"0", "0", "1"}))
		g.expr(depth - 1)
	case 15:
		g.emit("H", g.r.Pick([]string{"0", "1", "2", "5", "-1"}))
		g.expr(depth - 1)
	case 16, 17:
		ds := [][]string{{"/"}, {"/"}, {"="}, {"=", ","}, {"::"}, {}}[g.r.Intn(6)]
		g.emit("MP")
		g.emit(strList(ds)...)
		g.expr(depth - 1)
	case 18, 19:
		g.emit("MN", g.r.Pick(algSeps), g.r.Pick([]string{"-1", "-1", "0", "1", "2", "3", "4"}))
		g.expr(depth - 1)
		g.expr(depth - 1)
	case 24, 25:
		g.emit("PT")
		g.emit(strList(g.words(3))...)
		g.expr(depth - 1)
	case 20:
		g.emit("LI", g.r.Pick(algSeps))
		g.expr(depth - 1)
	case 21:
		g.emit("UL", g.r.Pick(algSeps))
		g.expr(depth - 1)
	default:
		n := g.r.Intn(4)
		g.emit("B", strconv.Itoa(n))
		for i := 0; i < n; i++ {
			g.expr(depth - 1)
		}
	}
}

func algGen(r *Rng, i int, cfg int, tier string) []string {
	ci := os.Getenv("CARAPACE_MATCH") != ""
	g := &exprGen{r: r}
	g.expr(1 + r.Intn(4))
	v := r.Pick([]string{"", "", "a", "ab", "a/", "a/b", "a/b/", "x=", "x=1,", "pre", "a,b,", "abab", "é", "A", "a::b::", "b"})
	args := g2words(r, 3)
	parts := g2words(r, 2)
	cf := []string{"0", v}
	if ci {
		cf[0] = "1"
	}
	cf = append(cf, strList(args)...)
	cf = append(cf, strList(parts)...)
	cf = append(cf, g.out...)
	for _, t := range g.out {
		switch t {
		case "V", "D", "T", "S", "M", "C", "F", "R", "FA", "FP", "P", "X", "Y", "G", "U", "N", "Q", "L", "H", "MP", "MN", "LI", "UL", "B", "PT":
			note("node=" + t)
		}
	}
	return cf
}

func g2words(r *Rng, max int) []string {
	n := r.Intn(max + 1)
	l := make([]string, n)
	for i := range l {
		l[i] = r.Pick([]string{"a", "b", "x=1", "ab", "a/b"})
	}
	return l
}

var curPool []carapace.Action

// buildExpr consumes one expression from the token list
func buildExpr(t []string) (carapace.Action, []string) {
	head, t := t[0], t[1:]
	list := func() []string { var l []string; l, t = takeList(t); return l }
	sub := func() carapace.Action { var a carapace.Action; a, t = buildExpr(t); return a }
	switch head {
	case "V":
		return carapace.ActionValues(list()...), t
	case "D":
		return carapace.ActionValuesDescribed(list()...), t
	case "T":
		return carapace.ActionStyledValuesDescribed(list()...), t
	case "S":
		ns, us := t[0], t[1]
		t = t[2:]
		msgs := list()
		var vals []rawSpec
		vals, t = takeRaws(t)
		return importAction(vals, msgs, ns, us), t
	case "M":
		m := t[0]
		return carapace.ActionMessage(m), t[1:]
	case "MF": // ActionMessage(format, arg)
		pre, suf, arg := t[0], t[1], t[2]
		return carapace.ActionMessage(strings.ReplaceAll(pre, "%", "%%")+"%v"+strings.ReplaceAll(suf, "%", "%%"), arg), t[3:]
	case "SH": // a static Action built once and shared by every invocation
		ns, us := t[0], t[1]
		t = t[2:]
		msgs := list()
		var vals []rawSpec
		vals, t = takeRaws(t)
		shared := importAction(vals, msgs, ns, us).Invoke(carapace.Context{}).ToA()
		return carapace.ActionCallback(func(c carapace.Context) carapace.Action { return shared }), t
	case "SE": // a callback that sets a variable in its own Context and invokes the action beneath it
		k, v := t[0], t[1]
		t = t[2:]
		a := sub()
		return carapace.ActionCallback(func(c carapace.Context) carapace.Action {
			c.Setenv(k, v)
			return a.Invoke(c).ToA()
		}), t
	case "GE":
		k := t[0]
		return carapace.ActionCallback(func(c carapace.Context) carapace.Action {
			return carapace.ActionValues("E" + c.Getenv(k))
		}), t[1:]
	case "J": // schedule jitter inside a member; the completion is the wrapped action's
		a := sub()
		return carapace.ActionCallback(func(c carapace.Context) carapace.Action {
			jitter()
			return a
		}), t
	case "BS": // the SAME Action value as every member of a Batch
		n := atoi(t[0])
		t = t[1:]
		a := sub()
		as := make([]carapace.Action, n)
		for i := range as {
			as[i] = a
		}
		return carapace.Batch(as...).ToA(), t
	case "SHS": // like SH, but the shared Action went through Suppress (its message map is allocated, possibly empty)
		ns, us := t[0], t[1]
		t = t[2:]
		msgs := list()
		var vals []rawSpec
		vals, t = takeRaws(t)
		shared := importAction(vals, msgs, ns, us).Suppress("zzz-no-such-message").Invoke(carapace.Context{}).ToA()
		return carapace.ActionCallback(func(c carapace.Context) carapace.Action { return shared }), t
	case "MPP": // MultiPartsP over fixed paths with placeholders; the callback consults every match it is given
		a := sub()
		return a.MultiPartsP("/", "<.*>", func(placeholder string, matches map[string]string) carapace.Action {
			keys := make([]string, 0, len(matches))
			for k, v := range matches {
				keys = append(keys, k+"="+v)
			}
			sort.Strings(keys)
			return carapace.ActionValues(strings.Trim(placeholder, "<>") + "1", strings.Join(keys, "+")+"_")
		}), t
	case "LET": // bind one Action value (appended to the pool) for the body: sharing by reference
		bound := sub()
		curPool = append(curPool, bound)
		body := sub()
		curPool = curPool[:len(curPool)-1]
		return body, t
	case "REF":
		i := atoi(t[0])
		return curPool[i], t[1:]
	case "C":
		return carapace.ActionCallback(func(c carapace.Context) carapace.Action {
			return carapace.ActionValues("V"+c.Value, "A"+strings.Join(c.Args, "\x1f"), "P"+strings.Join(c.Parts, "\x1f"))
		}), t
	case "F":
		l := list()
		return sub().Filter(l...), t
	case "R":
		l := list()
		return sub().Retain(l...), t
	case "FA":
		return sub().FilterArgs(), t
	case "FP":
		return sub().FilterParts(), t
	case "P":
		p := t[0]
		t = t[1:]
		return sub().Prefix(p), t
	case "X":
		p := t[0]
		t = t[1:]
		return sub().Suffix(p), t
	case "Y":
		p := t[0]
		t = t[1:]
		return sub().Style(p), t
	case "G":
		p := t[0]
		t = t[1:]
		return sub().Tag(p), t
	case "U":
		p := t[0]
		t = t[1:]
		return sub().Usage("%v", p), t
	case "N":
		l := list()
		rs := make([]rune, len(l))
		for i, x := range l {
			rs[i] = rune(atoi(x))
		}
		return sub().NoSpace(rs...), t
	case "Q":
		l := append([]string{}, list()...) // the tokens belong to the case
		for i := range l {
			if strings.HasPrefix(l[i], "\x01I") { // tagged: ignore case, by an ungrouped inline flag
				l[i] = "(?i)" + regexp.QuoteMeta(l[i][2:])
			} else {
				l[i] = regexp.QuoteMeta(l[i])
			}
		}
		return sub().Suppress(l...), t
	case "L":
		b := t[0] == "1"
		t = t[1:]
		return sub().Unless(b), t
	case "H":
		n := atoi(t[0])
		t = t[1:]
		return sub().Shift(n), t
	case "MP":
		l := list()
		return sub().MultiParts(l...), t
	case "MN":
		sep, n := t[0], atoi(t[1])
		t = t[2:]
		a0 := sub()
		a1 := sub()
		return carapace.ActionMultiPartsN(sep, n, func(c carapace.Context) carapace.Action {
			if len(c.Parts) == 0 {
				return a0
			}
			return a1
		}), t
	case "LI":
		d := t[0]
		t = t[1:]
		return sub().List(d), t
	case "UL":
		d := t[0]
		t = t[1:]
		return sub().UniqueList(d), t
	case "PT":
		l := list()
		a := sub()
		return carapace.ActionCallback(func(c carapace.Context) carapace.Action {
			inv := a.Invoke(c)
			return carapace.Batch(inv.Filter(l...).ToA(), inv.Retain(l...).ToA()).ToA()
		}), t
	case "DF": // carapace.Diff(a, b): its result list is built by ranging over a map (determinism stream only, not in the model's grammar)
		a0 := sub()
		a1 := sub()
		return carapace.Diff(a0, a1), t
	case "B":
		n := atoi(t[0])
		t = t[1:]
		as := make([]carapace.Action, n)
		for i := range as {
			as[i] = sub()
		}
		return carapace.Batch(as...).ToA(), t
	}
	panic("bad expression token " + head)
}

func algRun(cf []string) []string {
	v := cf[1]
	args, rest := takeList(cf[2:])
	parts, rest := takeList(rest)
	a, _ := buildExpr(rest)
	meta, got, p := invokeSafe(a, carapace.Context{Value: v, Args: args, Parts: parts})
	if p != "" {
		note("panic")
		return []string{"panic"}
	}
	impl := []string{"ok"}
	impl = append(impl, metaFields(meta)...)
	return append(impl, rawFields(got, true)...)
}
