package main

// `batch` — C09 (results): Batch under real goroutines with schedule jitter vs the sequential
// merge (pure model / reference algebra).
// `batchrace` — C09 (races): the same kind of workload under the Go race detector
// (bin/harness-race); members share captured Actions, modify their Context, nest batches.

import (
	"math/rand"
	"os"
	"runtime"
	"strconv"
	"time"

	"github.com/carapace-sh/carapace"
)

func init() {
	props["batch"] = prop{
		configs: func(tier string) []map[string]string {
			return []map[string]string{{"VERIF_PROCS": "1"}, {"VERIF_PROCS": "2"}, {"VERIF_PROCS": "16"}, {"VERIF_PROCS": "16"}}
		},
		gen:   batchGen,
		run:   batchRun,
		shard: 1500,
	}
	props["batchrace"] = prop{
		configs: func(tier string) []map[string]string { return []map[string]string{{"VERIF_PROCS": "16"}, {"VERIF_PROCS": "4"}} },
		gen:     batchGen,
		run:     batchRun,
		shard:   400,
	}
}

// the package-level functions of math/rand are safe for concurrent use
func jitter() {
	switch rand.Intn(4) {
	case 0:
		runtime.Gosched()
	case 1:
		time.Sleep(time.Duration(rand.Intn(200)) * time.Microsecond)
	}
}

// members: jittered expressions, the same Action several times, nested batches, Setenv
func (g *exprGen) member(depth int) {
	switch g.r.Intn(8) {
	case 0, 1:
		g.emit("J")
		g.exprRef(depth, 0)
	case 2:
		g.emit("BS", strconv.Itoa(2+g.r.Intn(3)))
		g.exprRef(depth, 0)
	case 3:
		k := 2 + g.r.Intn(2)
		g.emit("B", strconv.Itoa(k))
		for i := 0; i < k; i++ {
			g.member(depth - 1)
		}
	case 4:
		g.emit("SE", g.r.Pick([]string{"MODE", "X", "NEW"}), g.r.Pick([]string{"1", "2"}))
		g.emit("J")
		g.emit("GE", g.r.Pick([]string{"MODE", "X", "NEW"}))
	case 5:
		g.emit(g.r.Pick([]string{"SH", "SHS"}), g.r.Pick([]string{"", "/"}), "")
		g.emit(strList([][]string{{}, {}, {"static msg"}}[g.r.Intn(3)])...)
		g.emit(rawSpecFields([]rawSpec{{"s1", "s1", "", "", ""}, {"s2", "s2", "d", "", ""}})...)
	default:
		g.exprRef(depth, 0)
	}
}

func batchGen(r *Rng, i int, cfg int, tier string) []string {
	g := &exprGen{r: r}
	n := 2 + r.Intn(4)
	if r.Chance(1, 4) { // one static Action shared by reference by several concurrently merging nested batches
		g.emit("LET", r.Pick([]string{"SH", "SHS", "SHS"}), r.Pick([]string{"", "/"}), "")
		g.emit(strList([][]string{{}, {}, {"static msg"}}[r.Intn(3)])...)
		g.emit(rawSpecFields([]rawSpec{{"s1", "s1", "", "", ""}, {"s2", "s2", "d", "", ""}})...)
		g.emit("B", strconv.Itoa(n))
		for k := 0; k < n; k++ {
			g.emit("B", "2", "REF", "0", "J", "M", "member error "+strconv.Itoa(k))
		}
	} else if r.Chance(1, 3) { // the same member expression (one Action value) several times, wrapped
		g.emit("N", "1", "47", "BS", strconv.Itoa(n))
		g.member(2)
	} else {
		g.emit("B", strconv.Itoa(n))
		for k := 0; k < n; k++ {
			g.member(2)
		}
	}
	cf := []string{"0E", r.Pick([]string{"", "a", "x=", "s"})}
	cf = append(cf, strList(g2words(r, 2))...)
	cf = append(cf, strList(nil)...)
	note("members=" + strconv.Itoa(n))
	return append(cf, g.out...)
}

func batchRun(cf []string) []string {
	if p := atoi(os.Getenv("VERIF_PROCS")); p > 0 {
		runtime.GOMAXPROCS(p)
	}
	v := cf[1]
	args, rest := takeList(cf[2:])
	parts, rest := takeList(rest)
	a, _ := buildExpr(rest)
	// the caller's environment has spare capacity, as contexts built from os.Environ() have
	env := append(make([]string, 0, 8), "MODE=default", "X=0", "HOME=/tmp")
	meta, got, p := invokeSafe(a, carapace.Context{Value: v, Args: args, Parts: parts, Env: env})
	if p != "" {
		return []string{"panic"}
	}
	impl := []string{"ok"}
	impl = append(impl, metaFields(meta)...)
	return append(impl, rawFields(got, true)...)
}
