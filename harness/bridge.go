package main

// Stream `bridge` (C20).
//  A: completions registered with carapace, served (i) by `_carapace export` and (ii) through
//     cobra's own protocol `__complete` at the same position of the same tree.
//  B: completion functions registered with cobra (values + directive), served by carapace; next
//     to the real answer the harness records what carapace serves when that slot is registered
//     directly with ActionDirectories / ActionFiles (the references the directive may map to).

import (
	"bytes"
	"encoding/json"
	"os"
	"path/filepath"
	"sort"
	"strconv"
	"strings"

	"github.com/carapace-sh/carapace"
	"github.com/carapace-sh/carapace/pkg/x"
	"github.com/spf13/cobra"
)

func init() {
	props["bridge"] = prop{
		configs: func(tier string) []map[string]string { return []map[string]string{{}} },
		gen:     bridgeGen,
		run:     bridgeRun,
		shard:   400,
	}
}

type bAction struct {
	vals    []string // value, description pairs
	nospace string
}

func genBAction(r *Rng, marker string) bAction {
	n := 1 + r.Intn(3)
	var a bAction
	for i := 0; i < n; i++ {
		v := marker + strconv.Itoa(i) + r.Pick([]string{"", "/", ":", "=", " x", "é"})
		d := r.Pick([]string{"", "", "desc", "a description: with colon", "tab\tinside", " lead"})
		a.vals = append(a.vals, v, d)
	}
	a.nospace = r.Pick([]string{"", "", "/", "/:", "*", "="})
	return a
}

func (a bAction) fields() []string {
	return append(append([]string{a.nospace}, strList(a.vals)...))
}
func takeBAction(f []string) (bAction, []string) {
	ns := f[0]
	vals, rest := takeList(f[1:])
	return bAction{vals, ns}, rest
}
func (a bAction) action() carapace.Action {
	act := carapace.ActionValuesDescribed(a.vals...)
	if a.nospace != "" {
		act = act.NoSpace([]rune(a.nospace)...)
	}
	return act
}

// case A: "A" npos (action)* hasAny (action) ndash (action)* hasDashAny (action) flagaction <words> cur
// case B: "B" where(pos|flag) directive <values> dirname <words> cur
func bridgeGen(r *Rng, i int, cfg int, tier string) []string {
	word := func() string {
		return r.Pick([]string{"w1", "w2", "--", "--str", "v", "--str=v", "--bool", "w3"})
	}
	var words []string
	for k := r.Intn(4); k > 0; k-- {
		w := word()
		words = append(words, w)
		if w == "--str" {
			words = append(words, "v") // the flag's value: never something cobra's own heuristics read as a flag
		}
	}
	cur := r.Pick([]string{"", "", "", "p", "x"})
	if r.Chance(3, 5) {
		cf := []string{"A"}
		np := r.Intn(3)
		cf = append(cf, strconv.Itoa(np))
		for k := 0; k < np; k++ {
			cf = append(cf, genBAction(r, "p"+strconv.Itoa(k)+"-").fields()...)
		}
		if r.Chance(1, 2) {
			cf = append(cf, "1")
			cf = append(cf, genBAction(r, "pany-").fields()...)
		} else {
			cf = append(cf, "0")
		}
		nd := r.Intn(3)
		cf = append(cf, strconv.Itoa(nd))
		for k := 0; k < nd; k++ {
			cf = append(cf, genBAction(r, "d"+strconv.Itoa(k)+"-").fields()...)
		}
		if r.Chance(1, 2) {
			cf = append(cf, "1")
			cf = append(cf, genBAction(r, "dany-").fields()...)
		} else {
			cf = append(cf, "0")
		}
		cf = append(cf, genBAction(r, "f-").fields()...)
		cf = append(cf, genBAction(r, "pers-").fields()...)
		cf = append(cf, genBAction(r, "sub-").fields()...)
		cf = append(cf, genBAction(r, "leaf-").fields()...)
		if r.Chance(2, 5) {
			// below a sub-command with a persistent flag of its own
			pre := []string{"sub"}
			if r.Chance(1, 2) {
				pre = append(pre, "leaf")
			}
			var w2 []string
			for _, w := range words {
				if w == "--str" || w == "--str=v" {
					w = strings.Replace(w, "--str", "--pers", 1)
				}
				if w == "--bool" {
					continue
				}
				w2 = append(w2, w)
			}
			words = append(pre, w2...)
			if r.Chance(1, 3) {
				words = append(words, "--pers")
			}
		}
		cf = append(cf, strList(words)...)
		note("kind=A")
		return append(cf, cur)
	}
	// B
	d := 0
	for _, b := range []int{1, 2, 4, 8, 16} {
		if r.Chance(1, 4) {
			d |= b
		}
	}
	var vals []string
	for k := r.Intn(3); k > 0; k-- {
		vals = append(vals, r.Pick([]string{"alpha", "beta\tthe second", "g:x\tdesc: colon", "txt", "md", "sub", "with space", "t\ta\tb"}))
	}
	if d&16 != 0 && len(vals) > 0 && r.Chance(2, 3) {
		vals[0] = r.Pick([]string{"sub", "sub/deep", "nowhere"})
	}
	where := r.Pick([]string{"pos", "flag"})
	if where == "flag" {
		var w2 []string
		for _, w := range words {
			if w != "--" {
				w2 = append(w2, w)
			}
		}
		words = append(w2, "--str")
	}
	cf := []string{"B", where, strconv.Itoa(d)}
	cf = append(cf, strList(vals)...)
	cf = append(cf, strList(words)...)
	note("kind=B")
	note("directive=" + strconv.Itoa(d))
	return append(cf, cur)
}

type bExport struct {
	Messages []string `json:"messages"`
	Nospace  string   `json:"nospace"`
	Values   []struct {
		Value       string `json:"value"`
		Description string `json:"description"`
	} `json:"values"`
}

func parseExport(raw []byte) (bExport, bool) {
	if k := bytes.Index(raw, []byte("{\"version\"")); k > 0 {
		raw = raw[k:]
	}
	var doc bExport
	if err := json.Unmarshal(raw, &doc); err != nil {
		return doc, false
	}
	// sub-command names cobra / carapace add on their own at the first positional are not part of the bridge
	kept := doc.Values[:0]
	for _, v := range doc.Values {
		if v.Value == "completion" || v.Value == "help" || v.Value == "_carapace" || (bridgeFilterSubs && (v.Value == "sub" || v.Value == "leaf")) {
			continue
		}
		kept = append(kept, v)
	}
	doc.Values = kept
	sort.Strings(doc.Messages)
	return doc, true
}

// canonical text of an export: sorted value US description records, no-space, messages
func canonExport(raw []byte) string {
	doc, ok := parseExport(raw)
	if !ok {
		return "noexport"
	}
	var recs []string
	for _, v := range doc.Values {
		recs = append(recs, v.Value+"\x1f"+v.Description)
	}
	sort.Strings(recs)
	return strings.Join(recs, "\x1e") + "|ns=" + doc.Nospace + "|msg=" + strings.Join(doc.Messages, "\x1e")
}

// ns nmsgs msgs... n (value description)*
func exportFields(raw []byte) []string {
	doc, ok := parseExport(raw)
	if !ok {
		return []string{"noexport"}
	}
	out := append([]string{doc.Nospace}, strList(doc.Messages)...)
	out = append(out, strconv.Itoa(len(doc.Values)))
	for _, v := range doc.Values {
		out = append(out, v.Value, v.Description)
	}
	return out
}

func runRoot(root *cobra.Command, args []string) (string, bool) {
	var stdout, stderr bytes.Buffer
	root.SetOut(&stdout)
	root.SetErr(&stderr)
	root.SetArgs(args)
	panicked := false
	func() {
		defer func() {
			if p := recover(); p != nil {
				panicked = true
			}
		}()
		root.Execute()
	}()
	return stdout.String(), panicked
}

func bridgeRoot() *cobra.Command {
	x.ClearStorage()
	root := &cobra.Command{Use: "root", Args: cobra.ArbitraryArgs, Run: func(*cobra.Command, []string) {}}
	root.Flags().String("str", "", "")
	root.Flags().Bool("bool", false, "")
	return root
}

var bridgeSeq int
var bridgeFilterSubs bool

func bridgeRun(cf []string) []string {
	os.Setenv("CARAPACE_UNFILTERED", "1")
	bridgeFilterSubs = cf[0] == "A"
	if cf[0] == "A" {
		f := cf[1:]
		build := func() *cobra.Command {
			g := f
			root := bridgeRoot()
			np := atoi(g[0])
			g = g[1:]
			var pos []carapace.Action
			for k := 0; k < np; k++ {
				var a bAction
				a, g = takeBAction(g)
				pos = append(pos, a.action())
			}
			gen := carapace.Gen(root)
			gen.PositionalCompletion(pos...)
			if g[0] == "1" {
				var a bAction
				a, g = takeBAction(g[1:])
				gen.PositionalAnyCompletion(a.action())
			} else {
				g = g[1:]
			}
			nd := atoi(g[0])
			g = g[1:]
			var dash []carapace.Action
			for k := 0; k < nd; k++ {
				var a bAction
				a, g = takeBAction(g)
				dash = append(dash, a.action())
			}
			gen.DashCompletion(dash...)
			if g[0] == "1" {
				var a bAction
				a, g = takeBAction(g[1:])
				gen.DashAnyCompletion(a.action())
			} else {
				g = g[1:]
			}
			var fa, pa, sa, la bAction
			fa, g = takeBAction(g)
			gen.FlagCompletion(carapace.ActionMap{"str": fa.action()})
			pa, g = takeBAction(g)
			sa, g = takeBAction(g)
			la, g = takeBAction(g)
			sub := &cobra.Command{Use: "sub", Args: cobra.ArbitraryArgs, Run: func(*cobra.Command, []string) {}}
			sub.PersistentFlags().String("pers", "", "")
			leaf := &cobra.Command{Use: "leaf", Args: cobra.ArbitraryArgs, Run: func(*cobra.Command, []string) {}}
			sub.AddCommand(leaf)
			root.AddCommand(sub)
			carapace.Gen(sub).FlagCompletion(carapace.ActionMap{"pers": pa.action()})
			carapace.Gen(sub).PositionalAnyCompletion(sa.action())
			carapace.Gen(leaf).PositionalAnyCompletion(la.action())
			return root
		}
		// locate words / cur: skip the actions once
		g := f
		skip := func() {
			_, g = takeBAction(g)
		}
		np := atoi(g[0])
		g = g[1:]
		for k := 0; k < np; k++ {
			skip()
		}
		if g[0] == "1" {
			g = g[1:]
			skip()
		} else {
			g = g[1:]
		}
		nd := atoi(g[0])
		g = g[1:]
		for k := 0; k < nd; k++ {
			skip()
		}
		if g[0] == "1" {
			g = g[1:]
			skip()
		} else {
			g = g[1:]
		}
		skip()
		skip()
		skip()
		skip()
		words, rest := takeList(g)
		cur := rest[0]
		exp, p1 := runRoot(build(), append(append([]string{"_carapace", "export", "root"}, words...), cur))
		comp, p2 := runRoot(build(), append(append([]string{"__complete"}, words...), cur))
		if p1 || p2 {
			return []string{"panic"}
		}
		lines := strings.Split(strings.TrimRight(comp, "\n"), "\n")
		directive := ""
		if n := len(lines); n > 0 && strings.HasPrefix(lines[n-1], ":") {
			directive = lines[n-1][1:]
			lines = lines[:n-1]
		}
		var kept []string
		for _, l := range lines {
			if l == "" || strings.HasPrefix(l, "completion\t") || strings.HasPrefix(l, "help\t") || l == "_carapace" || l == "sub" || l == "leaf" {
				continue
			}
			kept = append(kept, l)
		}
		sort.Strings(kept)
		out := []string{"ok", "A", directive}
		out = append(out, strList(kept)...)
		return append(out, exportFields([]byte(exp))...)
	}
	// ---- B
	where, d := cf[1], atoi(cf[2])
	vals, rest := takeList(cf[3:])
	words, rest := takeList(rest)
	cur := rest[0]
	// a directory with something to list
	bridgeSeq++
	dir := filepath.Join(os.Getenv("VERIF_SCRATCH"), "bridge", strconv.Itoa(os.Getpid()))
	if bridgeSeq == 1 {
		os.MkdirAll(filepath.Join(dir, "sub", "deep"), 0o755)
		for _, n := range []string{"a.txt", "b.md", "c", "sub/d.txt", "sub/e.md", "sub/deep/f.txt"} {
			os.WriteFile(filepath.Join(dir, n), []byte("x"), 0o644)
		}
	}
	os.Chdir(dir)
	args := append(append([]string{"_carapace", "export", "root"}, words...), cur)
	fn := func(cmd *cobra.Command, a []string, toComplete string) ([]string, cobra.ShellCompDirective) {
		return vals, cobra.ShellCompDirective(d)
	}
	var lastRaw []byte
	with := func(register func(root *cobra.Command)) string {
		root := bridgeRoot()
		register(root)
		out, p := runRoot(root, args)
		if p {
			return "panic"
		}
		lastRaw = []byte(out)
		return canonExport([]byte(out))
	}
	direct := func(a carapace.Action) func(root *cobra.Command) {
		return func(root *cobra.Command) {
			if where == "pos" {
				carapace.Gen(root).PositionalAnyCompletion(a)
				carapace.Gen(root).DashAnyCompletion(a)
			} else {
				carapace.Gen(root).FlagCompletion(carapace.ActionMap{"str": a})
			}
		}
	}
	real := with(func(root *cobra.Command) {
		if where == "pos" {
			root.ValidArgsFunction = fn
		} else {
			root.RegisterFlagCompletionFunc("str", fn)
		}
		carapace.Gen(root)
	})
	realFields := exportFields(lastRaw)
	var exts []string
	for _, v := range vals {
		exts = append(exts, "."+v)
	}
	first := ""
	if len(vals) > 0 {
		first = vals[0]
	}
	out := []string{"ok", "B", real,
		with(direct(carapace.ActionDirectories())),
		with(direct(carapace.ActionDirectories().Chdir(first))),
		with(direct(carapace.ActionFiles(exts...))),
		with(direct(carapace.ActionFiles())),
		with(direct(carapace.ActionDirectories().NoSpace())),
		with(direct(carapace.ActionDirectories().Chdir(first).NoSpace())),
		with(direct(carapace.ActionFiles(exts...).NoSpace())),
		with(direct(carapace.ActionFiles().NoSpace())),
	}
	return append(out, realFields...)
}
