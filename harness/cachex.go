package main

// `cache` — C14: histories of Action.Cache invocations at five call sites, with the clock
// advanced by back-dating the cache files, foreign content planted, entries removed.

import (
	"errors"
	"os"
	"path/filepath"
	"runtime"
	"strconv"
	"time"

	"github.com/carapace-sh/carapace"
	"github.com/carapace-sh/carapace/internal/cache"
	"github.com/carapace-sh/carapace/pkg/cache/key"
)

func init() {
	props["cache"] = prop{
		configs: func(tier string) []map[string]string { return []map[string]string{{}} },
		gen:     cacheGen,
		run:     cacheRun,
		shard:   60,
	}
}

// five distinct call sites; the second value is the caller position Action.Cache sees
func site0(a carapace.Action, t time.Duration, k ...key.Key) (carapace.Action, string, int) { _, f, l, _ := runtime.Caller(0); return a.Cache(t, k...), f, l }
func site1(a carapace.Action, t time.Duration, k ...key.Key) (carapace.Action, string, int) { _, f, l, _ := runtime.Caller(0); return a.Cache(t, k...), f, l }
func site2(a carapace.Action, t time.Duration, k ...key.Key) (carapace.Action, string, int) { _, f, l, _ := runtime.Caller(0); return a.Cache(t, k...), f, l }
func site3(a carapace.Action, t time.Duration, k ...key.Key) (carapace.Action, string, int) { _, f, l, _ := runtime.Caller(0); return a.Cache(t, k...), f, l }
func site4(a carapace.Action, t time.Duration, k ...key.Key) (carapace.Action, string, int) { _, f, l, _ := runtime.Caller(0); return a.Cache(t, k...), f, l }

var sites = []func(carapace.Action, time.Duration, ...key.Key) (carapace.Action, string, int){site0, site1, site2, site3, site4}

var cacheKeyVals = []string{"a", "b", "", "a\x01b", "x\ny", "k1"}

func cacheGen(r *Rng, i int, cfg int, tier string) []string {
	cf := []string{carapaceVersion()}
	n := 3 + r.Intn(10)
	type sk struct {
		site string
		ids  []string
	}
	var used []sk
	for k := 0; k < n; k++ {
		switch x := r.Intn(10); {
		case x < 6: // invoke
			site := strconv.Itoa(r.Intn(3))
			nk := r.Intn(3)
			ids := make([]string, nk)
			for j := range ids {
				ids[j] = r.Pick(cacheKeyVals)
			}
			if len(used) > 0 && r.Chance(3, 5) { // mostly revisit an earlier (site, keys)
				u := used[r.Intn(len(used))]
				site, ids = u.site, u.ids
			}
			used = append(used, sk{site, ids})
			k1 := "1"
			if r.Chance(1, 15) && len(ids) > 0 { // a key error needs at least one key function
				k1 = "0"
			}
			ids2 := ids
			k2 := "1"
			if r.Chance(1, 8) && len(ids) > 0 { // keys change as a side effect of the invocation
				ids2 = append([]string{}, ids...)
				ids2[r.Intn(len(ids2))] = r.Pick(cacheKeyVals)
				used = append(used, sk{site, ids2})
			} else if r.Chance(1, 15) && len(ids) > 0 {
				k2 = "0"
			}
			timeout := r.Pick([]string{"3600", "3600", "7200", "-1", "-3600", "86400"})
			cf = append(cf, "I", site, k1)
			cf = append(cf, strList(ids)...)
			cf = append(cf, k2)
			cf = append(cf, strList(ids2)...)
			cf = append(cf, timeout)
			// result of a real invocation now
			var msgs []string
			if r.Chance(1, 5) {
				msgs = []string{"failed " + strconv.Itoa(k)}
			}
			cf = append(cf, r.Pick([]string{"", "/", "*"}), r.Pick([]string{"", "usage"}))
			cf = append(cf, strList(msgs)...)
			nv := r.Intn(4)
			vals := make([]rawSpec, nv)
			for j := range vals {
				v := r.Pick([]string{"x", "y", "é\"", "z z", "<a>"}) + strconv.Itoa(k)
				vals[j] = rawSpec{v, v, r.Pick([]string{"", "desc " + strconv.Itoa(k)}), r.Pick([]string{"", "red"}), r.Pick([]string{"", "tag"})}
			}
			cf = append(cf, rawSpecFields(vals)...)
			note("op=invoke")
		case x < 8: // advance the clock: amounts = 7 mod 1000, so no sum of at most 12 of them comes within 7 s of a timeout (3600, 7200, 86400)
			cf = append(cf, "A", r.Pick([]string{"1007", "2007", "3007", "5007", "9007", "90007", "7"}))
			note("op=advance")
		case x < 9 && len(used) > 0: // plant foreign content under an existing name
			u := used[r.Intn(len(used))]
			cf = append(cf, "C", u.site)
			cf = append(cf, strList(u.ids)...)
			planted := "{\"values\":[{\"value\":\"planted\",\"display\":\"planted\"}]}"
			full := string(marshalExport("/", "u", nil, []rawSpec{{"p1", "p1", "d", "", ""}, {"p2", "p2", "", "red", "t"}}))
			cf = append(cf, r.Pick([]string{"", "{", "garbage", planted, "{\"values\":5}", "null", "[]",
				planted + "x", planted + " \n", planted + "}", full + "\"},{\"value\":\"stale\"}]}", full[:len(full)/2], full[:len(full)-1], full + full, " " + full}))
			note("op=corrupt")
		case len(used) > 0:
			u := used[r.Intn(len(used))]
			cf = append(cf, "R", u.site)
			cf = append(cf, strList(u.ids)...)
			note("op=remove")
		}
	}
	return cf
}

var cacheSeq int

func cacheRun(cf []string) []string {
	cacheSeq++
	dir := filepath.Join(os.Getenv("VERIF_SCRATCH"), "xdg", strconv.Itoa(os.Getpid())+"-"+strconv.Itoa(cacheSeq))
	os.MkdirAll(dir, 0o755)
	defer os.RemoveAll(dir)
	os.Setenv("XDG_CACHE_HOME", dir)
	out := []string{"ok"}
	t := cf[1:]
	// key state shared with the key functions
	var cur []string
	var keyErr bool
	mkKeys := func(n int) []key.Key {
		ks := make([]key.Key, n)
		for i := range ks {
			i := i
			ks[i] = func() (string, error) {
				if keyErr || i >= len(cur) {
					return "", errors.New("key failed")
				}
				return cur[i], nil
			}
		}
		return ks
	}
	pathOf := func(site int, ids []string) string {
		_, f, l := sites[site](carapace.ActionValues(), 0)
		cur, keyErr = ids, false
		p, _ := cache.File(f, l, mkKeys(len(ids))...)
		return p
	}
	for len(t) > 0 {
		op := t[0]
		t = t[1:]
		switch op {
		case "I":
			site := atoi(t[0])
			k1ok := t[1] == "1"
			var ids, ids2 []string
			ids, t = takeList(t[2:])
			k2ok := t[0] == "1"
			ids2, t = takeList(t[1:])
			timeout := atoi(t[0])
			ns, us := t[1], t[2]
			var msgs []string
			msgs, t = takeList(t[3:])
			var vals []rawSpec
			vals, t = takeRaws(t)
			calls := 0
			inner := carapace.ActionCallback(func(c carapace.Context) carapace.Action {
				calls++
				cur, keyErr = ids2, !k2ok // what the key functions see after the invocation
				return importAction(vals, msgs, ns, us)
			})
			cur, keyErr = ids, !k1ok
			nk := len(ids)
			a, _, _ := sites[site](inner, time.Duration(timeout)*time.Second, mkKeys(nk)...)
			meta, got, p := invokeSafe(a, carapace.Context{})
			if p != "" {
				return []string{"panic", p}
			}
			real := "0"
			if calls > 0 {
				real = "1"
			}
			out = append(out, real)
			out = append(out, metaFields(meta)...)
			out = append(out, rawFields(got, true)...)
			out = append(out, ";")
		case "A":
			d := time.Duration(atoi(t[0])) * time.Second
			t = t[1:]
			filepath.Walk(dir, func(p string, info os.FileInfo, err error) error {
				if err == nil && !info.IsDir() {
					mt := info.ModTime().Add(-d)
					os.Chtimes(p, mt, mt)
				}
				return nil
			})
		case "C":
			site := atoi(t[0])
			var ids []string
			ids, t = takeList(t[1:])
			b := t[0]
			t = t[1:]
			os.WriteFile(pathOf(site, ids), []byte(b), 0o600)
		case "R":
			site := atoi(t[0])
			var ids []string
			ids, t = takeList(t[1:])
			os.Remove(pathOf(site, ids))
		}
	}
	return out
}
