package main

// `crash` — C15: a writer process is stopped after k bytes (RLIMIT_FSIZE; write error or
// SIGXFSZ kill) for every k, for both cache flavours, with and without a previous (expired)
// entry; then a fresh reader process asks the cache and reports what it was handed.

import (
	"encoding/hex"
	"fmt"
	"os"
	"os/exec"
	"os/signal"
	"path/filepath"
	"strconv"
	"strings"
	"syscall"
	"time"

	"github.com/carapace-sh/carapace"
	pkgcache "github.com/carapace-sh/carapace/pkg/cache"
)

func init() {
	props["crash"] = prop{
		configs: func(tier string) []map[string]string { return []map[string]string{{}} },
		gen:     crashGen,
		run:     crashRun,
		shard:   120,
	}
}

func crashContent(tag byte, n int) string {
	b := make([]byte, n)
	for i := range b {
		b[i] = "0123456789abcdefghijklmnopqrstuvwxyz"[i%36]
	}
	if n > 0 {
		b[0] = tag
	}
	return string(b)
}

func crashDoc(content string) []byte {
	return marshalExport("", "", nil, []rawSpec{{content, content, "", "", ""}})
}

// the single call site of each flavour, shared by writers and readers
func crashCall(flavour, content string) (got string, real bool) {
	switch flavour {
	case "action":
		a := carapace.ActionCallback(func(c carapace.Context) carapace.Action {
			real = true
			return carapace.ActionValues(content)
		}).Cache(time.Hour)
		_, vals, p := invokeSafe(a, carapace.Context{})
		if p != "" {
			return "PANIC " + p, real
		}
		parts := make([]string, len(vals))
		for i, v := range vals {
			parts[i] = v.Value
		}
		return strings.Join(parts, "\x00"), real
	default:
		b, err := pkgcache.Cache(time.Hour)(func() ([]byte, error) {
			real = true
			return []byte(content), nil
		})
		if err != nil && b == nil {
			return "ERROR", real
		}
		return string(b), real
	}
}

func crashChild() {
	flavour := os.Args[2]
	cb, _ := hex.DecodeString(os.Args[3])
	limit := atoi(os.Args[4])
	if limit >= 0 {
		if os.Args[5] == "err" {
			signal.Ignore(syscall.SIGXFSZ)
		}
		lim := syscall.Rlimit{Cur: uint64(limit), Max: uint64(limit)}
		if err := syscall.Setrlimit(syscall.RLIMIT_FSIZE, &lim); err != nil {
			fmt.Println("rlimit-failed")
			os.Exit(3)
		}
	}
	got, real := crashCall(flavour, string(cb))
	r := "0"
	if real {
		r = "1"
	}
	fmt.Printf("%s %s\n", r, hex.EncodeToString([]byte(got)))
}

func crashSpawn(dir, flavour, content string, limit int, mode string) (real string, got string, ok bool) {
	self, _ := os.Executable()
	cmd := exec.Command(self, "crashproc", flavour, hex.EncodeToString([]byte(content)), strconv.Itoa(limit), mode)
	cmd.Env = append(baseEnv(dir), "XDG_CACHE_HOME="+dir)
	out, _ := cmd.Output()
	f := strings.Fields(strings.TrimSpace(string(out)))
	if len(f) == 0 {
		return "", "", false // killed before it could report (SIGXFSZ)
	}
	b := []byte{}
	if len(f) > 1 {
		b, _ = hex.DecodeString(f[1])
	}
	return f[0], string(b), true
}

var crashSizes = []int{1, 20, 150}

// the case space is enumerated, not sampled: flavour x size x previous entry x mode x cut offset
func crashGen(r *Rng, i int, cfg int, tier string) []string {
	idx := i
	for _, fl := range []string{"action", "raw"} {
		for _, n := range crashSizes {
			L := n
			if fl == "action" {
				L = len(crashDoc(crashContent('N', n)))
			}
			stride := 1
			if n > 100 && tier != "thorough" {
				stride = 3
			}
			ks := (L+1)/stride + 2
			for _, prev := range []string{"0", "1"} {
				for _, mode := range []string{"err", "kill"} {
					if idx < ks {
						k := idx * stride
						if k > L+1 {
							k = L + 1
						}
						note("flavour=" + fl)
						old, new_ := crashContent('O', n), crashContent('N', n)
						if fl == "action" { // what the files hold: the export documents
							old, new_ = string(crashDoc(old)), string(crashDoc(new_))
						}
						return []string{fl, strconv.Itoa(n), prev, mode, strconv.Itoa(k), strconv.Itoa(L), old, new_}
					}
					idx -= ks
				}
			}
		}
	}
	return nil
}

var crashSeq int

func crashRun(cf []string) []string {
	fl, n, prev, mode, k := cf[0], atoi(cf[1]), cf[2] == "1", cf[3], atoi(cf[4])
	crashSeq++
	dir := filepath.Join(os.Getenv("VERIF_SCRATCH"), "crash", strconv.Itoa(os.Getpid())+"-"+strconv.Itoa(crashSeq))
	os.MkdirAll(dir, 0o755)
	defer os.RemoveAll(dir)
	old, new_ := crashContent('O', n), crashContent('N', n)
	if prev {
		crashSpawn(dir, fl, old, -1, "err")
		// expire the complete previous entry so that the next writer rewrites it
		filepath.Walk(dir, func(p string, info os.FileInfo, err error) error {
			if err == nil && !info.IsDir() {
				mt := info.ModTime().Add(-2 * time.Hour)
				os.Chtimes(p, mt, mt)
			}
			return nil
		})
	}
	crashSpawn(dir, fl, new_, k, mode)
	real, got, ok := crashSpawn(dir, fl, "RECOMPUTED", -1, "err")
	if !ok {
		return []string{"reader-failed"}
	}
	switch {
	case real == "1" && got == "RECOMPUTED":
		return []string{"recomputed"}
	case got == new_:
		return []string{"new"}
	case got == old:
		return []string{"old"}
	default:
		return []string{"partial", got}
	}
}
