package main

// `determinism` — C10: the same Action expression is invoked and rendered for all 13
// formats many times in one process (Go randomises map iteration per `range`, goroutine
// schedules vary); every repetition must give byte-identical output.

import (
	"os"
	"strconv"
	"strings"

	"github.com/carapace-sh/carapace"
	"github.com/carapace-sh/carapace/internal/common"
	"github.com/carapace-sh/carapace/internal/shell"
	"github.com/carapace-sh/carapace/pkg/style"
)

func init() {
	props["determinism"] = prop{
		configs: func(tier string) []map[string]string {
			return []map[string]string{{}, {"NO_COLOR": "1"}, {"CARAPACE_MATCH": "1"}}
		},
		gen:   detGen,
		run:   detRun,
		shard: 400,
	}
}

// expressions biased towards equal displays with different values (Prefix/Suffix under
// Batch), equal values with different descriptions, several messages, map-built lists
func detGen(r *Rng, i int, cfg int, tier string) []string {
	g := &exprGen{r: r}
	shape := r.Intn(10)
	note("shape=" + strconv.Itoa(shape))
	switch shape {
	case 0, 1: // Batch(Prefix(p1, e), Prefix(p2, e), ...): equal displays, different values
		n := 2 + r.Intn(3)
		g.emit("B", strconv.Itoa(n))
		for k := 0; k < n; k++ {
			g.emit(r.Pick([]string{"P", "X"}), r.Pick([]string{"", "x", "y", "z", "x"}))
			g.emit("D")
			g.emit(strList([]string{"a", "d" + strconv.Itoa(k), "b", "", "c/d", "e"})...)
		}
	case 2: // several messages + values
		n := 2 + r.Intn(3)
		g.emit("B", strconv.Itoa(n+1))
		for k := 0; k < n; k++ {
			g.emit("M", r.Pick([]string{"boom", "second failure", "token expired", "cache not writable"}))
		}
		g.expr(2)
	case 3: // MultiParts over a Batch
		g.emit("MP", "1", "/", "B", "3")
		g.expr(2)
		g.expr(2)
		g.emit("V")
		g.emit(strList([]string{"a/b", "a/c", "a/b/c", "b/c"})...)
	case 4: // MultiParts over values that end up with EQUAL displays and different values below one segment
		n := 2 + r.Intn(3)
		g.emit("MP", "1", "/", "P", "a/", "B", strconv.Itoa(n))
		for k := 0; k < n; k++ {
			g.emit("X", strconv.Itoa(k), "V")
			g.emit(strList([]string{"x", "y"})...)
		}
	case 6: // a MultiParts stage on top of another: the inner one builds its list from a map, the outer one keeps the LAST of equal segments
		g.emit("MP", "1", "/", "MP", "2", "=", ",", "S", "", "static usage", "0", "4")
		g.emit("a/b/c", "a/b/c", "desc", "", r.Pick([]string{"tag", "t1"}))
		g.emit("ab", "ab", "", "red", "")
		g.emit("a/b", "disp", "", "", r.Pick([]string{"", "t2"}))
		g.emit("a/d", "a/d", "other", "blue", "t3")
	case 7: // Diff: merged through a map; equal displays with different values (Prefix / Suffix change the value only)
		g.emit("DF")
		for k := 0; k < 2; k++ {
			g.emit(r.Pick([]string{"P", "X"}), r.Pick([]string{"a/", "b/", "x", "", "y"}))
			g.emit("D")
			g.emit(strList([]string{"x", "dx" + strconv.Itoa(k), "y", "", "z", "dz"})...)
		}
	case 5: // segments that differ only in case: under CARAPACE_MATCH=1 one typed prefix reaches several of them
		g.emit("MP", "1", "/", "V")
		g.emit(strList([]string{"A/x", "a/x", "a/y", "A/y", "a/X", "b/x"})...)
	default:
		g.expr(2 + r.Intn(3))
	}
	v := r.Pick([]string{"", "", "a", "x", "a/", "xa"})
	if shape == 4 {
		v = r.Pick([]string{"a/", "a/x", ""})
	}
	if shape == 5 {
		v = r.Pick([]string{"a/", "A/", "a/x", "a"})
	}
	if shape == 6 {
		v = r.Pick([]string{"", "a", "a/"})
	}
	cf := []string{"0", v}
	cf = append(cf, strList(nil)...)
	cf = append(cf, strList(nil)...)
	cf = append(cf, g.out...)
	return cf
}

func renderAll(a carapace.Action, c carapace.Context) (res []string, panicked string) {
	meta, vals, p := invokeSafe(a, c)
	if p != "" {
		return nil, p
	}
	res = make([]string, len(allShells))
	for i, sh := range allShells {
		in := make(common.RawValues, len(vals))
		copy(in, vals)
		res[i] = shell.Value(sh, c.Value, meta, in)
	}
	return res, ""
}

func detRun(cf []string) []string {
	v := cf[1]
	args, rest := takeList(cf[2:])
	parts, rest := takeList(rest)
	reps := 25
	if os.Getenv("VERIF_REPS") != "" {
		reps = atoi(os.Getenv("VERIF_REPS"))
	}
	_ = style.Default
	var first []string
	for k := 0; k < reps; k++ {
		a, _ := buildExpr(rest) // fresh Action every repetition: C08 (repeatability) is not at stake here
		out, p := renderAll(a, carapace.Context{Value: v, Args: args, Parts: parts})
		if p != "" {
			return []string{"panic", p}
		}
		if k == 0 {
			first = out
			continue
		}
		for i := range out {
			if out[i] != first[i] {
				note("nondeterministic")
				return []string{"differs", allShells[i], strconv.Itoa(k), first[i], out[i]}
			}
		}
	}
	return []string{"same", strconv.Itoa(reps), strconv.Itoa(len(strings.Join(first, "")))}
}
