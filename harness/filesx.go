package main

// `path`  — C16 (tie of the path model): filepath.Clean / Dir / Base / Abs, exhaustively over short paths.
// `files` — C16: ActionFiles / ActionDirectories on generated trees materialised in a scratch
//           directory, with a Context.Dir that differs from the process working directory; the
//           candidates are judged here against an independent listing of the denoted directory.

import (
	"os"
	"path/filepath"
	"sort"
	"strconv"
	"strings"

	"github.com/carapace-sh/carapace"
)

func init() {
	props["path"] = prop{
		configs: func(tier string) []map[string]string { return []map[string]string{{}} },
		gen:     pathGen,
		run:     pathRun,
		shard:   6000,
	}
	props["files"] = prop{
		configs: func(tier string) []map[string]string { return []map[string]string{{}} },
		gen:     filesGen,
		run:     filesRun,
		shard:   150,
	}
}

var pathAlpha = []string{"a", ".", "/", "~", "b"}

// enumerate all paths of length <= 6 over {a . / ~ b} (19531 of them), then random longer ones
func pathGen(r *Rng, i int, cfg int, tier string) []string {
	if i < 19531 {
		s, n := "", i
		// mixed radix: lengths 0..6
		for l := 0; l <= 6; l++ {
			cnt := 1
			for k := 0; k < l; k++ {
				cnt *= 5
			}
			if n < cnt {
				for k := 0; k < l; k++ {
					s += pathAlpha[n%5]
					n /= 5
				}
				break
			}
			n -= cnt
		}
		return []string{s, "/w/d"}
	}
	n := 1 + r.Intn(12)
	s := ""
	for k := 0; k < n; k++ {
		s += r.Pick([]string{"a", "bc", ".", "..", "/", "/", "~", " ", "é", "//"})
	}
	return []string{s, "/w/d"}
}

func pathRun(cf []string) []string {
	p := cf[0]
	abs := p
	if filepath.IsAbs(p) {
		abs = filepath.Clean(p)
	} else {
		abs = filepath.Join(cf[1], p)
	}
	return []string{"ok", filepath.Clean(p), filepath.Dir(p), filepath.Base(p), abs}
}

type fsEntry struct{ path, kind, target string }

var fileNames = []string{"a", "b.txt", "c.go", ".hidden", "my file", "é.txt", "q\"uote", "dir", "sub", ".dot", "x.tar.gz", "B"}

func genTree(r *Rng, root string) []fsEntry {
	var es []fsEntry
	dirs := []string{root}
	es = append(es, fsEntry{root, "D", ""})
	es = append(es, fsEntry{root + "/home", "D", ""})
	dirs = append(dirs, root+"/home")
	n := 4 + r.Intn(10)
	seen := map[string]bool{root + "/home": true}
	for k := 0; k < n; k++ {
		parent := dirs[r.Intn(len(dirs))]
		p := parent + "/" + r.Pick(fileNames)
		if seen[p] {
			continue
		}
		seen[p] = true
		switch x := r.Intn(10); {
		case x < 3:
			es = append(es, fsEntry{p, "D", ""})
			dirs = append(dirs, p)
		case x < 5: // symbolic link: to a directory, a file, nowhere; absolute or relative
			var target string
			switch r.Intn(4) {
			case 0:
				target = dirs[r.Intn(len(dirs))]
			case 1:
				target = "nowhere"
			case 2:
				rel, _ := filepath.Rel(parent, dirs[r.Intn(len(dirs))])
				target = rel
			default:
				if len(es) > 2 {
					target = es[2+r.Intn(len(es)-2)].path
				} else {
					target = root
				}
			}
			es = append(es, fsEntry{p, "L", target})
		default:
			es = append(es, fsEntry{p, "F", ""})
		}
	}
	return es
}

// the case is generated with a placeholder root "/R"; run materialises it under a scratch directory
func filesGen(r *Rng, i int, cfg int, tier string) []string {
	root := "/R"
	es := genTree(r, root)
	var dirs []string
	dirs = append(dirs, root)
	for _, e := range es {
		if e.kind == "D" {
			dirs = append(dirs, e.path)
		}
	}
	cdir := dirs[r.Intn(len(dirs))]
	flags := ""
	if r.Chance(1, 3) {
		flags = "D"
	}
	var sfx []string
	if flags == "" && r.Chance(1, 3) {
		sfx = [][]string{{".txt"}, {".go", ".txt"}, {""}, {"file"}}[r.Intn(4)]
	}
	// typed path: a directory part in one of the canonical forms + a partial last segment
	var dpart string
	switch r.Intn(10) {
	case 9: // non-canonical directory parts
		d := r.Pick(fileNames)
		dpart = r.Pick([]string{d + "//", d + "/./", d + "/../", ".//", d + "/../" + d + "/"})
	case 0, 1:
		dpart = ""
	case 2:
		dpart = "./"
	case 3:
		dpart = "../"
	case 4:
		dpart = dirs[r.Intn(len(dirs))] + "/" // absolute
	case 5:
		dpart = "~/"
	case 6:
		dpart = r.Pick(fileNames) + "/"
	case 7:
		dpart = r.Pick(fileNames) + "/" + r.Pick(fileNames) + "/"
	default:
		dpart = "./" + r.Pick(fileNames) + "/"
	}
	seg := r.Pick([]string{"", "", "a", ".", "m", "b", "é", "s", "d", ".h", "x"})
	cf := []string{flags, cdir, dpart + seg}
	cf = append(cf, strList(sfx)...)
	cf = append(cf, "/R/proc-cwd", root+"/home", strconv.Itoa(len(es)))
	for _, e := range es {
		cf = append(cf, e.path, e.kind, e.target)
	}
	note("dpart-kind=" + strconv.Itoa(len(strings.Split(dpart, "/"))))
	return cf
}

var filesSeq int

func filesRun(cf []string) []string {
	flags, cdir, value := cf[0], cf[1], cf[2]
	sfx, rest := takeList(cf[3:])
	home := rest[1]
	n := atoi(rest[2])
	rest = rest[3:]
	filesSeq++
	real := filepath.Join(os.Getenv("VERIF_SCRATCH"), "tree", strconv.Itoa(os.Getpid())+"-"+strconv.Itoa(filesSeq))
	os.MkdirAll(real, 0o755)
	defer os.RemoveAll(real)
	mapP := func(p string) string { return real + p } // "/R/..." lives under <scratch>/R so that "/R/.." is a directory of its own
	for i := 0; i < n; i++ {
		p, kind, target := rest[3*i], rest[3*i+1], rest[3*i+2]
		switch kind {
		case "D":
			os.MkdirAll(mapP(p), 0o755)
		case "L":
			if strings.HasPrefix(target, "/R") {
				target = mapP(target)
			}
			os.Symlink(target, mapP(p))
		default:
			os.WriteFile(mapP(p), []byte("x"), 0o644)
		}
	}
	os.Setenv("HOME", mapP(home))
	if strings.HasPrefix(value, "/R") {
		value = mapP(value)
	}
	c := carapace.Context{Value: value, Dir: mapP(cdir)}
	a := carapace.ActionFiles(sfx...)
	if strings.Contains(flags, "D") {
		a = carapace.ActionDirectories()
	}
	meta, got, p := invokeSafe(a, c)
	if p != "" {
		return []string{"panic", p}
	}
	unmap := func(s string) string {
		if strings.HasPrefix(s, real) {
			return strings.TrimPrefix(s, real)
		}
		return s
	}
	if !meta.Messages.IsEmpty() {
		return []string{"err"}
	}
	vs := make([][2]string, len(got))
	for i, v := range got {
		vs[i] = [2]string{unmap(v.Value), v.Display}
	}
	sort.Slice(vs, func(i, j int) bool { return vs[i][0] < vs[j][0] })
	out := []string{"ok", nospaceString(meta.Nospace), strconv.Itoa(len(vs))}
	for _, v := range vs {
		out = append(out, v[0], v[1])
	}
	// ---- independent listing of the denoted directory (plain path resolution) ----
	dpart := value[:strings.LastIndex(value, "/")+1]
	seg := value[len(dpart):]
	denoted := dpart
	switch {
	case strings.HasPrefix(dpart, "~/"):
		denoted = mapP(home) + "/" + dpart[2:]
	case !strings.HasPrefix(dpart, "/"):
		denoted = mapP(cdir) + "/" + dpart
	}
	var want []string
	if ents, err := os.ReadDir(denoted); err == nil {
		for _, e := range ents {
			name := e.Name()
			if !strings.HasPrefix(name, seg) {
				continue
			}
			if strings.HasPrefix(name, ".") && !strings.HasPrefix(seg, ".") {
				continue
			}
			isDir := false
			if st, err := os.Stat(denoted + "/" + name); err == nil {
				isDir = st.IsDir()
			}
			switch {
			case isDir:
				want = append(want, unmap(dpart)+name+"/")
			case strings.Contains(flags, "D"):
			default:
				ok := len(sfx) == 0
				for _, s := range sfx {
					if strings.HasSuffix(name, s) {
						ok = true
					}
				}
				if ok {
					want = append(want, unmap(dpart)+name)
				}
			}
		}
	}
	sort.Strings(want)
	// the candidates that survive the final prefix filter of the typed word
	var offered []string
	for _, v := range vs {
		if strings.HasPrefix(v[0], unmap(value)) {
			offered = append(offered, v[0])
		}
	}
	verdict := "match"
	if strings.Join(want, "\x00") != strings.Join(offered, "\x00") {
		verdict = "want=" + strings.Join(want, ",") + " offered=" + strings.Join(offered, ",")
	}
	// directories carry "/" and match the no-space set
	for _, v := range offered {
		if strings.HasSuffix(v, "/") && !meta.Nospace.Matches(v) {
			verdict = "dir-without-nospace " + v
		}
	}
	return append(out, "#", verdict)
}
