package main

import (
	"strings"
	"unicode/utf8"
)

// Shared structured string generators.  Every generator takes its randomness from the
// Rng it is handed, so a case is a function of (seed, index).

var letters = []string{"a", "b", "c", "d", "x", "A", "B", "E", "R", "_", "-", "0", "1", "."}
var specials = []string{" ", "&", "<", ">", "'", "\"", "{", "}", "$", "#", "|", "?", "(", ")", ";", "[", "]", "*", "\\", "`", "~", "!", "=", ":", ",", "/", "@", "%", "^", "+"}
var dropped = []string{"\t", "\r", "\n"}
var nonascii = []string{"\u00e9", "\u00df", "\u65e5", "\u672c", "\U0001F600", "\u00a0", "\u2028", "\u0085", "\u212a", "\u3000"}
var invalidUtf8 = []string{"\xff", "\xc3", "\xe2\x82", "\xf0\x9f", "\x80"}
var c0 = []string{"\x01", "\x02", "\x03", "\x1c", "\x1b", "\x00", "\x7f", "\x0b", "\x0c", "\x08"}

type StrOpts struct {
	Special, Dropped, NonASCII, Invalid, C0 int // weights out of 100 (rest: letters)
	MaxLen                                  int
}

func GenStr(r *Rng, o StrOpts) string {
	n := r.Intn(o.MaxLen + 1)
	var sb strings.Builder
	for i := 0; i < n; i++ {
		k := r.Intn(100)
		switch {
		case k < o.Special:
			sb.WriteString(r.Pick(specials))
		case k < o.Special+o.Dropped:
			sb.WriteString(r.Pick(dropped))
		case k < o.Special+o.Dropped+o.NonASCII:
			sb.WriteString(r.Pick(nonascii))
		case k < o.Special+o.Dropped+o.NonASCII+o.Invalid:
			sb.WriteString(r.Pick(invalidUtf8))
		case k < o.Special+o.Dropped+o.NonASCII+o.Invalid+o.C0:
			sb.WriteString(r.Pick(c0))
		default:
			sb.WriteString(r.Pick(letters))
		}
	}
	return sb.String()
}

// class flags of a string, used for coverage accounting
func classes(s string) (special, drop, non, inval, ctl bool) {
	for i := 0; i < len(s); i++ {
		b := s[i]
		switch {
		case b == '\t' || b == '\r' || b == '\n':
			drop = true
		case b < 0x20 || b == 0x7f:
			ctl = true
		case b >= 0x80:
			non = true
		case strings.ContainsRune(" &<>'\"{}$#|?();[]*\\`~!=:,/@%^+", rune(b)):
			special = true
		}
	}
	if !validUTF8(s) {
		inval = true
	}
	return
}

func validUTF8(s string) bool { return utf8.ValidString(s) }

func hasC0(s string) bool { // C0 control bytes other than TAB/CR/LF (outside several claims)
	for i := 0; i < len(s); i++ {
		b := s[i]
		if (b < 0x20 && b != '\t' && b != '\r' && b != '\n') || b == 0x7f {
			return true
		}
	}
	return false
}
