module github.com/carapace-sh/carapace/zzverif

go 1.23

require (
	github.com/carapace-sh/carapace v0.0.0
	github.com/carapace-sh/carapace-shlex v1.0.1
	github.com/spf13/cobra v1.9.1
	github.com/spf13/pflag v1.0.6
)

require gopkg.in/yaml.v3 v3.0.1 // indirect

replace github.com/carapace-sh/carapace => /repo

replace github.com/spf13/pflag => github.com/carapace-sh/carapace-pflag v1.0.0
