package main

// `history` — C08: Actions are built once and invoked many times, interleaved with the
// actions derived from them; every step must equal the first invocation of a freshly built
// copy (repeatable, no trace).

import (
	"os"
	"strconv"

	"github.com/carapace-sh/carapace"
)

func init() {
	props["historyx"] = prop{ // nodes outside the Coq model (MultiPartsP): judged by the fresh-rebuild oracle only
		configs: func(tier string) []map[string]string { return []map[string]string{{}} },
		gen:     histxGen,
		run:     histRun,
		shard:   1500,
	}
	props["history"] = prop{
		configs: func(tier string) []map[string]string { return []map[string]string{{}, {}, {"CARAPACE_MATCH": "1"}} },
		gen:     histGen,
		run:     histRun,
		shard:   1500,
		envOf: func(f []string) map[string]string {
			if f[0] == "1" {
				return map[string]string{"CARAPACE_MATCH": "1"}
			}
			return nil
		},
	}
}

// an expression that may refer to pool entries 0..n-1
func (g *exprGen) exprRef(depth, n int) {
	if n > 0 && (depth <= 0 || g.r.Chance(2, 5)) {
		g.emit("REF", strconv.Itoa(g.r.Intn(n)))
		return
	}
	if depth <= 0 {
		g.leaf()
		return
	}
	// unary modifiers that write to what they were handed are the interesting ones
	switch g.r.Intn(19) {
	case 16, 17:
		g.emit("SE", g.r.Pick([]string{"MODE", "HOME", "NEW", "X"}), g.r.Pick([]string{"override", "1", ""}))
		g.exprRef(depth-1, n)
	case 18:
		g.emit("GE", g.r.Pick([]string{"MODE", "HOME", "NEW", "X"}))
	case 0, 1:
		g.emit("P", g.r.Pick([]string{"", "a", "x=", "p"}))
		g.exprRef(depth-1, n)
	case 2:
		g.emit("X", g.r.Pick([]string{"/", "s"}))
		g.exprRef(depth-1, n)
	case 3:
		g.emit("Y", g.r.Pick([]string{"red", "blue"}))
		g.exprRef(depth-1, n)
	case 4:
		g.emit("G", g.r.Pick([]string{"t1", "t2"}))
		g.exprRef(depth-1, n)
	case 5:
		g.emit("Q")
		g.emit(strList([][]string{{"boom"}, {"static"}, {"fail"}}[g.r.Intn(3)])...)
		g.exprRef(depth-1, n)
	case 6:
		g.emit("N")
		g.emit(strList([][]string{{}, {"47"}, {"61"}}[g.r.Intn(3)])...)
		g.exprRef(depth-1, n)
	case 7:
		g.emit("U", g.r.Pick([]string{"u1", "u2"}))
		g.exprRef(depth-1, n)
	case 8:
		g.emit("F")
		g.emit(strList(g.words(2))...)
		g.exprRef(depth-1, n)
	case 9:
		g.emit("MP", "1", "/")
		g.exprRef(depth-1, n)
	case 10:
		g.emit("UL", g.r.Pick([]string{",", "/"}))
		g.exprRef(depth-1, n)
	case 11:
		k := 2 + g.r.Intn(2)
		g.emit("B", strconv.Itoa(k))
		for i := 0; i < k; i++ {
			g.exprRef(depth-1, n)
		}
	case 12:
		g.emit("PT")
		g.emit(strList(g.words(2))...)
		g.exprRef(depth-1, n)
	case 13:
		g.emit("MF", g.r.Pick([]string{"unknown ", "bad value: "}), g.r.Pick([]string{"", "!"}), g.r.Pick([]string{"x", "flag", "%d"}))
	case 14:
		g.emit("MN", g.r.Pick([]string{",", "="}), "-1")
		g.exprRef(depth-1, n)
		g.exprRef(depth-1, n)
	default:
		g.expr(depth)
	}
}

func histGen(r *Rng, i int, cfg int, tier string) []string {
	ci := os.Getenv("CARAPACE_MATCH") != ""
	cf := []string{"0"}
	if ci {
		cf[0] = "1"
	}
	npool := 3 + r.Intn(4)
	cf = append(cf, strconv.Itoa(npool))
	nshared := 1 + r.Intn(2)
	for k := 0; k < npool; k++ {
		g := &exprGen{r: r}
		if k < nshared { // shared static actions with messages, no-space set and several values
			g.emit(r.Pick([]string{"SH", "SH", "SHS"}), r.Pick([]string{"", "/"}), r.Pick([]string{"", "static usage"}))
			g.emit(strList([][]string{{}, {}, {"static msg"}, {"boom", "static msg"}}[r.Intn(4)])...)
			n := 1 + r.Intn(3)
			vals := make([]rawSpec, n)
			for j := range vals {
				v := r.Pick(algWords[:10])
				vals[j] = rawSpec{v, v, r.Pick([]string{"", "desc"}), "", ""}
			}
			g.emit(rawSpecFields(vals)...)
		} else {
			g.exprRef(1+r.Intn(2), k)
		}
		cf = append(cf, g.out...)
	}
	envIdx := r.Intn(len(baseEnvs)) // one environment per case, shared by all its steps
	nsteps := 3 + r.Intn(7)
	for k := 0; k < nsteps; k++ {
		cf = append(cf, strconv.Itoa(r.Intn(npool)), r.Pick([]string{"", "", "a", "a/", "x=", "p", "a,"}))
		cf = append(cf, strList(g2words(r, 2))...)
		cf = append(cf, strList(nil)...)
		cf = append(cf, strList(baseEnvs[envIdx])...)
	}
	note("steps=" + strconv.Itoa(nsteps))
	return cf
}

var baseEnvs = [][]string{{}, {"HOME=/tmp", "MODE=default"}, {"MODE=a", "X=1", "MODE=b"}, {"HOME=/h", "MODE=default", "X=", "NEW=n"}}

func histxGen(r *Rng, i int, cfg int, tier string) []string {
	cf := []string{"0", "2"}
	// pool[0]: MultiPartsP over paths with different placeholders; pool[1]: an action derived from it
	cf = append(cf, "MPP", "V")
	cf = append(cf, strList([][]string{{"local/<name>", "remote/<host>/<name>", "static/x"}, {"a/<x>/b", "c/<y>", "a/z"}}[r.Intn(2)])...)
	cf = append(cf, r.Pick([]string{"X", "G", "Y"}), "s", "REF", "0")
	nsteps := 3 + r.Intn(5)
	for k := 0; k < nsteps; k++ {
		cf = append(cf, strconv.Itoa(r.Intn(2)), r.Pick([]string{"", "local/", "remote/", "remote/h1/", "a/", "a/q/", "c/", "static/", "remote/h2/n"}))
		cf = append(cf, strList(nil)...)
		cf = append(cf, strList(nil)...)
		cf = append(cf, strList(nil)...)
	}
	return cf
}

func buildPool(t []string, n int) ([]carapace.Action, []string) {
	curPool = nil
	for k := 0; k < n; k++ {
		var a carapace.Action
		a, t = buildExpr(t)
		curPool = append(curPool, a)
	}
	return curPool, t
}

func histRun(cf []string) []string {
	n := atoi(cf[1])
	pool, steps := buildPool(cf[2:], n)
	out := []string{"ok"}
	var fresh []string
	var sharedEnv []string // the caller's environment slice: the same backing array for every step
	for len(steps) > 0 {
		idx, v := atoi(steps[0]), steps[1]
		var args, parts []string
		args, steps = takeList(steps[2:])
		parts, steps = takeList(steps)
		var env []string
		env, steps = takeList(steps)
		if sharedEnv == nil {
			sharedEnv = append(make([]string, 0, len(env)+4), env...) // spare capacity, as os.Environ()-based contexts have
		}
		c := carapace.Context{Value: v, Args: args, Parts: parts, Env: sharedEnv}
		meta, got, p := invokeSafe(pool[idx], c)
		if p != "" {
			return []string{"panic", p}
		}
		out = append(out, metaFields(meta)...)
		out = append(out, rawFields(got, true)...)
		out = append(out, ";")
		// the same step on a freshly built pool (nothing has been invoked there before)
		saved := curPool
		fp, _ := buildPool(cf[2:], n)
		fm, fg, p2 := invokeSafe(fp[idx], carapace.Context{Value: v, Args: args, Parts: parts, Env: append([]string{}, env...)})
		curPool = saved
		if p2 != "" {
			return []string{"panic", p2}
		}
		fresh = append(fresh, metaFields(fm)...)
		fresh = append(fresh, rawFields(fg, true)...)
		fresh = append(fresh, ";")
	}
	out = append(out, "#")
	return append(out, fresh...)
}
