package main

// `import` — C13: export.Export -> json.Marshal -> ActionImport (round trip), and arbitrary
// byte strings offered to ActionImport (mutated documents, truncations, type swaps ...).

import (
	"encoding/json"
	"strings"

	"github.com/carapace-sh/carapace"
	"github.com/carapace-sh/carapace/internal/common"
	"github.com/carapace-sh/carapace/internal/export"
)

func init() {
	props["import"] = prop{
		configs: func(tier string) []map[string]string { return []map[string]string{{}} },
		gen:     impGen,
		run:     impRun,
		shard:   4000,
	}
}

var impText = []string{"a", "b", "é", "\"", "\\", "/", "<", ">", "&", "\n", "\t", "\r", "\x01", "\x1f", "\x7f", " ", "😀", "\u2028", "\u2029", "日本", "x", "y", ":", ",", "{", "}", "[", "]", "'", "\u00a0", "\ufffd", "\U00010000"}

func impStr(r *Rng, max int) string {
	n := r.Intn(max + 1)
	var sb strings.Builder
	for i := 0; i < n; i++ {
		sb.WriteString(r.Pick(impText))
	}
	return sb.String()
}

func impExport(r *Rng) (ns, us string, msgs []string, vals []rawSpec) {
	nm := r.Intn(3)
	seen := map[string]bool{}
	for i := 0; i < nm; i++ {
		m := impStr(r, 4)
		if !seen[m] {
			seen[m] = true
			msgs = append(msgs, m)
		}
	}
	ns = r.Pick([]string{"", "", "/", "*", ",=", "é", "/:"})
	us = r.Pick([]string{"", "", impStr(r, 5)})
	nv := r.Intn(5)
	if r.Chance(1, 300) {
		nv = 520
	}
	for i := 0; i < nv; i++ {
		v := impStr(r, 4)
		if nv > 10 {
			v = v + string(rune('a'+i%26)) + string(rune('0'+i/26%10)) + string(rune('0'+i/260))
		}
		vals = append(vals, rawSpec{v, r.Pick([]string{v, impStr(r, 3)}), r.Pick([]string{"", impStr(r, 6)}), r.Pick([]string{"", "red", "bg-blue bold"}), r.Pick([]string{"", "tag", impStr(r, 2)})})
	}
	return
}

func marshalExport(ns, us string, msgs []string, vals []rawSpec) []byte {
	var e export.Export
	for _, m := range msgs {
		e.Meta.Messages.Add(m)
	}
	if ns != "" {
		b, _ := json.Marshal(ns)
		_ = e.Meta.Nospace.UnmarshalJSON(b)
	}
	e.Meta.Usage = us
	e.Values = make(common.RawValues, 0, len(vals))
	for _, v := range vals {
		e.Values = append(e.Values, common.RawValue{Value: v.Value, Display: v.Display, Description: v.Description, Style: v.Style, Tag: v.Tag})
	}
	b, err := json.Marshal(e)
	if err != nil {
		panic(err)
	}
	return b
}

var impFragments = []string{"null", "true", "false", "0", "-1.5e3", "1e", "01", "\"x\"", "\"\\ud83d\\ude00\"", "\"\\ud800\"", "\"\\ud800\\u0041\"", "\"\\u00e9\"", "\"\\x\"", "[]", "{}", "[1,2]", "{\"a\":1}", "\"\xff\"", "\"a\nb\"", " ", "\t\n", ",", ":", "[", "]", "{", "}", "\"", "nul", "tru", "\"\\", "\"\\u12\""}
var impKeys = []string{"version", "messages", "nospace", "usage", "values", "value", "display", "description", "style", "tag", "uid", "VALUES", "Values", "Messages", "NoSpace", "Usage", "VALUE", "Display", "extra", "", "valu", "valuess"}

func impMutate(r *Rng, doc string) string {
	switch r.Intn(12) {
	case 0: // truncate
		return doc[:r.Intn(len(doc)+1)]
	case 1: // flip a byte
		if len(doc) == 0 {
			return doc
		}
		b := []byte(doc)
		i := r.Intn(len(b))
		b[i] = byte(r.Pick([]string{"\"", "\\", "{", "}", "[", "]", ",", ":", "x", "0", " ", "\x00", "\xff", "n"})[0])
		return string(b)
	case 2: // replace a quoted key by another key (case variants, unknown)
		for try := 0; try < 5; try++ {
			k := r.Pick([]string{"version", "messages", "nospace", "usage", "values", "value", "display", "description", "style", "tag"})
			if strings.Contains(doc, "\""+k+"\":") {
				return strings.Replace(doc, "\""+k+"\":", "\""+r.Pick(impKeys)+"\":", 1)
			}
		}
		return doc
	case 3: // type swap: replace the value after a key by a fragment
		for try := 0; try < 5; try++ {
			k := r.Pick([]string{"version", "messages", "nospace", "usage", "values", "value", "display"})
			i := strings.Index(doc, "\""+k+"\":")
			if i >= 0 {
				j := i + len(k) + 3
				// skip one JSON value starting at j (crudely: up to the next , or } at depth 0)
				depth, k2, inStr := 0, j, false
				for ; k2 < len(doc); k2++ {
					c := doc[k2]
					if inStr {
						if c == '\\' {
							k2++
						} else if c == '"' {
							inStr = false
						}
						continue
					}
					if c == '"' {
						inStr = true
					} else if c == '[' || c == '{' {
						depth++
					} else if c == ']' || c == '}' {
						if depth == 0 {
							break
						}
						depth--
					} else if c == ',' && depth == 0 {
						break
					}
				}
				if k2 < j || k2 > len(doc) {
					return doc
				}
				return doc[:j] + r.Pick(impFragments) + doc[k2:]
			}
		}
		return doc
	case 4: // extra field / duplicate key
		if strings.HasPrefix(doc, "{") {
			return "{\"" + r.Pick(impKeys) + "\":" + r.Pick(impFragments) + "," + doc[1:]
		}
		return doc
	case 5: // duplicate key at the end
		if strings.HasSuffix(doc, "}") {
			return doc[:len(doc)-1] + ",\"" + r.Pick(impKeys) + "\":" + r.Pick(impFragments) + "}"
		}
		return doc
	case 6: // white space / trailing garbage
		return r.Pick([]string{" ", "\n\t", ""}) + doc + r.Pick([]string{" ", "\n", "x", "{}", ",", "]", "\x00"})
	case 7: // fragment alone
		return r.Pick(impFragments)
	case 8: // insert a fragment somewhere
		i := r.Intn(len(doc) + 1)
		return doc[:i] + r.Pick(impFragments) + doc[i:]
	case 9: // null element in values
		return strings.Replace(doc, "\"values\":[", "\"values\":[null,", 1)
	case 10: // wrap
		return r.Pick([]string{"[", "{\"values\":", "[[", "\""}) + doc + r.Pick([]string{"]", "}", "]]", "\""})
	default:
		return doc
	}
}

func impGen(r *Rng, i int, cfg int, tier string) []string {
	ns, us, msgs, vals := impExport(r)
	if r.Chance(2, 5) {
		note("kind=rt")
		cf := []string{"rt", carapaceVersion(), ns, us}
		cf = append(cf, strList(msgs)...)
		return append(cf, rawSpecFields(vals)...)
	}
	if len(vals) > 10 {
		vals = vals[:3]
	}
	doc := string(marshalExport(ns, us, msgs, vals))
	n := 1 + r.Intn(2)
	for k := 0; k < n; k++ {
		doc = impMutate(r, doc)
	}
	note("kind=raw")
	return []string{"raw", doc}
}

func impRun(cf []string) []string {
	var doc []byte
	if cf[0] == "rt" {
		ns, us := cf[2], cf[3]
		msgs, rest := takeList(cf[4:])
		vals, _ := takeRaws(rest)
		doc = marshalExport(ns, us, msgs, vals)
	} else {
		doc = []byte(cf[1])
	}
	valid := "0"
	if json.Valid(doc) {
		valid = "1"
	}
	docField := ""
	if cf[0] == "rt" {
		docField = string(doc)
	}
	meta, got, p := invokeSafe(carapace.ActionImport(doc), carapace.Context{})
	if p != "" {
		return []string{"panic", valid, docField}
	}
	// ActionImport reports a decoding error as exactly one message and no values
	var e export.Export
	if json.Unmarshal(doc, &e) != nil {
		if len(got) == 0 && len(meta.Messages.Get()) == 1 {
			note("status=msg")
			return []string{"msg", valid, docField}
		}
		note("status=partial")
		return append([]string{"partial", valid, docField}, rawFields(got, false)...)
	}
	note("status=ok")
	impl := []string{"ok", valid, docField}
	impl = append(impl, metaFields(meta)...)
	return append(impl, rawFields(got, false)...)
}
