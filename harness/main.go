// Harness: runs the real carapace code on generated cases and prints, one case per
// line, the case fields and the implementation's observable output (hex fields).
//
//   harness <prop> <seed> <count> [tier]      parent: shards over child processes
//   harness <prop>-child <seed> <start> <count> <cfg> [tier]
//
// Line format:  <runner>\t<hex field>...\t|\t<hex impl field>...
package main

import (
	"bufio"
	"encoding/hex"
	"fmt"
	"io"
	"os"
	"os/exec"
	"strconv"
	"strings"
	"sync"
)

// ---------- deterministic PRNG (splitmix64) ----------
type Rng struct{ s uint64 }

func NewRng(seed uint64, stream uint64) *Rng {
	r := &Rng{s: seed*0x9E3779B97F4A7C15 ^ (stream+1)*0xBF58476D1CE4E5B9}
	r.Next()
	return r
}
func (r *Rng) Next() uint64 {
	r.s += 0x9E3779B97F4A7C15
	z := r.s
	z = (z ^ (z >> 30)) * 0xBF58476D1CE4E5B9
	z = (z ^ (z >> 27)) * 0x94D049BB133111EB
	return z ^ (z >> 31)
}
func (r *Rng) Intn(n int) int {
	if n <= 0 {
		return 0
	}
	return int(r.Next() % uint64(n))
}
func (r *Rng) Chance(num, den int) bool { return r.Intn(den) < num }
func (r *Rng) Pick(l []string) string  { return l[r.Intn(len(l))] }

// ---------- line protocol ----------
func hexFields(fs []string) string {
	out := make([]string, len(fs))
	for i, f := range fs {
		out[i] = hex.EncodeToString([]byte(f))
	}
	return strings.Join(out, "\t")
}

type Out struct {
	w  *bufio.Writer
	mu sync.Mutex
}

func (o *Out) Emit(runner string, caseFields []string, implFields []string) {
	o.mu.Lock()
	defer o.mu.Unlock()
	fmt.Fprintf(o.w, "%s\t%s\t|\t%s\n", runner, hexFields(caseFields), hexFields(implFields))
}

// Note emits a free-form line (coverage counters etc.) that the orchestrator collects.
func (o *Out) Note(key string, val interface{}) {
	o.mu.Lock()
	defer o.mu.Unlock()
	fmt.Fprintf(o.w, "#\t%s\t%v\n", key, val)
}

type childFn func(out *Out, seed uint64, start, count int, cfg int, tier string)

type prop struct {
	configs func(tier string) []map[string]string // process-level environments (index = cfg)
	child   childFn
	shard   int // max cases per child process
	procs   int // child processes running at once (default 16); timing-sensitive streams use fewer
	// gen/run style (preferred): a case is its field list; run executes the real code on it.
	gen   func(r *Rng, i int, cfg int, tier string) []string
	run   func(fields []string) []string
	envOf func(fields []string) map[string]string // process environment a stored case needs (replay)
}

func genRunChild(name string, p prop) childFn {
	return func(out *Out, seed uint64, start, count int, cfg int, tier string) {
		for i := start; i < start+count; i++ {
			r := NewRng(seed, uint64(i)*7+11)
			cf := p.gen(r, i, cfg, tier)
			if cf == nil {
				continue
			}
			out.Emit(name, cf, p.run(cf))
		}
		for k, v := range noteCounts {
			out.Note(k, v)
		}
	}
}

var noteCounts = map[string]int{}

func note(k string) { noteCounts[k]++ }

func unhexList(l []string) []string {
	r := make([]string, len(l))
	for i, x := range l {
		b, _ := hex.DecodeString(x)
		r[i] = string(b)
	}
	return r
}

// <name>-one: replay of stored cases read from stdin (same line format); the process
// environment the case needs is re-established by re-executing this binary.
func runOne(name string, p prop) {
	data, _ := io.ReadAll(os.Stdin)
	w := bufio.NewWriterSize(os.Stdout, 1<<20)
	defer w.Flush()
	out := &Out{w: w}
	for _, line := range strings.Split(string(data), "\n") {
		parts := strings.Split(line, "\t")
		k := -1
		for i, x := range parts {
			if x == "|" {
				k = i
			}
		}
		if k < 1 {
			continue
		}
		cf := unhexList(parts[1:k])
		if os.Getenv("VERIF_ONE_CHILD") == "" && p.envOf != nil {
			self, _ := os.Executable()
			cmd := exec.Command(self, name+"-one")
			cmd.Env = append(os.Environ(), "VERIF_ONE_CHILD=1")
			for k, v := range p.envOf(cf) {
				cmd.Env = append(cmd.Env, k+"="+v)
			}
			cmd.Stdin = strings.NewReader(line + "\n")
			cmd.Stderr = os.Stderr
			b, _ := cmd.Output()
			w.Write(b)
			continue
		}
		out.Emit(name, cf, p.run(cf))
	}
}

var props = map[string]prop{}



func baseEnv(scratch string) []string {
	keep := []string{"PATH", "TMPDIR"}
	env := []string{"HOME=" + scratch + "/home", "XDG_CONFIG_HOME=" + scratch + "/config", "XDG_CACHE_HOME=" + scratch + "/cache", "LC_ALL=C"}
	for _, k := range keep {
		if v, ok := os.LookupEnv(k); ok {
			env = append(env, k+"="+v)
		}
	}
	return env
}

func main() {
	if len(os.Args) > 1 && os.Args[1] == "crashproc" {
		crashChild()
		return
	}
	if len(os.Args) > 1 && os.Args[1] == "totalproc" {
		totalChild()
		return
	}
	if len(os.Args) < 4 && !(len(os.Args) == 2 && strings.HasSuffix(os.Args[1], "-one")) {
		fmt.Fprintln(os.Stderr, "usage: harness <prop> <seed> <count> [tier]")
		os.Exit(2)
	}
	name := os.Args[1]
	if name == "value-one" { // replay of one stored case read from stdin (same line format)
		sc := bufio.NewScanner(os.Stdin)
		sc.Buffer(make([]byte, 1<<20), 1<<28)
		w := bufio.NewWriterSize(os.Stdout, 1<<20)
		out := &Out{w: w}
		for sc.Scan() {
			parts := strings.Split(sc.Text(), "\t")
			k := -1
			for i, p := range parts {
				if p == "|" {
					k = i
				}
			}
			if k < 0 {
				continue
			}
			unhex := func(l []string) []string {
				r := make([]string, len(l))
				for i, x := range l {
					b, _ := hex.DecodeString(x)
					r[i] = string(b)
				}
				return r
			}
			cf, ef := unhex(parts[1:k]), unhex(parts[k+1:])
			got := valueOne(cf, ef)
			ef2 := append([]string{got}, ef[1:]...)
			out.Emit("value", cf, ef2)
		}
		w.Flush()
		return
	}
	if strings.HasSuffix(name, "-one") {
		if p, ok := props[strings.TrimSuffix(name, "-one")]; ok && p.run != nil {
			runOne(strings.TrimSuffix(name, "-one"), p)
			return
		}
	}
	if strings.HasSuffix(name, "-child") {
		p, ok := props[strings.TrimSuffix(name, "-child")]
		if !ok {
			fmt.Fprintln(os.Stderr, "unknown property", name)
			os.Exit(2)
		}
		seed, _ := strconv.ParseUint(os.Args[2], 10, 64)
		tier := "quick"
		if len(os.Args) > 6 {
			tier = os.Args[6]
		}
		w := bufio.NewWriterSize(os.Stdout, 1<<20)
		out := &Out{w: w}
		if p.child == nil {
			p.child = genRunChild(strings.TrimSuffix(name, "-child"), p)
		}
		p.child(out, seed, atoi(os.Args[3]), atoi(os.Args[4]), atoi(os.Args[5]), tier)
		w.Flush()
		return
	}
	p, ok := props[name]
	if !ok {
		fmt.Fprintln(os.Stderr, "unknown property", name)
		os.Exit(2)
	}
	seed := os.Args[2]
	count := atoi(os.Args[3])
	tier := "quick"
	if len(os.Args) > 4 {
		tier = os.Args[4]
	}
	scratch := os.Getenv("VERIF_SCRATCH")
	if scratch == "" {
		fmt.Fprintln(os.Stderr, "VERIF_SCRATCH not set")
		os.Exit(2)
	}
	for _, d := range []string{"/home", "/config", "/cache"} {
		os.MkdirAll(scratch+d, 0o755)
	}
	cfgs := p.configs(tier)
	type job struct{ start, n, cfg int }
	var jobs []job
	shard := p.shard
	if shard == 0 {
		shard = 2000
	}
	// cases are dealt round-robin to configs in blocks
	per := (count + len(cfgs) - 1) / len(cfgs)
	for c := range cfgs {
		for s := 0; s < per; s += shard {
			n := shard
			if s+n > per {
				n = per - s
			}
			jobs = append(jobs, job{c*per + s, n, c})
		}
	}
	results := make([][]byte, len(jobs))
	errs := make([]error, len(jobs))
	procs := p.procs
	if procs == 0 {
		procs = 16
	}
	sem := make(chan struct{}, procs)
	var wg sync.WaitGroup
	self, _ := os.Executable()
	for i, j := range jobs {
		wg.Add(1)
		go func(i int, j job) {
			defer wg.Done()
			sem <- struct{}{}
			defer func() { <-sem }()
			cmd := exec.Command(self, name+"-child", seed, strconv.Itoa(j.start), strconv.Itoa(j.n), strconv.Itoa(j.cfg), tier)
			cmd.Env = baseEnv(scratch)
			cmd.Env = append(cmd.Env, "VERIF_SCRATCH="+scratch)
			for k, v := range cfgs[j.cfg] {
				cmd.Env = append(cmd.Env, k+"="+v)
			}
			cmd.Stderr = os.Stderr
			results[i], errs[i] = cmd.Output()
		}(i, j)
	}
	wg.Wait()
	w := bufio.NewWriterSize(os.Stdout, 1<<20)
	defer w.Flush()
	for i := range jobs {
		w.Write(results[i])
		if errs[i] != nil {
			fmt.Fprintf(w, "!\tchild %d failed: %v\n", i, errs[i])
		}
	}
}
