package main

// `multiparts` — C11: real Action.MultiParts(dividers...) on generated value sets.

import (
	"os"
	"strings"

	"github.com/carapace-sh/carapace"
)

func init() {
	props["multiparts"] = prop{
		configs: func(tier string) []map[string]string {
			return []map[string]string{{}, {}, {}, {"CARAPACE_MATCH": "1"}}
		},
		gen:   mpGen,
		run:   mpRun,
		envOf: func(f []string) map[string]string {
			if f[0] == "1" {
				return map[string]string{"CARAPACE_MATCH": "1"}
			}
			return nil
		},
		shard: 4000,
	}
}

var mpDividerSets = [][]string{
	{"/"}, {"/"}, {"/"}, {"."}, {"::"}, {"//"}, {"ab"}, {"a/"}, {":", "/"}, {"/", "."}, {"=", ","}, {"//", "/"}, {"ab", "a"},
	{""}, {"/", ""}, {}, {"é"}, {"/", ":", "."},
}

func genMpString(r *Rng, ds []string, maxSeg int) string {
	alpha := []string{"a", "b", "a", "b", "c", "é", "A"}
	var sb strings.Builder
	n := r.Intn(maxSeg + 1)
	for i := 0; i < n; i++ {
		k := r.Intn(10)
		switch {
		case k < 4 && len(ds) > 0:
			sb.WriteString(ds[r.Intn(len(ds))])
		case k < 5:
			sb.WriteString(r.Pick([]string{"/", ".", ":", "=", ","}))
		default:
			sb.WriteString(r.Pick(alpha))
		}
	}
	return sb.String()
}

func mpGen(r *Rng, i int, cfg int, tier string) []string {
	ci := os.Getenv("CARAPACE_MATCH") != ""
	ds := mpDividerSets[r.Intn(len(mpDividerSets))]
	nv := r.Intn(6)
	vals := make([]rawSpec, 0, nv)
	for j := 0; j < nv; j++ {
		var v string
		if j > 0 && r.Chance(1, 3) { // values that are extensions / prefixes of each other
			base := vals[r.Intn(len(vals))].Value
			if r.Chance(1, 2) {
				v = base + genMpString(r, ds, 3)
			} else {
				v = base[:r.Intn(len(base)+1)]
				for !validUTF8(v) {
					v = v[:len(v)-1]
				}
			}
		} else {
			v = genMpString(r, ds, 6)
		}
		vals = append(vals, rawSpec{Value: v, Display: v, Description: r.Pick([]string{"", "d1", "d2", "some text"}),
			Style: r.Pick([]string{"", "red", "blue"}), Tag: r.Pick([]string{"", "t1", "t2"})})
	}
	// typed text: mostly a prefix of a value (also inside a divider), sometimes anything
	w := ""
	switch k := r.Intn(10); {
	case k < 6 && len(vals) > 0:
		base := vals[r.Intn(len(vals))].Value
		w = base[:r.Intn(len(base)+1)]
		for !validUTF8(w) {
			w = w[:len(w)-1]
		}
	case k < 8:
		w = genMpString(r, ds, 3)
	}
	if ci && r.Chance(1, 2) {
		w = asciiUpper(w) // strings.ToLower beyond ASCII is not modelled (DESIGN section 5)
	}
	cf := []string{"0", w}
	if ci {
		cf[0] = "1"
	}
	cf = append(cf, strList(ds)...)
	cf = append(cf, rawSpecFields(vals)...)
	note("dividers=" + strings.Join(ds, "|"))
	return cf
}

func takeList(f []string) ([]string, []string) {
	n := atoi(f[0])
	return f[1 : 1+n], f[1+n:]
}

func takeRaws(f []string) ([]rawSpec, []string) {
	n := atoi(f[0])
	f = f[1:]
	out := make([]rawSpec, 0, n)
	for i := 0; i < n; i++ {
		out = append(out, rawSpec{f[0], f[1], f[2], f[3], f[4]})
		f = f[5:]
	}
	return out, f
}

func mpRun(cf []string) []string {
	w := cf[1]
	ds, rest := takeList(cf[2:])
	vals, _ := takeRaws(rest)
	a := staticAction(vals).MultiParts(ds...)
	meta, got, p := invokeSafe(a, carapace.Context{Value: w})
	if p != "" {
		note("panic")
		return []string{"panic"}
	}
	impl := []string{"ok", nospaceString(meta.Nospace)}
	return append(impl, rawFields(got, true)...)
}

