package main

// Stream `names` (C07): which flag names / sub-command names the real program offers on a
// generated command tree, together with what the rule needs to judge them (the flag set cobra
// presents for the resolved command, the flags cobra itself reports as given for the typed
// words) and cobra's verdict on every offered name appended to the line.

import (
	"bytes"
	"encoding/json"
	"os"
	"sort"
	"strconv"
	"strings"

	"github.com/carapace-sh/carapace/pkg/x"
)

func init() {
	props["names"] = prop{
		configs: func(tier string) []map[string]string { return []map[string]string{{}} },
		gen:     namesGen,
		run:     namesRun,
		shard:   500,
	}
}

// case: envHidden tree words cur
func namesGen(r *Rng, i int, cfg int, tier string) []string {
	root := genCmd(r, 0, "root")
	// the typed words: reuse the line generator, then choose the current word for this property
	words, _ := genLine(r, root)
	// resolve the command the words lead to (by name only; the run decides with cobra)
	cur := root
	var inherited []flagDef
	for _, w := range words {
		for _, s := range cur.subs {
			if s.name == w || (len(s.aliases) > 0 && s.aliases[0] == w) {
				for _, f := range cur.flags {
					if f.persistent {
						inherited = append(inherited, f)
					}
				}
				cur = s
				break
			}
		}
	}
	fl := cur.allFlags(inherited)
	var curw string
	switch x := r.Intn(10); {
	case x < 2:
		curw = "-"
	case x < 3:
		curw = "--"
	case x < 4 && len(fl) > 0:
		n := fl[r.Intn(len(fl))].name
		curw = "--" + n[:r.Intn(len(n)+1)]
	case x < 7 && len(fl) > 0:
		curw = "-"
		for k := 1 + r.Intn(3); k > 0; k-- {
			f := fl[r.Intn(len(fl))]
			if f.short != "" && (f.kind == "b" || f.kind == "c" || f.kind == "o" || r.Chance(1, 8)) {
				curw += f.short
			}
		}
		if r.Chance(1, 12) {
			curw += "z"
		}
	case x < 9:
		curw = ""
	default:
		if len(cur.subs) > 0 {
			n := cur.subs[r.Intn(len(cur.subs))].name
			curw = n[:r.Intn(len(n)+1)]
		}
	}
	envh := "0"
	if r.Chance(1, 3) {
		envh = "1"
	}
	cf := []string{envh}
	cf = append(cf, root.tokens()...)
	cf = append(cf, strList(words)...)
	cf = append(cf, curw)
	note("cur=" + map[bool]string{true: "flag", false: "positional"}[strings.HasPrefix(curw, "-")])
	return cf
}

// run the tree the way the program runs (no completion)
func execTree(def *cmdDef, args []string) *runRecord {
	x.ClearStorage()
	rec := &runRecord{}
	root := buildCobra(def, "", false, rec)
	var o, e bytes.Buffer
	root.SetOut(&o)
	root.SetErr(&e)
	root.SetArgs(args)
	if err := root.Execute(); err != nil {
		rec.ran, rec.failed, rec.errText = false, true, err.Error()
	}
	return rec
}

// the chain of commands along a path "root/a/b"
func defChain(def *cmdDef, path string) []*cmdDef {
	chain := []*cmdDef{def}
	cur := def
	for _, s := range strings.Split(path, "/")[1:] {
		for _, sub := range cur.subs {
			if sub.name == s {
				cur = sub
				break
			}
		}
		chain = append(chain, cur)
	}
	return chain
}

type visFlag struct {
	flagDef
	group string
}

// the flags cobra presents for the last command of the chain: its own, persistent ones of its
// ancestors (a nearer definition of the same name wins), and the automatic help flag
func visibleFlags(chain []*cmdDef) []visFlag {
	var out []visFlag
	seen := map[string]bool{}
	shorts := map[string]bool{}
	for i := len(chain) - 1; i >= 0; i-- {
		for _, f := range chain[i].flags {
			if (i == len(chain)-1 || f.persistent) && !seen[f.name] {
				seen[f.name] = true
				shorts[f.short] = true
				g := ""
				if ex := chain[i].exclusive(); f.excl && len(ex) >= 2 {
					g = strings.Join(ex, ",") // cobra's annotation: the names of the group
				}
				out = append(out, visFlag{f, g})
			}
		}
	}
	h := flagDef{name: "help", kind: "b"}
	if !shorts["h"] {
		h.short = "h"
	}
	return append(out, visFlag{h, ""})
}

func namesRun(cf []string) []string {
	envh := cf[0]
	def, rest := parseCmd(cf[1:])
	words, rest := takeList(rest)
	cur := rest[0]
	// the program's own view of the typed words
	base := execTree(def, words)
	if !base.ran {
		note("skip=baseline-rejected")
		return []string{"ok", "skip", "baseline-rejected"}
	}
	if len(cur) >= 2 && strings.HasPrefix(cur, "-") && !strings.HasPrefix(cur, "--") {
		// the letters already typed in the chain are part of the line the user has committed to
		if r := execTree(def, append(append([]string{}, words...), cur)); r.failed && !strings.Contains(r.errText, "needs an argument") && !strings.Contains(r.errText, "unknown shorthand") {
			note("skip=chain-rejected")
			return []string{"ok", "skip", "chain-rejected"}
		}
	}
	// what carapace offers
	x.ClearStorage()
	rec := &runRecord{}
	root := buildCobra(def, "", true, rec)
	var stdout, stderr bytes.Buffer
	root.SetOut(&stdout)
	root.SetErr(&stderr)
	root.SetArgs(append(append([]string{"_carapace", "export", "root"}, words...), cur))
	os.Setenv("CARAPACE_UNFILTERED", "1")
	if envh == "1" {
		os.Setenv("CARAPACE_HIDDEN", "1")
	} else {
		os.Unsetenv("CARAPACE_HIDDEN")
	}
	panicked := false
	func() {
		defer func() {
			if p := recover(); p != nil {
				panicked = true
			}
		}()
		root.Execute()
	}()
	os.Unsetenv("CARAPACE_HIDDEN")
	if panicked {
		return []string{"panic"}
	}
	var doc exportDoc
	raw := stdout.Bytes()
	if k := bytes.Index(raw, []byte("{\"version\"")); k > 0 {
		raw = raw[k:]
	}
	if err := json.Unmarshal(raw, &doc); err != nil {
		return []string{"noexport"}
	}
	var flagNames, cmdNames, markers []string
	other := false
	for _, v := range doc.Values {
		switch {
		case strings.Contains(v.Value, "F:") || strings.Contains(v.Value, "P:") || strings.Contains(v.Value, "D:"):
			markers = append(markers, v.Value)
		case strings.Contains(v.Tag, "flags"):
			flagNames = append(flagNames, v.Value)
		case strings.Contains(v.Tag, "commands"):
			cmdNames = append(cmdNames, v.Value)
		default:
			other = true
		}
	}
	sort.Strings(flagNames)
	sort.Strings(cmdNames)
	chain := defChain(def, base.path)
	switch {
	case strings.HasPrefix(cur, "-") && len(markers) == 0 && len(cmdNames) == 0 && !other && len(doc.Messages) == 0:
		// a flag-name position
		vis := visibleFlags(chain)
		out := []string{"ok", "names", envh, cur, strconv.Itoa(len(vis))}
		for _, f := range vis {
			attrs := ""
			if f.hidden || f.dep { // pflag's MarkDeprecated hides the flag as well
				attrs += "H"
			}
			if f.dep {
				attrs += "D"
			}
			if f.shdep && f.short != "" {
				attrs += "S"
			}
			out = append(out, f.name, f.short, f.kind, attrs, f.group)
		}
		var changed []string
		for n := range base.flags {
			changed = append(changed, n)
		}
		sort.Strings(changed)
		out = append(out, strList(changed)...)
		out = append(out, strList(flagNames)...)
		// cobra's verdict on each offered name
		var bad []string
		for _, n := range flagNames {
			f := denotedFlag(vis, n)
			if f == nil {
				bad = append(bad, n+":denotes-no-flag")
				continue
			}
			line := append(append([]string{}, words...), n)
			if f.kind == "s" || f.kind == "l" {
				line = append(line, "1")
			}
			r2 := execTree(def, line)
			switch {
			case f.name == "help":
				// cobra prints the help text instead of running the command
				if r2.failed || r2.ran {
					bad = append(bad, n+":help-not-honoured")
				}
			case !r2.ran:
				bad = append(bad, n+":rejected:"+r2.errText)
			case r2.path != base.path:
				bad = append(bad, n+":other-command")
			default:
				if _, ok := r2.flags[f.name]; !ok {
					bad = append(bad, n+":flag-not-set")
				}
			}
		}
		note("record=names")
		return append(out, strList(bad)...)
	case len(markers) == 1 && strings.HasPrefix(markers[0], "P:"+base.path+":0") && markers[0] == "P:"+base.path+":0":
		// the first positional of the resolved command
		last := chain[len(chain)-1]
		type cd struct{ name, aliases, attrs string }
		var cds []cd
		for _, s := range last.subs {
			a := ""
			if s.hidden {
				a += "H"
			}
			if s.dep {
				a += "D"
			}
			cds = append(cds, cd{s.name, strings.Join(s.aliases, ","), a})
		}
		cds = append(cds, cd{"_carapace", "", "H"}) // carapace.Gen adds its hidden command wherever it attaches
		if len(chain) == 1 {
			// cobra adds these to a root that has sub-commands (the hidden _carapace command counts)
			cds = append(cds, cd{"help", "", ""}, cd{"completion", "", ""})
		}
		out := []string{"ok", "subs", envh, strconv.Itoa(len(cds))}
		for _, c := range cds {
			out = append(out, c.name, c.aliases, c.attrs)
		}
		out = append(out, strList(cmdNames)...)
		var bad []string
		for _, n := range cmdNames {
			if n == "help" || n == "completion" || n == "_carapace" {
				continue
			}
			want := ""
			for _, s := range last.subs {
				if s.name == n || (len(s.aliases) > 0 && s.aliases[0] == n) {
					want = base.path + "/" + s.name
				}
			}
			r2 := execTree(def, append(append([]string{}, words...), n))
			if !r2.ran {
				bad = append(bad, n+":rejected:"+r2.errText)
			} else if r2.path != want {
				bad = append(bad, n+":dispatched-to-"+r2.path)
			}
		}
		note("record=subs")
		return append(out, strList(bad)...)
	}
	note("skip=other-slot")
	return []string{"ok", "skip", "other-slot"}
}

// the flag an offered name stands for: --name, -s, or the last letter of a chain
func denotedFlag(vis []visFlag, n string) *visFlag {
	switch {
	case strings.HasPrefix(n, "--"):
		for i := range vis {
			if vis[i].name == n[2:] {
				return &vis[i]
			}
		}
	case strings.HasPrefix(n, "-") && len(n) >= 2:
		for i := range vis {
			if vis[i].short == n[len(n)-1:] {
				return &vis[i]
			}
		}
	}
	return nil
}
