package main

// `slot` — C01 / C07 / C20: generated cobra trees; for a typed line, the slot carapace completes
// (read off marker actions through the real `_carapace export`) versus the slot into which the
// program's own parser (a fresh identical tree, real Execute) puts the completed word.

import (
	"bytes"
	"encoding/json"
	"os"
	"sort"
	"strconv"
	"strings"

	"github.com/carapace-sh/carapace"
	"github.com/carapace-sh/carapace/pkg/x"
	"github.com/spf13/cobra"
	"github.com/spf13/pflag"
)

func init() {
	props["slotfrag"] = prop{
		configs: func(tier string) []map[string]string { return []map[string]string{{}} },
		gen:     slotFragGen,
		run:     slotFragRun,
		shard:   700,
	}
	props["slot"] = prop{
		configs: func(tier string) []map[string]string { return []map[string]string{{}} },
		gen:     slotGen,
		run:     slotRun,
		shard:   700,
	}
}

type flagDef struct {
	name, short, kind       string // kind: b c s l o
	persistent, hidden, dep bool
	excl, shdep             bool // member of the command's mutually exclusive group; shorthand deprecated
}
type cmdDef struct {
	name         string
	aliases      []string
	flags        []flagDef
	interspersed bool
	hidden, dep  bool
	subs         []*cmdDef
}

// ---- token encoding of a tree: CMD name <aliases> nflags (name short kind attrs)* interspersed attrs nsubs subs...
func (c *cmdDef) tokens() []string {
	t := []string{"CMD", c.name}
	t = append(t, strList(c.aliases)...)
	t = append(t, strconv.Itoa(len(c.flags)))
	for _, f := range c.flags {
		attrs := ""
		if f.persistent {
			attrs += "P"
		}
		if f.hidden {
			attrs += "H"
		}
		if f.dep {
			attrs += "D"
		}
		if f.excl {
			attrs += "X"
		}
		if f.shdep {
			attrs += "S"
		}
		t = append(t, f.name, f.short, f.kind, attrs)
	}
	a := ""
	if c.interspersed {
		a += "I"
	}
	if c.hidden {
		a += "H"
	}
	if c.dep {
		a += "D"
	}
	t = append(t, a, strconv.Itoa(len(c.subs)))
	for _, s := range c.subs {
		t = append(t, s.tokens()...)
	}
	return t
}

func parseCmd(t []string) (*cmdDef, []string) {
	c := &cmdDef{name: t[1]}
	c.aliases, t = takeList(t[2:])
	nf := atoi(t[0])
	t = t[1:]
	for i := 0; i < nf; i++ {
		c.flags = append(c.flags, flagDef{t[0], t[1], t[2], strings.Contains(t[3], "P"), strings.Contains(t[3], "H"), strings.Contains(t[3], "D"), strings.Contains(t[3], "X"), strings.Contains(t[3], "S")})
		t = t[4:]
	}
	c.interspersed, c.hidden, c.dep = strings.Contains(t[0], "I"), strings.Contains(t[0], "H"), strings.Contains(t[0], "D")
	ns := atoi(t[1])
	t = t[2:]
	for i := 0; i < ns; i++ {
		var s *cmdDef
		s, t = parseCmd(t)
		c.subs = append(c.subs, s)
	}
	return c, t
}

type runRecord struct {
	path    string
	flags   map[string]string
	args    []string
	dash    int
	ran     bool
	failed  bool // Execute returned an error
	errText string
}

// build the cobra tree; with complete=true the marker completions are registered
func buildCobra(c *cmdDef, path string, complete bool, rec *runRecord) *cobra.Command {
	p := path + c.name
	cmd := &cobra.Command{Use: c.name, Aliases: c.aliases, Hidden: c.hidden, Args: cobra.ArbitraryArgs}
	if c.dep {
		cmd.Deprecated = "deprecated"
	}
	cmd.Run = func(cc *cobra.Command, args []string) {
		rec.ran, rec.path, rec.args, rec.dash = true, p, append([]string{}, args...), cc.ArgsLenAtDash()
		rec.flags = map[string]string{}
		cc.Flags().VisitAll(func(f *pflag.Flag) {
			if f.Changed {
				rec.flags[f.Name] = f.Value.String()
			}
		})
	}
	actions := carapace.ActionMap{}
	for _, f := range c.flags {
		fs := cmd.Flags()
		if f.persistent {
			fs = cmd.PersistentFlags()
		}
		switch f.kind {
		case "b":
			fs.BoolP(f.name, f.short, false, "")
		case "c":
			fs.CountP(f.name, f.short, "")
		case "s":
			fs.StringP(f.name, f.short, "", "")
		case "l":
			fs.StringSliceP(f.name, f.short, nil, "")
		case "o":
			fs.StringP(f.name, f.short, "", "")
			fs.Lookup(f.name).NoOptDefVal = " "
		}
		if f.hidden {
			fs.Lookup(f.name).Hidden = true
		}
		if f.dep {
			fs.MarkDeprecated(f.name, "deprecated")
		}
		if f.shdep && f.short != "" {
			fs.MarkShorthandDeprecated(f.name, "use the long form")
		}
		if f.kind == "s" || f.kind == "l" || f.kind == "o" || f.kind == "c" {
			actions[f.name] = carapace.ActionValues("F:" + p + ":" + f.name)
		}
	}
	if ex := c.exclusive(); len(ex) >= 2 {
		cmd.MarkFlagsMutuallyExclusive(ex...)
	}
	cmd.Flags().SetInterspersed(c.interspersed)
	for _, s := range c.subs {
		cmd.AddCommand(buildCobra(s, p+"/", complete, rec))
	}
	if complete {
		carapace.Gen(cmd).FlagCompletion(actions)
		carapace.Gen(cmd).PositionalAnyCompletion(carapace.ActionCallback(func(cc carapace.Context) carapace.Action {
			return carapace.ActionValues("P:" + p + ":" + strconv.Itoa(len(cc.Args)))
		}))
		carapace.Gen(cmd).DashAnyCompletion(carapace.ActionCallback(func(cc carapace.Context) carapace.Action {
			return carapace.ActionValues("D:" + p + ":" + strconv.Itoa(len(cc.Args)))
		}))
	}
	return cmd
}

// the command (path) that defines flag `name` as seen from the command at `path`: the command itself
// or the nearest ancestor with a persistent flag of that name
func flagOwner(def *cmdDef, path string, name string) string {
	segs := strings.Split(path, "/")
	cur := def
	owner := path
	p := cur.name
	chain := []*cmdDef{cur}
	paths := []string{p}
	for _, s := range segs[1:] {
		for _, sub := range cur.subs {
			if sub.name == s {
				cur = sub
				break
			}
		}
		p += "/" + cur.name
		chain = append(chain, cur)
		paths = append(paths, p)
	}
	for i := len(chain) - 1; i >= 0; i-- {
		for _, f := range chain[i].flags {
			if f.name == name && (i == len(chain)-1 || f.persistent) {
				return paths[i]
			}
		}
	}
	return owner
}

type exportDoc struct {
	Messages []string `json:"messages"`
	Values   []struct {
		Value string `json:"value"`
		Tag   string `json:"tag"`
	} `json:"values"`
}

var slotNames = []string{"alpha", "beta", "gamma", "sub", "run", "x"}
var slotFlagNames = []string{"str", "bool", "count", "list", "opt", "verbose", "name", "all"}

func genCmd(r *Rng, depth int, name string) *cmdDef {
	c := &cmdDef{name: name, interspersed: !r.Chance(1, 4)}
	if r.Chance(1, 4) {
		c.aliases = []string{name + "-alias"}
	}
	nf := r.Intn(5)
	used := map[string]bool{}
	shorts := map[string]bool{}
	for i := 0; i < nf; i++ {
		n := r.Pick(slotFlagNames)
		if used[n] {
			continue
		}
		used[n] = true
		sh := ""
		if r.Chance(2, 3) {
			sh = string(n[0])
			if shorts[sh] {
				sh = ""
			}
			shorts[sh] = true
		}
		kind := map[string]string{"str": "s", "bool": "b", "count": "c", "list": "l", "opt": "o", "verbose": "b", "name": "s", "all": "b"}[n]
		c.flags = append(c.flags, flagDef{n, sh, kind, depth < 2 && r.Chance(1, 4), r.Chance(1, 10), r.Chance(1, 12), r.Chance(1, 3), sh != "" && r.Chance(1, 10)})
	}
	if depth < 2 {
		ns := r.Intn(3)
		usedS := map[string]bool{}
		for i := 0; i < ns; i++ {
			sn := r.Pick(slotNames)
			if usedS[sn] {
				continue
			}
			usedS[sn] = true
			s := genCmd(r, depth+1, sn)
			s.hidden, s.dep = r.Chance(1, 10), r.Chance(1, 12)
			c.subs = append(c.subs, s)
		}
	}
	return c
}

// the names of the command's mutually exclusive group
func (c *cmdDef) exclusive() []string {
	var ex []string
	for _, f := range c.flags {
		if f.excl {
			ex = append(ex, f.name)
		}
	}
	return ex
}

func (c *cmdDef) allFlags(inherited []flagDef) []flagDef {
	out := append([]flagDef{}, inherited...)
	return append(out, c.flags...)
}

// a typed line from the tree's own vocabulary
func genLine(r *Rng, root *cmdDef) ([]string, string) {
	var words []string
	cur := root
	var inherited []flagDef
	n := r.Intn(5)
	word := func(final bool) string {
		fl := cur.allFlags(inherited)
		switch x := r.Intn(12); {
		case x < 3 && len(fl) > 0:
			f := fl[r.Intn(len(fl))]
			switch r.Intn(5) {
			case 0:
				return "--" + f.name
			case 1:
				return "--" + f.name + "=" + r.Pick([]string{"v", "", "a=b"})
			case 2:
				if f.short != "" {
					return "-" + f.short
				}
				return "--" + f.name
			case 3:
				if f.short != "" {
					return "-" + f.short + r.Pick([]string{"v", "=v", "="})
				}
				return "--" + f.name
			default:
				// a chain of shorthands
				s := "-"
				for k := 0; k < 1+r.Intn(3); k++ {
					g := fl[r.Intn(len(fl))]
					if g.short != "" {
						s += g.short
					}
				}
				if s == "-" {
					return "--" + f.name
				}
				return s
			}
		case x < 5 && len(cur.subs) > 0:
			s := cur.subs[r.Intn(len(cur.subs))]
			if !final {
				for _, f := range cur.flags {
					if f.persistent {
						inherited = append(inherited, f)
					}
				}
				cur = s
			}
			if len(s.aliases) > 0 && r.Chance(1, 3) {
				return s.aliases[0]
			}
			return s.name
		case x < 6:
			return "--"
		case x < 7:
			return r.Pick([]string{"-", "", "--unknown", "-z"})
		case x < 8:
			return "v" // a word that may be a flag value
		default:
			return r.Pick([]string{"pos1", "pos2", "file.txt"})
		}
	}
	for i := 0; i < n; i++ {
		words = append(words, word(false))
	}
	curw := ""
	if r.Chance(1, 2) {
		curw = word(true)
		if r.Chance(1, 2) && len(curw) > 1 {
			curw = curw[:1+r.Intn(len(curw)-1)]
		}
	}
	return words, curw
}

func slotGen(r *Rng, i int, cfg int, tier string) []string {
	root := genCmd(r, 0, "root")
	words, cur := genLine(r, root)
	cf := root.tokens()
	cf = append(cf, strList(words)...)
	cf = append(cf, cur)
	note("words=" + strconv.Itoa(len(words)))
	return cf
}

func slotRun(cf []string) []string {
	def, rest := parseCmd(cf)
	words, rest := takeList(rest)
	cur := rest[0]
	return slotRunDef(def, words, cur)
}

var lastProbe string

func slotRunDef(def *cmdDef, words []string, cur string) []string {
	// ---- carapace's slot
	x.ClearStorage()
	rec := &runRecord{}
	root := buildCobra(def, "", true, rec)
	var stdout, stderr bytes.Buffer
	root.SetOut(&stdout)
	root.SetErr(&stderr)
	args := append([]string{"_carapace", "export", "root"}, words...)
	args = append(args, cur)
	root.SetArgs(args)
	os.Setenv("CARAPACE_UNFILTERED", "1")
	func() {
		defer func() {
			if p := recover(); p != nil {
				stdout.Reset()
				stdout.WriteString("PANIC")
			}
		}()
		root.Execute()
	}()
	if stdout.String() == "PANIC" {
		return []string{"panic"}
	}
	var doc exportDoc
	raw := stdout.Bytes()
	if k := bytes.Index(raw, []byte("{\"version\"")); k > 0 {
		raw = raw[k:] // cobra prints pflag's deprecation notes to the same writer here (SetOut); a shell sees them on stderr
	}
	if err := json.Unmarshal(raw, &doc); err != nil {
		return []string{"noexport", stdout.String()}
	}
	// slot = set of markers / kinds of names offered
	slots := map[string]bool{}
	var probe string
	var names []string
	for _, v := range doc.Values {
		switch {
		case strings.Contains(v.Value, "F:") || strings.Contains(v.Value, "P:") || strings.Contains(v.Value, "D:"):
			i := strings.IndexAny(v.Value, "FPD")
			for i >= 0 && !(i+1 < len(v.Value) && v.Value[i+1] == ':') {
				j := strings.IndexAny(v.Value[i+1:], "FPD")
				if j < 0 {
					i = -1
				} else {
					i += 1 + j
				}
			}
			if i >= 0 {
				slots[v.Value[i:]] = true
				if probe == "" {
					probe = v.Value[:i] + "PROBE"
				}
			}
		case strings.Contains(v.Tag, "flags"):
			slots["N"] = true
			names = append(names, "f:"+v.Value)
		case strings.Contains(v.Tag, "commands"):
			slots["S"] = true
			names = append(names, "c:"+v.Value)
		default:
			slots["?"+v.Value] = true
		}
	}
	for _, m := range doc.Messages {
		slots["M:"+m] = true
	}
	var sl []string
	for k := range slots {
		sl = append(sl, k)
	}
	sort.Strings(sl)
	sort.Strings(names)
	out := []string{"ok", strings.Join(sl, "+")}
	lastProbe = probe
	// ---- the program's own verdict on the completed line
	delivered := "-"
	if probe != "" {
		x.ClearStorage()
		rec2 := &runRecord{}
		root2 := buildCobra(def, "", false, rec2)
		var o2, e2 bytes.Buffer
		root2.SetOut(&o2)
		root2.SetErr(&e2)
		root2.SetArgs(append(append([]string{}, words...), probe))
		err := root2.Execute()
		switch {
		case err != nil || !rec2.ran:
			delivered = "rejected"
		default:
			delivered = "lost"
			for name, val := range rec2.flags {
				if strings.Contains(val, "PROBE") {
					delivered = "F:" + flagOwner(def, rec2.path, name) + ":" + name
				}
			}
			for i, a := range rec2.args {
				if a == "PROBE" {
					if rec2.dash >= 0 && i >= rec2.dash {
						delivered = "D:" + rec2.path + ":" + strconv.Itoa(i-rec2.dash)
					} else {
						delivered = "P:" + rec2.path + ":" + strconv.Itoa(i)
					}
				}
			}
		}
	}
	out = append(out, delivered)
	out = append(out, strList(names)...)
	return out
}

// ---- one command, all posix word forms, for the tie with Model/Pflag.v
// case: il <names> <kinds> <shorthands> <words> cur
func slotFragGen(r *Rng, i int, cfg int, tier string) []string {
	c := genCmd(r, 2, "root") // depth 2: no sub-commands
	var names, kinds, shorts []string
	for _, f := range c.flags {
		names = append(names, f.name)
		kinds = append(kinds, f.kind)
		shorts = append(shorts, f.short)
	}
	value := func(k int) string {
		// a value the flag's type accepts (what a value means is not part of the slot)
		switch kinds[k] {
		case "b":
			return r.Pick([]string{"true", "false", "1"})
		case "c":
			return r.Pick([]string{"1", "3"})
		}
		return r.Pick([]string{"v", "", "a=b", "true", "1", "-", "--", "-x"})
	}
	word := func() string {
		switch x := r.Intn(14); {
		case x < 4 && len(names) > 0:
			k := r.Intn(len(names))
			n := names[k]
			switch r.Intn(4) {
			case 0, 1:
				return "--" + n
			case 2:
				return "--" + n + "=" + value(k)
			default:
				return "--" + n + "x"
			}
		case x < 7 && len(names) > 0:
			// shorthand words: -s, chains, attached and `=` values
			w := "-"
			for n := 1 + r.Intn(3); n > 0; n-- {
				k := r.Intn(len(names))
				if shorts[k] == "" {
					continue
				}
				w += shorts[k]
				if kinds[k] == "s" || kinds[k] == "l" {
					switch r.Intn(3) {
					case 0:
						w += "=" + value(k)
					case 1:
						w += r.Pick([]string{"v", "val", "1"})
					}
					return w
				}
				if r.Chance(1, 8) {
					w += "=" + value(k)
					return w
				}
			}
			if w == "-" || r.Chance(1, 12) {
				w += r.Pick([]string{"", "z", "="})
			}
			return w
		case x < 8:
			return "--"
		case x < 9:
			return r.Pick([]string{"", "-", "--unknown", "--=x", "---x", "--unknown=1", "--hel"})
		case x < 10:
			return r.Pick([]string{"v", "true", "1"})
		default:
			return r.Pick([]string{"pos1", "pos2", "file.txt", "a=b"})
		}
	}
	var words []string
	for k := r.Intn(6); k > 0; k-- {
		words = append(words, word())
	}
	cur := ""
	if r.Chance(2, 3) {
		cur = r.Pick([]string{"x", "pos", "--", "--unknown", "file.txt", "a=b"})
		if len(names) > 0 {
			k := r.Intn(len(names))
			switch r.Intn(4) {
			case 0:
				cur = "--" + names[k][:r.Intn(len(names[k])+1)]
			case 1:
				cur = "--" + names[k] + "=" + r.Pick([]string{"", "t", "par"})
			}
		}
	}
	il := "1"
	if !c.interspersed {
		il = "0"
	}
	cf := []string{il}
	cf = append(cf, strList(names)...)
	cf = append(cf, strList(kinds)...)
	cf = append(cf, strList(shorts)...)
	cf = append(cf, strList(words)...)
	cf = append(cf, cur)
	note("words=" + strconv.Itoa(len(words)))
	return cf
}

func slotFragRun(cf []string) []string {
	il := cf[0] == "1"
	names, rest := takeList(cf[1:])
	kinds, rest := takeList(rest)
	shorts, rest := takeList(rest)
	words, rest := takeList(rest)
	cur := rest[0]
	def := &cmdDef{name: "root", interspersed: il}
	for i, n := range names {
		def.flags = append(def.flags, flagDef{name: n, kind: kinds[i], short: shorts[i]})
	}
	out := slotRunDef(def, words, cur)
	if out[0] != "ok" {
		return out
	}
	// canonical form of the slot set
	parts := strings.Split(out[1], "+")
	if out[1] == "" {
		parts = nil
	}
	var ms, fs, other []string
	for _, p := range parts {
		switch {
		case strings.HasPrefix(p, "M:"):
			ms = append(ms, p)
		case strings.HasPrefix(p, "F:") || strings.HasPrefix(p, "P:") || strings.HasPrefix(p, "D:"):
			fs = append(fs, p)
		case p == "S":
			// sub-command names (help, completion) next to the first positional: not a slot of this model
		default:
			other = append(other, p)
		}
	}
	switch {
	case len(ms) > 0 && len(fs) == 0 && len(other) == 0:
		note("slot=M")
		return []string{"ok", "M"}
	case len(fs) == 1 && len(ms) == 0 && len(other) == 0:
		seg := strings.Split(fs[0], ":")
		note("slot=" + seg[0])
		switch seg[0] {
		case "F":
			prefix := strings.TrimSuffix(lastProbe, "PROBE")
			return []string{"ok", "F", seg[2], prefix}
		default:
			return []string{"ok", seg[0], seg[2]}
		}
	case len(fs) == 0 && len(ms) == 0:
		isBool := len(other) == 2 && strings.HasSuffix(other[0], "=false") && strings.HasSuffix(other[1], "=true")
		if isBool {
			note("slot=B")
			return []string{"ok", "B", strings.TrimSuffix(strings.TrimPrefix(other[0], "?"), "false")}
		}
		names := true
		for _, o := range other {
			if o != "N" {
				names = false
			}
		}
		if names && strings.HasPrefix(cur, "-") {
			note("slot=N")
			return []string{"ok", "N"}
		}
	}
	note("slot=other")
	return []string{"ok", "other", out[1]}
}

// ---- stream `tree`: command trees, for the tie with Model/Descent.v (cobra's Find and traverse's descent)
// case: the tree tokens, <words>, cur ; impl: ok <path cobra runs | rejected> <path of carapace's marker | -> <slot...>
func init() {
	props["tree"] = prop{
		configs: func(tier string) []map[string]string { return []map[string]string{{}} },
		gen:     treeGen,
		run:     treeRun,
		shard:   600,
	}
}

func treeGen(r *Rng, i int, cfg int, tier string) []string {
	root := genCmd(r, 0, "root")
	words, cur := genLine(r, root)
	// the word under the cursor: as in the one-command stream (no shorthand word under the cursor)
	if strings.HasPrefix(cur, "-") && !strings.HasPrefix(cur, "--") {
		cur = r.Pick([]string{"", "x", "--"})
	}
	cf := root.tokens()
	cf = append(cf, strList(words)...)
	cf = append(cf, cur)
	note("words=" + strconv.Itoa(len(words)))
	return cf
}

func treeRun(cf []string) []string {
	def, rest := parseCmd(cf)
	words, rest := takeList(rest)
	cur := rest[0]
	// where cobra itself goes with the typed words
	base := execTree(def, words)
	cobraPath := "rejected"
	if base.ran {
		cobraPath = base.path
	}
	out := slotRunDef(def, words, cur)
	if out[0] != "ok" {
		return out
	}
	var fs, ms, other []string
	for _, p := range strings.Split(out[1], "+") {
		switch {
		case p == "" || p == "S":
		case strings.HasPrefix(p, "M:"):
			ms = append(ms, p)
		case strings.HasPrefix(p, "F:") || strings.HasPrefix(p, "P:") || strings.HasPrefix(p, "D:"):
			fs = append(fs, p)
		default:
			other = append(other, p)
		}
	}
	res := []string{"ok", cobraPath}
	switch {
	case len(fs) == 1 && len(ms) == 0 && len(other) == 0:
		seg := strings.Split(fs[0], ":")
		if seg[0] == "F" {
			// the marker names the command that DEFINES the flag; report the flag and the prefix only
			return append(res, "?", "F", seg[2], strings.TrimSuffix(lastProbe, "PROBE"))
		}
		return append(res, seg[1], seg[0], seg[2])
	case len(ms) > 0 && len(fs) == 0 && len(other) == 0:
		return append(res, "?", "M")
	}
	return append(res, "?", "other", out[1])
}
