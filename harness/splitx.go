package main

// `lex`   — C17 (tie of the lexer model): real shlex.Split, every field of every token.
// `split` — C17: Action.Split / SplitP around a marker action; what the wrapped action sees,
//           the candidates, and — computed here with the real lexer — whether every candidate
//           keeps the typed text in front of the last word byte for byte and re-reads as the
//           earlier words followed by the candidate's value.

import (
	"os"
	"strconv"
	"strings"

	shlex "github.com/carapace-sh/carapace-shlex"
	"github.com/carapace-sh/carapace"
)

func init() {
	props["lex"] = prop{
		configs: func(tier string) []map[string]string { return []map[string]string{{}, {}, {"COMP_WORDBREAKS": " \t\n\"'@><=;|&(:"}} },
		gen:     lexGen,
		run:     lexRun,
		shard:   4000,
		envOf: func(f []string) map[string]string {
			if f[0] != "" {
				return map[string]string{"COMP_WORDBREAKS": f[0]}
			}
			return nil
		},
	}
	props["split"] = prop{
		configs: func(tier string) []map[string]string { return []map[string]string{{}} },
		gen:     splitGen,
		run:     splitRun,
		shard:   4000,
	}
}

var lexAtoms = []string{"a", "b", "cmd", "é", "日", " ", " ", "  ", "\t", "\"", "'", "\\", "|", ">", ";", "#", "=", ":", "&", "<", "2", "\n", "x y", "-f", "(", "@", "😀"}

func lexText(r *Rng, max int) string {
	n := r.Intn(max + 1)
	var sb strings.Builder
	for i := 0; i < n; i++ {
		sb.WriteString(r.Pick(lexAtoms))
	}
	return sb.String()
}

func lexGen(r *Rng, i int, cfg int, tier string) []string {
	return []string{os.Getenv("COMP_WORDBREAKS"), lexText(r, 9)}
}

func lexRun(cf []string) []string {
	tokens, err := shlex.Split(cf[1])
	if err != nil {
		return []string{"error", err.Error()}
	}
	out := []string{"ok"}
	for _, t := range tokens {
		out = append(out, strconv.Itoa(int(t.Type)), t.Value, t.RawValue, strconv.Itoa(t.Index), strconv.Itoa(int(t.State)), strconv.Itoa(t.WordbreakIndex))
	}
	return out
}

// candidate values: word characters and blanks (the property's alphabet), some ending in the no-space character
var splitVals = []string{"value", "my dir/", "two words", "x", "é", "a b c", "dir/", "k=", "日本"}

func splitGen(r *Rng, i int, cfg int, tier string) []string {
	flags := "R"
	if r.Chance(1, 2) {
		flags += "P"
	}
	// embedded lines: earlier words, then a last word in one of the three styles
	var sb strings.Builder
	nw := r.Intn(3)
	for k := 0; k < nw; k++ {
		sb.WriteString(r.Pick([]string{"cmd", "sub", "é", "日本", "'a b'", "\"q\"", "x\\ y", "-f", "--flag=v"}))
		sb.WriteString(r.Pick([]string{" ", " ", "  "}))
		if strings.Contains(flags, "P") && r.Chance(1, 5) {
			sb.WriteString(r.Pick([]string{"| ", "; ", "&& ", "> ", "2> ", "< ", "|", ">"}))
		}
	}
	sb.WriteString(r.Pick([]string{"", "", "v", "my", "\"", "\"my", "'", "'my", "my\\ ", "é", "\"é ", "'日"}))
	if r.Chance(1, 8) {
		sb.Reset()
		sb.WriteString(lexText(r, 7))
	}
	ns := r.Pick([]string{"", "", "/", "*", "=/"})
	n := 1 + r.Intn(3)
	vals := make([]string, n)
	for k := range vals {
		vals[k] = r.Pick(splitVals)
	}
	cf := []string{flags, "", sb.String(), ns}
	note("flags=" + flags)
	return append(cf, strList(vals)...)
}

func splitRun(cf []string) []string {
	flags, text, ns := cf[0], cf[2], cf[3]
	vals, _ := takeList(cf[4:])
	var seenArgs []string
	var seenValue string
	marker := carapace.ActionCallback(func(c carapace.Context) carapace.Action {
		seenArgs, seenValue = append([]string{}, c.Args...), c.Value
		a := carapace.ActionValues(vals...)
		if ns != "" {
			a = a.NoSpace([]rune(ns)...)
		}
		return a
	})
	pipelines := strings.Contains(flags, "P")
	a := marker.Split()
	if pipelines {
		a = marker.SplitP()
	}
	seenArgs, seenValue = nil, "\x00not-invoked"
	_, got, p := invokeSafe(a, carapace.Context{Value: text, Dir: os.Getenv("VERIF_SCRATCH")})
	if p != "" {
		return []string{"panic", p}
	}
	if seenValue == "\x00not-invoked" { // a word after a redirection operator: completed as a file
		return []string{"ok", "redirect"}
	}
	// model-free judgement with the real lexer
	tokens, _ := shlex.Split(text)
	if pipelines {
		tokens = tokens.CurrentPipeline()
	}
	idx := tokens.Words().CurrentToken().Index
	runes := []rune(text)
	if idx > len(runes) {
		idx = len(runes)
	}
	wantPrefix := string(runes[:idx])
	out := []string{"ok"}
	out = append(out, strList(seenArgs)...)
	out = append(out, seenValue, strconv.Itoa(len(got)))
	for i, v := range got {
		prefixOK, relexOK := "0", "0"
		if strings.HasPrefix(v.Value, wantPrefix) {
			prefixOK = "1"
		}
		if re, err := shlex.Split(v.Value); err == nil {
			if pipelines {
				re = re.CurrentPipeline().FilterRedirects()
			}
			ws := re.Words().Strings()
			// a candidate followed by a blank re-reads with an empty last word for the cursor
			if len(ws) > 0 && ws[len(ws)-1] == "" && strings.HasSuffix(v.Value, " ") {
				ws = ws[:len(ws)-1]
			}
			want := append(append([]string{}, seenArgs...), vals[i%len(vals)])
			if i < len(vals) {
				want[len(want)-1] = vals[i]
			}
			if strings.Join(ws, "\x00") == strings.Join(want, "\x00") {
				relexOK = "1"
			}
		}
		out = append(out, v.Value, prefixOK, relexOK)
	}
	return out
}
