package main

// `suppress` — C06 ("messages removed with Suppress, and only those, are absent"): Suppress with one to four
// expressions over Batches of message-carrying actions, through the real library vs the model
// (Model/Action.v msgs_suppress, match relation instantiated in Run/RunAlgebra.v).  Same case syntax, run function
// and runner entry points as the `algebra` stream; what differs is the generator: several expressions per call,
// expressions with an ungrouped inline flag ("(?i)" + QuoteMeta, tagged 01 'I' in the case) in any position, and
// messages that differ from the expressions only by case, so that a flag leaking from one expression into the
// next, or an expression that is not tried at all, changes which messages survive.

import (
	"sort"
	"strconv"
)

func init() {
	props["suppress"] = prop{
		configs: func(tier string) []map[string]string { return []map[string]string{{}, {}} },
		gen:     suppressGen,
		run:     algRun,
		shard:   3000,
	}
}

var supMsgs = []string{"permission denied: /etc/shadow", "Permission Denied", "timeout after 3s", "Timeout", "boom", "Boom: x",
	"failed: x", "FAILED", "static msg", "unknown flag: --x", "a|b", "(paren"} // never the bare `|`: it separates case and output in the oracle protocol
var supPats = []string{"denied", "Denied", "timeout", "Timeout", "boom", "BOOM", "failed", "nomatch", "static", "a|", "(", "flag: --", "x"}

func suppressGen(r *Rng, i int, cfg int, tier string) []string {
	g := &exprGen{r: r}
	np := 1 + r.Intn(4)
	pats := make([]string, np)
	for k := range pats {
		pats[k] = r.Pick(supPats)
		if r.Chance(1, 3) {
			pats[k] = "\x01I" + pats[k]
			note("pattern=ignorecase")
		} else {
			note("pattern=literal")
		}
	}
	note("patterns=" + strconv.Itoa(np))
	if r.Chance(1, 4) {
		g.emit("U", "outer usage")
	}
	g.emit("Q")
	g.emit(strList(pats)...)
	n := 1 + r.Intn(4)
	g.emit("B", strconv.Itoa(n))
	for k := 0; k < n; k++ {
		switch r.Intn(4) {
		case 0:
			g.emit("V")
			g.emit(strList(g.words(3))...)
		case 1: // static action carrying two messages
			g.emit("S", "", "")
			ms := []string{r.Pick(supMsgs), r.Pick(supMsgs)} // a static message set: sorted, duplicate free (as Messages.Get returns it)
			sort.Strings(ms)
			if ms[0] == ms[1] {
				ms = ms[:1]
			}
			g.emit(strList(ms)...)
			g.emit("0")
		default:
			g.emit("M", r.Pick(supMsgs))
		}
	}
	v := r.Pick([]string{"", "", "a", "ab"})
	cf := []string{"0", v}
	cf = append(cf, strList(nil)...)
	cf = append(cf, strList(nil)...)
	return append(cf, g.out...)
}
