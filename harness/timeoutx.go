package main

// `timeout` — C19: Action.Timeout around wrapped actions of controlled duration (instant, just
// below / above d, never returning, still writing after being abandoned), nested, inside a
// Batch, and the SAME Timeout-wrapped Action invoked several times.

import (
	"strconv"
	"strings"
	"sync/atomic"
	"time"

	"github.com/carapace-sh/carapace"
	"github.com/carapace-sh/carapace/internal/common"
)

func init() {
	props["timeout"] = prop{
		configs: func(tier string) []map[string]string { return []map[string]string{{}} },
		gen:     toGen,
		run:     toRun,
		shard:   6,
		procs:   6, // wall-clock margins: leave most cores idle
	}
	props["timeoutrace"] = prop{
		configs: func(tier string) []map[string]string { return []map[string]string{{}} },
		gen:     toGen,
		run:     toRun,
		shard:   6,
	}
}

// fields: flags (B = inside a Batch), then per invocation: d d2 ta
func toGen(r *Rng, i int, cfg int, tier string) []string {
	flags := ""
	if r.Chance(1, 4) {
		flags += "B"
	}
	if r.Chance(1, 3) {
		flags += "W" // a modifier between the slow callback and Timeout (the slow work sits one callback deeper)
	}
	if r.Chance(1, 5) {
		flags += "N" // the callback returns at once, with another callback that is the slow one
	}
	d := []int{150, 200, 260}[r.Intn(3)]
	d2 := "-"
	if r.Chance(1, 3) {
		d2 = strconv.Itoa([]int{150, 260, 400}[r.Intn(3)])
	}
	cf := []string{flags}
	n := 1 + r.Intn(3)
	for k := 0; k < n; k++ {
		var ta int
		switch r.Intn(6) {
		case 0:
			ta = 0
		case 1:
			ta = d - 110
			if ta < 0 {
				ta = 0
			}
		case 2:
			ta = d + 90
		case 3:
			ta = -1 // never returns
		case 4:
			ta = d + 220
		default:
			ta = d / 4
		}
		cf = append(cf, strconv.Itoa(d), d2, strconv.Itoa(ta))
	}
	note("invocations=" + strconv.Itoa(n))
	return cf
}

func toRun(cf []string) []string {
	flags := cf[0]
	steps := cf[1:]
	d, d2 := atoi(steps[0]), steps[1]
	var current atomic.Int64 // duration of the wrapped action for the invocation under way
	var startedAt, doneAfter atomic.Int64 // when the invocation started (ns), after how many ms the wrapped action really finished (-1: not yet)
	release := make(chan struct{})
	released := false
	unblock := func() {
		if !released {
			released = true
			close(release)
		}
	}
	defer unblock()
	inner := carapace.ActionCallback(func(c carapace.Context) carapace.Action {
		ta := current.Load()
		if ta < 0 {
			<-release // never returns while the test runs
		} else {
			time.Sleep(time.Duration(ta) * time.Millisecond)
		}
		doneAfter.Store((time.Now().UnixNano() - startedAt.Load()) / 1e6)
		return carapace.ActionValuesDescribed("inner", "inner description").NoSpace('/').Usage("inner usage")
	})
	a := inner
	if strings.Contains(flags, "N") {
		slow := inner
		a = carapace.ActionCallback(func(c carapace.Context) carapace.Action { return slow })
	}
	if strings.Contains(flags, "W") {
		a = a.Tag("wrapped")
	}
	if d2 != "-" {
		a = a.Timeout(time.Duration(atoi(d2))*time.Millisecond, carapace.ActionValues("alt2"))
	}
	a = a.Timeout(time.Duration(d)*time.Millisecond, carapace.ActionValues("alt"))
	if strings.Contains(flags, "B") {
		a = carapace.Batch(a, carapace.ActionValues("other")).ToA()
	}
	out := []string{"ok"}
	for len(steps) > 0 {
		current.Store(int64(atoi(steps[2])))
		steps = steps[3:]
		t0 := time.Now()
		startedAt.Store(t0.UnixNano())
		doneAfter.Store(-1)
		type res struct {
			meta common.Meta
			vals common.RawValues
			p    string
		}
		ch := make(chan res, 1)
		go func() {
			m, v, p := invokeSafe(a, carapace.Context{})
			ch <- res{m, v, p}
		}()
		var rr res
		select {
		case rr = <-ch:
		case <-time.After(3 * time.Second):
			// no answer at all: report it and let the wrapped action go so that the process can finish
			out = append(out, "no-answer", strconv.FormatInt(time.Since(t0).Milliseconds(), 10))
			unblock()
			<-ch
			return out
		}
		meta, vals, p := rr.meta, rr.vals, rr.p
		el := time.Since(t0).Milliseconds()
		if p != "" {
			return []string{"panic", p}
		}
		got := "none"
		for _, v := range vals {
			if v.Value == "inner" || v.Value == "alt" || v.Value == "alt2" {
				got = v.Value
				if v.Value == "inner" && (v.Description != "inner description" || meta.Usage != "inner usage" || nospaceString(meta.Nospace) != "/") {
					got = "inner-without-metadata"
				}
			}
		}
		time.Sleep(20 * time.Millisecond) // let an abandoned worker of a boundary case settle
		// el: when the answer came; after it: when the wrapped action really finished on this (possibly loaded) machine
		out = append(out, got, strconv.FormatInt(el, 10)+"/"+strconv.FormatInt(doneAfter.Load(), 10))
	}
	return out
}
