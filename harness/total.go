package main

// Stream `total` (C18): the hidden `_carapace` entry point of a program with a rich command tree,
// run in a process of its own per case (so that a panic in any goroutine, a fatal error or a
// hang is observed from outside), below an ancestor process named like the shell so that
// ps.DetermineShell takes the shell-specific argument patching paths.

import (
	"bytes"
	"encoding/hex"
	"encoding/json"
	"fmt"
	"io"
	"os"
	"os/exec"
	"path/filepath"
	"strconv"
	"strings"
	"time"
	"unicode/utf8"

	"github.com/carapace-sh/carapace"
	"github.com/spf13/cobra"
)

func init() {
	props["total"] = prop{
		configs: func(tier string) []map[string]string { return []map[string]string{{}} },
		gen:     totalGen,
		run:     totalRun,
		shard:   150,
	}
}

var totalShells = []string{"bash", "bash-ble", "cmd-clink", "elvish", "export", "fish", "ion", "nushell", "oil", "powershell", "tcsh", "xonsh", "zsh"}
var totalParents = []string{"bash", "nu", "cmd", "zsh", "fish", "elvish", "pwsh", "xonsh", "sh"}

func nastyWord(r *Rng) string {
	switch r.Intn(22) {
	case 0:
		return ""
	case 1:
		return "-"
	case 2:
		return "--"
	case 3:
		return "\""
	case 4:
		return "'"
	case 5:
		return "\"a b"
	case 6:
		return "'x"
	case 7:
		return "`"
	case 8:
		return "\xff\xfe"
	case 9:
		return "a\xc3"
	case 10:
		return strings.Repeat("a", 3000+r.Intn(9000))
	case 11:
		return strings.Repeat("é", 1+r.Intn(5))
	case 12:
		return "K" // the Kelvin sign: lower-cases to a one byte letter
	case 13:
		return r.Pick([]string{"k", "K", "İ", "ǰ"})
	case 14:
		return "a\tb\nc"
	case 15:
		return r.Pick([]string{">", "2>", "<", "|", ";", "&&", ">>", "&>"})
	case 16:
		return "~x/y"
	case 17:
		return r.Pick([]string{"~", "~/", "~nobody", "~x"})
	case 18:
		return "\\"
	case 19:
		return "a=b:c"
	case 20:
		return r.Pick([]string{"\"\"", "''", "\"#x", "' ", "\" ", "'#", "\"\\", "``", "`a"})
	case 21:
		return r.Pick([]string{"k", "kc", "\u212a", "\u212acb", "KC"})
	default:
		return ""
	}
}

func totalWord(r *Rng) string {
	if r.Chance(1, 3) {
		return nastyWord(r)
	}
	return r.Pick([]string{"sub", "action", "multi", "files", "exec", "fail", "split", "--str", "--str=", "-s", "-sv", "-bv", "--bool", "--list", "a,", "a/b", "pos", "x", "--opt=", "-o=", "--", "help", "_carapace", "cb", "batch", "k", "K", "multiparts", "dir/", "~x", "~x/", "~/", "--opt=~x", "-o=~x"})
}

func genLineText(r *Rng) string {
	n := r.Intn(6)
	var parts []string
	for i := 0; i < n; i++ {
		parts = append(parts, totalWord(r))
	}
	sep := r.Pick([]string{" ", " ", "  ", ";", " | ", " > ", ";#", "\t"})
	s := "root " + strings.Join(parts, sep)
	if r.Chance(1, 4) {
		s += r.Pick([]string{" ", ";", " ;", "|", " \"", " '", ";#b", " #", "\\"})
	}
	return s
}

// case: parent shell nargs args... nenv (key value)*
func totalGen(r *Rng, i int, cfg int, tier string) []string {
	parent := r.Pick(totalParents)
	var args []string
	switch x := r.Intn(20); {
	case x == 0:
		// snippet for the detected shell
	case x == 1:
		args = []string{r.Pick(append(totalShells, "unknownshell", "", "\xff"))}
	default:
		shell := r.Pick(totalShells)
		if r.Chance(1, 15) {
			shell = r.Pick([]string{"unknownshell", "", "BASH", "bash ", "\xff"})
		}
		args = []string{shell, "root"}
		if r.Chance(1, 20) {
			args[1] = r.Pick([]string{"", "_x", "other"})
		}
		for k := r.Intn(6); k > 0; k-- {
			args = append(args, totalWord(r))
		}
		if r.Chance(1, 12) {
			args = args[:2] // no current word at all
		}
	}
	env := map[string]string{}
	if r.Chance(1, 2) {
		line := genLineText(r)
		env["COMP_LINE"] = line
		switch r.Intn(8) {
		case 0:
		case 1:
			env["COMP_POINT"] = r.Pick([]string{"", "-1", "abc", "99999999999999999999", "-0", "+3", " 3"})
		case 2:
			env["COMP_POINT"] = strconv.Itoa(len(line) + 1 + r.Intn(5))
		case 3:
			env["COMP_POINT"] = strconv.Itoa(r.Intn(len(line) + 1))
		default:
			env["COMP_POINT"] = strconv.Itoa(len(line))
		}
		if r.Chance(1, 2) {
			env["COMP_TYPE"] = r.Pick([]string{"9", "33", "37", "63", "64", "x", ""})
		}
		if r.Chance(1, 3) {
			env["COMP_WORDBREAKS"] = r.Pick([]string{" \t\n\"'><=;|&(:", "", ":", "\xff", "="})
		}
	}
	if r.Chance(1, 3) {
		env["CARAPACE_COMPLINE"] = genLineText(r)
	}
	if r.Chance(1, 3) {
		env["CARAPACE_MATCH"] = r.Pick([]string{"0", "1", "CASE_INSENSITIVE", "CASE_SENSITIVE", "x", ""})
	}
	if r.Chance(1, 2) {
		env["CARAPACE_ZSH_HASH_DIRS"] = r.Pick([]string{"x=/tmp", "x=/tmp\ny", "=\n=", "x=", "x=/tmp/\n\xff=\xfe", ""})
	}
	if r.Chance(1, 5) {
		env["NO_COLOR"] = r.Pick([]string{"1", ""})
	}
	if r.Chance(1, 6) {
		env["CARAPACE_HIDDEN"] = r.Pick([]string{"1", "x"})
	}
	if r.Chance(1, 6) {
		env["CARAPACE_LENIENT"] = r.Pick([]string{"1", "x"})
	}
	if r.Chance(1, 8) {
		env["CARAPACE_UNFILTERED"] = "1"
	}
	if r.Chance(1, 8) {
		env["CARAPACE_NOSPACE"] = r.Pick([]string{"*", "/", ""})
	}
	if r.Chance(1, 8) {
		env["CARAPACE_TOOLTIP"] = r.Pick([]string{"1", "x"})
	}
	cf := []string{parent}
	cf = append(cf, strList(args)...)
	cf = append(cf, strconv.Itoa(len(env)))
	keys := make([]string, 0, len(env))
	for k := range env {
		keys = append(keys, k)
	}
	sortStrings(keys)
	for _, k := range keys {
		cf = append(cf, k, env[k])
	}
	note("parent=" + parent)
	note("nargs=" + strconv.Itoa(len(args)))
	return cf
}

func sortStrings(l []string) {
	for i := 1; i < len(l); i++ {
		for j := i; j > 0 && l[j] < l[j-1]; j-- {
			l[j], l[j-1] = l[j-1], l[j]
		}
	}
}

// the parent side: one process per case, below a process named like the shell
func totalRun(cf []string) []string {
	scratch := os.Getenv("VERIF_SCRATCH")
	self, _ := os.Executable()
	parent := cf[0]
	pdir := filepath.Join(scratch, "parents")
	ppath := filepath.Join(pdir, parent)
	if _, err := os.Stat(ppath); err != nil {
		os.MkdirAll(pdir, 0o755)
		data, _ := os.ReadFile("/bin/bash")
		tmp := ppath + "." + strconv.Itoa(os.Getpid())
		os.WriteFile(tmp, data, 0o755)
		os.Rename(tmp, ppath)
	}
	hexed := make([]string, len(cf))
	for i, f := range cf {
		hexed[i] = hex.EncodeToString([]byte(f))
	}
	cmd := exec.Command(ppath, "--norc", "--noprofile", "-c", "\"$VERIF_SELF\" totalproc; exit $?")
	work := filepath.Join(scratch, "totalwork")
	os.MkdirAll(filepath.Join(work, "dir"), 0o755)
	os.WriteFile(filepath.Join(work, "a.txt"), []byte("x"), 0o644)
	cmd.Dir = work
	cmd.Env = []string{"PATH=" + os.Getenv("PATH"), "HOME=" + filepath.Join(scratch, "home"), "XDG_CONFIG_HOME=" + filepath.Join(scratch, "config"),
		"XDG_CACHE_HOME=" + filepath.Join(scratch, "cache"), "VERIF_SELF=" + self, "VERIF_TOTAL_CASE=" + strings.Join(hexed, ","), "LC_ALL=C"}
	var out, errb bytes.Buffer
	cmd.Stdout = &out
	cmd.Stderr = &errb
	if err := cmd.Start(); err != nil {
		return []string{"harness-error", err.Error()}
	}
	done := make(chan error, 1)
	go func() { done <- cmd.Wait() }()
	select {
	case <-done:
	case <-time.After(20 * time.Second):
		cmd.Process.Kill()
		<-done
		return []string{"hang", ""}
	}
	res := out.String()
	if k := strings.LastIndex(res, "\nRESULT\t"); k >= 0 || strings.HasPrefix(res, "RESULT\t") {
		line := strings.TrimPrefix(res[k+1:], "RESULT\t")
		if k < 0 {
			line = strings.TrimPrefix(res, "RESULT\t")
		}
		parts := strings.Split(strings.TrimRight(line, "\n"), "\t")
		note("status=" + parts[0])
		return parts
	}
	// the child died without reporting: a panic outside the recovered call, a fatal error, os.Exit
	e := errb.String()
	first := ""
	for _, l := range strings.Split(e, "\n") {
		if strings.HasPrefix(l, "panic:") || strings.HasPrefix(l, "fatal error:") {
			first = l
			break
		}
	}
	if first == "" && len(e) > 200 {
		e = e[:200]
	}
	if first == "" {
		first = "no result: " + e
	}
	note("status=died")
	return []string{"died", first}
}

func totalTree() *cobra.Command {
	root := &cobra.Command{Use: "root", Args: cobra.ArbitraryArgs, Run: func(*cobra.Command, []string) {}}
	root.Flags().StringP("str", "s", "", "string flag")
	root.Flags().BoolP("bool", "b", false, "bool flag")
	root.Flags().StringSliceP("list", "l", nil, "list flag")
	root.PersistentFlags().StringP("opt", "o", "", "optarg")
	root.PersistentFlags().Lookup("opt").NoOptDefVal = " "
	carapace.Gen(root).FlagCompletion(carapace.ActionMap{
		"str":  carapace.ActionValuesDescribed("k1", "first", "K2", "second", "é3", "third"),
		"list": carapace.ActionValues("a", "b", "c").UniqueList(","),
		"opt":  carapace.ActionFiles(),
	})
	carapace.Gen(root).PositionalAnyCompletion(carapace.ActionValues("pos", "Kelvin", "k"))
	add := func(name string, a carapace.Action) {
		c := &cobra.Command{Use: name, Args: cobra.ArbitraryArgs, Run: func(*cobra.Command, []string) {}}
		c.Flags().BoolP("verbose", "v", false, "")
		root.AddCommand(c)
		carapace.Gen(c).PositionalAnyCompletion(a)
		carapace.Gen(c).DashAnyCompletion(a)
	}
	add("action", carapace.ActionStyledValuesDescribed("a", "desc", "red", "b c", "with space", "blue").Tag("tagged"))
	add("multi", carapace.ActionValues("a/b/c", "a/b/d", "x:y", "K/k").MultiParts("/"))
	add("multiparts", carapace.ActionMultiParts(":", func(c carapace.Context) carapace.Action {
		return carapace.ActionValues("u" + strconv.Itoa(len(c.Parts))).NoSpace(':').Suffix(":")
	}))
	add("files", carapace.ActionFiles(".txt"))
	add("exec", carapace.ActionExecCommand("sh", "-c", "echo out; echo err >&2; exit 3")(func(output []byte) carapace.Action {
		return carapace.ActionValues(strings.Fields(string(output))...)
	}))
	add("fail", carapace.ActionExecCommand("/nonexistent/command")(func(output []byte) carapace.Action {
		return carapace.ActionValues("never")
	}))
	add("split", carapace.ActionValues("one", "two words", "thr'ee").Split())
	add("cb", carapace.ActionCallback(func(c carapace.Context) carapace.Action {
		if len(c.Args) > 1 {
			return carapace.ActionMessage("callback reports: %v", fmt.Errorf("an error for %q", c.Value))
		}
		return carapace.ActionValues("cb1", "cb2").Prefix("\u212a").Suffix("é").Filter("\u212acb1é")
	}))
	add("batch", carapace.Batch(carapace.ActionValues("b1"), carapace.ActionMessage("from batch"), carapace.ActionDirectories()).ToA())
	sub := &cobra.Command{Use: "sub", Aliases: []string{"s-alias"}, Run: func(*cobra.Command, []string) {}}
	sub.Flags().SetInterspersed(false)
	sub.Flags().CountP("count", "c", "")
	root.AddCommand(sub)
	carapace.Gen(sub).PositionalCompletion(carapace.ActionValues("p0"), carapace.ActionValues("p1").Usage("usage %v", "x"))
	return root
}

// the child: run the case, report one RESULT line on stdout
func totalChild() {
	var cf []string
	for _, h := range strings.Split(os.Getenv("VERIF_TOTAL_CASE"), ",") {
		b, _ := hex.DecodeString(h)
		cf = append(cf, string(b))
	}
	os.Unsetenv("VERIF_TOTAL_CASE")
	os.Unsetenv("VERIF_SELF")
	args, rest := takeList(cf[1:])
	n := atoi(rest[0])
	for i := 0; i < n; i++ {
		os.Setenv(rest[1+2*i], rest[2+2*i])
	}
	shell := ""
	if len(args) > 0 {
		shell = args[0]
	}
	// carapace reads CARAPACE_MATCH and the zsh hash dirs in package init(): re-exec once so they are seen
	if os.Getenv("VERIF_TOTAL_REEXEC") == "" && n > 0 {
		os.Setenv("VERIF_TOTAL_REEXEC", "1")
		h := make([]string, len(cf))
		for i, f := range cf {
			h[i] = hex.EncodeToString([]byte(f))
		}
		os.Setenv("VERIF_TOTAL_CASE", strings.Join(h, ","))
		self, _ := os.Executable()
		c := exec.Command(self, "totalproc")
		c.Stdout, c.Stderr, c.Stdin = os.Stdout, os.Stderr, nil
		if err := c.Run(); err != nil {
			if ee, ok := err.(*exec.ExitError); ok {
				os.Exit(ee.ExitCode())
			}
			os.Exit(97)
		}
		return
	}
	root := totalTree()
	var stdout, stderr bytes.Buffer
	root.SetOut(&stdout)
	root.SetErr(&stderr)
	root.SetArgs(append([]string{"_carapace"}, args...))
	status, detail := "ok", ""
	func() {
		defer func() {
			if p := recover(); p != nil {
				status, detail = "panic", strings.SplitN(fmt.Sprint(p), "\n", 2)[0]
			}
		}()
		if err := root.Execute(); err != nil {
			status, detail = "error", err.Error()
		}
	}()
	well := "wellformed"
	if status == "ok" && len(args) >= 2 {
		well = wellFormed(shell, stdout.Bytes())
	}
	clean := func(s string) string {
		s = strings.ReplaceAll(strings.ReplaceAll(s, "\t", " "), "\n", " ")
		if len(s) > 160 {
			s = s[:160]
		}
		return s
	}
	io.WriteString(os.Stdout, "\nRESULT\t"+status+"\t"+clean(detail)+"\t"+well+"\t"+strconv.Itoa(stdout.Len())+"\n")
}

// what every consumer of the shell's format needs at the very least
func wellFormed(shell string, out []byte) string {
	body := bytes.TrimRight(out, "\n")
	switch shell {
	case "export", "elvish", "nushell", "powershell":
		if len(body) == 0 {
			return "wellformed"
		}
		var v interface{}
		if err := json.Unmarshal(body, &v); err != nil {
			return "malformed:json:" + err.Error()
		}
	case "xonsh":
		if len(body) > 0 && !(bytes.HasPrefix(body, []byte("[")) || bytes.HasPrefix(body, []byte("{"))) {
			return "malformed:xonsh"
		}
		if len(body) > 0 {
			var v interface{}
			if err := json.Unmarshal(body, &v); err != nil {
				return "malformed:json:" + err.Error()
			}
		}
	case "fish", "tcsh", "oil", "ion", "bash", "bash-ble", "zsh", "cmd-clink":
		if bytes.IndexByte(body, 0) >= 0 {
			return "malformed:nul"
		}
	}
	_ = utf8.Valid
	return "wellformed"
}
