package main

// `value` — drives the real internal/shell.Value for all 13 formats (properties C02–C06).

import (
	"encoding/json"
	"fmt"
	"os"
	"runtime/debug"
	"strconv"
	"strings"

	shlex "github.com/carapace-sh/carapace-shlex"
	"github.com/carapace-sh/carapace/internal/common"
	"github.com/carapace-sh/carapace/internal/shell"
	"github.com/carapace-sh/carapace/internal/shell/bash"
	"github.com/carapace-sh/carapace/internal/shell/nushell"
	"github.com/carapace-sh/carapace/internal/shell/xonsh"
	"github.com/carapace-sh/carapace/pkg/style"
	"github.com/carapace-sh/carapace/third_party/github.com/elves/elvish/pkg/ui"
)

var allShells = []string{"bash", "bash-ble", "cmd-clink", "elvish", "export", "fish", "ion", "nushell", "oil", "powershell", "tcsh", "xonsh", "zsh"}

func init() {
	props["value"] = prop{
		configs: func(tier string) []map[string]string {
			return []map[string]string{
				{},
				{"CARAPACE_MATCH": "1"},
				{"NO_COLOR": "1"},
				{"CARAPACE_ZSH_HASH_DIRS": "proj=/tmp/proj\nwork=/w\nbad\nproj=/tmp/other\nempty="},
				{"CARAPACE_MATCH": "CASE_INSENSITIVE", "NO_COLOR": "true"},
				{},
			}
		},
		child: valueChild,
		shard: 1500,
	}
}

func carapaceVersion() string {
	if info, ok := debug.ReadBuildInfo(); ok {
		for _, dep := range info.Deps {
			if dep.Path == "github.com/carapace-sh/carapace" {
				return dep.Version
			}
		}
	}
	return "unknown"
}

func parseOK(s string) bool { return s != "" && ui.ParseStyling(s) != nil }

func sgrOr(s string) string {
	if r := style.SGR(s); r != "" {
		return r
	}
	return "39;49"
}

var probeCache = map[string]string{}

// rendering of a candidate's style by the target shell (observed, see DESIGN 6.4)
func renderStyle(sh, s string) string {
	key := sh + "\x00" + s
	if v, ok := probeCache[key]; ok {
		return v
	}
	valueStyle := "default"
	if parseOK(style.Carapace.Value) {
		valueStyle = style.Carapace.Value
	}
	res := ""
	switch sh {
	case "elvish":
		res = valueStyle
		if parseOK(s) {
			res = s
		}
	case "powershell":
		eff := valueStyle
		if parseOK(s) {
			eff = s
		}
		res = sgrOr(eff)
	case "zsh":
		switch {
		case parseOK(s):
			res = style.SGR(s)
		case ui.ParseStyling(style.Carapace.Value) != nil:
			res = style.SGR(style.Carapace.Value)
		default:
			res = style.SGR(style.Default)
		}
	case "nushell":
		out := nushell.ActionRawValues("", common.Meta{}, common.RawValues{{Value: "p", Display: "p", Style: s}})
		var recs []map[string]json.RawMessage
		if json.Unmarshal([]byte(out), &recs) == nil && len(recs) == 1 {
			res = string(recs[0]["style"])
		}
	case "xonsh":
		out := xonsh.ActionRawValues("", common.Meta{}, common.RawValues{{Value: "p", Display: "p", Style: s}})
		var recs []map[string]string
		if json.Unmarshal([]byte(out), &recs) == nil && len(recs) == 1 {
			res = recs[0]["Style"]
		}
	}
	probeCache[key] = res
	return res
}

func globals(sh string) [4]string {
	descriptionStyle := "default"
	if parseOK(style.Carapace.Description) {
		descriptionStyle = style.Carapace.Description
	}
	switch sh {
	case "elvish":
		return [4]string{descriptionStyle}
	case "powershell":
		return [4]string{sgrOr(descriptionStyle + " bg-default"), sgrOr(descriptionStyle)}
	case "zsh":
		d := style.SGR(style.Default)
		if parseOK(style.Carapace.Description) {
			d = style.SGR(style.Carapace.Description)
		}
		return [4]string{d, style.SGR(style.Carapace.Error), style.SGR(style.Carapace.Usage), style.SGR("fg-default")}
	}
	return [4]string{}
}

var styleFamily = []string{"", "", "", "red", "bold", "bg-blue underlined", "dim", "#ff00ff", "nonsense", "bold nonsense", "color5 italic"}
var tagFamily = []string{"", "", "files", "shorthand flags", "longhand flags", "b tag", "a\ttag"}

func genOpts(r *Rng, cfgCI bool) StrOpts {
	o := StrOpts{Special: 25, Dropped: 5, NonASCII: 8, MaxLen: 8}
	switch r.Intn(6) {
	case 0:
		o = StrOpts{MaxLen: 5} // plain
	case 1:
		o = StrOpts{Special: 60, Dropped: 10, NonASCII: 5, MaxLen: 6}
	case 2:
		o = StrOpts{Special: 20, Dropped: 20, NonASCII: 20, MaxLen: 12}
	case 3:
		o = StrOpts{Special: 20, Dropped: 10, NonASCII: 10, Invalid: 4, C0: 4, MaxLen: 10} // outside several claims: totality and byte-exactness only
	}
	if cfgCI { // the model folds ASCII only; Go's ToLower also rewrites invalid UTF-8
		o.Invalid = 0
	}
	return o
}

func genValueStr(r *Rng, o StrOpts, ci bool) string {
	for {
		s := GenStr(r, o)
		if ci && strings.Contains(s, "K") {
			continue
		}
		return s
	}
}

func valueChild(out *Out, seed uint64, start, count, cfg int, tier string) {
	ci := false
	switch os.Getenv("CARAPACE_MATCH") {
	case "1", "CASE_INSENSITIVE":
		ci = true
	}
	nocolor := false
	switch os.Getenv("NO_COLOR") {
	case "1", "true":
		nocolor = true
	}
	hashdirs := os.Getenv("CARAPACE_ZSH_HASH_DIRS")
	version := carapaceVersion()
	if nocolor { // let Value apply its global style changes once, so that renderings are observed afterwards
		shell.Value("fish", "", common.Meta{}, common.RawValues{})
	}
	cov := map[string]int{}
	for idx := start; idx < start+count; idx++ {
		r := NewRng(seed, uint64(idx))
		sh := allShells[idx%len(allShells)]
		o := genOpts(r, ci)

		// candidate values: share prefixes with the typed word
		stem := genValueStr(r, StrOpts{Special: o.Special / 2, NonASCII: o.NonASCII, MaxLen: 3}, ci)
		nvals := []int{0, 1, 1, 2, 2, 3, 3, 4, 5, 8}[r.Intn(10)]
		if r.Chance(1, 40) {
			nvals = 13 + r.Intn(30)
		}
		if r.Chance(1, 300) {
			nvals = 480 + r.Intn(60) // around the zsh < 500 styling cut-off
		}
		nmsgs := []int{0, 0, 0, 0, 1, 1, 2, 3}[r.Intn(8)]
		small := nvals+nmsgs+1 <= 12 // Go's sort is an insertion sort (stable) up to 12 elements
		vals := make(common.RawValues, 0, nvals)
		seenD := map[string]bool{}
		seenV := map[string]bool{}
		for i := 0; i < nvals; i++ {
			v := genValueStr(r, o, ci)
			switch r.Intn(10) {
			case 0, 1, 2, 3, 4:
				v = stem + v
			case 5:
				v = asciiUpper(stem) + v
			case 6:
				if small { // ERR-like candidates collide with Integrate's displays: ties, so only where Go's sort is stable
					v = r.Pick([]string{"ERR", "ERR1", "_", "ERR2", stem + "ERR", stem + "ERR1", stem + "_"})
				}
			case 7:
				v = r.Pick([]string{"~/", "~proj/", "~", "~x y", "=a", "a=", "my dir/", "a b=", "x\"", "it's", "a?b", "{a,b}", "a:b:", "-f"}) + genValueStr(r, StrOpts{MaxLen: 2}, ci)
			}
			d := v
			if r.Chance(1, 3) {
				d = genValueStr(r, o, ci)
			}
			if !small && (strings.HasPrefix(d, "ERR") || d == "_") {
				d = "d" + d // Integrate's own displays must not tie with a candidate's where Go's sort is unstable
			}
			if !small { // no display / value ties where Go's sort is not stable
				for seenD[d] {
					d += strconv.Itoa(i)
				}
				for seenV[v] {
					v += strconv.Itoa(i)
				}
			}
			seenD[d], seenV[v] = true, true
			desc := ""
			switch r.Intn(6) {
			case 0, 1:
				desc = GenStr(r, StrOpts{Special: 15, Dropped: 10, NonASCII: 10, Invalid: o.Invalid, C0: o.C0, MaxLen: 14})
			case 2:
				desc = strings.Repeat(r.Pick([]string{"x", "é", "ab ", "日"}), 70+r.Intn(20)) + GenStr(r, StrOpts{MaxLen: 6})
			case 3:
				desc = r.Pick([]string{" ", "\n", " lead", "trail ", "l1\nl2", "${x}", "a\tb", " pad ", "with:colon", "back\\slash"})
			case 4:
				// multi-line: the first line decides, whatever follows
				first := GenStr(r, StrOpts{Special: 10, NonASCII: 10, MaxLen: 12})
				if r.Chance(1, 3) {
					first = strings.Repeat(r.Pick([]string{"y", "\u00e9"}), 76+r.Intn(8))
				}
				desc = r.Pick([]string{"", " ", "\u00a0"}) + first + r.Pick([]string{"\n", "\r\n", " \n"}) +
					strings.Repeat(r.Pick([]string{"long paragraph ", "z", "\u65e5"}), 3+r.Intn(40))
			}
			st := r.Pick(styleFamily)
			vals = append(vals, common.RawValue{Value: v, Display: d, Description: desc, Style: st, Tag: r.Pick(tagFamily), Uid: r.Pick([]string{"", "", "uid://x"})})
		}
		// typed word
		word := ""
		switch r.Intn(10) {
		case 0:
		case 1, 2, 3:
			word = stem
		case 4:
			if len(vals) > 0 {
				v := vals[r.Intn(len(vals))].Value
				word = v[:r.Intn(len(v)+1)] // may cut inside a multi-byte character
			}
		case 5:
			if len(vals) > 0 {
				word = vals[r.Intn(len(vals))].Value
			}
		case 6:
			word = stem + r.Pick([]string{"E", "ER", "ERR", "e", "ERRO", "EER", "EE", "ERERR", "RE", "R", "AR", "EERR", "RR"})
		case 7:
			word = asciiLower(stem)
		case 8:
			word = stem + r.Pick([]string{":", "=", "a:b", "x=y:", "@"})
		case 9:
			word = genValueStr(r, o, ci)
		}
		if ci && !validUTF8(word) {
			word = stem
		}
		msgs := []string{}
		for i := 0; i < nmsgs; i++ {
			msgs = append(msgs, r.Pick([]string{"boom", "boom", "line1\nline2", "\x1b[31mred\x1b[0m", "tab\there", "colon:msg", "unknown flag: --x", GenStr(r, StrOpts{Special: 20, Dropped: 10, NonASCII: 10, MaxLen: 10})}))
		}
		var meta common.Meta
		for _, m := range msgs {
			meta.Messages.Add(m)
		}
		msgs = meta.Messages.Get()
		// no-space set: canonical (through Add) or arbitrary (through UnmarshalJSON)
		nsSrc := r.Pick([]string{"", "", "", "/", "=", "/=", "*", ":", "\"", "'", " ", "é", "a", "x/", "=,/", ")"})
		if len(vals) > 0 && r.Chance(1, 3) { // couple with the last character of a candidate
			v := vals[r.Intn(len(vals))].Value
			if rs := []rune(v); len(rs) > 0 {
				nsSrc = string(rs[len(rs)-1])
			}
		}
		if r.Chance(1, 6) {
			b, _ := json.Marshal(nsSrc + r.Pick([]string{"", "b", "//", "*x"}))
			_ = meta.Nospace.UnmarshalJSON(b)
		} else {
			meta.Nospace.Add([]rune(nsSrc)...)
		}
		var nsStr string
		nb, _ := meta.Nospace.MarshalJSON()
		_ = json.Unmarshal(nb, &nsStr)
		meta.Usage = r.Pick([]string{"", "", "usage text", "u\ns\tage"})

		// call-time environment
		flags := ""
		if ci {
			flags += "I"
		}
		if nocolor {
			flags += "C"
		}
		os.Unsetenv("CARAPACE_UNFILTERED")
		if r.Chance(1, 8) {
			os.Setenv("CARAPACE_UNFILTERED", "1")
			flags += "U"
		}
		os.Unsetenv("CARAPACE_NOSPACE")
		envNospace := ""
		if r.Chance(1, 6) {
			envNospace = r.Pick([]string{"/", "=,", "*", ":é"})
			os.Setenv("CARAPACE_NOSPACE", envNospace)
		}
		os.Unsetenv("CARAPACE_TOOLTIP")
		if sh == "powershell" && r.Chance(1, 3) {
			os.Setenv("CARAPACE_TOOLTIP", "1")
			flags += "T"
		}
		// bash: wordbreak prefix and COMP_TYPE through the real Patch
		wbp := ""
		bashLine, bashWB, bashType := "", "", ""
		if sh == "bash" {
			os.Setenv("COMP_LINE", "cmd x")
			os.Setenv("COMP_POINT", "5")
			os.Setenv("COMP_TYPE", "9")
			bash.Patch([]string{"cmd", "x"}) // resets the package state
			wb := r.Pick([]string{"", "\"'><=;|&(:", ":=", "@:"})
			if wb != "" {
				os.Setenv("COMP_WORDBREAKS", wb)
			}
			// operators would split the word into several tokens (redirect / pipeline handling is C17/C18)
			word = strings.NewReplacer("<", "", ">", "", "|", "", "&", "", ";", "", "\x00", "").Replace(word) // (NUL cannot be put into the environment)
			line := "cmd " + strings.NewReplacer(" ", "\\ ").Replace(word)
			ctype := r.Pick([]string{"9", "9", "63", "63", "33", "37"})
			os.Setenv("COMP_LINE", line)
			os.Setenv("COMP_POINT", strconv.Itoa(len(line)))
			os.Setenv("COMP_TYPE", ctype)
			bashLine, bashWB, bashType = line, wb, ctype
			tokens, lexErr := shlex.Split(line)
			patched, err := safePatch([]string{"cmd", "x"})
			if err == nil && lexErr == nil && len(patched) > 1 {
				wbp = tokens.CurrentPipeline().WordbreakPrefix()
				word = patched[len(patched)-1]
				if ctype == "63" {
					flags += "L"
				}
			} else {
				os.Unsetenv("COMP_LINE")
				os.Unsetenv("COMP_POINT")
				os.Unsetenv("COMP_TYPE")
				os.Unsetenv("COMP_WORDBREAKS")
			}
		}
		if sh == "bash" && wbp != "" && strings.Contains(flags, "I") && r.Chance(1, 2) {
			// a candidate that matches the typed word only case-insensitively in the part bash keeps in front of the wordbreak
			sw := strings.Map(func(c rune) rune {
				switch {
				case c >= 'a' && c <= 'z':
					return c - 32
				case c >= 'A' && c <= 'Z':
					return c + 32
				}
				return c
			}, wbp)
			if sw != wbp {
				vals = append(vals, common.RawValue{Value: sw + strings.TrimPrefix(word, wbp) + "x", Display: sw + "x"})
			}
		}
		wbPresent, wbVal := "0", ""
		os.Unsetenv("COMP_WORDBREAKS")
		if (sh == "bash" || sh == "tcsh") && r.Chance(1, 3) {
			wbVal = r.Pick([]string{"\"'><=;|&(:", ":=", " @", "", "%+"})
			os.Setenv("COMP_WORDBREAKS", wbVal)
			wbPresent = "1"
		}
		// zsh: quoting state from CARAPACE_COMPLINE
		zPresent, zRaw := "0", ""
		os.Unsetenv("CARAPACE_COMPLINE")
		if sh == "zsh" {
			cl := "cmd " + r.Pick([]string{"", "", "'", "\"", "'a", "\"a", "'a'", "\"a\"", "a", "'a b", "\"a'", "'a\"", "a'b", "''", "\"\"", "'a'b'", "\"a b\" "}) + ""
			if r.Chance(1, 4) {
				cl = "cmd " + word
			}
			os.Setenv("CARAPACE_COMPLINE", cl)
			if toks, err := shlex.Split(cl); err == nil {
				zPresent, zRaw = "1", toks.CurrentToken().RawValue
			}
		}
		g := globals(sh)
		fields := []string{sh, word, flags, envNospace, wbp, wbPresent, wbVal, zPresent, zRaw, hashdirs, g[0], g[1], g[2], g[3], version,
			style.Carapace.Error, renderStyle(sh, style.Carapace.Error), style.Default, renderStyle(sh, style.Default),
			nsStr, meta.Usage, strconv.Itoa(len(msgs))}
		fields = append(fields, msgs...)
		fields = append(fields, strconv.Itoa(len(vals)))
		for _, v := range vals {
			fields = append(fields, v.Value, v.Display, v.Description, v.Style, v.Tag, v.Uid, renderStyle(sh, effStyle(nocolor, v.Style)))
		}
		in := make(common.RawValues, len(vals))
		copy(in, vals)
		got := shell.Value(sh, word, meta, in)
		out.Emit("value", fields, []string{got, bashLine, bashWB, bashType})

		// coverage accounting
		cov["shell."+sh]++
		cov["nvals."+bucket(nvals)]++
		cov["nmsgs."+strconv.Itoa(nmsgs)]++
		for _, v := range vals {
			sp, dr, na, iv, ct := classes(v.Value)
			if sp {
				cov["value.special"]++
			}
			if dr {
				cov["value.dropped"]++
			}
			if na {
				cov["value.nonascii"]++
			}
			if iv {
				cov["value.invalidutf8"]++
			}
			if ct {
				cov["value.c0"]++
			}
		}
		if nsStr != "" {
			cov["nospace.nonempty"]++
		}
		if strings.Contains(flags, "U") {
			cov["env.unfiltered"]++
		}
		if wbp != "" {
			cov["bash.wordbreakprefix"]++
		}
		if strings.Contains(flags, "L") {
			cov["bash.listmode"]++
		}
	}
	for k, v := range cov {
		out.Note(k, v)
	}
}

// Integrate appends the ERR entries after Decolor ran, so their style survives NO_COLOR;
// candidates' own styles are cleared.
func effStyle(nocolor bool, s string) string {
	if nocolor {
		return ""
	}
	return s
}

func bucket(n int) string {
	switch {
	case n == 0:
		return "0"
	case n == 1:
		return "1"
	case n <= 12:
		return "2-12"
	case n < 100:
		return "13-99"
	default:
		return "100+"
	}
}

func safePatch(args []string) (res []string, err error) {
	defer func() {
		if p := recover(); p != nil { // known finding C18: Patch panics on an empty pipeline
			res, err = nil, fmt.Errorf("panic: %v", p)
		}
	}()
	return bash.Patch(args)
}

func asciiUpper(s string) string {
	b := []byte(s)
	for i, c := range b {
		if c >= 'a' && c <= 'z' {
			b[i] = c - 32
		}
	}
	return string(b)
}

func asciiLower(s string) string {
	b := []byte(s)
	for i, c := range b {
		if c >= 'A' && c <= 'Z' {
			b[i] = c + 32
		}
	}
	return string(b)
}

// valueOne re-runs one stored case (replay): the case fields as printed by valueChild, the
// process-level environment (CARAPACE_MATCH, NO_COLOR, CARAPACE_ZSH_HASH_DIRS) set by the caller.
func valueOne(fields []string, extras []string) string {
	if len(fields) < 23 {
		return "BADCASE"
	}
	sh, word, flags, envNospace := fields[0], fields[1], fields[2], fields[3]
	wbPresent, wbVal, zPresent := fields[5], fields[6], fields[7]
	nsStr, usage := fields[19], fields[20]
	nm, _ := strconv.Atoi(fields[21])
	msgs := fields[22 : 22+nm]
	nv, _ := strconv.Atoi(fields[22+nm])
	rest := fields[23+nm:]
	vals := make(common.RawValues, 0, nv)
	for i := 0; i < nv; i++ {
		f := rest[i*7 : i*7+7]
		vals = append(vals, common.RawValue{Value: f[0], Display: f[1], Description: f[2], Style: f[3], Tag: f[4], Uid: f[5]})
	}
	var meta common.Meta
	for _, m := range msgs {
		meta.Messages.Add(m)
	}
	b, _ := json.Marshal(nsStr)
	_ = meta.Nospace.UnmarshalJSON(b)
	meta.Usage = usage
	if strings.Contains(flags, "C") {
		shell.Value("fish", "", common.Meta{}, common.RawValues{})
	}
	os.Unsetenv("CARAPACE_UNFILTERED")
	if strings.Contains(flags, "U") {
		os.Setenv("CARAPACE_UNFILTERED", "1")
	}
	os.Unsetenv("CARAPACE_NOSPACE")
	if envNospace != "" {
		os.Setenv("CARAPACE_NOSPACE", envNospace)
	}
	os.Unsetenv("CARAPACE_TOOLTIP")
	if strings.Contains(flags, "T") {
		os.Setenv("CARAPACE_TOOLTIP", "1")
	}
	if sh == "bash" && len(extras) >= 4 && extras[1] != "" {
		os.Setenv("COMP_LINE", "cmd x")
		os.Setenv("COMP_POINT", "5")
		os.Setenv("COMP_TYPE", "9")
		bash.Patch([]string{"cmd", "x"})
		if extras[2] != "" {
			os.Setenv("COMP_WORDBREAKS", extras[2])
		}
		os.Setenv("COMP_LINE", extras[1])
		os.Setenv("COMP_POINT", strconv.Itoa(len(extras[1])))
		os.Setenv("COMP_TYPE", extras[3])
		safePatch([]string{"cmd", "x"})
	}
	os.Unsetenv("COMP_WORDBREAKS")
	if wbPresent == "1" {
		os.Setenv("COMP_WORDBREAKS", wbVal)
	}
	os.Unsetenv("CARAPACE_COMPLINE")
	if sh == "zsh" && zPresent == "1" {
		// any line whose current token has the recorded raw value
		os.Setenv("CARAPACE_COMPLINE", "cmd "+fields[8])
	}
	return shell.Value(sh, word, meta, vals)
}
