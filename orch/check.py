#!/usr/bin/env python3
"""./check <PID> [quick|thorough] | ./check <PID> --replay <file>

One run: translate (tools/gotables) -> prove (full coq build) -> correspond (Go harness vs
extracted model) -> oracle (extracted specification on the implementation's output) ->
known findings -> verdict -> evidence.  See DESIGN.md section 2.1."""
import importlib, json, os, re, sys, time
sys.path.insert(0, os.path.dirname(os.path.abspath(__file__)))
import lib

# property id -> (module, label)
MODULES = {
    "C02": "fmt", "C03": "fmt", "C04": "fmt", "C05": "fmt", "C06": "fmt",
}
import generic
for _p in generic.PROPS:
    MODULES[_p] = "generic"


def match_known(pid, failure, known):
    """known finding whose `when` predicate covers this failure (None if new)"""
    for k in known:
        if k.get("property") != pid or not k.get("status", "open").startswith("open"):
            continue
        w = k.get("when", {})
        if "kind" in w and failure.get("kind") not in ([w["kind"]] if isinstance(w["kind"], str) else w["kind"]):
            continue
        if "stream" in w and failure.get("shell") not in ([w["stream"]] if isinstance(w["stream"], str) else w["stream"]):
            continue
        if "shell" in w and failure.get("shell") not in ([w["shell"]] if isinstance(w["shell"], str) else w["shell"]):
            continue
        det = failure.get("detail", b"")
        if isinstance(det, str):
            det = det.encode()
        if "detail_has_any" in w and not any(c.encode("utf-8") in det for c in w["detail_has_any"]):
            continue
        if "detail_prefix_any" in w and not any(det.startswith(c.encode("utf-8")) for c in w["detail_prefix_any"]):
            continue
        if "detail_equals" in w and det != w["detail_equals"].encode("utf-8"):
            continue
        if "pred" in w:
            mod = importlib.import_module(MODULES[pid])
            if not getattr(mod, "pred_" + w["pred"])(failure):
                continue
        return k
    return None


def main():
    args = sys.argv[1:]
    if not args:
        print(__doc__)
        return 2
    pid = args[0]
    tier = os.environ.get("VERIF_TIER", "quick")
    replay_path = None
    if len(args) >= 3 and args[1] == "--replay":
        replay_path = args[2]
    elif len(args) >= 2:
        tier = args[1]
    seed = int(os.environ.get("VERIF_SEED", "1"))
    t0 = time.time()
    if pid not in MODULES:
        print("unknown property", pid)
        return 2
    mod = importlib.import_module(MODULES[pid])
    status_before = lib.repo_status()
    b = lib.build(tier)
    ctx = dict(tier=tier, seed=seed, build=b, count=int(os.environ["VERIF_COUNT"]) if "VERIF_COUNT" in os.environ else None)
    known = lib.load_known()

    if replay_path:
        payload = json.load(open(replay_path))
        if payload.get("kind") != "counterexample":
            # a broken proof / tie has no input to re-run: re-decide it by running the check itself
            os.execv(sys.executable, [sys.executable, os.path.abspath(__file__), pid, tier])
        fails, out = mod.replay(pid, payload, ctx)
        fails = [f for f in fails if not match_known(pid, f, known)]
        if fails:
            print("VIOLATION property=%s replay=%s" % (pid, replay_path))
            return 1
        print("replay: property %s holds on the stored case" % pid)
        return 0

    # ---- proofs
    proof_ok = b.vo_ok("Props/%s.v" % pid)
    names, assumptions, pstatus = lib.props_info(pid) if proof_ok else ([], {}, "not built")
    hygiene = lib.hygiene()
    closed = [n for n in names if assumptions.get(n, "").startswith("Closed under the global context")]
    with_axioms = {n: a for n, a in assumptions.items() if not a.startswith("Closed under the global context")}
    broken = []
    if not proof_ok or pstatus != "ok":
        broken.append("proof: coq/Props/%s.v (or a file it depends on) does not compile against the current source: %s" %
                      (pid, "; ".join(b.failed_files) or pstatus))
    # thorough tier: the independent checker re-checks the compiled property file and everything it depends on
    coqchk = None
    if tier == "thorough" and proof_ok and os.environ.get("VERIF_NO_COQCHK") != "1":
        r = lib.sh(["timeout", "2400", "coqchk", "-silent", "-o", "-Q", ".", "CV", "CV.Props.%s" % pid], cwd=lib.COQ)
        out = (r.stdout or "") + (r.stderr or "")
        m = re.search(r"\* Axioms:\s*(.*?)\n\s*\n", out, re.S)
        coqchk = dict(exit=r.returncode, axioms=(m.group(1).strip() if m else "?")[:600],
                      type_in_type="<none>" in out.split("type-in-type:")[-1][:20] if "type-in-type:" in out else None)
        if r.returncode != 0:
            broken.append("coqchk rejects CV.Props.%s: %s" % (pid, out[-600:]))
    if hygiene:
        broken.append("hygiene: " + "; ".join(hygiene[:5]))
    if b.translator_notes:
        broken.append("translator: " + "; ".join(b.translator_notes[:5]))
    if not b.harness_ok:
        broken.append("harness does not build against the current source: " + b.harness_log[-1500:])

    # ---- correspondence and oracle
    res = dict(failures=[], tie_broken=[], coverage={}, errors=[])
    if b.harness_ok and os.path.exists(os.path.join(lib.BIN, "runner")):
        res = mod.explore(pid, ctx)
        if broken or res["tie_broken"]:
            # search: escalate the exploration looking for a concrete failing input
            ctx2 = dict(ctx, seed=seed + 1000003, count=(res["coverage"].get("evaluations", 5000) * 6))
            more = mod.explore(pid, ctx2)
            res["failures"] += more["failures"]
            res["coverage"]["search_evaluations"] = more["coverage"].get("evaluations", 0)
    if res["errors"]:
        broken.append("harness errors: " + "; ".join(res["errors"][:3]))

    # ---- classify
    new, known_hits = [], {}
    for f in res["failures"]:
        k = match_known(pid, f, known)
        if k:
            known_hits.setdefault(k["id"], []).append(f)
        else:
            new.append(f)
    lines = []
    for k in known:
        if k.get("property") == pid and k.get("status", "open").startswith("open"):
            n = len(known_hits.get(k["id"], []))
            lines.append("KNOWN-FINDING: property=%s %s [%s; reproduced %d time(s) in this run]" % (pid, k["what"], k["id"], n))
    for l in lines:
        print(l)

    rc = 0
    nrep = 0
    seen = set()
    for f in new:
        key = (f.get("kind"), f.get("shell"))
        if key in seen:
            continue
        seen.add(key)
        nrep += 1
        payload = dict(property=pid, kind="counterexample", oracle_failure=dict(kind=f.get("kind"), shell=f.get("shell"), detail=lib.b2s(f.get("detail", b""))),
                       case=mod.case_summary(f["case"], f["impl"]) if hasattr(mod, "case_summary") else None,
                       case_hex=[x.hex() for x in f["case"]], extras_hex=[x.hex() for x in f.get("extras", [])],
                       impl_hex=[x.hex() for x in f["impl"]] if isinstance(f["impl"], list) else None,
                       impl_output=lib.b2s(f["impl"]), seed=seed, rerun="./check %s --replay <this file>" % pid,
                       broken=broken)
        path = lib.write_replay(pid, nrep, payload)
        print("VIOLATION property=%s replay=%s" % (pid, os.path.relpath(path, lib.ROOT)))
        rc = 1
        if nrep >= 5:
            break
    if not new and (broken or res["tie_broken"]):
        tb = res["tie_broken"][:3]
        payload = dict(property=pid, kind="broken-proof" if broken else "broken-tie",
                       theorem_or_tie=broken or ["correspondence %s (property %s)" % (getattr(mod, "PROPS", {}).get(pid, {}).get("tie", "Model/ShellValue.v <-> internal/shell.Value"), pid)],
                       mismatching_cases=[dict(case=mod.case_summary(t["case"], t["impl"]), model_output=lib.b2s(t["model"]),
                                               case_hex=[x.hex() for x in t["case"]]) for t in tb],
                       coq_log_tail=b.coq_log[-3000:], seed=seed)
        path = lib.write_replay(pid, 0, payload)
        print("VIOLATION property=%s replay=%s no-failing-input-found" % (pid, os.path.relpath(path, lib.ROOT)))
        rc = 1
    if lib.repo_status() != status_before:
        print("ERROR: the check changed /repo", file=sys.stderr)
        rc = rc or 3

    cov = res["coverage"]
    cov.update(
        obligations=len(names), discharged=len(closed) + len(with_axioms) if not broken else 0,
        theorems=names, assumptions_per_theorem={n: assumptions.get(n, "?")[:300] for n in names},
        checker_cmd="make -C coq (coqc 8.16.1, full .vo build) ; coqc -Q coq CV coq/Props/%s.v" % pid,
        trusted_base=lib.TRUSTED_BASE + mod.TRUSTED if hasattr(mod, "TRUSTED") else lib.TRUSTED_BASE,
        translator_output_hash=b.tables_hash, repo_fingerprint=lib.repo_fingerprint(),
        tie_mismatches_on_projection=len(res["tie_broken"]),
        oracle_failures_new=len(new), oracle_failures_known={k: len(v) for k, v in known_hits.items()},
        known_findings_printed=len(lines), broken=broken,
    )
    if coqchk is not None:
        cov["coqchk"] = coqchk
    lib.write_evidence(pid, tier, seed, cov, time.time() - t0, len(new) + (1 if rc == 1 and not new else 0),
                       assumptions=getattr(mod, "ASSUMPTIONS", {}).get(pid, []))
    return rc


if __name__ == "__main__":
    sys.exit(main())
