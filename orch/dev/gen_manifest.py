"""writes MANIFEST.json from the table below (run after adding a property)"""
import json, os
ROOT = os.path.dirname(os.path.dirname(os.path.dirname(os.path.abspath(__file__))))
BASELINE = "for m in . ./example-nonposix; do (cd /repo/$m && go test -json -vet=off -count=1 -timeout 25m ./...); done"
FMT_NOTE = ("Trusted: Coq 8.16.1 kernel; tools/gotables (tables regenerated from /repo each run); ExtrOcamlBasic-only extraction + OCaml driver; "
            "Go harness + python glue; python's json for the JSON formats; the reader/decoder transcriptions of shells that are not installed "
            "(zsh, fish, elvish, nushell, PowerShell, xonsh, oil, tcsh, clink/Lua, ion) are specifications. Modelled, not verified: strings.NewReplacer, "
            "encoding/json string escaping, sort.Sort (stable only up to 12 elements), style rendering (observed per case).")
P = {
 "C02": ("Theorems over Model/ShellValue.v (filter soundness/completeness, passthrough, synthetic entries) for all inputs; model tied byte-for-byte to the real "
         "shell.Value for all 13 formats on generated cases each run; extracted specification (readers + prefix predicate) judges the implementation's decoded output.",
         "6.2", "Coq proof over executable model + differential correspondence + extracted spec oracle"),
 "C03": ("Round-trip theorems read(quote v) = v for all byte strings via proved-sound boolean table checkers run by vm_compute on replacer tables / trigger sets "
         "regenerated from the source; refuted-with-witness theorems for the shells whose quoting is defective; byte-exact correspondence; reader oracle on real output.",
         "6.3", "Coq proof (verified table checker by vm_compute) + regenerated tables + correspondence"),
 "C04": ("Framing theorems decode(encode rs) = project rs for the delimiter formats (sanitiser tables regenerated, separators disjoint from sanitised fields), "
         "TrimmedDescription normal form; byte-exact correspondence for all 13 formats; decoder oracle on real output.",
         "6.4", "Coq proof (decoder/encoder round trip) + regenerated tables + correspondence"),
 "C05": ("SuffixMatcher specification and per-format rendering lemmas proved for all values and sets (nushell/powershell blank-iff, bash-ble field, forcing by messages, export carries the set); "
         "xonsh refuted with witness; byte-exact correspondence on all formats; extracted oracle compares every decoded indication with Matches on the unquoted value.",
         "6.5", "Coq proof over executable model + regenerated trigger sets + correspondence"),
 "C06": ("Integrate invariants by induction over the message list (one entry per message, distinct, extending, at least two, no-space forced), Suppress/merge lemmas; "
         "byte-exact correspondence; model-free oracle on decoded output and message channels.",
         "6.6", "Coq proof (induction over the numbering loop) + correspondence"),
}
checks = []
P = {k: v for k, v in P.items() if os.path.exists(os.path.join(ROOT, 'coq/Props/%s.v' % k))}
for pid in sorted(P):
    text, ref, tech = P[pid]
    checks.append({
        "property_id": pid,
        "quick_cmd": "./check %s quick" % pid,
        "thorough_cmd": "./check %s thorough" % pid,
        "evidence_file": "evidence/%s.json" % pid,
        "replay_cmd_template": "./check %s --replay {path}" % pid,
        "engine": "coq-model+harness",
        "level_claimed": {"category": "proof", "text": text, "design_ref": "DESIGN.md section " + ref},
        "level_note": FMT_NOTE if pid in ("C02", "C03", "C04", "C05", "C06") else "",
        "technique": tech,
    })
props = [json.loads(l)["id"] for l in open(os.path.join(ROOT, "properties.jsonl"))]
na = [{"property_id": p, "reason": "not yet registered in this revision of the framework (construction order of DESIGN.md section 12); no check is claimed for it yet"}
      for p in props if p not in P]
m = {
 "version": 1,
 "setup_cmd": "./setup.sh",
 "hooks": {"guard": "verif", "enable": "none needed: internals are reached from an out-of-tree module under the carapace import path (go build -tags verif is reserved, unused)",
           "baseline_off_cmd": BASELINE, "source_commits": [], "add_only": True},
 "engines": [{"name": "coq-model+harness", "path": "coq/ runner/ harness/ orch/", "serves_properties": sorted(P),
              "kind_free_text": "Rocq/Coq 8.16.1 models and theorems; Go-AST table translator; extracted OCaml runner; Go differential harness; python orchestrator"}],
 "checks": checks,
 "not_applicable": na,
 "notes": "Every check: translate tables from /repo -> full coq build -> harness vs extracted model -> extracted spec oracle -> known_findings.json -> evidence. VERIF_SEED seeds all random choices.",
}
json.dump(m, open(os.path.join(ROOT, "MANIFEST.json"), "w"), indent=1)
print("wrote MANIFEST.json with", len(checks), "checks;", len(na), "not yet claimed")
