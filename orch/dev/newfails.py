"""dev helper: oracle failures of C02..C06 not covered by known_findings.json"""
import json,sys,os
sys.path.insert(0,os.path.join(os.path.dirname(os.path.abspath(__file__)),'..'))
import lib, fmt, check
from collections import Counter
b=lib.build("quick")
print("build ok",b.ok,b.failed_files, b.coq_log[-1500:] if not b.ok else "")
known=lib.load_known()
seed=int(sys.argv[1]) if len(sys.argv)>1 else 1
cases, notes, errors = lib.run_harness("value", seed, int(sys.argv[2]) if len(sys.argv)>2 else 26000, "quick", "/verif/.work/t")
print("errors",errors[:3])
mo = lib.run_model([("value", f) for _, f, _ in cases])
print("byte mismatches", sum(1 for (c,m) in zip(cases,mo) if m is None or m[0]!=c[2][0]))
dec = fmt.decode_all([(f[0], impl[0]) for _, f, impl in cases])
oo = lib.run_model(fmt.oracle_queries(cases, dec))
c=Counter(); ex={}; kn=Counter()
for (_,f,impl),o in zip(cases,oo):
    for (p,kind,shell,det) in fmt.parse_tags(o):
        fl=dict(kind=kind,shell=shell,detail=det,case=f,impl=impl[0])
        k=check.match_known(p,fl,known) if p!='*' else None
        if k: kn[k['id']]+=1; continue
        key=(p,kind,shell); c[key]+=1; ex.setdefault(key,[]).append((det,f,impl))
print("known:",dict(kn))
for k,v in sorted(c.items()):
    print(k,v)
    for det,f,impl in ex[k][:int(sys.argv[3]) if len(sys.argv)>3 else 2]:
        cs=fmt.case_summary(f,impl[0])
        print('    detail',det[:60],'| word',repr(cs['word'])[:30],'ns',cs['nospace'],'flags',cs['flags'],'nv',len(cs['values']),'nm',len(cs['messages']),'zraw',cs['zsh_raw'],'wbp',cs['wordbreak_prefix'])
        if len(cs['values'])<=3: print('       vals',[(v['value'],v['display'],v['description'][:20]) for v in cs['values']],'msgs',cs['messages'],'out',repr(cs['output'])[:200])
