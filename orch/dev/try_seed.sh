#!/bin/bash
# usage: try_seed.sh <PID> <patch> : apply the patch to /repo, run the check, undo
pid=$1; patch=$2
cd /verif
git -C /repo apply "$patch" || { echo "APPLY FAILED"; exit 2; }
./check $pid quick > .work/seed_$pid.out 2>&1; rc=$?
git -C /repo checkout -- . 
echo "$pid $(basename $(dirname $patch)) rc=$rc $(grep -c '^VIOLATION' .work/seed_$pid.out) violation lines; $(grep '^VIOLATION' .work/seed_$pid.out | head -2 | tr '\n' ' ')"
