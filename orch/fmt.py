"""C02–C06: the thirteen output formats of internal/shell.Value.

tie      : real shell.Value vs the extracted model Model/ShellValue.v, compared on the
           projection of the decoded output that the property is about
oracle   : Spec/FmtOracle.v (readers, decoders, predicates), extracted, applied to the
           implementation's output
"""
import json, os, re, subprocess, time
from collections import Counter
import lib

JSON_SHELLS = {b"elvish", b"export", b"ion", b"nushell", b"powershell", b"xonsh"}
SPACE_IN_VALUE = {b"nushell", b"powershell", b"xonsh", b"zsh", b"ion"}


def utf8(s):
    return s.encode("utf-8", errors="surrogatepass")


def json_decode(shell, raw):
    """-> (ok, records[(insert, display, desc, ind, style, tag)], msgs, meta)"""
    try:
        doc = json.loads(raw.decode("utf-8", errors="strict"))
    except Exception:
        return False, [], [], []
    recs, msgs, meta = [], [], []
    try:
        if shell == b"elvish":
            for c in doc["Candidates"]:
                recs.append((utf8(c["Value"]), utf8(c["Display"]), utf8(c["Description"]),
                             b"1" if c["CodeSuffix"] == "" else b"0", utf8(c["Style"]), b""))
            msgs = [utf8(m) for m in doc["Messages"]]
            meta = [utf8(doc["Usage"])]
        elif shell == b"export":
            for c in doc["values"] or []:
                recs.append((utf8(c["value"]), utf8(c["display"]), utf8(c.get("description", "")), b"-",
                             utf8(c.get("style", "")), utf8(c.get("tag", ""))))
            msgs = [utf8(m) for m in doc["messages"]]
            meta = [utf8(doc["nospace"]), utf8(doc["usage"])]
        elif shell == b"ion":
            for c in doc:
                recs.append((utf8(c["Value"]), utf8(c["Display"]), b"", b"-", b"", b""))
        elif shell == b"nushell":
            for c in doc:
                st = c.get("style")
                recs.append((utf8(c["value"]), utf8(c["display"]), utf8(c.get("description", "")), b"-",
                             b"" if st is None else utf8(json.dumps(st, separators=(",", ":"))), b""))
        elif shell == b"powershell":
            for c in doc:
                recs.append((utf8(c["CompletionText"]), utf8(c["ListItemText"]), utf8(c["ToolTip"]), b"-", b"", b""))
        elif shell == b"xonsh":
            for c in doc:
                recs.append((utf8(c["Value"]), utf8(c["Display"]), utf8(c["Description"]), b"-", utf8(c["Style"]), b""))
    except Exception:
        return False, [], [], []
    return True, recs, msgs, meta


def decode_all(shells_raws):
    """decode a list of (shell, raw) -> list of dict(ok, extra, recs, msgs, meta)"""
    res = [None] * len(shells_raws)
    q, qi = [], []
    for i, (sh, raw) in enumerate(shells_raws):
        if sh in JSON_SHELLS:
            ok, recs, msgs, meta = json_decode(sh, raw)
            res[i] = dict(ok=ok, extra=b"", recs=recs, msgs=msgs, meta=meta)
        else:
            q.append(("fdecode", [sh, raw]))
            qi.append(i)
    for i, out in zip(qi, lib.run_model(q)):
        if out is None or out[0] != b"ok":
            res[i] = dict(ok=False, extra=b"", recs=[], msgs=[], meta=[])
        else:
            flat = out[2:]
            recs = [tuple(flat[k:k + 6]) for k in range(0, len(flat) - len(flat) % 6, 6)]
            res[i] = dict(ok=True, extra=out[1], recs=recs, msgs=[], meta=[])
    return res


SKEL = re.compile(rb"[\\\"'` ]")


def skeleton(b):
    return SKEL.sub(b"", b)


def projection(pid, shell, d):
    """the part of a decoded output that property pid is about"""
    if not d["ok"]:
        return ("undecodable",)
    recs = d["recs"]
    if pid == "C03":
        return tuple(r[0].rstrip(b" ") if shell in SPACE_IN_VALUE else r[0] for r in recs)
    if pid == "C05":
        ind = []
        for r in recs:
            if r[3] in (b"0", b"1"):
                ind.append(r[3])
            elif shell in SPACE_IN_VALUE:
                ind.append(b"0" if r[0].endswith(b" ") else b"1")
            else:
                ind.append(b"-")
        return (tuple(ind), d["extra"] if shell == b"bash" else b"", tuple(d["meta"][:1]) if shell == b"export" else ())
    if pid == "C04":
        return (len(recs), tuple((r[1], r[2], r[4], r[5]) for r in recs), tuple(d["meta"][1:]) if shell == b"export" else tuple(d["meta"]))
    if pid == "C02":
        return tuple(sorted(skeleton(r[0]) for r in recs))
    if pid == "C06":
        errs = tuple(sorted((skeleton(r[0]), r[2]) for r in recs if r[1].lstrip().startswith(b"ERR") or r[1] == b"_" or b"ERR" in r[0]))
        return (errs, tuple(d["msgs"]), d["extra"] if shell == b"zsh" else b"", len(recs) >= 2)
    return ()


SHELLS = {b"bash", b"bash-ble", b"cmd-clink", b"elvish", b"export", b"fish", b"ion", b"nushell", b"oil", b"powershell", b"tcsh", b"xonsh", b"zsh"}


def case_summary(fields, impl_out):
    if not fields or fields[0] not in SHELLS:      # a case of a further stream (generic.EXTRA)
        import generic
        return generic.case_summary(fields, impl_out)
    f = fields
    nm = int(f[21])
    nv = int(f[22 + nm])
    rest = f[23 + nm:]
    vals = [dict(value=lib.b2s(rest[i * 7]), display=lib.b2s(rest[i * 7 + 1]), description=lib.b2s(rest[i * 7 + 2]),
                 style=lib.b2s(rest[i * 7 + 3]), tag=lib.b2s(rest[i * 7 + 4])) for i in range(nv)]
    return dict(shell=lib.b2s(f[0]), word=lib.b2s(f[1]), flags=lib.b2s(f[2]), env_nospace=lib.b2s(f[3]),
                wordbreak_prefix=lib.b2s(f[4]), comp_wordbreaks=lib.b2s(f[6]) if f[5] == b"1" else None,
                zsh_raw=lib.b2s(f[8]) if f[7] == b"1" else None, nospace=lib.b2s(f[19]), usage=lib.b2s(f[20]),
                messages=[lib.b2s(m) for m in f[22:22 + nm]], values=vals, output=lib.b2s(impl_out))


def env_of_case(fields):
    env = {}
    flags = fields[2]
    if b"I" in flags:
        env["CARAPACE_MATCH"] = "1"
    if b"C" in flags:
        env["NO_COLOR"] = "1"
    if fields[9]:
        env["CARAPACE_ZSH_HASH_DIRS"] = fields[9].decode("utf-8", errors="surrogateescape")
    return env


def rerun_case(fields, extras, scratch):
    """run one stored case through the real implementation again (replay)"""
    os.makedirs(scratch + "/home", exist_ok=True)
    line = "value" + "".join("\t" + f.hex() for f in fields) + "\t|" + "".join("\t" + f.hex() for f in extras) + "\n"
    env = dict(PATH=os.environ.get("PATH", ""), HOME=scratch + "/home", XDG_CONFIG_HOME=scratch + "/config",
               XDG_CACHE_HOME=scratch + "/cache", LC_ALL="C", VERIF_SCRATCH=scratch)
    env.update(env_of_case(fields))
    r = subprocess.run([os.path.join(lib.BIN, "harness"), "value-one"], input=line.encode(), capture_output=True, env=env)
    for l in r.stdout.decode().split("\n"):
        parts = l.split("\t")
        if parts[0] == "value" and "|" in parts:
            k = parts.index("|")
            return [bytes.fromhex(x) for x in parts[k + 1:]]
    return None


def oracle_queries(cases, decoded):
    q = []
    for (_, fields, impl), d in zip(cases, decoded):
        sh = fields[0]
        recs = d["recs"] if sh in JSON_SHELLS else []
        flat = [x for r in recs for x in r]
        q.append(("fmt_oracle", fields + [b"\x00|\x00", impl[0], str(len(recs)).encode()] + flat +
                  [str(len(d["msgs"])).encode()] + d["msgs"] + [str(len(d["meta"])).encode()] + d["meta"]))
    return q


def parse_tags(out):
    """oracle output -> list of (pid, kind, shell, detail)"""
    if out is None or not out or out[0] != b"OK":
        return [("*", "oracle-error", "", b"")]
    tags = []
    for t in out[1:]:
        p = t.split(b":", 3)
        if len(p) == 4:
            tags.append((p[0].decode(), p[1].decode(), p[2].decode(), p[3]))
    return tags


def nontrivial(fields):
    """a case is non-trivial when it has at least one candidate or message and exercises a
    special byte, a no-space set, a message, a word-break prefix or a non-default environment"""
    nm = int(fields[21])
    nv = int(fields[22 + nm])
    if nv + nm == 0:
        return False
    blob = b"".join(fields[23 + nm:]) + fields[1]
    special = re.search(rb"[^A-Za-z0-9_.\-]", blob) is not None
    return special or nm > 0 or fields[19] != b"" or fields[4] != b"" or fields[2] != b""


def explore(pid, ctx):
    """returns dict(failures=[...], tie_broken=[...], coverage={...})"""
    tier, seed = ctx["tier"], ctx["seed"]
    count = ctx.get("count") or (6500 if tier == "quick" else 130000)
    scratch = os.path.join(lib.WORK, pid)
    t0 = time.time()
    cases, notes, errors = lib.run_harness("value", seed, count, tier, scratch)
    notes.pop("_stderr", None)
    # corpus first
    corpus = load_corpus(pid, scratch)
    cases = corpus + cases
    model_out = lib.run_model([("value", f) for _, f, _ in cases])
    dec_impl = decode_all([(f[0], impl[0]) for _, f, impl in cases])
    dec_model = decode_all([(f[0], (mo[0] if mo else b"")) for (_, f, _), mo in zip(cases, model_out)])
    oracle_out = lib.run_model(oracle_queries(cases, dec_impl))
    failures, tie_broken = [], []
    byte_equal = 0
    distinct = set()
    shells = Counter()
    for i, ((_, fields, impl), mo, di, dm, oo) in enumerate(zip(cases, model_out, dec_impl, dec_model, oracle_out)):
        sh = fields[0]
        shells[sh.decode()] += 1
        if nontrivial(fields):
            distinct.add(hash(tuple(fields)))
        if mo is not None and mo[0] == impl[0]:
            byte_equal += 1
        else:
            if mo is None or projection(pid, sh, di) != projection(pid, sh, dm):
                tie_broken.append(dict(index=i, case=fields, extras=impl[1:], impl=impl[0], model=(mo[0] if mo else None)))
        for (p, kind, shell, detail) in parse_tags(oo):
            if p == pid or p == "*":
                failures.append(dict(index=i, kind=kind, shell=shell, detail=detail, case=fields, extras=impl[1:], impl=impl[0]))
    cov = dict(
        evaluations=len(cases),
        distinct_nontrivial=len(distinct),
        rule="cases = (shell, typed word, meta, candidate list, environment) generated from VERIF_SEED by harness/value.go "
             "(structured: candidates share prefixes with the word; specials/TAB/CR/LF/non-ASCII/invalid UTF-8 planted; 6 process-level "
             "environments); non-trivial = has a candidate or message and a special byte, no-space set, message, word-break prefix or "
             "non-default environment; distinct by full case content",
        traces_validated_against_impl=len(cases),
        byte_identical_model_vs_impl=byte_equal,
        per_shell=dict(shells),
        generator_distribution={k: v for k, v in sorted(notes.items())},
        corpus_cases=len(corpus),
        harness_errors=errors[:5],
        samples=[case_summary(f, impl[0]) for _, f, impl in cases[len(corpus):len(corpus) + 400:97]][:4],
        explore_wall_s=round(time.time() - t0, 1),
    )
    import generic
    if pid in generic.EXTRA:                       # further streams of this property (C06: Suppress)
        more = generic.explore(pid, ctx, cfg=generic.EXTRA[pid])
        failures += more["failures"]
        tie_broken += more["tie_broken"]
        errors += more["errors"]
        cov["further_streams"] = more["coverage"]
        cov["evaluations"] += more["coverage"]["evaluations"]
        cov["traces_validated_against_impl"] += more["coverage"]["traces_validated_against_impl"]
        cov["distinct_nontrivial"] += more["coverage"]["distinct_nontrivial"]
    return dict(failures=failures, tie_broken=tie_broken, coverage=cov, errors=errors)


def load_corpus(pid, scratch):
    """minimised cases that once failed (corpus/fmt/*.json), re-run on the current tree"""
    d = os.path.join(lib.ROOT, "corpus", "fmt")
    out = []
    if not os.path.isdir(d):
        return out
    for name in sorted(os.listdir(d)):
        if not name.endswith(".json"):
            continue
        c = json.load(open(os.path.join(d, name)))
        fields = [bytes.fromhex(x) for x in c["case_hex"]]
        extras = [bytes.fromhex(x) for x in c.get("extras_hex", ["", "", ""])]
        res = rerun_case(fields, [b""] + extras, scratch)
        if res is not None:
            out.append(("value", fields, res))
    return out


def replay(pid, payload, ctx):
    """re-run a stored counterexample; returns list of failures of pid that still occur"""
    fields = [bytes.fromhex(x) for x in payload["case_hex"]]
    if not fields or fields[0] not in SHELLS:      # a case of a further stream (generic.EXTRA)
        import generic
        return generic.replay(pid, payload, ctx, cfg=generic.EXTRA[pid])
    extras = [bytes.fromhex(x) for x in payload.get("extras_hex", ["", "", ""])]
    scratch = os.path.join(lib.WORK, pid + "-replay")
    res = rerun_case(fields, [b""] + extras, scratch)
    if res is None:
        return [dict(kind="replay-error", shell="", detail=b"", case=fields, extras=extras, impl=b"")], None
    cases = [("value", fields, res)]
    dec = decode_all([(fields[0], res[0])])
    oo = lib.run_model(oracle_queries(cases, dec))
    fails = [dict(kind=k, shell=s, detail=d, case=fields, extras=res[1:], impl=res[0]) for (p, k, s, d) in parse_tags(oo[0]) if p in (pid, "*")]
    return fails, res[0]


# ------------------------------------------------------------------ known-finding predicates
def parse_case(fields):
    nm = int(fields[21])
    nv = int(fields[22 + nm])
    rest = fields[23 + nm:]
    vals = [dict(value=rest[i * 7], display=rest[i * 7 + 1], description=rest[i * 7 + 2], style=rest[i * 7 + 3], tag=rest[i * 7 + 4]) for i in range(nv)]
    return dict(shell=fields[0], word=fields[1], flags=fields[2], nospace=fields[19], msgs=fields[22:22 + nm], values=vals)


def strip3(b):
    return b.replace(b"\t", b"").replace(b"\r", b"").replace(b"\n", b"")


def _all_text(c):
    out = [c["word"]] + list(c["msgs"])
    for v in c["values"]:
        out += [v["value"], v["display"], v["description"]]
    return out


def pred_filler(f):          # `_` filler built from the word with E/ER/ERR stripped
    c = parse_case(f["case"])
    w = strip3(c["word"])
    return f["detail"].endswith(b"_") and len(c["msgs"]) > 0 and (w.endswith(b"E") or w.endswith(b"ER") or w.endswith(b"ERR"))


def pred_ci_collapse(f):     # common-prefix replacement under case-insensitive matching
    return b"I" in parse_case(f["case"])["flags"]


def pred_braces(f):          # tcsh deletes { and }
    c = parse_case(f["case"])
    return any(b"{" in t or b"}" in t for t in _all_text(c))


def pred_empty_value(f):     # a candidate whose insert text is empty (after dropping TAB/CR/LF)
    c = parse_case(f["case"])
    return any(strip3(v["value"]) == b"" for v in c["values"])


def pred_empty_value_or_display(f):
    c = parse_case(f["case"])
    return any(strip3(v["value"]) == b"" or strip3(v["display"]) == b"" for v in c["values"])


def pred_clink_empty_field(f):   # Lua's [^\t]+ yields no match for an empty field
    c = parse_case(f["case"])
    def blank(b):
        return b.split(b"\n")[0].decode("utf-8", errors="replace").strip() == ""
    return any(strip3(v["value"]) == b"" or strip3(v["display"]) == b"" or blank(v["description"]) for v in c["values"]) or len(c["msgs"]) > 0


def pred_has_tab_cr_lf(f):   # a field contains TAB, CR or LF and the format does not drop it
    c = parse_case(f["case"])
    return any(b"\t" in t or b"\r" in t or b"\n" in t for t in _all_text(c))


def pred_has_cr_lf(f):
    c = parse_case(f["case"])
    return any(b"\r" in t or b"\n" in t for t in _all_text(c))


def pred_detail_sq_or_at(f):  # powershell: ' neither doubled nor a trigger; a leading @
    d = f["detail"]
    return b"'" in d or strip3(d).startswith(b"@")


def pred_detail_sq_or_bs(f):  # xonsh: \' inside raw literals and bare words; raw literal ending in a backslash
    d = f["detail"]
    return b"'" in d or b"\\" in d


XONSH_TRIGGER = b" ()[]{}*$?\\\"|<>&;#`'"


def pred_xonsh_needs_quoting(f):
    return any(bytes([ch]) in XONSH_TRIGGER for ch in f["detail"])


OIL_ACTIVE = b" \t|&;()<>$`*?[]{}'\"\\#~!"


def pred_oil_special(f):
    c = parse_case(f["case"])
    return any(bytes([ch]) in OIL_ACTIVE for t in [f["detail"]] + [v["value"] for v in c["values"]] for ch in t)


def pred_list_mode_display_lf(f):
    c = parse_case(f["case"])
    return b"L" in c["flags"] and any(b"\n" in v["display"] or b"\r" in v["display"] for v in c["values"])


def pred_detail_leading_eq(f):
    return strip3(f["detail"]).startswith(b"=")
